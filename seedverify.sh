#!/bin/bash
# usage: seedverify.sh <Cnn> <k>   -- confirm a seeded change in a scratch worktree of /repo:
#   (1) it applies to current HEAD, (2) the module builds and the unedited test suite passes with it,
#   (3) its demonstration fails with the change and passes without it. Prints one summary line.
id=$1; k=$2; src=${SEEDOUT:-/tmp/seedout}/$id/m$k
export GOFLAGS=-mod=mod GOPROXY=off GOSUMDB=off GOTOOLCHAIN=local; unset GOWORK
wt=/tmp/sv_wt_${id}_$k
rm -rf $wt; git -C /repo worktree add -q --detach $wt HEAD || { echo "$id m$k WORKTREE-FAIL"; exit 1; }
cd $wt
applies=yes
git apply --check $src/patch.diff 2>/dev/null || git apply --3way --check $src/patch.diff 2>/dev/null || applies=no
if [ $applies = no ]; then echo "$id m$k applies=no"; cd /; git -C /repo worktree remove --force $wt; exit 0; fi
# demo placement: find the demo file and target dir from notes (demo files are named zz_*_test.go)
demo=$(ls $src/*_test.go 2>/dev/null | head -1)
pkgdir=$(grep -oE "(copy|place|put|Copy|Place|Put)[^\`]*\`?(oj|sen|gen|alt|asm|jp|pretty)/" $src/notes.md | grep -oE "(oj|sen|gen|alt|asm|jp|pretty)/" | head -1)
if [ -z "$pkgdir" ]; then pkg=$(head -5 $demo | grep -oE "^package [a-z_]+" | awk '{print $2}' | sed 's/_test//'); case $pkg in ojg) pkgdir=./ ;; *) pkgdir=$pkg/ ;; esac; fi
run=$(grep -oE "\-run '?[A-Za-z_|()]+'?" $src/notes.md | head -1 | sed "s/'//g")
race=""; grep -q "\-race" $src/notes.md && race="-race"
# without the change
cp $demo $wt/$pkgdir/
clean=$(go test -count=1 $run ./$pkgdir 2>&1 | tail -1 | awk '{print $1}')
# with the change
git apply $src/patch.diff 2>/dev/null || git apply --3way $src/patch.diff >/dev/null 2>&1
mut=$(go test -count=1 $run ./$pkgdir 2>&1 | tail -1 | awk '{print $1}')
if [ "$mut" = ok ] && [ -n "$race" ]; then mut=$(go test $race -count=1 $run ./$pkgdir 2>&1 | tail -1 | awk '{print $1}'); fi
rm -f $wt/$pkgdir/$(basename $demo)
build=$(go build ./... 2>&1 | wc -l)
suite=$(go test -vet=off -count=1 ./... 2>&1 | grep -v "no test files" | grep -vc "^ok")
echo "$id m$k applies=yes build_errors=$build suite_failures=$suite demo_clean=$clean demo_mutant=$mut pkg=$pkgdir run='$run' $race"
cd /; git -C /repo worktree remove --force $wt
