#!/usr/bin/env python3
"""Prints the 'rules per property as built' table of DESIGN.md section 6.6 from the evidence files
(which the checks write themselves): property, rule names, obligations, known findings, wall time."""
import json, re
titles = {}
for l in open('/verif/properties.jsonl'):
    d = json.loads(l); titles[d['id']] = d['title']
print('| property | rules run by its check (names as in the evidence and in VIOLATION lines) | obligations | known | quick wall |')
print('|---|---|---|---|---|')
for i in range(1, 21):
    p = f'C{i:02d}'
    e = json.load(open(f'/verif/evidence/{p}.json'))
    c = e['coverage']
    names = []
    for part in c['rule'].split(' | '):
        m = re.match(r'\s*([A-Z][A-Za-z]*-[A-Za-z0-9-]+(?: \([A-Za-z]+\))?)', part)
        if m and m.group(1) not in names:
            names.append(m.group(1))
    print(f"| {p} {titles[p]} | {', '.join(names)} | {c['obligations']} | {c['known_findings']} | {e['wall_s']:.0f} s |")
