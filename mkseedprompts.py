#!/usr/bin/env python3
"""Writes the task text handed to the seeding sub-agents (DESIGN.md 7.1).

usage: mkseedprompts.py <round> <n-changes> [--avoid]
  creates /tmp/seed<round>/<Cnn> (a scratch worktree of /repo HEAD) and /tmp/seedout<round>/<Cnn>/prompt.txt
  for every property. An agent gets the property's title, statement and quantifier and nothing from /verif.
  With --avoid the text also lists the places earlier seeded changes of the same property touched
  (file and changed line only), so that a later round does not spend itself on repeats."""
import glob, json, os, subprocess, sys

rnd, n = sys.argv[1], int(sys.argv[2])
avoid = '--avoid' in sys.argv
seed, out = f'/tmp/seed{rnd}', f'/tmp/seedout{rnd}'

T = """You are working alone in a scratch git worktree of the Go library github.com/ohler55/ojg located at {seed}/{id} . Work ONLY inside {seed}/{id} and {out}/{id}. Do NOT read, list or modify anything under /verif or /repo (they are off limits), and do not look at other {seed}/* or {out}/* directories. There is no network. Prefix EVERY shell command with:
  export GOFLAGS=-mod=mod GOPROXY=off GOSUMDB=off GOTOOLCHAIN=local; unset GOWORK;

The library is supposed to satisfy this property:

---
{text}---

YOUR TASK: produce up to {n} independent, small source changes ("mutations") to the library's NON-test code, each of which BREAKS this property, while:
 (a) the module still compiles (`go build ./...`),
 (b) the existing test suite, unedited, still passes: `go test -count=1 ./...` run in the worktree root (all packages must be ok),
 (c) the breakage needs something specific to manifest - an unusual input, a particular chunking of a reader, a multi-step sequence of calls on a reused/pooled instance, a particular interleaving of goroutines, or two cooperating sites that each look fine alone - NOT something ordinary use would expose at once.
Make them realistic: the kind of slip a maintainer could make during a refactor or optimisation (an off-by-one in a fast path, one wrong cell in a lookup table, a dropped reset, a missing guard, a swapped operand or copy-paste slip in one of several near-identical code copies, a lock or copy removed, ...). The {n} mutations should be in different places and use different mechanisms from one another. Keep each diff small (ideally 1-10 changed lines).

Note: the pinned tree may already contain some defects with respect to this property. Your mutation must introduce a NEW violation: your demonstration must PASS on the unmodified tree.
{avoid}
For each mutation k = 1..{n}:
 1. start from a clean tree (`git checkout -- . && git clean -fdq`),
 2. make the change, confirm (a) and (b),
 3. write a demonstration: a Go test file (e.g. `zz_demo_test.go`, in an external test package of the appropriate directory) or a small main program, that FAILS (or panics / detects the race with -race) WITH the change and PASSES WITHOUT it - verify both directions yourself,
 4. save into {out}/{id}/m<k>/ : `patch.diff` (output of `git diff` for the library change ONLY, not including the demo), the demo file(s), and `notes.md` stating: which file/function was changed, how it breaks the property, what is needed for it to manifest, where the demo file must be placed and the exact command to run it, and the commands you ran with their outcomes (tests pass with mutation; demo fails with mutation; demo passes without).
 5. restore the tree (`git checkout -- . && git clean -fdq`).

If after honest effort you can only produce fewer such mutations, that is acceptable. Do not commit anything. Your final answer should be a short list: for each mutation, the file/function changed, a one-line description, and the demo command.

IMPORTANT: do not use 'git stash' (the stash is shared between worktrees of the same repository and other people work in sibling worktrees); toggle your change with 'git apply' / 'git apply -R' or 'git checkout -- <file>' instead.
"""

def touched(pid):
    rows = []
    for d in sorted(glob.glob(f'/verif/seeded/{pid}-*')):
        f = None
        for l in open(d + '/patch.diff', errors='replace'):
            if l.startswith('+++ b/'):
                f = l[6:].strip()
            elif l.startswith('-') and not l.startswith('---') and len(l.strip()) > 6:
                rows.append(f'  {f}: {l[1:].strip()[:90]}')
    seen, outl = set(), []
    for r in rows:
        if r not in seen:
            seen.add(r)
            outl.append(r)
    return outl[:40]

os.makedirs(seed, exist_ok=True)
for l in open('/verif/properties.jsonl'):
    p = json.loads(l)
    pid = p['id']
    os.makedirs(f'{out}/{pid}', exist_ok=True)
    if not os.path.isdir(f'{seed}/{pid}'):
        subprocess.run(['git', '-C', '/repo', 'worktree', 'add', '-q', '--detach', f'{seed}/{pid}', 'HEAD'], check=True)
    text = f"{p['title']}\n\n{p['statement']}\n\nQuantifier: {p['quantifier']['text']}\n"
    av = ''
    if avoid:
        t = touched(pid)
        if t:
            av = ("\nOther reviewers have already proposed changes to the following lines (file: original line). Do NOT change these lines or their "
                  "copies in sibling functions again; find different places and different mechanisms - the less obvious, the better:\n" + '\n'.join(t) + '\n')
    open(f'{out}/{pid}/prompt.txt', 'w').write(T.format(seed=seed, out=out, id=pid, text=text, n=n, avoid=av))
print('prompts in', out)
