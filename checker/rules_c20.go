package main

import (
	"fmt"
	"go/ast"
	"go/token"
	"go/types"
	"regexp"
	"sort"
	"strings"
)

func init() { rules["C20"] = ruleC20 }

func ruleC20(prog *Program, rep *Report) {
	rep.Explain("C20 decides structural clauses about assembly plans: Plan.Execute owns a recover frame that converts a panic into its error result and nothing under it starts a goroutine or exits the process (a panic in another goroutine cannot be recovered); no map iteration order reaches an ordered result without a sort; the four ordering functions (lt, lte, gt, gte) are copies of one another up to the comparison operators; in-place library mutators (sort.*) only act on memory allocated in the same activation (functions documented to modify their target excepted); evaluation scratch maps are created per iteration. Not covered: what the functions compute, String()/Simplify() rebuild equivalence.")
	pk := prog.Pkg("asm")
	if pk == nil {
		rep.Errorf("package asm missing")
		return
	}
	info := pk.TypesInfo
	ruleNumFamily(prog, rep, 1, "asm")
	ruleGetTwins(prog, rep)
	ruleCallOrder(prog, rep, 1, "asm")
	ruleRuneCase(prog, rep, 1, "asm")          // title, and whatever else changes case, works on characters
	ruleGuardTight(prog, rep, 1, "asm", "jp")  // what counts as a path argument ("$", "@", "$.a") is decided by such tests; the parsers' byte-order-mark tests (3 < len(buf) for three bytes) are outside this scope
	ruleDirectConversion(prog, rep, "asm", 15) // sum, dif, product, mod, eq and the ordering functions read integers of every width through these arms
	// E-recover
	rep.Rules = append(rep.Rules, "E-recover: asm.Plan.Execute begins with a deferred function literal that calls recover() and assigns its named error result; no go statement, os.Exit or log.Fatal* occurs in package asm")
	efd, _ := prog.FuncDecl(Method(pk, "Plan", "Execute"))
	if efd == nil {
		rep.Errorf("asm.Plan.Execute not found")
	} else {
		ok := false
		if len(efd.Body.List) > 0 {
			if ds, isDefer := efd.Body.List[0].(*ast.DeferStmt); isDefer {
				if fl, isLit := ds.Call.Fun.(*ast.FuncLit); isLit {
					hasRecover, assignsErr := false, false
					var errObj types.Object
					if efd.Type.Results != nil && len(efd.Type.Results.List) == 1 && len(efd.Type.Results.List[0].Names) == 1 {
						errObj = info.Defs[efd.Type.Results.List[0].Names[0]]
					}
					ast.Inspect(fl.Body, func(n ast.Node) bool {
						switch x := n.(type) {
						case *ast.CallExpr:
							if id, ok := x.Fun.(*ast.Ident); ok && id.Name == "recover" {
								hasRecover = true
							}
						case *ast.AssignStmt:
							for _, l := range x.Lhs {
								if errObj != nil && useObj(info, l) == errObj {
									assignsErr = true
								}
							}
						}
						return true
					})
					ok = hasRecover && assignsErr
				}
			}
		}
		if ok {
			rep.Discharge("E-recover", "asm.Plan.Execute:recover", prog.Pos(efd.Pos()), "deferred recover assigns the error result")
		} else {
			rep.Violate(Finding{Rule: "E-recover", Key: "asm.Plan.Execute:recover", Pos: prog.Pos(efd.Pos()), Msg: "Plan.Execute does not start with a deferred recover that assigns its error result: a panic raised by a plan function escapes to the caller"})
		}
	}
	for _, f := range pk.Syntax {
		ast.Inspect(f, func(n ast.Node) bool {
			switch x := n.(type) {
			case *ast.GoStmt:
				rep.Violate(Finding{Rule: "E-recover", Key: "asm:go-statement", Pos: prog.Pos(x.Pos()), Msg: "a goroutine is started in package asm: a panic in it cannot be recovered by Plan.Execute"})
			case *ast.CallExpr:
				if sel, ok := x.Fun.(*ast.SelectorExpr); ok {
					if fn, ok := info.Uses[sel.Sel].(*types.Func); ok && fn.Pkg() != nil {
						full := fn.Pkg().Path() + "." + fn.Name()
						if full == "os.Exit" || strings.HasPrefix(full, "log.Fatal") {
							rep.Violate(Finding{Rule: "E-recover", Key: "asm:" + full, Pos: prog.Pos(x.Pos()), Msg: full + " in package asm ends the process instead of returning an error"})
						}
					}
				}
			}
			return true
		})
	}
	// O-maporder
	rep.Rules = append(rep.Rules, "O-maporder: in package asm a range over a map whose body appends to a slice declared outside the loop is followed, in the same function, by a sort of that slice (map order must not reach a result)")
	mapLoops := 0
	scanMapOrder := func(files []*ast.File, info *types.Info, good, bad func(key string, pos token.Pos, text string)) {
		for _, f := range files {
			for _, d := range f.Decls {
				fd, ok := d.(*ast.FuncDecl)
				if !ok || fd.Body == nil {
					continue
				}
				ast.Inspect(fd.Body, func(n ast.Node) bool {
					rs, ok := n.(*ast.RangeStmt)
					if !ok {
						return true
					}
					if _, isMap := info.TypeOf(rs.X).Underlying().(*types.Map); !isMap {
						return true
					}
					ast.Inspect(rs.Body, func(k ast.Node) bool {
						as, ok := k.(*ast.AssignStmt)
						if !ok || len(as.Lhs) != 1 || len(as.Rhs) != 1 {
							return true
						}
						call, ok := as.Rhs[0].(*ast.CallExpr)
						if !ok {
							return true
						}
						if id, ok := call.Fun.(*ast.Ident); !ok || id.Name != "append" {
							return true
						}
						tgt := useObj(info, as.Lhs[0])
						if tgt == nil || (rs.Body.Pos() <= tgt.Pos() && tgt.Pos() <= rs.Body.End()) {
							return true
						}
						mapLoops++
						sorted := false
						ast.Inspect(fd.Body, func(q ast.Node) bool {
							c, ok := q.(*ast.CallExpr)
							if !ok || c.Pos() < rs.End() {
								return true
							}
							if sel, ok := c.Fun.(*ast.SelectorExpr); ok {
								if fn, ok := info.Uses[sel.Sel].(*types.Func); ok && fn.Pkg() != nil && fn.Pkg().Path() == "sort" && len(c.Args) > 0 && useObj(info, c.Args[0]) == tgt {
									sorted = true
								}
							}
							return true
						})
						key := fmt.Sprintf("asm.%s:maprange:%s", funcKey(fd), tgt.Name())
						if sorted {
							good(key, rs.Pos(), "the collected slice is sorted after the loop")
						} else {
							bad(key, rs.Pos(), "a slice filled in map iteration order is used without sorting: the result differs from run to run")
						}
						return true
					})
					return true
				})
			}
		}
	}
	{
		ff, finfo, _, err := loadFixture(fixtureMapOrder)
		if err != nil {
			rep.Errorf("O-maporder: fixture does not type-check: %v", err)
		} else {
			g, b := 0, 0
			scanMapOrder(ff, finfo, func(string, token.Pos, string) { g++ }, func(string, token.Pos, string) { b++ })
			if g != 1 || b != 1 {
				rep.Errorf("O-maporder: the positive-control fixture produced %d accepted and %d reported loops (want 1 and 1)", g, b)
			} else {
				rep.Discharge("O-maporder", "positive-control", "checker/rules_c20.go", "fixture: unsorted collection reported, sorted one accepted")
			}
		}
		mapLoops = 0
	}
	scanMapOrder(pk.Syntax, info, func(key string, pos token.Pos, how string) { rep.Discharge("O-maporder", key, prog.Pos(pos), how) },
		func(key string, pos token.Pos, msg string) {
			rep.Violate(Finding{Rule: "O-maporder", Key: key, Pos: prog.Pos(pos), Msg: msg})
		})
	// S-order: lt / lte / gt / gte are copies up to the comparison operators
	rep.Rules = append(rep.Rules, "S-order: the bodies of the four ordering functions registered under lt, lte, gt, gte (found through the Name/Eval pairs of their Fn registrations) are identical after replacing relational operators and the function's own name by placeholders")
	skel := map[string]string{}
	pos := map[string]token.Pos{}
	relRe := regexp.MustCompile(`(>=|<=|>|<)`)
	for _, name := range []string{"lt", "lte", "gt", "gte"} {
		fd, _ := prog.FuncDecl(Func(pk, name))
		if fd == nil {
			rep.Errorf("asm.%s not found", name)
			continue
		}
		s := printNode(prog.Fset, fd.Body)
		s = regexp.MustCompile(`\b`+name+`\b`).ReplaceAllString(s, "NAME")
		s = relRe.ReplaceAllString(s, "CMP")
		skel[name] = wsRe.ReplaceAllString(s, " ")
		pos[name] = fd.Pos()
	}
	if len(skel) == 4 {
		count := map[string][]string{}
		for n, s := range skel {
			count[s] = append(count[s], n)
		}
		if len(count) == 1 {
			rep.Discharge("S-order", "asm.lt=lte=gt=gte", prog.Pos(pos["lt"]), "four copies identical up to operators")
		} else {
			major, best := "", 0
			for s, m := range count {
				if len(m) > best {
					major, best = s, len(m)
				}
			}
			for s, m := range count {
				if s == major {
					continue
				}
				sort.Strings(m)
				for _, n := range m {
					rep.Violate(Finding{Rule: "S-order", Key: "asm." + n + ":sibling", Pos: prog.Pos(pos[n]), Msg: fmt.Sprintf("asm.%s is no longer a copy of its %d siblings up to the comparison operators: it orders some argument lists differently (e.g. compares every argument with the first one only)", n, best)})
				}
			}
		}
	}
	// S-arith: dif and product are copies of one accumulation up to the operator and the accumulator names
	rep.Rules = append(rep.Rules, "S-arith: the bodies of asm.dif and asm.product are identical after replacing the arithmetic operator, the accumulator names and the function's own name by placeholders: both start from the first argument and switch to floating point the same way")
	{
		ask := map[string]string{}
		apos := map[string]token.Pos{}
		for _, name := range []string{"dif", "product"} {
			fd, _ := prog.FuncDecl(Func(pk, name))
			if fd == nil {
				rep.Errorf("asm.%s not found", name)
				continue
			}
			s := printNode(prog.Fset, fd.Body)
			s = regexp.MustCompile(`\b`+name+`\b`).ReplaceAllString(s, "NAME")
			s = regexp.MustCompile(`\b(idif|ip)\b`).ReplaceAllString(s, "IACC")
			s = regexp.MustCompile(`\b(fdif|fp)\b`).ReplaceAllString(s, "FACC")
			s = regexp.MustCompile(`(-=|\*=)`).ReplaceAllString(s, "OP=")
			s = regexp.MustCompile(`\) (-|\*) `).ReplaceAllString(s, ") OP ")
			s = regexp.MustCompile(`"[^"]*"`).ReplaceAllString(s, "STR") // the wording of the error message
			ask[name] = wsRe.ReplaceAllString(s, " ")
			apos[name] = fd.Pos()
		}
		if len(ask) == 2 {
			if ask["dif"] == ask["product"] {
				rep.Discharge("S-arith", "asm.dif=product", prog.Pos(apos["dif"]), "copies up to the operator")
			} else {
				rep.Violate(Finding{Rule: "S-arith", Key: "asm.dif=product", Pos: prog.Pos(apos["product"]), Msg: "asm.dif and asm.product are no longer copies of one accumulation up to the operator: one of them treats the first argument or the switch to floating point differently"})
			}
		}
	}
	// M-fresh: sort.* only on memory allocated in the activation
	rep.Rules = append(rep.Rules, "M-fresh: every slice passed to a sort.* function in package asm is a local whose defining assignments are all make(...) (followed by copy): a slice derived from an argument (append(x[:0], x...), x[:], the argument itself) is the caller's data under $.src")
	sorts := 0
	for _, f := range pk.Syntax {
		for _, d := range f.Decls {
			fd, ok := d.(*ast.FuncDecl)
			if !ok || fd.Body == nil {
				continue
			}
			ast.Inspect(fd.Body, func(n ast.Node) bool {
				c, ok := n.(*ast.CallExpr)
				if !ok || len(c.Args) == 0 {
					return true
				}
				sel, ok := c.Fun.(*ast.SelectorExpr)
				if !ok {
					return true
				}
				fn, ok := info.Uses[sel.Sel].(*types.Func)
				if !ok || fn.Pkg() == nil || fn.Pkg().Path() != "sort" {
					return true
				}
				tgt := useObj(info, c.Args[0])
				sorts++
				key := fmt.Sprintf("asm.%s:sort", funcKey(fd))
				good := tgt != nil
				if tgt != nil {
					defs := 0
					ast.Inspect(fd.Body, func(q ast.Node) bool {
						as, ok := q.(*ast.AssignStmt)
						if !ok {
							return true
						}
						for i, l := range as.Lhs {
							if (info.Defs[identOf(l)] == tgt || (identOf(l) != nil && info.Uses[identOf(l)] == tgt)) && i < len(as.Rhs) {
								defs++
								if !freshExpr(info, as.Rhs[i]) {
									good = false
								}
							}
						}
						return true
					})
					if defs == 0 {
						good = false
					}
				}
				if good {
					rep.Discharge("M-fresh", key, prog.Pos(c.Pos()), "sorts a slice allocated with make in this activation")
				} else {
					rep.Violate(Finding{Rule: "M-fresh", Key: key, Pos: prog.Pos(c.Pos()), Msg: "sort is applied to a slice that is not freshly allocated in this function: data under $.src is reordered by a function that is documented to return a copy"})
				}
				return true
			})
		}
	}
	if sorts < 1 {
		rep.Errorf("M-fresh found no sort call in package asm (floor 1)")
	}
	ruleCopyOrOriginal(prog, rep, 1, "asm")
	rulePlanWrite(prog, rep)
	rulePairwiseLookup(prog, rep, 1, "asm")
	ruleContextForward(prog, rep)
	ruleResliceInput(prog, rep, "asm") // args is the plan's own argument list: a zero-length view of it used as a buffer rewrites the plan
	ruleOptionArgs(prog, rep, "asm")   // [string x] sorts keys through an option; an option of the wrong type is ignored and the order becomes random
	ruleLoopExit(prog, rep, 25, "asm")
	// building a plan (NewPlan and what it calls) runs outside Execute's recover frame: an index panic there escapes
	build := reachableFuncs(prog, "asm", "NewPlan")
	if len(build) < 2 {
		rep.Errorf("E-constidx: asm.NewPlan and its callees not found")
	}
	ruleConstIdx(prog, rep, 2, func(rel, fn string) bool { return build[fn] }, "asm")
	ruleDivGuard(prog, rep, []string{"asm"}, map[string]bool{"asm": true}, 4)
	// I-scratch: evaluation scratch maps are per iteration
	rep.Rules = append(rep.Rules, "I-scratch: in package asm a map created outside a loop is not both written (m[k] = ...) and passed to a call inside that loop: the per-element evaluation context must be created in the iteration, or values left by one element are visible to the next")
	scr := 0
	scanScratch := func(files []*ast.File, info *types.Info, good, bad func(key string, pos token.Pos, text string)) {
		for _, f := range files {
			for _, d := range f.Decls {
				fd, ok := d.(*ast.FuncDecl)
				if !ok || fd.Body == nil {
					continue
				}
				ast.Inspect(fd.Body, func(n ast.Node) bool {
					var body *ast.BlockStmt
					switch l := n.(type) {
					case *ast.RangeStmt:
						body = l.Body
					case *ast.ForStmt:
						body = l.Body
					default:
						return true
					}
					written := map[types.Object]bool{}
					passed := map[types.Object]token.Pos{}
					ast.Inspect(body, func(k ast.Node) bool {
						switch x := k.(type) {
						case *ast.AssignStmt:
							for _, l := range x.Lhs {
								if ix, ok := l.(*ast.IndexExpr); ok {
									if o := useObj(info, ix.X); o != nil {
										if _, isMap := o.Type().Underlying().(*types.Map); isMap {
											written[o] = true
										}
									}
								}
							}
						case *ast.CallExpr:
							for _, a := range x.Args {
								if o := useObj(info, a); o != nil {
									if _, isMap := o.Type().Underlying().(*types.Map); isMap {
										passed[o] = x.Pos()
									}
								}
							}
						}
						return true
					})
					for o, p := range passed {
						if !written[o] {
							continue
						}
						if _, isVar := o.(*types.Var); !isVar {
							continue
						}
						// parameters are the caller's root/at, not scratch
						isParam := false
						if fd.Type.Params != nil {
							for _, fl := range fd.Type.Params.List {
								for _, nm := range fl.Names {
									if info.Defs[nm] == o {
										isParam = true
									}
								}
							}
						}
						if isParam {
							continue
						}
						scr++
						key := fmt.Sprintf("asm.%s:scratch:%s", funcKey(fd), o.Name())
						if body.Pos() <= o.Pos() && o.Pos() <= body.End() {
							good(key, p, "scratch map created inside the loop")
						} else {
							bad(key, p, fmt.Sprintf("the map %s is created once outside the loop, written in every iteration and handed to the evaluation: keys set while processing one element are still there for the next", o.Name()))
						}
					}
					return true
				})
			}
		}
	}
	{
		ff, finfo, _, err := loadFixture(fixtureScratch)
		if err != nil {
			rep.Errorf("I-scratch: fixture does not type-check: %v", err)
		} else {
			g, b := 0, 0
			scanScratch(ff, finfo, func(string, token.Pos, string) { g++ }, func(string, token.Pos, string) { b++ })
			if g != 1 || b != 1 {
				rep.Errorf("I-scratch: the positive-control fixture produced %d accepted and %d reported maps (want 1 and 1)", g, b)
			} else {
				rep.Discharge("I-scratch", "positive-control", "checker/rules_c20.go", "fixture: hoisted scratch map reported, per-iteration one accepted")
			}
		}
		scr = 0
	}
	scanScratch(pk.Syntax, info, func(key string, pos token.Pos, how string) { rep.Discharge("I-scratch", key, prog.Pos(pos), how) },
		func(key string, pos token.Pos, msg string) {
			rep.Violate(Finding{Rule: "I-scratch", Key: key, Pos: prog.Pos(pos), Msg: msg})
		})
	_ = scr
	_ = mapLoops
}

const fixtureMapOrder = `package fixture

import "sort"

func keysUnsorted(m map[string]any) (keys []string) {
	for k := range m {
		keys = append(keys, k)
	}
	return
}

func keysSorted(m map[string]any) []string {
	var keys []string
	for k := range m {
		keys = append(keys, k)
	}
	sort.Strings(keys)
	return keys
}
`

const fixtureScratch = `package fixture

func eval(local map[string]any, v any) any { return v }

func hoisted(list []any) (out []any) {
	local := map[string]any{}
	for i, v := range list {
		local["i"] = i
		out = append(out, eval(local, v))
	}
	return
}

func perIteration(list []any) (out []any) {
	for i, v := range list {
		local := map[string]any{}
		local["i"] = i
		out = append(out, eval(local, v))
	}
	return
}
`
