package main

import (
	"fmt"
	"go/ast"
	"go/types"
	"sort"
	"strings"

	"golang.org/x/tools/go/ssa"
)

// Engine E: recover frames. An exported function or method that reports
// failure through an error result must not let an explicit panic of the
// module escape: every static call chain from it to a function containing a
// panic instruction passes through a function that defers a recover().

func hasRecoverFrame(fn *ssa.Function) bool {
	for _, b := range fn.Blocks {
		for _, ins := range b.Instrs {
			d, ok := ins.(*ssa.Defer)
			if !ok {
				continue
			}
			var callee *ssa.Function
			switch v := d.Call.Value.(type) {
			case *ssa.Function:
				callee = v
			case *ssa.MakeClosure:
				callee, _ = v.Fn.(*ssa.Function)
			}
			if callee == nil {
				continue
			}
			for _, cb := range callee.Blocks {
				for _, ci := range cb.Instrs {
					if c, ok := ci.(*ssa.Call); ok {
						if bi, ok := c.Call.Value.(*ssa.Builtin); ok && bi.Name() == "recover" {
							return true
						}
					}
				}
			}
		}
	}
	return false
}

func containsPanic(fn *ssa.Function) bool {
	for _, b := range fn.Blocks {
		for _, ins := range b.Instrs {
			if _, ok := ins.(*ssa.Panic); ok {
				return true
			}
		}
	}
	return false
}

func inModule(fn *ssa.Function) bool {
	return fn != nil && fn.Pkg != nil && strings.HasPrefix(fn.Pkg.Pkg.Path(), modulePath)
}

// panicPath: a static call chain from fn to a function with a panic
// instruction that crosses no recover frame (fn itself included).
func panicPath(fn *ssa.Function, seen map[*ssa.Function]bool, depth int) []string {
	if fn == nil || seen[fn] || depth > 12 || len(fn.Blocks) == 0 {
		return nil
	}
	seen[fn] = true
	if hasRecoverFrame(fn) {
		return nil
	}
	if containsPanic(fn) {
		return []string{fn.String()}
	}
	var callees []*ssa.Function
	for _, b := range fn.Blocks {
		for _, ins := range b.Instrs {
			var cc *ssa.CallCommon
			switch c := ins.(type) {
			case *ssa.Call:
				cc = &c.Call
			case *ssa.Defer:
				cc = &c.Call
			}
			if cc == nil {
				continue
			}
			if callee := cc.StaticCallee(); inModule(callee) {
				callees = append(callees, callee)
			}
			if mc, ok := cc.Value.(*ssa.MakeClosure); ok {
				if f, ok := mc.Fn.(*ssa.Function); ok && inModule(f) {
					callees = append(callees, f)
				}
			}
		}
	}
	for _, af := range fn.AnonFuncs {
		_ = af
	}
	for _, c := range callees {
		if p := panicPath(c, seen, depth+1); p != nil {
			return append([]string{fn.String()}, p...)
		}
	}
	return nil
}

func returnsError(fn *ssa.Function) bool {
	res := fn.Signature.Results()
	for i := 0; i < res.Len(); i++ {
		if isErrorType(res.At(i).Type()) {
			return true
		}
	}
	return false
}

// recoverExceptions: exported error-returning functions from which an
// explicit panic is reachable by design (reviewed).
var recoverExceptions = map[string]string{}

func ruleRecoverFrames(prog *Program, rep *Report, rels []string, ruleName string) {
	rep.Rules = append(rep.Rules, ruleName+": from every exported function or method of the listed packages that has an error result, no function containing an explicit panic(...) is reachable through static calls (module functions and closures) without crossing a function that defers a recover(): malformed input is reported through the error result, not by a panic; the Must* forms (no error result) are exempt")
	n := 0
	for _, rel := range rels {
		sp := prog.SSAPkg(rel)
		if sp == nil {
			rep.Errorf("ssa package %s missing", rel)
			continue
		}
		var fns []*ssa.Function
		for _, m := range sp.Members {
			switch x := m.(type) {
			case *ssa.Function:
				fns = append(fns, x)
			case *ssa.Type:
				for _, tt := range []types.Type{x.Type(), types.NewPointer(x.Type())} {
					ms := prog.SSA().MethodSets.MethodSet(tt)
					for i := 0; i < ms.Len(); i++ {
						if f := prog.SSA().MethodValue(ms.At(i)); f != nil && f.Pkg == sp {
							fns = append(fns, f)
						}
					}
				}
			}
		}
		sort.Slice(fns, func(i, j int) bool { return fns[i].String() < fns[j].String() })
		seenFn := map[*ssa.Function]bool{}
		for _, fn := range fns {
			if seenFn[fn] || fn.Object() == nil || !fn.Object().Exported() || len(fn.Blocks) == 0 || !returnsError(fn) {
				continue
			}
			seenFn[fn] = true
			if recv := fn.Signature.Recv(); recv != nil {
				t := recv.Type()
				if p, ok := t.(*types.Pointer); ok {
					t = p.Elem()
				}
				if nt, ok := t.(*types.Named); ok && !nt.Obj().Exported() {
					continue
				}
			}
			n++
			key := strings.TrimPrefix(fn.String(), modulePath+"/")
			path := panicPath(fn, map[*ssa.Function]bool{}, 0)
			if path == nil {
				rep.Discharge(ruleName, key, prog.Pos(fn.Pos()), "no explicit panic reachable without crossing a recover frame")
				continue
			}
			if reason, ok := recoverExceptions[key]; ok {
				rep.Discharge(ruleName, key, prog.Pos(fn.Pos()), "listed exception: "+reason)
				continue
			}
			for i := range path {
				path[i] = strings.TrimPrefix(path[i], modulePath+"/")
			}
			rep.Violate(Finding{Rule: ruleName, Key: key + ":panic-escapes", Pos: prog.Pos(fn.Pos()),
				Msg: fmt.Sprintf("%s returns an error but an explicit panic can escape it: %s", key, strings.Join(path, " -> "))})
		}
	}
	rep.Eval(n)
	if n < 20 {
		rep.Errorf("%s examined %d exported error-returning functions (floor 20)", ruleName, n)
	}
}

func ruleC06Extra(prog *Program, rep *Report) {
	ruleSelfProgress(prog, rep, 1, "gen", "oj", "sen", "alt", "jp", "pretty", "asm", "")
	ruleNilMapWrite(prog, rep, "sen", "oj", "gen") // the parsers have no recover frame: a store into a nil map is a panic out of Parse
	ruleMemoGuard(prog, rep, 1, "alt")             // Unmarshal into a self-referential type must not recurse without end while registering it
	// with channel delivery the consumer reads a document while the parser works on the next: a recycled map (Reuse left on) is
	// cleared under the reader - a fatal "concurrent map iteration and map write", not a recoverable panic
	ruleArgParity(prog, rep, "oj.Parser", "gen.Parser", "sen.Parser")
	ruleEntryParity(prog, rep, "oj.Parser", "gen.Parser", "sen.Parser") // a result channel or callback left over from an earlier call is sent to (closed: panic; unread: no return)
	ruleRecoverFrames(prog, rep, []string{"oj", "sen", "gen", "jp", "asm", "alt", "pretty"}, "E-recover")
	ruleUncheckedAssert(prog, rep)
	ruleSiblingGuard(prog, rep, []string{"jp"})
	ruleReaderLoops(prog, rep) // a read loop that does not re-extend its buffer or does not stop on an error never ends
	// plan construction runs outside Execute's recover frame; the path and script parser indexes its input
	build := reachableFuncs(prog, "asm", "NewPlan")
	ruleConstIdx(prog, rep, 20, func(rel, fn string) bool {
		return (rel == "asm" && build[fn]) || (rel == "jp" && strings.HasPrefix(fn, "parser."))
	}, "asm", "jp")
}

// ruleUncheckedAssert: the table-driven front-ends own no recover frame (the
// JSON ones) so a failing type assertion is a crash on untrusted text.
func ruleUncheckedAssert(prog *Program, rep *Report) {
	rep.Rules = append(rep.Rules, "E-assert: in the methods of the six table-driven front-end types every type assertion is the comma-ok form or a type switch: a single-result x.(T) on a value taken from the build stack panics when malformed input put something else there")
	n := 0
	for _, spec := range allFrontEnds {
		pk := prog.Pkg(spec.rel)
		if pk == nil {
			continue
		}
		named, _ := pk.Types.Scope().Lookup(spec.typ).Type().(*types.Named)
		info := pk.TypesInfo
		for _, f := range pk.Syntax {
			for _, d := range f.Decls {
				fd, ok := d.(*ast.FuncDecl)
				if !ok || fd.Body == nil || fd.Recv == nil {
					continue
				}
				fn, _ := info.Defs[fd.Name].(*types.Func)
				if fn == nil || recvNamed(fn) != named {
					continue
				}
				// comma-ok assertions: collect the TypeAssertExprs that are the sole RHS of a 2-value assignment
				okForm := map[*ast.TypeAssertExpr]bool{}
				ast.Inspect(fd.Body, func(k ast.Node) bool {
					switch x := k.(type) {
					case *ast.AssignStmt:
						if len(x.Lhs) == 2 && len(x.Rhs) == 1 {
							if ta, ok := ast.Unparen(x.Rhs[0]).(*ast.TypeAssertExpr); ok {
								okForm[ta] = true
							}
						}
					case *ast.ValueSpec:
						if len(x.Names) == 2 && len(x.Values) == 1 {
							if ta, ok := ast.Unparen(x.Values[0]).(*ast.TypeAssertExpr); ok {
								okForm[ta] = true
							}
						}
					}
					return true
				})
				idx := 0
				ast.Inspect(fd.Body, func(k ast.Node) bool {
					ta, ok := k.(*ast.TypeAssertExpr)
					if !ok || ta.Type == nil {
						return true
					}
					n++
					idx++
					key := fmt.Sprintf("%s.%s.%s:assert:%s", spec.rel, spec.typ, fd.Name.Name, types.ExprString(ta.Type))
					if okForm[ta] {
						rep.Discharge("E-assert", key, prog.Pos(ta.Pos()), "comma-ok form")
					} else {
						rep.Violate(Finding{Rule: "E-assert", Key: key + ":unchecked", Pos: prog.Pos(ta.Pos()), Msg: fmt.Sprintf("unchecked type assertion %s in a parser method: input that leaves a different value in that slot makes the parser panic instead of returning an error", types.ExprString(ta))})
					}
					return true
				})
			}
		}
	}
	if n < 10 {
		rep.Errorf("E-assert examined %d type assertions (floor 10)", n)
	}
}
