package main

import (
	"fmt"
	"go/ast"
	"go/token"
	"go/types"
	"sort"
	"strings"
)

// C-borrowed / C-poolwrite (Engine C): what the package-level functions do to an
// instance that outlives the call.
//
// A package-level function of oj or sen works on a Writer or Parser that is
// (a) fresh, (b) taken from a sync.Pool, or (c) the caller's own, passed in
// through the variadic arguments. A field it assigns on (b) or (c) is still
// set when the call is over. That is harmless for a field every entry of the
// type resets (the C-parity must-set), and for nothing else:
//
//   - on a caller-owned instance the write changes what the caller's next
//     call on that instance does, unless a deferred function puts it back;
//   - on a pooled instance the write is seen by whichever function takes the
//     instance next, so every function that takes from that pool has to make
//     the same write (same field, same value text).
//
// The origin of an instance is tracked over the statement tree of each
// function: assignments, `if x == nil` / `if x != nil` refinement, joins by
// union. Helper functions that can hand back one of their own arguments
// (pickWriter) are summarised first.

type originSet uint8

const (
	orFresh originSet = 1 << iota
	orPooled
	orBorrowed
)

type borrowWrite struct {
	fn       string
	pos      token.Pos
	file     *ast.File
	typ      string // rel-less type name
	field    string
	rhs      string
	origin   originSet
	pool     string
	deferred bool // the write sits inside a deferred function literal
}

type borrowFn struct {
	name     string
	decl     *ast.FuncDecl
	pools    map[string]bool // pools this function takes from, by variable name
	writes   []borrowWrite
	holdsBor bool
}

type borrowCtx struct {
	info     *types.Info
	reusable map[*types.TypeName]bool
	retBor   map[types.Object]bool // functions that may return one of their arguments
	cur      *borrowFn
	file     *ast.File
	poolOf   map[types.Object]string // local var -> pool it was taken from
}

func (c *borrowCtx) reusableOf(t types.Type) *types.TypeName {
	if t == nil {
		return nil
	}
	if p, ok := t.Underlying().(*types.Pointer); ok {
		if n, ok := p.Elem().(*types.Named); ok && c.reusable[n.Obj()] {
			return n.Obj()
		}
	}
	return nil
}

// derivedFromParams: the objects of fd that hold (part of) an argument: the
// parameters, type-switch bindings and locals assigned from them.
func derivedFromParams(info *types.Info, fd *ast.FuncDecl) map[types.Object]bool {
	d := map[types.Object]bool{}
	if fd.Type.Params != nil {
		for _, fl := range fd.Type.Params.List {
			for _, n := range fl.Names {
				if o := info.Defs[n]; o != nil {
					d[o] = true
				}
			}
		}
	}
	var isDerived func(e ast.Expr) bool
	isDerived = func(e ast.Expr) bool {
		switch x := ast.Unparen(e).(type) {
		case *ast.Ident:
			return d[info.Uses[x]]
		case *ast.IndexExpr:
			return isDerived(x.X)
		case *ast.TypeAssertExpr:
			return isDerived(x.X)
		case *ast.SliceExpr:
			return isDerived(x.X)
		case *ast.StarExpr:
			return false // a copy of the pointee is not the caller's instance
		}
		return false
	}
	for changed := true; changed; {
		changed = false
		mark := func(o types.Object) {
			if o != nil && !d[o] {
				d[o] = true
				changed = true
			}
		}
		ast.Inspect(fd.Body, func(n ast.Node) bool {
			switch s := n.(type) {
			case *ast.AssignStmt:
				if len(s.Lhs) == len(s.Rhs) {
					for i, l := range s.Lhs {
						if id, ok := l.(*ast.Ident); ok && isDerived(s.Rhs[i]) {
							if o := info.Defs[id]; o != nil {
								mark(o)
							} else {
								mark(info.Uses[id])
							}
						}
					}
				} else if len(s.Rhs) == 1 && len(s.Lhs) == 2 && isDerived(s.Rhs[0]) {
					if id, ok := s.Lhs[0].(*ast.Ident); ok {
						if o := info.Defs[id]; o != nil {
							mark(o)
						} else {
							mark(info.Uses[id])
						}
					}
				}
			case *ast.RangeStmt:
				if isDerived(s.X) {
					if id, ok := s.Value.(*ast.Ident); ok {
						mark(info.Defs[id])
					}
				}
			case *ast.TypeSwitchStmt:
				var subj ast.Expr
				switch a := s.Assign.(type) {
				case *ast.AssignStmt:
					if ta, ok := ast.Unparen(a.Rhs[0]).(*ast.TypeAssertExpr); ok {
						subj = ta.X
					}
				case *ast.ExprStmt:
					if ta, ok := ast.Unparen(a.X).(*ast.TypeAssertExpr); ok {
						subj = ta.X
					}
				}
				if subj != nil && isDerived(subj) {
					for _, cl := range s.Body.List {
						mark(info.Implicits[cl])
					}
				}
			}
			return true
		})
	}
	return d
}

func (c *borrowCtx) originOfExpr(e ast.Expr, env map[types.Object]originSet, derived map[types.Object]bool) (originSet, string) {
	switch x := ast.Unparen(e).(type) {
	case *ast.Ident:
		o := c.info.Uses[x]
		if o == nil {
			return 0, ""
		}
		if x.Name == "nil" {
			return 0, ""
		}
		if v, ok := env[o]; ok {
			return v, c.poolOf[o]
		}
		if derived[o] {
			return orBorrowed, ""
		}
		return orFresh, ""
	case *ast.TypeAssertExpr:
		return c.originOfExpr(x.X, env, derived)
	case *ast.IndexExpr:
		if id, ok := ast.Unparen(x.X).(*ast.Ident); ok && derived[c.info.Uses[id]] {
			return orBorrowed, ""
		}
		return orFresh, ""
	case *ast.UnaryExpr:
		return orFresh, "" // &T{...}
	case *ast.CallExpr:
		if sel, ok := x.Fun.(*ast.SelectorExpr); ok && sel.Sel.Name == "Get" {
			if s := c.info.Selections[sel]; s != nil {
				if n, ok := derefNamed(s.Recv()); ok && n.Obj().Pkg() != nil && n.Obj().Pkg().Path() == "sync" && n.Obj().Name() == "Pool" {
					return orPooled, types.ExprString(sel.X)
				}
			}
		}
		var callee types.Object
		switch f := ast.Unparen(x.Fun).(type) {
		case *ast.Ident:
			callee = c.info.Uses[f]
		case *ast.SelectorExpr:
			callee = c.info.Uses[f.Sel]
		}
		if callee != nil && c.retBor[callee] {
			// may be the argument (the caller's), may be built by the helper
			for _, a := range x.Args {
				if o, _ := c.originOfExpr(a, env, derived); o&orBorrowed != 0 {
					return orBorrowed | orFresh, ""
				}
			}
		}
		return orFresh, ""
	}
	return orFresh, ""
}

func derefNamed(t types.Type) (*types.Named, bool) {
	if p, ok := t.(*types.Pointer); ok {
		t = p.Elem()
	}
	n, ok := t.(*types.Named)
	return n, ok
}

func copyEnv(e map[types.Object]originSet) map[types.Object]originSet {
	o := make(map[types.Object]originSet, len(e))
	for k, v := range e {
		o[k] = v
	}
	return o
}

func joinEnv(a, b map[types.Object]originSet) map[types.Object]originSet {
	o := copyEnv(a)
	for k, v := range b {
		o[k] |= v
	}
	return o
}

func stmtsTerminate(list []ast.Stmt) bool {
	if len(list) == 0 {
		return false
	}
	switch s := list[len(list)-1].(type) {
	case *ast.ReturnStmt:
		return true
	case *ast.ExprStmt:
		if call, ok := s.X.(*ast.CallExpr); ok {
			if id, ok := call.Fun.(*ast.Ident); ok && id.Name == "panic" {
				return true
			}
		}
	}
	return false
}

// nilTest recognises `x == nil` / `x != nil` / `nil == x` on a tracked variable.
func (c *borrowCtx) nilTest(cond ast.Expr, env map[types.Object]originSet) (types.Object, bool, bool) {
	be, ok := ast.Unparen(cond).(*ast.BinaryExpr)
	if !ok || (be.Op != token.EQL && be.Op != token.NEQ) {
		return nil, false, false
	}
	x, y := ast.Unparen(be.X), ast.Unparen(be.Y)
	if id, ok := x.(*ast.Ident); ok && id.Name == "nil" {
		x, y = y, x
	}
	yid, ok := y.(*ast.Ident)
	if !ok || yid.Name != "nil" {
		return nil, false, false
	}
	xid, ok := x.(*ast.Ident)
	if !ok {
		return nil, false, false
	}
	o := c.info.Uses[xid]
	if _, tracked := env[o]; !tracked {
		return nil, false, false
	}
	return o, be.Op == token.EQL, true
}

func (c *borrowCtx) walk(list []ast.Stmt, env map[types.Object]originSet, derived map[types.Object]bool, deferred bool) map[types.Object]originSet {
	for _, st := range list {
		env = c.stmt(st, env, derived, deferred)
	}
	return env
}

func (c *borrowCtx) lits(n ast.Node, env map[types.Object]originSet, derived map[types.Object]bool, deferred bool) {
	ast.Inspect(n, func(m ast.Node) bool {
		if fl, ok := m.(*ast.FuncLit); ok {
			c.walk(fl.Body.List, copyEnv(env), derived, deferred)
			return false
		}
		return true
	})
}

func (c *borrowCtx) recordWrite(lhs ast.Expr, rhs string, pos token.Pos, env map[types.Object]originSet, deferred bool) {
	// x.f, x.f.g, x.f[i]: the selector path on a tracked variable
	e := ast.Unparen(lhs)
	var path []string
	for {
		switch x := e.(type) {
		case *ast.IndexExpr:
			e = ast.Unparen(x.X)
			path = nil // an element write is a write of the field holding the container
			continue
		case *ast.SelectorExpr:
			if s := c.info.Selections[x]; s == nil || s.Kind() != types.FieldVal {
				return
			}
			path = append([]string{x.Sel.Name}, path...)
			if id, ok := ast.Unparen(x.X).(*ast.Ident); ok {
				o := c.info.Uses[id]
				or, tracked := env[o]
				if !tracked || or == 0 {
					return
				}
				tn := c.reusableOf(o.Type())
				if tn == nil {
					return
				}
				c.cur.writes = append(c.cur.writes, borrowWrite{fn: c.cur.name, pos: pos, file: c.file, typ: tn.Name(), field: strings.Join(path, "."), rhs: rhs, origin: or, pool: c.poolOf[o], deferred: deferred})
				return
			}
			e = ast.Unparen(x.X)
			continue
		}
		return
	}
}

// resetCovers: the field path or one of its prefixes is in the reset set.
func resetCovers(set map[string]bool, path string) bool {
	for p := path; p != ""; {
		if set[p] {
			return true
		}
		i := strings.LastIndex(p, ".")
		if i < 0 {
			break
		}
		p = p[:i]
	}
	return false
}

func (c *borrowCtx) stmt(st ast.Stmt, env map[types.Object]originSet, derived map[types.Object]bool, deferred bool) map[types.Object]originSet {
	switch s := st.(type) {
	case *ast.AssignStmt:
		c.lits(s, env, derived, deferred)
		for i, l := range s.Lhs {
			if id, ok := l.(*ast.Ident); ok {
				o := c.info.Defs[id]
				if o == nil {
					o = c.info.Uses[id]
				}
				if o == nil || c.reusableOf(o.Type()) == nil {
					continue
				}
				var rhs ast.Expr
				if len(s.Lhs) == len(s.Rhs) {
					rhs = s.Rhs[i]
				} else if i == 0 && len(s.Rhs) == 1 {
					rhs = s.Rhs[0]
				}
				if rhs == nil {
					continue
				}
				or, pool := c.originOfExpr(rhs, env, derived)
				env = copyEnv(env)
				env[o] = or
				if or&orPooled != 0 {
					c.poolOf[o] = pool
					c.cur.pools[pool] = true
				}
				if or&orBorrowed != 0 {
					c.cur.holdsBor = true
				}
				continue
			}
			rhs := ""
			if len(s.Lhs) == len(s.Rhs) {
				rhs = types.ExprString(s.Rhs[i])
			}
			c.recordWrite(l, rhs, s.Pos(), env, deferred)
		}
	case *ast.IncDecStmt:
		c.recordWrite(s.X, s.Tok.String(), s.Pos(), env, deferred)
	case *ast.DeclStmt:
		if gd, ok := s.Decl.(*ast.GenDecl); ok {
			for _, sp := range gd.Specs {
				vs, ok := sp.(*ast.ValueSpec)
				if !ok {
					continue
				}
				for i, n := range vs.Names {
					o := c.info.Defs[n]
					if o == nil || c.reusableOf(o.Type()) == nil {
						continue
					}
					env = copyEnv(env)
					if i < len(vs.Values) {
						or, pool := c.originOfExpr(vs.Values[i], env, derived)
						env[o] = or
						if or&orPooled != 0 {
							c.poolOf[o] = pool
							c.cur.pools[pool] = true
						}
						if or&orBorrowed != 0 {
							c.cur.holdsBor = true
						}
					} else {
						env[o] = 0 // nil
					}
				}
			}
		}
	case *ast.ExprStmt:
		c.lits(s, env, derived, deferred)
	case *ast.DeferStmt:
		if fl, ok := s.Call.Fun.(*ast.FuncLit); ok {
			c.walk(fl.Body.List, copyEnv(env), derived, true)
		} else {
			c.lits(s.Call, env, derived, deferred)
		}
	case *ast.GoStmt:
		c.lits(s.Call, env, derived, deferred)
	case *ast.ReturnStmt:
		c.lits(s, env, derived, deferred)
	case *ast.BlockStmt:
		return c.walk(s.List, env, derived, deferred)
	case *ast.LabeledStmt:
		return c.stmt(s.Stmt, env, derived, deferred)
	case *ast.IfStmt:
		if s.Init != nil {
			env = c.stmt(s.Init, env, derived, deferred)
		}
		thenEnv, elseEnv := copyEnv(env), copyEnv(env)
		if o, isNil, ok := c.nilTest(s.Cond, env); ok {
			if isNil {
				thenEnv[o] = 0
			} else {
				elseEnv[o] = 0
			}
		}
		thenOut := c.walk(s.Body.List, thenEnv, derived, deferred)
		elseOut := elseEnv
		elseTerm := false
		if s.Else != nil {
			elseOut = c.stmt(s.Else, elseEnv, derived, deferred)
			if b, ok := s.Else.(*ast.BlockStmt); ok {
				elseTerm = stmtsTerminate(b.List)
			}
		}
		switch {
		case stmtsTerminate(s.Body.List) && elseTerm:
			return env
		case stmtsTerminate(s.Body.List):
			return elseOut
		case elseTerm:
			return thenOut
		}
		return joinEnv(thenOut, elseOut)
	case *ast.ForStmt:
		if s.Init != nil {
			env = c.stmt(s.Init, env, derived, deferred)
		}
		out := c.walk(s.Body.List, copyEnv(env), derived, deferred)
		out = c.walk(s.Body.List, joinEnv(env, out), derived, deferred) // second pass with the loop-carried origins
		return joinEnv(env, out)
	case *ast.RangeStmt:
		out := c.walk(s.Body.List, copyEnv(env), derived, deferred)
		out = c.walk(s.Body.List, joinEnv(env, out), derived, deferred)
		return joinEnv(env, out)
	case *ast.SwitchStmt:
		if s.Init != nil {
			env = c.stmt(s.Init, env, derived, deferred)
		}
		return c.clauses(s.Body, env, derived, deferred)
	case *ast.TypeSwitchStmt:
		if s.Init != nil {
			env = c.stmt(s.Init, env, derived, deferred)
		}
		// the binding of a clause whose type is reusable and whose subject is an argument is the caller's
		return c.clauses(s.Body, env, derived, deferred)
	case *ast.SelectStmt:
		return c.clauses(s.Body, env, derived, deferred)
	}
	return env
}

func (c *borrowCtx) clauses(body *ast.BlockStmt, env map[types.Object]originSet, derived map[types.Object]bool, deferred bool) map[types.Object]originSet {
	out := copyEnv(env)
	for _, cl := range body.List {
		var list []ast.Stmt
		in := copyEnv(env)
		switch cc := cl.(type) {
		case *ast.CaseClause:
			list = cc.Body
			if o := c.info.Implicits[cc]; o != nil && c.reusableOf(o.Type()) != nil {
				if derived[o] {
					in[o] = orBorrowed
					c.cur.holdsBor = true
				} else {
					in[o] = orFresh
				}
			}
		case *ast.CommClause:
			list = cc.Body
		}
		r := c.walk(list, in, derived, deferred)
		if !stmtsTerminate(list) {
			out = joinEnv(out, r)
		}
	}
	return out
}

// mayReturnArgument: the function has a reusable result and some returned value
// (or named-result assignment) comes from its parameters.
func mayReturnArgument(c *borrowCtx, fd *ast.FuncDecl) bool {
	if fd.Type.Results == nil {
		return false
	}
	results := map[types.Object]bool{}
	has := false
	for _, fl := range fd.Type.Results.List {
		if c.reusableOf(c.info.TypeOf(fl.Type)) != nil {
			has = true
			for _, n := range fl.Names {
				results[c.info.Defs[n]] = true
			}
		}
	}
	if !has {
		return false
	}
	d := derivedFromParams(c.info, fd)
	found := false
	ast.Inspect(fd.Body, func(n ast.Node) bool {
		switch s := n.(type) {
		case *ast.ReturnStmt:
			for _, r := range s.Results {
				if id, ok := ast.Unparen(r).(*ast.Ident); ok && d[c.info.Uses[id]] && c.reusableOf(c.info.TypeOf(r)) != nil {
					found = true
				}
				if ta, ok := ast.Unparen(r).(*ast.TypeAssertExpr); ok {
					if id, ok := ast.Unparen(ta.X).(*ast.Ident); ok && d[c.info.Uses[id]] {
						found = true
					}
				}
			}
		case *ast.AssignStmt:
			if len(s.Lhs) != len(s.Rhs) {
				return true
			}
			for i, l := range s.Lhs {
				id, ok := l.(*ast.Ident)
				if !ok || !results[c.info.Uses[id]] {
					continue
				}
				switch r := ast.Unparen(s.Rhs[i]).(type) {
				case *ast.Ident:
					if d[c.info.Uses[r]] {
						found = true
					}
				case *ast.TypeAssertExpr:
					if rid, ok := ast.Unparen(r.X).(*ast.Ident); ok && d[c.info.Uses[rid]] {
						found = true
					}
				}
			}
		}
		return true
	})
	// a named result that is itself "derived" only because it was assigned from a parameter is covered above
	return found
}

type borrowResult struct {
	fns      []*borrowFn
	examined int
}

// analyseBorrow runs the origin walk over the package-level functions of one package.
func analyseBorrow(files []*ast.File, info *types.Info, reusable map[*types.TypeName]bool) borrowResult {
	c := &borrowCtx{info: info, reusable: reusable, retBor: map[types.Object]bool{}}
	for _, f := range files {
		for _, d := range f.Decls {
			if fd, ok := d.(*ast.FuncDecl); ok && fd.Body != nil && fd.Recv == nil {
				if mayReturnArgument(c, fd) {
					c.retBor[info.Defs[fd.Name]] = true
				}
			}
		}
	}
	var res borrowResult
	for _, f := range files {
		for _, d := range f.Decls {
			fd, ok := d.(*ast.FuncDecl)
			if !ok || fd.Body == nil || fd.Recv != nil {
				continue
			}
			bf := &borrowFn{name: fd.Name.Name, decl: fd, pools: map[string]bool{}}
			c.cur, c.file, c.poolOf = bf, f, map[types.Object]string{}
			derived := derivedFromParams(info, fd)
			env := map[types.Object]originSet{}
			if fd.Type.Params != nil {
				for _, fl := range fd.Type.Params.List {
					for _, n := range fl.Names {
						if o := info.Defs[n]; o != nil && c.reusableOf(o.Type()) != nil {
							env[o] = orBorrowed
							bf.holdsBor = true
						}
					}
				}
			}
			c.walk(fd.Body.List, env, derived, false)
			if bf.holdsBor || len(bf.pools) > 0 {
				res.examined++
				res.fns = append(res.fns, bf)
			}
		}
	}
	return res
}

// judgeBorrow turns the recorded writes into findings. resets(typ) is the set of
// fields every entry of the type assigns before it starts working.
func judgeBorrow(res borrowResult, resets func(typ string) map[string]bool) (sites []synSite, discharged []string) {
	// pooled writes: by pool and field, which functions make them and with what value
	type pw struct {
		byFn map[string]string
		pos  token.Pos
		file *ast.File
		typ  string
	}
	pooled := map[string]*pw{}
	poolUsers := map[string][]string{}
	for _, bf := range res.fns {
		for p := range bf.pools {
			poolUsers[p] = append(poolUsers[p], bf.name)
		}
		// a deferred write of x.f counts as the restore of the plain writes of x.f in the same function
		// the deferred restore has to be registered before the field is changed: the value it puts back is
		// evaluated at the defer statement (`defer func(v bool) { x.f = v }(x.f)` after `x.f = true` restores true)
		restored := map[string]bool{}
		plain := map[string]bool{}
		firstPlain := map[string]token.Pos{}
		for _, w := range bf.writes {
			if !w.deferred {
				k := w.typ + "." + w.field
				plain[k] = true
				if p, ok := firstPlain[k]; !ok || w.pos < p {
					firstPlain[k] = w.pos
				}
			}
		}
		for _, w := range bf.writes {
			if w.deferred {
				k := w.typ + "." + w.field
				if p, ok := firstPlain[k]; !ok || w.pos < p {
					restored[k] = true
				}
			}
		}
		for _, w := range bf.writes {
			fkey := w.typ + "." + w.field
			if resetCovers(resets(w.typ), w.field) {
				discharged = append(discharged, fmt.Sprintf("%s:%s: reset by every entry of %s", w.fn, fkey, w.typ))
				continue
			}
			if w.origin&orBorrowed != 0 {
				switch {
				case w.deferred && plain[fkey] && restored[fkey]:
					discharged = append(discharged, fmt.Sprintf("%s:%s: deferred restore", w.fn, fkey))
				case w.deferred && plain[fkey]:
					sites = append(sites, synSite{pos: w.pos, file: w.file, key: w.fn + ":" + fkey + ":restore-registered-after-the-change",
						msg: fmt.Sprintf("%s defers the restore of %s.%s after it has already changed the field: what the deferred function puts back is the changed value", w.fn, w.typ, w.field)})
				case !w.deferred && restored[fkey]:
					discharged = append(discharged, fmt.Sprintf("%s:%s: restored by a deferred function", w.fn, fkey))
				default:
					sites = append(sites, synSite{pos: w.pos, file: w.file, key: w.fn + ":" + fkey + ":sticky-on-callers-instance",
						msg: fmt.Sprintf("%s assigns %s.%s = %s on an instance that can be the caller's own (passed through the arguments) and never puts it back; no entry of %s resets the field, so the caller's next call on that instance behaves differently from a fresh one", w.fn, w.typ, w.field, w.rhs, w.typ)})
				}
			}
			if w.origin&orPooled != 0 && w.pool != "" {
				k := w.pool + ":" + fkey
				if pooled[k] == nil {
					pooled[k] = &pw{byFn: map[string]string{}, pos: w.pos, file: w.file, typ: w.typ}
				}
				pooled[k].byFn[w.fn] = w.rhs
			}
		}
	}
	var pk []string
	for k := range pooled {
		pk = append(pk, k)
	}
	sort.Strings(pk)
	for _, k := range pk {
		p := pooled[k]
		pool := k[:strings.Index(k, ":")]
		users := poolUsers[pool]
		sort.Strings(users)
		var missing, differ []string
		val := ""
		for _, u := range users {
			v, ok := p.byFn[u]
			switch {
			case !ok:
				missing = append(missing, u)
			case val == "":
				val = v
			case v != val:
				differ = append(differ, u)
			}
		}
		switch {
		case len(missing) > 0:
			sites = append(sites, synSite{pos: p.pos, file: p.file, key: "pool:" + k + ":not-written-by:" + strings.Join(missing, ","),
				msg: fmt.Sprintf("field %s of an instance taken from %s is assigned by some functions sharing the pool and not by %s; no entry resets it, so what %s get depends on who used the instance before", k[strings.Index(k, ":")+1:], pool, strings.Join(missing, ","), strings.Join(missing, ","))})
		case len(differ) > 0:
			sites = append(sites, synSite{pos: p.pos, file: p.file, key: "pool:" + k + ":value-differs-in:" + strings.Join(differ, ","),
				msg: fmt.Sprintf("field %s of an instance taken from %s is assigned different values by the functions sharing the pool (%s vs %s)", k[strings.Index(k, ":")+1:], pool, val, strings.Join(differ, ","))})
		default:
			discharged = append(discharged, fmt.Sprintf("pool %s: every function taking from the pool (%s) assigns %s", k, strings.Join(users, ","), val))
		}
	}
	return
}

const fixtureBorrow = `package fixture

import "sync"

type Writer struct {
	Indent int
	strict bool
	buf    []byte
}

func (w *Writer) MustJSON(v any) []byte { w.buf = w.buf[:0]; return w.buf }

var pool = sync.Pool{New: func() any { return &Writer{} }}

func pick(arg any) (wr *Writer) {
	switch ta := arg.(type) {
	case int:
		wr = &Writer{}
		wr.Indent = ta
	case *Writer:
		wr = ta
	}
	return
}

// sticky: strict stays set on the caller's writer
func Marshal(v any, args ...any) []byte {
	var wr *Writer
	if 0 < len(args) {
		wr = pick(args[0])
	}
	if wr == nil {
		wr, _ = pool.Get().(*Writer)
		defer pool.Put(wr)
	} else {
		wr.strict = true
	}
	defer func() {
		if r := recover(); r != nil {
			wr.buf = wr.buf[:0]
		}
	}()
	return wr.MustJSON(v)
}

// fine: restored by a deferred function
func MarshalFine(v any, args ...any) []byte {
	wr := pick(args[0])
	if wr != nil {
		defer func(s bool) { wr.strict = s }(wr.strict)
		wr.strict = true
		return wr.MustJSON(v)
	}
	return nil
}

// pool sharing: A sets Indent on the pooled instance, B does not
func A(v any) []byte {
	wr, _ := pool.Get().(*Writer)
	defer pool.Put(wr)
	wr.Indent = 0
	return wr.MustJSON(v)
}

func B(v any) []byte {
	wr := pool.Get().(*Writer)
	defer pool.Put(wr)
	return wr.MustJSON(v)
}
`

func ruleBorrowedWrites(prog *Program, rep *Report) {
	rep.Rules = append(rep.Rules,
		"C-borrowed: a package-level function of oj or sen that can be working on the caller's own Writer/Parser/Validator/Tokenizer (handed in through the arguments, directly or through a helper that may return its argument) assigns no field of it that the type's entries do not reset themselves, unless a deferred function, registered before the change, assigns the field back: otherwise the caller's next call on that instance differs from a call on a fresh one. The origin (fresh / pooled / caller's) of every such variable is followed over the statement tree with nil-test refinement",
		"C-poolwrite: a field assigned on an instance taken from a sync.Pool, and not reset by the type's entries, is assigned by every package-level function taking from that pool, with the same value text")
	ff, finfo, _, err := loadFixture(fixtureBorrow)
	if err != nil {
		rep.Errorf("C-borrowed: positive-control fixture does not type-check: %v", err)
		return
	}
	fre := map[*types.TypeName]bool{}
	for _, d := range finfo.Defs {
		if tn, ok := d.(*types.TypeName); ok && tn.Name() == "Writer" {
			fre[tn] = true
		}
	}
	fs, _ := judgeBorrow(analyseBorrow(ff, finfo, fre), func(string) map[string]bool { return map[string]bool{"buf": true} })
	var fk []string
	for _, s := range fs {
		fk = append(fk, s.key)
	}
	sort.Strings(fk)
	want := "Marshal:Writer.strict:sticky-on-callers-instance pool:pool:Writer.Indent:not-written-by:B,Marshal"
	if strings.Join(fk, " ") != want {
		rep.Errorf("C-borrowed: the positive-control fixture produced [%s] (want [%s]): the matcher no longer sees the construct", strings.Join(fk, " "), want)
		return
	}
	rep.Discharge("C-borrowed", "positive-control", "checker/rules_borrow.go", "fixture: sticky write reported, deferred restore and entry-reset field accepted, pool disagreement reported")
	total := 0
	for _, rel := range []string{"oj", "sen"} {
		pk := prog.Pkg(rel)
		if pk == nil {
			rep.Errorf("C-borrowed: package %s not loaded", rel)
			continue
		}
		reusable := map[*types.TypeName]bool{}
		resetSets := map[string]map[string]bool{}
		for _, g := range entryGroups {
			if g.rel != rel {
				continue
			}
			tn, _ := pk.Types.Scope().Lookup(g.typ).(*types.TypeName)
			if tn == nil {
				rep.Errorf("C-borrowed: type %s.%s not found", rel, g.typ)
				continue
			}
			reusable[tn] = true
			var inter mustSet
			for _, e := range g.entries {
				s, _, err := entryMustSet(prog, pk, g.typ, e, g.work)
				if err != nil {
					rep.Errorf("C-borrowed: %s.%v", rel, err)
					continue
				}
				if inter == nil {
					inter = s
				} else {
					inter = inter.intersect(s)
				}
			}
			// a nested field counts under its first component too (num.Conv resets part of num only: keep exact paths)
			resetSets[g.typ] = inter
		}
		res := analyseBorrow(pk.Syntax, pk.TypesInfo, reusable)
		sites, dis := judgeBorrow(res, func(typ string) map[string]bool { return resetSets[typ] })
		total += res.examined
		sort.Slice(sites, func(i, j int) bool { return sites[i].key < sites[j].key })
		for _, s := range sites {
			rule := "C-borrowed"
			if strings.HasPrefix(s.key, "pool:") {
				rule = "C-poolwrite"
			}
			rep.Violate(Finding{Rule: rule, Key: rel + "." + s.key, Pos: prog.Pos(s.pos), Msg: s.msg})
		}
		dis = dedupeCount(dis)
		var names []string
		for _, bf := range res.fns {
			names = append(names, bf.name)
		}
		sort.Strings(names)
		rep.Discharge("C-borrowed", rel, rel, fmt.Sprintf("%d package-level functions hold a pooled or caller-owned instance (%s); %d field writes accepted: %s", res.examined, strings.Join(names, ","), len(dis), strings.Join(dis, "; ")))
	}
	rep.Eval(total)
	if total < 12 {
		rep.Errorf("C-borrowed examined %d functions (floor 12): anchors did not resolve", total)
	}
}

func dedupeCount(in []string) []string {
	n := map[string]int{}
	var order []string
	for _, s := range in {
		if n[s] == 0 {
			order = append(order, s)
		}
		n[s]++
	}
	sort.Strings(order)
	for i, s := range order {
		if n[s] > 1 {
			order[i] = fmt.Sprintf("%s (x%d)", s, n[s])
		}
	}
	return order
}
