package main

import (
	"fmt"
	"go/constant"
	"sort"
	"strings"
)

// Abstract values of the arm interpreter (Engine A). The domain is finite for
// everything that is kept between bytes: compile-time constants (mode tables,
// small integers, booleans), the top of a small-alphabet container stack, and
// Top for the rest. The remaining kinds exist only inside one arm execution to
// follow how the buffer cursor moves.
type vkind int

const (
	kTop     vkind = iota // unknown
	kConst                // compile-time constant (int, string, bool)
	kOff                  // off0 + A (+ K when Flag): the buffer cursor, relative to the dispatched byte
	kLenBuf               // len(buf) of the work function's buffer parameter
	kBuf                  // buf[A:B] (B = -1 open, bounds relative to off0; Flag: bounds involve K -> imprecise)
	kBufStr               // string(buf[A:B])
	kLen                  // len(stack field S) + A
	kNil                  // nil
	kNonNil               // a definitely non-nil pointer/error
	kScanIdx              // K + A: index variable after a class scan (K = number of passing bytes)
	kRecv                 // the receiver itself
)

type Val struct {
	K      vkind
	C      constant.Value
	A, B   int
	Flag   bool
	S      string // field name for kLen
	NonNeg bool   // for kTop: known >= 0
	Stale  bool   // for kTop: left over from a previous call (never written since entry)
	FromB  bool   // constant derived from an input byte (dispatched, scanned or look-ahead)
	T      int    // table id (1-based) for 256/257-byte table constants, 0 otherwise
}

var vTop = Val{K: kTop}

func vConstInt(i int64) Val    { return Val{K: kConst, C: constant.MakeInt64(i)} }
func vByte(i int) Val          { return Val{K: kConst, C: constant.MakeInt64(int64(i)), FromB: true} }
func vConstBool(b bool) Val    { return Val{K: kConst, C: constant.MakeBool(b)} }
func vConstStr(s string) Val   { return Val{K: kConst, C: constant.MakeString(s)} }
func vOff(a int, k bool) Val   { return Val{K: kOff, A: a, Flag: k} }
func vLen(s string, a int) Val { return Val{K: kLen, S: s, A: a} }

func (v Val) isConst() bool { return v.K == kConst }
func (v Val) isInt() (int64, bool) {
	if v.K == kConst && v.C.Kind() == constant.Int {
		i, ok := constant.Int64Val(v.C)
		return i, ok
	}
	return 0, false
}
func (v Val) isBool() (bool, bool) {
	if v.K == kConst && v.C.Kind() == constant.Bool {
		return constant.BoolVal(v.C), true
	}
	return false, false
}
func (v Val) isStr() (string, bool) {
	if v.K == kConst && v.C.Kind() == constant.String {
		return constant.StringVal(v.C), true
	}
	return "", false
}

func (v Val) String() string {
	switch v.K {
	case kTop:
		s := "T"
		if v.NonNeg {
			s += "+"
		}
		if v.Stale {
			s += "!"
		}
		return s
	case kConst:
		if v.T > 0 {
			return fmt.Sprintf("tbl%d", v.T)
		}
		if s, ok := v.isStr(); ok {
			if len(s) >= 256 {
				return fmt.Sprintf("tbl#%x", hashStr(s))
			}
			return fmt.Sprintf("%q", s)
		}
		return v.C.ExactString()
	case kOff:
		if v.Flag {
			return fmt.Sprintf("off%+d+K", v.A)
		}
		return fmt.Sprintf("off%+d", v.A)
	case kLenBuf:
		return "len(buf)"
	case kBuf:
		return fmt.Sprintf("buf[%d:%d]", v.A, v.B)
	case kBufStr:
		return fmt.Sprintf("string(buf[%d:%d])", v.A, v.B)
	case kLen:
		return fmt.Sprintf("len(%s)%+d", v.S, v.A)
	case kNil:
		return "nil"
	case kNonNil:
		return "nonnil"
	case kScanIdx:
		return fmt.Sprintf("K%+d", v.A)
	case kRecv:
		return "recv"
	}
	return "?"
}

func hashStr(s string) uint32 {
	var h uint32 = 2166136261
	for i := 0; i < len(s); i++ {
		h ^= uint32(s[i])
		h *= 16777619
	}
	return h
}

// absStack is the abstraction of a small-alphabet container stack: only the
// top element is known; Tag is an opaque pairing tag supplied by the product
// exploration (the reference's stack symbol pushed at the same step).
type absStack struct {
	Prev    string // what the top was when this frame was pushed ("" unknown, "[]" empty, else prevKey of that frame)
	Saved   byte   // kind of the build-stack top when this frame was opened ('K' key, 'M' map, 'O' other, 0 unknown)
	Unknown bool   // nothing is known (not even emptiness)
	Empty   bool
	Top     Val
	Tag     int
}

// prevKey identifies a frame as the thing a later push covers.
func (s absStack) prevKey() string { return s.chain(1) }

// chain: the frame's own identity followed by what it covers, limited to k
// frames ("" unknown, "[]" the empty stack).
func (s absStack) chain(k int) string {
	switch {
	case s.Unknown:
		return ""
	case s.Empty:
		return "[]"
	}
	own := fmt.Sprintf("%s/%d#%d", s.Top.String(), s.Saved, s.Tag)
	if k <= 1 || s.Prev == "" {
		return own
	}
	segs := strings.Split(own+"<"+s.Prev, "<")
	if len(segs) > k {
		segs = segs[:k]
	}
	return strings.Join(segs, "<")
}

// covers: frame c can be what this frame was pushed over.
func (s absStack) covers(c absStack) bool {
	if s.Prev == "" {
		return true
	}
	return c.chain(strings.Count(s.Prev, "<")+1) == s.Prev
}

func (s absStack) String() string {
	if s.Unknown {
		return "[?" + s.Top.String() + "]"
	}
	if s.Empty {
		return "[]"
	}
	pv := ""
	if s.Prev != "" {
		pv = "<" + s.Prev
	}
	if s.Saved != 0 {
		return "[.." + s.Top.String() + "/" + string(s.Saved) + pv + "]"
	}
	return "[.." + s.Top.String() + pv + "]"
}

// State is the abstract machine state threaded through statements.
type State struct {
	locals map[any]Val // keyed by types.Object
	fields map[string]Val
	stacks map[string]absStack

	// per-arm (reset at every dispatched byte)
	cur            int         // dispatched byte value, -1 outside the loop body
	remLo          int         // bytes after the dispatched byte: lower bound
	remHi          int         // upper bound, -1 = unbounded
	known          map[int]int // known look-ahead bytes: position (>=1, relative to off0) -> byte
	scan           *scanInfo
	events         []Event
	notes          []string
	popped         []string // stack fields popped in this arm (in order)
	pushed         []pushRec
	depth          int  // call inlining depth
	errArg         *Val // cursor argument of the error constructor on an error return
	errPos         string
	readStale      []string
	panicked       string          // a runtime panic was reached while evaluating an expression
	bs             byte            // kind of the top of the build stack: 'K' a pending key, 'M' the object being filled, 'O' anything else, 0 unknown
	pendingRestore byte            // Saved kind of the container frame popped in this arm
	readFirst      map[string]bool // tracked fields read before written in this arm (liveness sampling)
	decisions      []string        // outcomes of conditions over untracked data taken in this arm (self product: the two sides must agree on them)
	mirrored       bool            // the dispatched byte was added to the number's text buffer in this arm
	digitUse       bool            // the dispatched byte was used as a decimal digit (b - '0') in this arm
	assigned       map[string]bool // receiver fields assigned in this arm
	garbage        map[string]bool // scratch buffers whose content was consumed (or is left over) and not truncated since
}

type pushRec struct {
	Field string
	V     Val
}

// scanInfo summarises one class scan `for i, b = range buf[off+d:]`.
type scanInfo struct {
	Base    int       // position (relative to off0) of the first scanned byte
	Pass    [256]bool // bytes that pass (the loop continues, state unchanged)
	Kpos    bool      // K >= 1 (else K == 0)
	Outcome byte      // 'E' empty range, 'B' break on byte, 'X' exhausted
	Break   int       // the byte that broke the scan (Outcome B)
}

type Event struct {
	Name string
	Arg  string
}

func (e Event) String() string {
	if e.Arg != "" {
		return e.Name + "(" + e.Arg + ")"
	}
	return e.Name
}

func newState() *State {
	return &State{locals: map[any]Val{}, fields: map[string]Val{}, stacks: map[string]absStack{}, cur: -1, remHi: -1}
}

func (s *State) clone() *State {
	n := *s
	n.locals = make(map[any]Val, len(s.locals))
	for k, v := range s.locals {
		n.locals[k] = v
	}
	n.fields = make(map[string]Val, len(s.fields))
	for k, v := range s.fields {
		n.fields[k] = v
	}
	n.stacks = make(map[string]absStack, len(s.stacks))
	for k, v := range s.stacks {
		n.stacks[k] = v
	}
	if s.known != nil {
		n.known = make(map[int]int, len(s.known))
		for k, v := range s.known {
			n.known[k] = v
		}
	}
	if s.scan != nil {
		sc := *s.scan
		n.scan = &sc
	}
	if s.assigned != nil {
		n.assigned = make(map[string]bool, len(s.assigned))
		for k := range s.assigned {
			n.assigned[k] = true
		}
	}
	if s.readFirst != nil {
		n.readFirst = make(map[string]bool, len(s.readFirst))
		for k := range s.readFirst {
			n.readFirst[k] = true
		}
	}
	if s.garbage != nil {
		n.garbage = make(map[string]bool, len(s.garbage))
		for k := range s.garbage {
			n.garbage[k] = true
		}
	}
	n.events = append([]Event(nil), s.events...)
	n.notes = append([]string(nil), s.notes...)
	n.popped = append([]string(nil), s.popped...)
	n.pushed = append([]pushRec(nil), s.pushed...)
	n.readStale = append([]string(nil), s.readStale...)
	return &n
}

// ctrlKey is the canonical key of the state kept between bytes.
func (s *State) ctrlKey(localNames map[any]string) string {
	var parts []string
	for k, v := range s.fields {
		parts = append(parts, "f."+k+"="+v.String())
	}
	for k, v := range s.stacks {
		parts = append(parts, "s."+k+"="+v.String()+fmt.Sprintf("#%d", v.Tag))
	}
	for k, v := range s.locals {
		if n, ok := localNames[k]; ok {
			parts = append(parts, "l."+n+"="+v.String())
		}
	}
	for k := range s.garbage {
		parts = append(parts, "g."+k)
	}
	if s.bs != 0 {
		parts = append(parts, "bs="+string(s.bs))
	}
	sort.Strings(parts)
	return strings.Join(parts, " ")
}
