package main

import (
	"fmt"
	"go/ast"
	"go/constant"
	"go/token"
	"go/types"
	"sort"
	"strings"
)

// E-constidx: s[k] with a constant k on a string or slice of unknown length.
//
// Such an index panics when the value is shorter. The rule asks for a test of
// the length that dominates the index and implies k < len(s), in one of the
// forms the repository uses: a conjunct of an enclosing condition or an earlier
// operand of the same && chain (`0 < len(s) && s[0] == '$'`, `len(s) == 3`,
// `s != ""`), an earlier `if len(s) == 0 { leave }` / `if len(s) < n { leave }`
// of an enclosing block, an earlier case of the enclosing tagless switch, or a
// `switch len(s)` case. A value made in the function with a literal or make of
// sufficient constant length needs none.

type idxSite struct {
	pos token.Pos
	fn  string
	s   string
	k   int64
	how string
}

// lenFact: what cond (when true: pos, when false: neg) says about len(s): a lower bound (exclusive of k) or -1.
func lenLower(info *types.Info, cond ast.Expr, s string, truth bool) int64 {
	cond = ast.Unparen(cond)
	switch c := cond.(type) {
	case *ast.BinaryExpr:
		switch c.Op {
		case token.LAND:
			if truth {
				a, b := lenLower(info, c.X, s, true), lenLower(info, c.Y, s, true)
				if b > a {
					a = b
				}
				return a
			}
			return -1
		case token.LOR:
			if !truth {
				a, b := lenLower(info, c.X, s, false), lenLower(info, c.Y, s, false)
				if b > a {
					a = b
				}
				return a
			}
			// both alternatives must give a bound
			a, b := lenLower(info, c.X, s, true), lenLower(info, c.Y, s, true)
			if b < a {
				a = b
			}
			return a
		}
		x, y, op := c.X, c.Y, c.Op
		isLen := func(e ast.Expr) bool {
			call, ok := ast.Unparen(e).(*ast.CallExpr)
			return ok && isLenCall(call) && types.ExprString(ast.Unparen(call.Args[0])) == s
		}
		cval := func(e ast.Expr) (int64, bool) {
			if tv, ok := info.Types[e]; ok && tv.Value != nil && tv.Value.Kind() == constant.Int {
				v, ok := constant.Int64Val(tv.Value)
				return v, ok
			}
			return 0, false
		}
		// string emptiness: s != "" / s == ""
		if types.ExprString(ast.Unparen(x)) == s || types.ExprString(ast.Unparen(y)) == s {
			other := y
			if types.ExprString(ast.Unparen(y)) == s {
				other = x
			}
			if tv, ok := info.Types[other]; ok && tv.Value != nil && tv.Value.Kind() == constant.String && constant.StringVal(tv.Value) == "" {
				if (op == token.NEQ && truth) || (op == token.EQL && !truth) {
					return 1
				}
			}
			return -1
		}
		if isLen(y) {
			x, y = y, x
			switch op {
			case token.LSS:
				op = token.GTR
			case token.GTR:
				op = token.LSS
			case token.LEQ:
				op = token.GEQ
			case token.GEQ:
				op = token.LEQ
			}
		}
		if !isLen(x) {
			return -1
		}
		n, ok := cval(y)
		if !ok {
			return -1
		}
		if !truth {
			switch op { // negate
			case token.LSS:
				op = token.GEQ
			case token.LEQ:
				op = token.GTR
			case token.GTR:
				op = token.LEQ
			case token.GEQ:
				op = token.LSS
			case token.EQL:
				op = token.NEQ
			case token.NEQ:
				op = token.EQL
			}
		}
		switch op {
		case token.GTR:
			return n + 1
		case token.GEQ:
			return n
		case token.EQL:
			return n
		case token.NEQ:
			if n == 0 {
				return 1
			}
		}
	case *ast.UnaryExpr:
		if c.Op == token.NOT {
			return lenLower(info, c.X, s, !truth)
		}
	}
	return -1
}

func constIdxGuard(info *types.Info, path []ast.Node, site ast.Node, s string, k int64) string {
	child := site
	for i := len(path) - 1; i >= 0; i-- {
		n := path[i]
		switch x := n.(type) {
		case *ast.BinaryExpr:
			// earlier operand of a && chain (site in Y), or of a || chain with the negation
			if x.Op == token.LAND && nodeWithin(x.Y, site) && lenLower(info, x.X, s, true) > k {
				return "earlier operand of &&"
			}
			if x.Op == token.LOR && nodeWithin(x.Y, site) && lenLower(info, x.X, s, false) > k {
				return "earlier operand of ||"
			}
		case *ast.IfStmt:
			if nodeWithin(x.Body, site) && lenLower(info, x.Cond, s, true) > k {
				return "enclosing if"
			}
			if x.Else != nil && nodeWithin(x.Else, site) && lenLower(info, x.Cond, s, false) > k {
				return "else of a length test"
			}
		case *ast.CaseClause:
			for _, c := range x.List {
				if nodeWithin(x, site) && !nodeWithin(c, site) && lenLower(info, c, s, true) > k {
					return "enclosing case"
				}
			}
			if i >= 2 {
				if sw, ok := path[i-2].(*ast.SwitchStmt); ok {
					if sw.Tag == nil {
						// earlier cases were false
						for _, cl := range sw.Body.List {
							cc := cl.(*ast.CaseClause)
							if cc == x {
								break
							}
							if len(cc.List) == 1 && lenLower(info, cc.List[0], s, false) > k {
								return "earlier case of the switch"
							}
						}
					} else if call, ok := ast.Unparen(sw.Tag).(*ast.CallExpr); ok && isLenCall(call) && types.ExprString(ast.Unparen(call.Args[0])) == s {
						okAll := len(x.List) > 0
						for _, c := range x.List {
							tv, has := info.Types[c]
							if !has || tv.Value == nil {
								okAll = false
								continue
							}
							if v, _ := constant.Int64Val(tv.Value); v <= k {
								okAll = false
							}
						}
						if okAll {
							return "case of switch len(" + s + ")"
						}
					}
				}
			}
			if g := earlierLenLeave(info, x.Body, child, s, k); g != "" {
				return g
			}
		case *ast.BlockStmt:
			if g := earlierLenLeave(info, x.List, child, s, k); g != "" {
				return g
			}
		case *ast.ForStmt:
			if x.Cond != nil && nodeWithin(x.Body, site) && lenLower(info, x.Cond, s, true) > k {
				return "loop condition"
			}
		case *ast.FuncLit, *ast.FuncDecl:
			return ""
		}
		child = n
	}
	return ""
}

func earlierLenLeave(info *types.Info, list []ast.Stmt, child ast.Node, s string, k int64) string {
	idx := -1
	for j, st := range list {
		if ast.Node(st) == child {
			idx = j
		}
	}
	for j := idx - 1; j >= 0; j-- {
		if assignsTo(info, list[j], s) {
			return ""
		}
		if is, ok := list[j].(*ast.IfStmt); ok && is.Else == nil && blockLeaves(is.Body.List) && lenLower(info, is.Cond, s, false) > k {
			return "after `if " + types.ExprString(is.Cond) + " { leave }`"
		}
	}
	return ""
}

// knownLength: s is a local assigned (only) from a string/composite literal or make of constant length > k.
func knownLength(info *types.Info, fd *ast.FuncDecl, obj types.Object, k int64) bool {
	if obj == nil {
		return false
	}
	okAll, seen := true, false
	ast.Inspect(fd.Body, func(n ast.Node) bool {
		as, ok := n.(*ast.AssignStmt)
		if !ok || len(as.Lhs) != len(as.Rhs) {
			return true
		}
		for i, l := range as.Lhs {
			id, ok := l.(*ast.Ident)
			if !ok {
				continue
			}
			o := info.Defs[id]
			if o == nil {
				o = info.Uses[id]
			}
			if o != obj {
				continue
			}
			seen = true
			r := ast.Unparen(as.Rhs[i])
			if tv, ok := info.Types[r]; ok && tv.Value != nil && tv.Value.Kind() == constant.String && int64(len(constant.StringVal(tv.Value))) > k {
				continue
			}
			if cl, ok := r.(*ast.CompositeLit); ok && int64(len(cl.Elts)) > k {
				continue
			}
			if call, ok := r.(*ast.CallExpr); ok {
				if id, ok := call.Fun.(*ast.Ident); ok && id.Name == "make" && len(call.Args) >= 2 {
					if tv, ok := info.Types[call.Args[1]]; ok && tv.Value != nil {
						if v, _ := constant.Int64Val(tv.Value); v > k {
							continue
						}
					}
				}
			}
			okAll = false
		}
		return true
	})
	return seen && okAll
}

func constIdxSites(prog *Program, rel string) (sites []idxSite, examined int) {
	pk := prog.Pkg(rel)
	if pk == nil {
		return nil, 0
	}
	info := pk.TypesInfo
	for _, f := range pk.Syntax {
		if strings.HasSuffix(prog.Fset.Position(f.Pos()).Filename, "_test.go") {
			continue
		}
		for _, d := range f.Decls {
			fd, ok := d.(*ast.FuncDecl)
			if !ok || fd.Body == nil {
				continue
			}
			var path []ast.Node
			ast.Inspect(fd, func(n ast.Node) bool {
				if n == nil {
					path = path[:len(path)-1]
					return true
				}
				path = append(path, n)
				ix, ok := n.(*ast.IndexExpr)
				if !ok {
					return true
				}
				tv, ok := info.Types[ix.Index]
				if !ok || tv.Value == nil || tv.Value.Kind() != constant.Int {
					return true
				}
				t := info.TypeOf(ix.X)
				if t == nil {
					return true
				}
				switch u := t.Underlying().(type) {
				case *types.Slice:
				case *types.Basic:
					if u.Info()&types.IsString == 0 {
						return true
					}
				default:
					return true // arrays, maps, pointers to arrays
				}
				if xtv, ok := info.Types[ix.X]; ok && xtv.Value != nil {
					return true // constant string
				}
				k, _ := constant.Int64Val(tv.Value)
				s := types.ExprString(ast.Unparen(ix.X))
				examined++
				how := constIdxGuard(info, path[:len(path)-1], ix, s, k)
				if how == "" {
					if id, ok := ast.Unparen(ix.X).(*ast.Ident); ok && knownLength(info, fd, info.Uses[id], k) {
						how = "made in the function with a sufficient constant length"
					}
				}
				sites = append(sites, idxSite{pos: ix.Pos(), fn: funcKey(fd), s: s, k: k, how: how})
				return true
			})
		}
	}
	return
}

// constIdxExceptions: sites confirmed by reading, keyed rel.func:expr[k].
var constIdxExceptions = map[string]string{
	"jp.Script.Append:bstack[0]":       "the template of a compiled script holds at least one element (the parser rejects an empty filter), so the print stack built from it does too",
	"jp.Script.evalWithRoot:x[0]":      "operand paths in a template come from the path parser, which produces no empty path",
	"jp.Script.evalWithRoot:xstack[0]": "the evaluation stack has the template's length, at least one",
	"jp.Script.evalWithRoot:sstack[0]": "the evaluation stack has the template's length, at least one",
}

func ruleConstIdx(prog *Program, rep *Report, floor int, inScope func(rel, fn string) bool, rels ...string) {
	rep.Rules = append(rep.Rules, "E-constidx: every index s[k] with a constant k on a string or slice whose length is not fixed in the function is dominated by a length test that implies k < len(s) (conjunct of an enclosing condition, earlier operand of the same && / || chain, earlier `if len(s) .. { leave }`, earlier case of the tagless switch, case of `switch len(s)`, s != \"\"): no input shorter than expected panics with index out of range")
	total := 0
	for _, rel := range rels {
		sites, n := constIdxSites(prog, rel)
		total += n
		sort.Slice(sites, func(i, j int) bool { return sites[i].pos < sites[j].pos })
		cnt := map[string]int{}
		for _, s := range sites {
			if inScope != nil && !inScope(rel, s.fn) {
				continue
			}
			base := fmt.Sprintf("%s.%s:%s[%d]", rel, s.fn, s.s, s.k)
			cnt[base]++
			key := fmt.Sprintf("%s#%d", base, cnt[base])
			switch {
			case s.how != "":
				rep.Discharge("E-constidx", key, prog.Pos(s.pos), s.how)
			case constIdxExceptions[base] != "":
				rep.Discharge("E-constidx", key, prog.Pos(s.pos), "listed exception: "+constIdxExceptions[base])
			default:
				rep.Violate(Finding{Rule: "E-constidx", Key: key, Pos: prog.Pos(s.pos), Msg: fmt.Sprintf("%s indexes %s[%d] and no test of len(%s) that implies %d < len(%s) dominates it: a shorter value panics", s.fn, s.s, s.k, s.s, s.k, s.s)})
			}
		}
	}
	rep.Eval(total)
	if total < floor {
		rep.Errorf("E-constidx examined %d constant indexes (floor %d): anchors did not resolve", total, floor)
	}
}

// reachableFuncs: the functions of one package reachable from the named roots (calls and function values,
// resolved through go/types), by funcKey.
func reachableFuncs(prog *Program, rel string, roots ...string) map[string]bool {
	pk := prog.Pkg(rel)
	out := map[string]bool{}
	if pk == nil {
		return out
	}
	info := pk.TypesInfo
	decls := map[types.Object]*ast.FuncDecl{}
	byKey := map[string]types.Object{}
	for _, f := range pk.Syntax {
		for _, d := range f.Decls {
			if fd, ok := d.(*ast.FuncDecl); ok && fd.Body != nil {
				o := info.Defs[fd.Name]
				decls[o] = fd
				byKey[funcKey(fd)] = o
			}
		}
	}
	var work []types.Object
	for _, r := range roots {
		if o := byKey[r]; o != nil {
			work = append(work, o)
		}
	}
	for len(work) > 0 {
		o := work[len(work)-1]
		work = work[:len(work)-1]
		fd := decls[o]
		if fd == nil || out[funcKey(fd)] {
			continue
		}
		out[funcKey(fd)] = true
		ast.Inspect(fd.Body, func(n ast.Node) bool {
			var c types.Object
			switch x := n.(type) {
			case *ast.Ident:
				c = info.Uses[x]
			case *ast.SelectorExpr:
				c = info.Uses[x.Sel]
			}
			if c != nil && decls[c] != nil {
				work = append(work, c)
			}
			return true
		})
	}
	return out
}
