package main

import (
	"fmt"
	"go/ast"
	"go/token"
	"go/types"
	"sort"
	"strings"
)

// Q-divzero: a division or remainder by a runtime value.
//
// An integer division by zero traps. Under asm.Plan.Execute the trap becomes
// the plan's error (E-recover), which is what the descriptions promise ("if an
// attempt is made to divide by zero an error will be raised"); in the filter
// script evaluator nothing recovers, so the trap is a panic of Get. A floating
// point division by zero never traps: it silently yields Inf or NaN, so the
// promise of an error, and the sibling integer arm, are contradicted unless
// the divisor is tested first. The rule therefore asks, per site:
//
//   integer, traps allowed (asm):   nothing
//   integer, traps not allowed:     a dominating test of the divisor against zero
//   floating point:                 a dominating test of the divisor against zero
//
// Recognised tests (the repo's idioms): an enclosing `if d != 0 {..}` (also
// `0 < d`), an earlier `case d == 0:` of the enclosing tagless switch, an
// earlier `if d == 0 { panic / return / continue / break }` in an enclosing
// block with no assignment to d in between. d is the divisor with conversions
// and parentheses stripped, so `float64(ii)` is guarded by a test of ii.

type divSite struct {
	pos     token.Pos
	file    *ast.File
	fn      string
	divisor string
	float   bool
	guarded string // how, "" if not
}

func stripConv(info *types.Info, e ast.Expr) ast.Expr {
	for {
		e = ast.Unparen(e)
		call, ok := e.(*ast.CallExpr)
		if !ok || len(call.Args) != 1 {
			return e
		}
		if tv, ok := info.Types[call.Fun]; ok && tv.IsType() {
			e = call.Args[0]
			continue
		}
		return e
	}
}

func isZeroConst(info *types.Info, e ast.Expr) bool {
	tv, ok := info.Types[e]
	if !ok || tv.Value == nil {
		return false
	}
	s := tv.Value.ExactString()
	return s == "0"
}

// zeroTest classifies cond with respect to the divisor text d:
// +1: cond (or one of its && conjuncts) implies d != 0; -1: cond is exactly d == 0; 0: neither.
func zeroTest(info *types.Info, cond ast.Expr, d string) int {
	cond = ast.Unparen(cond)
	be, ok := cond.(*ast.BinaryExpr)
	if !ok {
		return 0
	}
	if be.Op == token.LAND {
		if zeroTest(info, be.X, d) > 0 || zeroTest(info, be.Y, d) > 0 {
			return 1
		}
		return 0
	}
	x, y := be.X, be.Y
	op := be.Op
	if isZeroConst(info, x) {
		x, y = y, x
		switch op {
		case token.LSS:
			op = token.GTR
		case token.GTR:
			op = token.LSS
		case token.LEQ:
			op = token.GEQ
		case token.GEQ:
			op = token.LEQ
		}
	}
	if !isZeroConst(info, y) || types.ExprString(stripConv(info, x)) != d {
		return 0
	}
	switch op {
	case token.NEQ, token.GTR, token.LSS:
		return 1
	case token.EQL:
		return -1
	}
	return 0
}

func blockLeaves(list []ast.Stmt) bool {
	if len(list) == 0 {
		return false
	}
	switch s := list[len(list)-1].(type) {
	case *ast.ReturnStmt:
		return true
	case *ast.BranchStmt:
		return s.Tok == token.CONTINUE || s.Tok == token.BREAK || s.Tok == token.GOTO
	case *ast.ExprStmt:
		if call, ok := s.X.(*ast.CallExpr); ok {
			if id, ok := call.Fun.(*ast.Ident); ok && id.Name == "panic" {
				return true
			}
		}
	}
	return false
}

func assignsTo(info *types.Info, n ast.Node, d string) bool {
	found := false
	ast.Inspect(n, func(m ast.Node) bool {
		switch s := m.(type) {
		case *ast.AssignStmt:
			for _, l := range s.Lhs {
				if types.ExprString(ast.Unparen(l)) == d {
					found = true
				}
			}
		case *ast.IncDecStmt:
			if types.ExprString(ast.Unparen(s.X)) == d {
				found = true
			}
		}
		return !found
	})
	return found
}

// divGuard looks for a recognised test on the path of enclosing nodes (outermost first).
func divGuard(info *types.Info, path []ast.Node, d string) string {
	for i := len(path) - 1; i >= 0; i-- {
		inner := ast.Node(nil)
		if i+1 < len(path) {
			inner = path[i+1]
		}
		switch n := path[i].(type) {
		case *ast.IfStmt:
			if inner == n.Body && zeroTest(info, n.Cond, d) > 0 {
				return "inside `if " + types.ExprString(n.Cond) + "`"
			}
			if inner != nil && inner == n.Else && zeroTest(info, n.Cond, d) < 0 {
				return "in the else branch of `if " + types.ExprString(n.Cond) + "`"
			}
		case *ast.CaseClause:
			// own condition
			for _, c := range n.List {
				if zeroTest(info, c, d) > 0 {
					return "inside `case " + types.ExprString(c) + "`"
				}
			}
			// an earlier clause of a tagless switch tests d == 0
			if i >= 2 {
				if sw, ok := path[i-2].(*ast.SwitchStmt); ok && sw.Tag == nil {
					for _, cl := range sw.Body.List {
						cc := cl.(*ast.CaseClause)
						if cc == n {
							break
						}
						for _, c := range cc.List {
							if zeroTest(info, c, d) < 0 {
								return "after `case " + types.ExprString(c) + "` of the same switch"
							}
						}
					}
				}
			}
		case *ast.BlockStmt:
			if g := earlierLeave(info, n.List, inner, d); g != "" {
				return g
			}
		}
		if cc, ok := path[i].(*ast.CaseClause); ok {
			if g := earlierLeave(info, cc.Body, inner, d); g != "" {
				return g
			}
		}
		if _, ok := path[i].(*ast.FuncLit); ok {
			break
		}
	}
	return ""
}

func earlierLeave(info *types.Info, list []ast.Stmt, inner ast.Node, d string) string {
	idx := -1
	for j, st := range list {
		if ast.Node(st) == inner {
			idx = j
		}
	}
	if idx < 0 {
		return ""
	}
	for j := idx - 1; j >= 0; j-- {
		if assignsTo(info, list[j], d) {
			return ""
		}
		if is, ok := list[j].(*ast.IfStmt); ok && is.Else == nil && zeroTest(info, is.Cond, d) < 0 && blockLeaves(is.Body.List) {
			return "after `if " + types.ExprString(is.Cond) + " { leave }`"
		}
	}
	return ""
}

func matchDivSites(files []*ast.File, info *types.Info, inScope func(fd *ast.FuncDecl) bool) (sites []divSite) {
	for _, f := range files {
		for _, dcl := range f.Decls {
			fd, ok := dcl.(*ast.FuncDecl)
			if !ok || fd.Body == nil || (inScope != nil && !inScope(fd)) {
				continue
			}
			var path []ast.Node
			ast.Inspect(fd.Body, func(n ast.Node) bool {
				if n == nil {
					path = path[:len(path)-1]
					return true
				}
				path = append(path, n)
				var divisor, whole ast.Expr
				switch x := n.(type) {
				case *ast.BinaryExpr:
					if x.Op == token.QUO || x.Op == token.REM {
						divisor, whole = x.Y, x
					}
				case *ast.AssignStmt:
					if (x.Tok == token.QUO_ASSIGN || x.Tok == token.REM_ASSIGN) && len(x.Lhs) == 1 && len(x.Rhs) == 1 {
						divisor, whole = x.Rhs[0], x.Lhs[0]
					}
				}
				if divisor == nil {
					return true
				}
				if tv, ok := info.Types[divisor]; ok && tv.Value != nil {
					return true // constant divisor: zero would not compile
				}
				t := info.TypeOf(whole)
				if t == nil {
					return true
				}
				b, ok := t.Underlying().(*types.Basic)
				if !ok || b.Info()&(types.IsInteger|types.IsFloat) == 0 {
					return true
				}
				d := types.ExprString(stripConv(info, divisor))
				s := divSite{pos: n.Pos(), file: f, fn: funcKey(fd), divisor: d, float: b.Info()&types.IsFloat != 0}
				s.guarded = divGuard(info, path[:len(path)-1], d)
				sites = append(sites, s)
				return true
			})
		}
	}
	return
}

const fixtureDiv = `package fixture

import "fmt"

func quotient(args []any) any {
	var iq int64
	var fq float64
	isFloat := false
	for i, arg := range args {
		switch v := arg.(type) {
		case int64:
			switch {
			case i == 0:
				iq = v
			case isFloat:
				fq /= float64(v) // float, unguarded: reported
			default:
				iq /= v // integer: traps
			}
		case float64:
			switch {
			case i == 0:
				fq = v
				isFloat = true
			case v == 0.0:
				panic(fmt.Errorf("divide by zero"))
			case isFloat:
				fq /= v // guarded by the earlier case
			default:
				isFloat = true
				fq = float64(iq) / v // guarded by the earlier case
			}
		}
	}
	if isFloat {
		return fq
	}
	return iq
}

func ifGuard(a, b float64, n int) (float64, int) {
	if b != 0.0 {
		a = a / b
	}
	if n == 0 {
		return a, 0
	}
	return a, 10 % n
}

func reassigned(a float64, n int) float64 {
	if n == 0 {
		return 0
	}
	n--
	return a / float64(n) // the test is stale: reported
}
`

// divExceptions: sites confirmed by reading, keyed rel.func:divisor.
var divExceptions = map[string]string{
	"jp.expandStack:len(mv)": "mixed-radix digit extraction: the radices are the lengths of the multi-valued operands and the caller iterates product-of-lengths times, so an empty operand means zero iterations (M-radix decides the enumeration)",
}

// ruleDivGuard: scopes are "rel" (whole package) or "rel:file.go" (one file); intTraps lists the packages
// in which an integer trap is turned into an error by a recover frame.
func ruleDivGuard(prog *Program, rep *Report, scopes []string, intTraps map[string]bool, floor int) {
	rep.Rules = append(rep.Rules, "Q-divzero: every division or remainder by a runtime value in the plan functions (asm) and in the filter script evaluator (jp/script.go) is safe against a zero divisor: an integer division may rely on the trap only where a recover frame turns it into the documented error (asm, E-recover); everywhere else, and for every floating-point division (which yields Inf/NaN silently instead of the error the descriptions promise), the divisor - conversions stripped - is tested against zero by an enclosing `if d != 0`, an earlier `case d == 0:` of the same tagless switch, or an earlier `if d == 0 { leave }` with no assignment to d in between")
	ff, finfo, _, err := loadFixture(fixtureDiv)
	if err != nil {
		rep.Errorf("Q-divzero: positive-control fixture does not type-check: %v", err)
		return
	}
	var got []string
	for _, s := range matchDivSites(ff, finfo, nil) {
		st := "unguarded"
		if s.guarded != "" {
			st = "guarded"
		}
		kind := "int"
		if s.float {
			kind = "float"
		}
		got = append(got, fmt.Sprintf("%s:%s:%s:%s", s.fn, s.divisor, kind, st))
	}
	sort.Strings(got)
	want := "ifGuard:b:float:guarded ifGuard:n:int:guarded quotient:v:float:guarded quotient:v:float:guarded quotient:v:float:unguarded quotient:v:int:unguarded reassigned:n:float:unguarded"
	if strings.Join(got, " ") != want {
		rep.Errorf("Q-divzero: the positive-control fixture produced [%s] (want [%s]): the matcher no longer sees the construct", strings.Join(got, " "), want)
		return
	}
	rep.Discharge("Q-divzero", "positive-control", "checker/rules_div.go", "fixture: unguarded float division and stale test reported, the three guard idioms accepted")
	total := 0
	for _, sc := range scopes {
		rel, file := sc, ""
		if i := strings.Index(sc, ":"); i >= 0 {
			rel, file = sc[:i], sc[i+1:]
		}
		pk := prog.Pkg(rel)
		if pk == nil {
			rep.Errorf("Q-divzero: package %s not loaded", rel)
			continue
		}
		var files []*ast.File
		for _, f := range pk.Syntax {
			name := prog.Fset.Position(f.Pos()).Filename
			if strings.HasSuffix(name, "_test.go") {
				continue
			}
			if file == "" || strings.HasSuffix(name, "/"+file) {
				files = append(files, f)
			}
		}
		sites := matchDivSites(files, pk.TypesInfo, nil)
		sort.Slice(sites, func(i, j int) bool { return sites[i].pos < sites[j].pos })
		count := map[string]int{}
		for _, s := range sites {
			total++
			base := fmt.Sprintf("%s.%s:%s", rel, s.fn, s.divisor)
			count[base]++
			key := fmt.Sprintf("%s#%d", base, count[base])
			pos := prog.Pos(s.pos)
			switch {
			case s.guarded != "":
				rep.Discharge("Q-divzero", key, pos, s.guarded)
			case divExceptions[base] != "":
				rep.Discharge("Q-divzero", key, pos, "listed exception: "+divExceptions[base])
			case !s.float && intTraps[rel]:
				rep.Discharge("Q-divzero", key, pos, "integer operation: a zero divisor traps and the recover frame of Plan.Execute returns it as the error")
			case s.float:
				rep.Violate(Finding{Rule: "Q-divzero", Key: key, Pos: pos, Msg: fmt.Sprintf("%s divides a floating-point value by %s without testing it against zero: the result is silently Inf or NaN where the integer form of the same operation raises an error (and the description promises one)", s.fn, s.divisor)})
			default:
				rep.Violate(Finding{Rule: "Q-divzero", Key: key, Pos: pos, Msg: fmt.Sprintf("%s divides an integer by %s without testing it against zero and nothing recovers here: a zero divisor panics", s.fn, s.divisor)})
			}
		}
	}
	rep.Eval(total)
	if total < floor {
		rep.Errorf("Q-divzero examined %d division sites (floor %d): anchors did not resolve", total, floor)
	}
}
