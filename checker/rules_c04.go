package main

import (
	"fmt"
	"go/ast"
	"go/token"
	"go/types"
	"sort"
	"strings"

	"golang.org/x/tools/go/packages"
)

func init() { rules["C04"] = ruleC04 }

func ruleC04(prog *Program, rep *Report) {
	rep.Explain("C04 decides structural clauses of 'writers emit valid JSON': (1) string escaping is total and exact per byte against RFC 8259 section 7 (G-json); (2) the in-memory and the streaming entry of each Writer configure the encoder identically (W-parity: their statement lists differ only in statements about the io.Writer, the flush threshold and the result); (3) every object emitter selected under the Sort option sorts the keys before the emitting loop and never emits from a range over the map (W-sort); (4) every slice of the constant indentation strings with a computed bound is preceded by the clamp to the string's length (W-clamp: depth beyond the indentation string). Not covered: that the text parses back to an equal tree, number formatting, retraction safety under mid-stream flush, pretty layout arithmetic.")
	ruleJSONStringWriter(prog, rep)
	ruleWriterParity(prog, rep)
	ruleSortedEmit(prog, rep)
	ruleClamp(prog, rep)
	ruleSeparator(prog, rep)
	ruleTail(prog, rep, 12, "oj")
	// a Writer shared through the pool or left half-configured by the previous call does not emit the text of the in-memory call
	rulePoolPut(prog, rep, "oj.Writer", "pretty.Writer")
	ruleReturnAlias(prog, rep, "C04", "oj", "pretty")
	ruleEntryParity(prog, rep, "oj.Writer")
}

func mentionsField(n ast.Node, names map[string]bool) bool {
	found := false
	ast.Inspect(n, func(k ast.Node) bool {
		if sel, ok := k.(*ast.SelectorExpr); ok && names[sel.Sel.Name] {
			found = true
		}
		return true
	})
	return found
}

// ruleWriterParity: MustJSON vs MustWrite (oj), MustSEN vs MustWrite (sen).
func ruleWriterParity(prog *Program, rep *Report) {
	rep.Rules = append(rep.Rules, "W-parity: the top-level statements of a Writer's in-memory entry (MustJSON / MustSEN) and of its streaming entry (MustWrite) are the same multiset after printing, except for statements that mention the io.Writer field, the WriteLimit option or return the buffer: every formatting option selects the same emitters in both")
	for _, g := range []struct{ rel, mem, stream string }{{"oj", "MustJSON", "MustWrite"}, {"sen", "MustSEN", "MustWrite"}} {
		pk := prog.Pkg(g.rel)
		if pk == nil {
			rep.Errorf("package %s missing", g.rel)
			continue
		}
		a, _ := prog.FuncDecl(Method(pk, "Writer", g.mem))
		b, _ := prog.FuncDecl(Method(pk, "Writer", g.stream))
		if a == nil || b == nil {
			rep.Errorf("%s.Writer.%s/%s not found", g.rel, g.mem, g.stream)
			continue
		}
		// the io.Writer field: the field assigned from the io.Writer parameter in the streaming entry
		special := map[string]bool{"WriteLimit": true}
		info := pk.TypesInfo
		ast.Inspect(b.Body, func(k ast.Node) bool {
			if as, ok := k.(*ast.AssignStmt); ok && len(as.Lhs) == 1 && len(as.Rhs) == 1 {
				if sel, ok := as.Lhs[0].(*ast.SelectorExpr); ok {
					if o := useObj(info, as.Rhs[0]); o != nil && b.Type.Params != nil {
						for _, fl := range b.Type.Params.List {
							for _, n := range fl.Names {
								if info.Defs[n] == o {
									if nt, ok := o.Type().(*types.Named); ok && nt.Obj().Name() == "Writer" && nt.Obj().Pkg().Path() == "io" {
										special[sel.Sel.Name] = true
									}
								}
							}
						}
					}
				}
			}
			return true
		})
		count := func(fd *ast.FuncDecl) map[string]int {
			m := map[string]int{}
			for _, s := range fd.Body.List {
				if _, isRet := s.(*ast.ReturnStmt); isRet {
					continue
				}
				if mentionsField(s, special) {
					continue
				}
				m[wsRe.ReplaceAllString(printNode(prog.Fset, s), " ")]++
			}
			return m
		}
		ma, mb := count(a), count(b)
		key := fmt.Sprintf("%s.Writer.%s=%s", g.rel, g.mem, g.stream)
		var diffs []string
		for s, c := range ma {
			if mb[s] != c {
				diffs = append(diffs, g.mem+": "+shorten(s))
			}
		}
		for s, c := range mb {
			if ma[s] != c {
				diffs = append(diffs, g.stream+": "+shorten(s))
			}
		}
		sort.Strings(diffs)
		if len(diffs) == 0 {
			rep.Discharge("W-parity", key, prog.Pos(a.Pos()), fmt.Sprintf("%d configuration statements identical", len(ma)))
		} else {
			rep.Violate(Finding{Rule: "W-parity", Key: key, Pos: prog.Pos(b.Pos()), Msg: "the in-memory and the streaming entry configure the encoder differently, so Write does not emit the text of the in-memory call: " + strings.Join(diffs, " | ")})
		}
	}
}

func shorten(s string) string {
	if len(s) > 90 {
		return s[:90] + "..."
	}
	return s
}

// ruleSortedEmit: emitters chosen under Sort must sort before emitting.
func ruleSortedEmit(prog *Program, rep *Report) {
	rep.Rules = append(rep.Rules, "W-sort: every function assigned to an emitter field in the then-branch of `if <writer>.Sort` (and every function that itself tests <writer>.Sort) calls a sort function on the key slice before the loop that appends to the output, and that loop ranges over the sorted slice, not over the map")
	n := 0
	for _, rel := range []string{"oj", "sen"} {
		pk := prog.Pkg(rel)
		if pk == nil {
			continue
		}
		info := pk.TypesInfo
		chosen := map[*types.Func]bool{}
		for _, f := range pk.Syntax {
			ast.Inspect(f, func(k ast.Node) bool {
				is, ok := k.(*ast.IfStmt)
				if !ok {
					return true
				}
				sel, ok := ast.Unparen(is.Cond).(*ast.SelectorExpr)
				if !ok || sel.Sel.Name != "Sort" {
					return true
				}
				for _, s := range is.Body.List {
					if as, ok := s.(*ast.AssignStmt); ok && len(as.Rhs) == 1 {
						if fn, ok := info.Uses[identOf(as.Rhs[0])].(*types.Func); ok {
							chosen[fn] = true
						}
					}
				}
				return true
			})
		}
		var fns []*types.Func
		for fn := range chosen {
			fns = append(fns, fn)
		}
		sort.Slice(fns, func(i, j int) bool { return fns[i].Name() < fns[j].Name() })
		for _, fn := range fns {
			fd, _ := prog.FuncDecl(fn)
			if fd == nil {
				continue
			}
			n++
			key := rel + "." + fn.Name() + ":sorted"
			var sortPos token.Pos
			var sorted types.Object
			ast.Inspect(fd.Body, func(k ast.Node) bool {
				c, ok := k.(*ast.CallExpr)
				if !ok || len(c.Args) == 0 {
					return true
				}
				if sel, ok := c.Fun.(*ast.SelectorExpr); ok {
					if f, ok := info.Uses[sel.Sel].(*types.Func); ok && f.Pkg() != nil && f.Pkg().Path() == "sort" && !sortPos.IsValid() {
						sortPos = c.Pos()
						sorted = useObj(info, c.Args[0])
					}
				}
				return true
			})
			bad := ""
			if !sortPos.IsValid() {
				bad = "never sorts the keys"
			} else {
				emitted := false
				ast.Inspect(fd.Body, func(k ast.Node) bool {
					rs, ok := k.(*ast.RangeStmt)
					if !ok {
						return true
					}
					emits := false
					ast.Inspect(rs.Body, func(q ast.Node) bool {
						if c, ok := q.(*ast.CallExpr); ok {
							if id, ok := c.Fun.(*ast.Ident); ok && id.Name == "append" && len(c.Args) > 0 {
								if sel, ok := c.Args[0].(*ast.SelectorExpr); ok && sel.Sel.Name == "buf" {
									emits = true
								}
							}
						}
						return true
					})
					if !emits {
						return true
					}
					if _, isMap := info.TypeOf(rs.X).Underlying().(*types.Map); isMap {
						bad = "emits from a range over the map (iteration order)"
					} else if rs.Pos() < sortPos {
						bad = "emits before the keys are sorted"
					} else if useObj(info, rs.X) == sorted {
						emitted = true
					}
					return true
				})
				if bad == "" && !emitted {
					bad = "does not emit from the slice it sorted"
				}
			}
			if bad != "" {
				rep.Violate(Finding{Rule: "W-sort", Key: key, Pos: prog.Pos(fd.Pos()), Msg: "the emitter selected by the Sort option " + bad + ": with Sort the text is not deterministic / not in ascending key order"})
			} else {
				rep.Discharge("W-sort", key, prog.Pos(fd.Pos()), "sorts the keys and emits from the sorted slice")
			}
		}
	}
	if n < 4 {
		rep.Errorf("W-sort found %d emitters selected under Sort (floor 4)", n)
	}
}

// ruleClamp: computed slices of the indentation constants are clamped.
func ruleClamp(prog *Program, rep *Report) {
	rep.Rules = append(rep.Rules, "W-clamp: every slice S[lo:x] of a package-level string (the indentation strings) whose upper bound x is a variable is preceded in the same block, after the last assignment of x, by `if len(S) < x { x = len(S) }` (or the mirrored comparison): nesting deeper than the indentation string must not slice out of range")
	n := 0
	for _, rel := range []string{"oj", "sen", "pretty"} {
		pk := prog.Pkg(rel)
		if pk == nil {
			continue
		}
		n += clampIn(prog, pk, rel, rep)
	}
	if n < 20 {
		rep.Errorf("W-clamp found %d computed slices of package-level strings (floor 20)", n)
	}
}

func clampIn(prog *Program, pk *packages.Package, rel string, rep *Report) int {
	info := pk.TypesInfo
	n := 0
	for _, f := range pk.Syntax {
		for _, d := range f.Decls {
			fd, ok := d.(*ast.FuncDecl)
			if !ok || fd.Body == nil {
				continue
			}
			idx := 0
			ast.Inspect(fd.Body, func(k ast.Node) bool {
				var list []ast.Stmt
				switch b := k.(type) {
				case *ast.BlockStmt:
					list = b.List
				case *ast.CaseClause:
					list = b.Body
				default:
					return true
				}
				for i, st := range list {
					// slices directly in this statement (not in nested blocks)
					ast.Inspect(st, func(q ast.Node) bool {
						if _, isBlk := q.(*ast.BlockStmt); isBlk {
							return false
						}
						se, ok := q.(*ast.SliceExpr)
						if !ok || se.High == nil {
							return true
						}
						so := useObj(info, se.X)
						if so == nil || so.Parent() != pk.Types.Scope() {
							return true
						}
						if b, ok := so.Type().Underlying().(*types.Basic); !ok || b.Info()&types.IsString == 0 {
							return true
						}
						xo := useObj(info, se.High)
						if xo == nil {
							return true // constant or expression bound
						}
						if _, isVar := xo.(*types.Var); !isVar {
							return true
						}
						n++
						idx++
						key := fmt.Sprintf("%s.%s:clamp#%d", rel, funcKey(fd), idx)
						clamped := false
						for j := i - 1; j >= 0; j-- {
							if as, ok := list[j].(*ast.AssignStmt); ok {
								assignsX := false
								for _, l := range as.Lhs {
									if useObj(info, l) == xo {
										assignsX = true
									}
								}
								if assignsX {
									break
								}
							}
							if is, ok := list[j].(*ast.IfStmt); ok && is.Else == nil && len(is.Body.List) == 1 {
								be, ok := ast.Unparen(is.Cond).(*ast.BinaryExpr)
								if !ok {
									continue
								}
								isLenS := func(e ast.Expr) bool {
									c, ok := ast.Unparen(e).(*ast.CallExpr)
									return ok && isLenCall(c) && useObj(info, c.Args[0]) == so
								}
								condOK := (be.Op == token.LSS && isLenS(be.X) && useObj(info, be.Y) == xo) || (be.Op == token.GTR && isLenS(be.Y) && useObj(info, be.X) == xo)
								if as, ok := is.Body.List[0].(*ast.AssignStmt); ok && condOK && len(as.Lhs) == 1 && len(as.Rhs) == 1 && useObj(info, as.Lhs[0]) == xo && isLenS(as.Rhs[0]) {
									clamped = true
									break
								}
							}
						}
						if !clamped {
							// other idiom: the slice sits in the else-branch of `if len(S) < x { ... } else { ... }`
							ast.Inspect(fd.Body, func(g ast.Node) bool {
								is, ok := g.(*ast.IfStmt)
								if !ok || is.Else == nil || !nodeWithin(is.Else, se) {
									return true
								}
								if be, ok := ast.Unparen(is.Cond).(*ast.BinaryExpr); ok {
									isLenS := func(e ast.Expr) bool {
										c, ok := ast.Unparen(e).(*ast.CallExpr)
										return ok && isLenCall(c) && useObj(info, c.Args[0]) == so
									}
									if (be.Op == token.LSS && isLenS(be.X) && useObj(info, be.Y) == xo) || (be.Op == token.GTR && isLenS(be.Y) && useObj(info, be.X) == xo) {
										clamped = true
									}
								}
								return true
							})
						}
						if clamped {
							rep.Discharge("W-clamp", key, prog.Pos(se.Pos()), "bound clamped to the string's length")
						} else {
							rep.Violate(Finding{Rule: "W-clamp", Key: fmt.Sprintf("%s.%s:unclamped:%s[%s]", rel, funcKey(fd), so.Name(), xo.Name()), Pos: prog.Pos(se.Pos()), Msg: fmt.Sprintf("%s[..:%s] is sliced with a computed bound that is not clamped to len(%s) just before: data nested deeper than the indentation string panics with slice bounds out of range", so.Name(), xo.Name(), so.Name())})
						}
						return true
					})
				}
				return true
			})
		}
	}
	return n
}
