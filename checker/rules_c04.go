package main

import (
	"fmt"
	"go/ast"
	"go/token"
	"go/types"
	"sort"
	"strings"

	"golang.org/x/tools/go/packages"
)

func init() { rules["C04"] = ruleC04 }

func ruleC04(prog *Program, rep *Report) {
	rep.Explain("C04 decides structural clauses of 'writers emit valid JSON': (1) string escaping is total and exact per byte against RFC 8259 section 7 (G-json); (2) the in-memory and the streaming entry of each Writer configure the encoder identically (W-parity: their statement lists differ only in statements about the io.Writer, the flush threshold and the result); (3) every object emitter selected under the Sort option sorts the keys before the emitting loop and never emits from a range over the map (W-sort); (4) every slice of the constant indentation strings with a computed bound is preceded by the clamp to the string's length (W-clamp: depth beyond the indentation string). Not covered: that the text parses back to an equal tree, number formatting, retraction safety under mid-stream flush, pretty layout arithmetic.")
	ruleJSONStringWriter(prog, rep)
	ruleWriterParity(prog, rep)
	ruleEntryPairWriters(prog, rep)
	ruleEscapeDiscipline(prog, rep, "AppendJSONString")
	ruleSortedEmit(prog, rep)
	ruleClamp(prog, rep)
	ruleSeparator(prog, rep)
	ruleTail(prog, rep, 12, "oj")
	rulePadBound(prog, rep)
	ruleFlatSeparator(prog, rep)
	ruleGenTwins(prog, rep, 1, "pretty", "oj", "sen", "alt", "jp", "asm", "gen", "")
	ruleRecvGuard(prog, rep, 4, "gen")               // an empty generic array is written as [], not as null
	ruleFloatNarrow(prog, rep, "pretty", "oj")       // a float64 (or gen.Float) written through float32 loses digits, or becomes +Inf, which is not JSON
	ruleTightAppendTwins(prog, rep, "oj")            // the four object emitters omit the same members
	ruleBorrowedWrites(prog, rep)                    // a caller's Writer left in strict mode writes null for an empty array afterwards
	ruleGlobalReturn(prog, rep, 5, "pretty", "oj")   // the layout nodes a builder hands out are filled in by its caller (key, members)
	ruleFlagConsist(prog, rep, 3, "oj", "gen")       // pickWriter and friends: the in-memory and streaming entries pass their fixed flags alike
	ruleSelfRec(prog, rep, 2, "gen", "oj", "pretty") // the writers simplify generic nodes through gen's copying walk
	// a Writer shared through the pool or left half-configured by the previous call does not emit the text of the in-memory call
	rulePoolPut(prog, rep, "oj.Writer", "pretty.Writer")
	ruleReturnAlias(prog, rep, "C04", "oj", "pretty")
	ruleEntryParity(prog, rep, "oj.Writer")
}

func mentionsField(n ast.Node, names map[string]bool) bool {
	found := false
	ast.Inspect(n, func(k ast.Node) bool {
		if sel, ok := k.(*ast.SelectorExpr); ok && names[sel.Sel.Name] {
			found = true
		}
		return true
	})
	return found
}

// ruleWriterParity: MustJSON vs MustWrite (oj), MustSEN vs MustWrite (sen).
func ruleWriterParity(prog *Program, rep *Report) {
	rep.Rules = append(rep.Rules, "W-parity: the top-level statements of a Writer's in-memory entry (MustJSON / MustSEN) and of its streaming entry (MustWrite) are the same multiset after printing, except for statements that mention the io.Writer field, the WriteLimit option or return the buffer: every formatting option selects the same emitters in both")
	for _, g := range []struct{ rel, mem, stream string }{{"oj", "MustJSON", "MustWrite"}, {"sen", "MustSEN", "MustWrite"}} {
		pk := prog.Pkg(g.rel)
		if pk == nil {
			rep.Errorf("package %s missing", g.rel)
			continue
		}
		a, _ := prog.FuncDecl(Method(pk, "Writer", g.mem))
		b, _ := prog.FuncDecl(Method(pk, "Writer", g.stream))
		if a == nil || b == nil {
			rep.Errorf("%s.Writer.%s/%s not found", g.rel, g.mem, g.stream)
			continue
		}
		// the io.Writer field: the field assigned from the io.Writer parameter in the streaming entry
		special := map[string]bool{"WriteLimit": true}
		info := pk.TypesInfo
		ast.Inspect(b.Body, func(k ast.Node) bool {
			if as, ok := k.(*ast.AssignStmt); ok && len(as.Lhs) == 1 && len(as.Rhs) == 1 {
				if sel, ok := as.Lhs[0].(*ast.SelectorExpr); ok {
					if o := useObj(info, as.Rhs[0]); o != nil && b.Type.Params != nil {
						for _, fl := range b.Type.Params.List {
							for _, n := range fl.Names {
								if info.Defs[n] == o {
									if nt, ok := o.Type().(*types.Named); ok && nt.Obj().Name() == "Writer" && nt.Obj().Pkg().Path() == "io" {
										special[sel.Sel.Name] = true
									}
								}
							}
						}
					}
				}
			}
			return true
		})
		count := func(fd *ast.FuncDecl) map[string]int {
			m := map[string]int{}
			for _, s := range fd.Body.List {
				if _, isRet := s.(*ast.ReturnStmt); isRet {
					continue
				}
				if mentionsField(s, special) {
					continue
				}
				m[wsRe.ReplaceAllString(printNode(prog.Fset, s), " ")]++
			}
			return m
		}
		ma, mb := count(a), count(b)
		key := fmt.Sprintf("%s.Writer.%s=%s", g.rel, g.mem, g.stream)
		var diffs []string
		for s, c := range ma {
			if mb[s] != c {
				diffs = append(diffs, g.mem+": "+shorten(s))
			}
		}
		for s, c := range mb {
			if ma[s] != c {
				diffs = append(diffs, g.stream+": "+shorten(s))
			}
		}
		sort.Strings(diffs)
		if len(diffs) == 0 {
			rep.Discharge("W-parity", key, prog.Pos(a.Pos()), fmt.Sprintf("%d configuration statements identical", len(ma)))
		} else {
			rep.Violate(Finding{Rule: "W-parity", Key: key, Pos: prog.Pos(b.Pos()), Msg: "the in-memory and the streaming entry configure the encoder differently, so Write does not emit the text of the in-memory call: " + strings.Join(diffs, " | ")})
		}
	}
}

func shorten(s string) string {
	if len(s) > 90 {
		return s[:90] + "..."
	}
	return s
}

// ruleSortedEmit: emitters chosen under Sort must sort before emitting.
func ruleSortedEmit(prog *Program, rep *Report) {
	rep.Rules = append(rep.Rules, "W-sort: every function assigned to an emitter field in the then-branch of `if <writer>.Sort` (and every function that itself tests <writer>.Sort) calls a sort function on the key slice before the loop that appends to the output, and that loop ranges over the sorted slice, not over the map")
	n := 0
	for _, rel := range []string{"oj", "sen"} {
		pk := prog.Pkg(rel)
		if pk == nil {
			continue
		}
		info := pk.TypesInfo
		chosen := map[*types.Func]bool{}
		for _, f := range pk.Syntax {
			ast.Inspect(f, func(k ast.Node) bool {
				is, ok := k.(*ast.IfStmt)
				if !ok {
					return true
				}
				sel, ok := ast.Unparen(is.Cond).(*ast.SelectorExpr)
				if !ok || sel.Sel.Name != "Sort" {
					return true
				}
				for _, s := range is.Body.List {
					if as, ok := s.(*ast.AssignStmt); ok && len(as.Rhs) == 1 {
						if fn, ok := info.Uses[identOf(as.Rhs[0])].(*types.Func); ok {
							chosen[fn] = true
						}
					}
				}
				return true
			})
		}
		var fns []*types.Func
		for fn := range chosen {
			fns = append(fns, fn)
		}
		sort.Slice(fns, func(i, j int) bool { return fns[i].Name() < fns[j].Name() })
		for _, fn := range fns {
			fd, _ := prog.FuncDecl(fn)
			if fd == nil {
				continue
			}
			n++
			key := rel + "." + fn.Name() + ":sorted"
			var sortPos token.Pos
			var sorted types.Object
			ast.Inspect(fd.Body, func(k ast.Node) bool {
				c, ok := k.(*ast.CallExpr)
				if !ok || len(c.Args) == 0 {
					return true
				}
				if sel, ok := c.Fun.(*ast.SelectorExpr); ok {
					if f, ok := info.Uses[sel.Sel].(*types.Func); ok && f.Pkg() != nil && f.Pkg().Path() == "sort" && !sortPos.IsValid() {
						sortPos = c.Pos()
						sorted = useObj(info, c.Args[0])
					}
				}
				return true
			})
			bad := ""
			if !sortPos.IsValid() {
				bad = "never sorts the keys"
			} else {
				emitted := false
				ast.Inspect(fd.Body, func(k ast.Node) bool {
					rs, ok := k.(*ast.RangeStmt)
					if !ok {
						return true
					}
					emits := false
					ast.Inspect(rs.Body, func(q ast.Node) bool {
						if c, ok := q.(*ast.CallExpr); ok {
							if id, ok := c.Fun.(*ast.Ident); ok && id.Name == "append" && len(c.Args) > 0 {
								if sel, ok := c.Args[0].(*ast.SelectorExpr); ok && sel.Sel.Name == "buf" {
									emits = true
								}
							}
						}
						return true
					})
					if !emits {
						return true
					}
					if _, isMap := info.TypeOf(rs.X).Underlying().(*types.Map); isMap {
						bad = "emits from a range over the map (iteration order)"
					} else if rs.Pos() < sortPos {
						bad = "emits before the keys are sorted"
					} else if useObj(info, rs.X) == sorted {
						emitted = true
					}
					return true
				})
				if bad == "" && !emitted {
					bad = "does not emit from the slice it sorted"
				}
			}
			if bad != "" {
				rep.Violate(Finding{Rule: "W-sort", Key: key, Pos: prog.Pos(fd.Pos()), Msg: "the emitter selected by the Sort option " + bad + ": with Sort the text is not deterministic / not in ascending key order"})
			} else {
				rep.Discharge("W-sort", key, prog.Pos(fd.Pos()), "sorts the keys and emits from the sorted slice")
			}
		}
	}
	if n < 4 {
		rep.Errorf("W-sort found %d emitters selected under Sort (floor 4)", n)
	}
}

// ruleClamp: computed slices of the indentation constants are clamped.
func ruleClamp(prog *Program, rep *Report) {
	rep.Rules = append(rep.Rules, "W-clamp: every slice S[lo:x] of a package-level string (the indentation strings) whose upper bound x is a variable is preceded in the same block, after the last assignment of x, by `if len(S) < x { x = len(S) }` (or the mirrored comparison): nesting deeper than the indentation string must not slice out of range")
	n := 0
	for _, rel := range []string{"oj", "sen", "pretty"} {
		pk := prog.Pkg(rel)
		if pk == nil {
			continue
		}
		n += clampIn(prog, pk, rel, rep)
	}
	if n < 20 {
		rep.Errorf("W-clamp found %d computed slices of package-level strings (floor 20)", n)
	}
}

func clampIn(prog *Program, pk *packages.Package, rel string, rep *Report) int {
	info := pk.TypesInfo
	n := 0
	for _, f := range pk.Syntax {
		for _, d := range f.Decls {
			fd, ok := d.(*ast.FuncDecl)
			if !ok || fd.Body == nil {
				continue
			}
			idx := 0
			ast.Inspect(fd.Body, func(k ast.Node) bool {
				var list []ast.Stmt
				switch b := k.(type) {
				case *ast.BlockStmt:
					list = b.List
				case *ast.CaseClause:
					list = b.Body
				default:
					return true
				}
				for i, st := range list {
					// slices directly in this statement (not in nested blocks)
					ast.Inspect(st, func(q ast.Node) bool {
						if _, isBlk := q.(*ast.BlockStmt); isBlk {
							return false
						}
						se, ok := q.(*ast.SliceExpr)
						if !ok || se.High == nil {
							return true
						}
						so := useObj(info, se.X)
						if so == nil || so.Parent() != pk.Types.Scope() {
							return true
						}
						if b, ok := so.Type().Underlying().(*types.Basic); !ok || b.Info()&types.IsString == 0 {
							return true
						}
						xo := useObj(info, se.High)
						if xo == nil {
							return true // constant or expression bound
						}
						if _, isVar := xo.(*types.Var); !isVar {
							return true
						}
						n++
						idx++
						key := fmt.Sprintf("%s.%s:clamp#%d", rel, funcKey(fd), idx)
						clamped := false
						for j := i - 1; j >= 0; j-- {
							if as, ok := list[j].(*ast.AssignStmt); ok {
								assignsX := false
								for _, l := range as.Lhs {
									if useObj(info, l) == xo {
										assignsX = true
									}
								}
								if assignsX {
									break
								}
							}
							if is, ok := list[j].(*ast.IfStmt); ok && is.Else == nil && len(is.Body.List) == 1 {
								be, ok := ast.Unparen(is.Cond).(*ast.BinaryExpr)
								if !ok {
									continue
								}
								isLenS := func(e ast.Expr) bool {
									c, ok := ast.Unparen(e).(*ast.CallExpr)
									return ok && isLenCall(c) && useObj(info, c.Args[0]) == so
								}
								condOK := (be.Op == token.LSS && isLenS(be.X) && useObj(info, be.Y) == xo) || (be.Op == token.GTR && isLenS(be.Y) && useObj(info, be.X) == xo)
								if as, ok := is.Body.List[0].(*ast.AssignStmt); ok && condOK && len(as.Lhs) == 1 && len(as.Rhs) == 1 && useObj(info, as.Lhs[0]) == xo && isLenS(as.Rhs[0]) {
									clamped = true
									break
								}
							}
						}
						if !clamped {
							// other idiom: the slice sits in the else-branch of `if len(S) < x { ... } else { ... }`
							ast.Inspect(fd.Body, func(g ast.Node) bool {
								is, ok := g.(*ast.IfStmt)
								if !ok || is.Else == nil || !nodeWithin(is.Else, se) {
									return true
								}
								if be, ok := ast.Unparen(is.Cond).(*ast.BinaryExpr); ok {
									isLenS := func(e ast.Expr) bool {
										c, ok := ast.Unparen(e).(*ast.CallExpr)
										return ok && isLenCall(c) && useObj(info, c.Args[0]) == so
									}
									if (be.Op == token.LSS && isLenS(be.X) && useObj(info, be.Y) == xo) || (be.Op == token.GTR && isLenS(be.Y) && useObj(info, be.X) == xo) {
										clamped = true
									}
								}
								return true
							})
						}
						if clamped {
							rep.Discharge("W-clamp", key, prog.Pos(se.Pos()), "bound clamped to the string's length")
						} else {
							rep.Violate(Finding{Rule: "W-clamp", Key: fmt.Sprintf("%s.%s:unclamped:%s[%s]", rel, funcKey(fd), so.Name(), xo.Name()), Pos: prog.Pos(se.Pos()), Msg: fmt.Sprintf("%s[..:%s] is sliced with a computed bound that is not clamped to len(%s) just before: data nested deeper than the indentation string panics with slice bounds out of range", so.Name(), xo.Name(), so.Name())})
						}
						return true
					})
				}
				return true
			})
		}
	}
	return n
}

// rulePadBound: W-padbound. Slices of a package-level string whose upper bound is an
// expression (the alignment pads of package pretty: spaces[1:cw-m.size+1]) cannot
// be clamped locally; what keeps them in range is that a pad never exceeds the
// writer's Width and that Width is clamped to len(S)-1 before anything is laid
// out. The rule checks the second half, which is visible in the code: a clamp
// `if len(S)-1 < w.F { w.F = len(S)-1 }` exists in a function G, and no exported
// function of the package reaches a pad site without passing through G.
func rulePadBound(prog *Program, rep *Report) {
	rep.Rules = append(rep.Rules, "W-padbound: in package pretty every slice S[lo:expr] of a package-level string with a computed (non-variable) upper bound lies in a function that exported functions reach only through the function holding the clamp `if len(S)-k < w.Width { w.Width = len(S)-k }` (k >= 0) (intra-package call graph over resolved callees): the alignment pads are bounded by Width, so Width must be bounded by the string before any layout")
	pk := prog.Pkg("pretty")
	if pk == nil {
		rep.Errorf("W-padbound: package pretty not loaded")
		return
	}
	info := pk.TypesInfo
	decls := map[types.Object]*ast.FuncDecl{}
	for _, f := range pk.Syntax {
		if strings.HasSuffix(prog.Fset.Position(f.Pos()).Filename, "_test.go") {
			continue
		}
		for _, d := range f.Decls {
			if fd, ok := d.(*ast.FuncDecl); ok && fd.Body != nil {
				decls[info.Defs[fd.Name]] = fd
			}
		}
	}
	// pad sites and clamps
	type site struct {
		fn  types.Object
		pos token.Pos
		str types.Object
		txt string
	}
	var sites []site
	clampFns := map[types.Object]map[types.Object]bool{} // string object -> functions holding a clamp for it
	for fo, fd := range decls {
		ast.Inspect(fd.Body, func(n ast.Node) bool {
			switch x := n.(type) {
			case *ast.SliceExpr:
				if x.High == nil {
					return true
				}
				so := useObj(info, x.X)
				if so == nil || so.Parent() != pk.Types.Scope() {
					return true
				}
				if b, ok := so.Type().Underlying().(*types.Basic); !ok || b.Info()&types.IsString == 0 {
					return true
				}
				if useObj(info, x.High) != nil {
					return true // single variable: W-clamp
				}
				if tv, ok := info.Types[x.High]; ok && tv.Value != nil {
					return true // constant
				}
				sites = append(sites, site{fn: fo, pos: x.Pos(), str: so, txt: types.ExprString(x)})
			case *ast.IfStmt:
				be, ok := ast.Unparen(x.Cond).(*ast.BinaryExpr)
				if !ok || x.Else != nil || len(x.Body.List) != 1 {
					return true
				}
				lhs, rhs, op := be.X, be.Y, be.Op
				if op == token.GTR {
					lhs, rhs, op = rhs, lhs, token.LSS
				}
				if op != token.LSS {
					return true
				}
				// lhs must be len(S) or len(S)-k, k a non-negative constant (the pads stay a few bytes below Width,
				// so a clamp to len(S) is as good as the len(S)-1 the code uses)
				lenExpr := ast.Unparen(lhs)
				if lm, ok := lenExpr.(*ast.BinaryExpr); ok {
					if lm.Op != token.SUB {
						return true
					}
					if tv, ok := info.Types[lm.Y]; !ok || tv.Value == nil || strings.HasPrefix(tv.Value.ExactString(), "-") {
						return true
					}
					lenExpr = ast.Unparen(lm.X)
				}
				call, ok := lenExpr.(*ast.CallExpr)
				if !ok || !isLenCall(call) {
					return true
				}
				so := useObj(info, call.Args[0])
				if so == nil || so.Parent() != pk.Types.Scope() {
					return true
				}
				as, ok := x.Body.List[0].(*ast.AssignStmt)
				if !ok || len(as.Lhs) != 1 || len(as.Rhs) != 1 {
					return true
				}
				if types.ExprString(as.Lhs[0]) != types.ExprString(rhs) || types.ExprString(as.Rhs[0]) != types.ExprString(lhs) {
					return true
				}
				if sel, ok := ast.Unparen(rhs).(*ast.SelectorExpr); !ok || sel.Sel.Name != "Width" {
					return true
				}
				if clampFns[so] == nil {
					clampFns[so] = map[types.Object]bool{}
				}
				clampFns[so][fo] = true
			}
			return true
		})
	}
	// intra-package call graph
	callees := map[types.Object]map[types.Object]bool{}
	for fo, fd := range decls {
		callees[fo] = map[types.Object]bool{}
		ast.Inspect(fd.Body, func(n ast.Node) bool {
			var o types.Object
			switch x := n.(type) {
			case *ast.Ident:
				o = info.Uses[x]
			case *ast.SelectorExpr:
				o = info.Uses[x.Sel]
			}
			if o != nil && decls[o] != nil {
				callees[fo][o] = true // called or taken as a value: both let control reach it
			}
			return true
		})
	}
	sort.Slice(sites, func(i, j int) bool { return sites[i].pos < sites[j].pos })
	for i, s := range sites {
		key := fmt.Sprintf("pretty.%s:pad#%d", funcKey(decls[s.fn]), i+1)
		clamps := clampFns[s.str]
		if len(clamps) == 0 {
			rep.Violate(Finding{Rule: "W-padbound", Key: fmt.Sprintf("pretty.%s:no-width-clamp:%s", funcKey(decls[s.fn]), s.str.Name()), Pos: prog.Pos(s.pos), Msg: fmt.Sprintf("%s is sliced with a computed bound and no function clamps the writer's Width to the length of %s: a Width beyond the string makes an alignment pad slice out of range", s.txt, s.str.Name())})
			continue
		}
		// exported functions that reach the site without passing through a clamp function
		var bad []string
		for fo, fd := range decls {
			if !fd.Name.IsExported() {
				continue
			}
			seen := map[types.Object]bool{}
			var reach func(o types.Object) bool
			reach = func(o types.Object) bool {
				if clamps[o] {
					return false
				}
				if o == s.fn {
					return true
				}
				if seen[o] {
					return false
				}
				seen[o] = true
				for c := range callees[o] {
					if reach(c) {
						return true
					}
				}
				return false
			}
			if reach(fo) {
				bad = append(bad, funcKey(fd))
			}
		}
		sort.Strings(bad)
		if len(bad) > 0 {
			rep.Violate(Finding{Rule: "W-padbound", Key: fmt.Sprintf("pretty.%s:reached-without-clamp:%s", funcKey(decls[s.fn]), strings.Join(bad, ",")), Pos: prog.Pos(s.pos), Msg: fmt.Sprintf("%s is reachable from %s without passing through the function that clamps Width to the length of %s", s.txt, strings.Join(bad, ", "), s.str.Name())})
			continue
		}
		// a pad of the form S[1 : A-B+1] needs B < A (or B <= A) around it: a cell wider than its column has no pad
		if g := padOperandGuard(info, decls[s.fn], s.pos); g != "" {
			rep.Violate(Finding{Rule: "W-padbound", Key: fmt.Sprintf("pretty.%s:pad-unguarded#%d", funcKey(decls[s.fn]), i+1), Pos: prog.Pos(s.pos), Msg: fmt.Sprintf("%s is sliced without the test %s around it: a member wider than its column makes the bound fall below the start of the slice (slice bounds out of range)", s.txt, g)})
			continue
		}
		var cn []string
		for o := range clamps {
			cn = append(cn, funcKey(decls[o]))
		}
		sort.Strings(cn)
		rep.Discharge("W-padbound", key, prog.Pos(s.pos), "every exported entry reaches it only through "+strings.Join(cn, ",")+", which clamps Width to the length of "+s.str.Name())
	}
	rep.Eval(len(sites))
	if len(sites) < 5 {
		rep.Errorf("W-padbound found %d computed pad slices (floor 5): anchors did not resolve", len(sites))
	}
}

// ruleEntryPairWriters: W-pair. The package-level in-memory function (oj.JSON, sen.String) and its streaming
// twin (oj.Write, sen.Write) must obtain their Writer the same way: the same helper with the same arguments and
// the same pool. A difference (one of them asking the helper for a strict writer) makes the streamed text
// differ from the in-memory text for the same data and options.
func ruleEntryPairWriters(prog *Program, rep *Report) {
	rep.Rules = append(rep.Rules, "W-pair: the package-level in-memory function and its streaming twin (oj.JSON / oj.Write, sen.String / sen.Write) obtain their Writer by textually equal calls (helper and arguments, pool): streaming emits the text of the in-memory call")
	pairs := 0
	for _, g := range []struct{ rel, mem, stream string }{{"oj", "JSON", "Write"}, {"sen", "String", "Write"}} {
		pk := prog.Pkg(g.rel)
		if pk == nil {
			rep.Errorf("W-pair: package %s missing", g.rel)
			continue
		}
		info := pk.TypesInfo
		sources := func(name string) ([]string, *ast.FuncDecl) {
			fd, _ := prog.FuncDecl(Func(pk, name))
			if fd == nil {
				return nil, nil
			}
			var out []string
			ast.Inspect(fd.Body, func(n ast.Node) bool {
				as, ok := n.(*ast.AssignStmt)
				if !ok || len(as.Rhs) != 1 || len(as.Lhs) < 1 {
					return true
				}
				t := info.TypeOf(as.Lhs[0])
				if t == nil {
					return true
				}
				if p, ok := t.(*types.Pointer); !ok {
					return true
				} else if n, ok := p.Elem().(*types.Named); !ok || n.Obj().Name() != "Writer" || n.Obj().Pkg() != pk.Types {
					return true
				}
				out = append(out, wsRe.ReplaceAllString(printNode(prog.Fset, as.Rhs[0]), " "))
				return true
			})
			sort.Strings(out)
			return out, fd
		}
		a, fa := sources(g.mem)
		b, fb := sources(g.stream)
		key := fmt.Sprintf("%s.%s=%s", g.rel, g.mem, g.stream)
		if fa == nil || fb == nil || len(a) == 0 {
			rep.Errorf("W-pair: %s: functions or writer sources not found", key)
			continue
		}
		pairs++
		if strings.Join(a, " ; ") == strings.Join(b, " ; ") {
			rep.Discharge("W-pair", key, prog.Pos(fb.Pos()), "writer obtained by: "+strings.Join(a, " ; "))
		} else {
			rep.Violate(Finding{Rule: "W-pair", Key: key, Pos: prog.Pos(fb.Pos()), Msg: fmt.Sprintf("%s.%s obtains its Writer by [%s] but %s.%s by [%s]: the streamed text is not the text of the in-memory call", g.rel, g.mem, strings.Join(a, " ; "), g.rel, g.stream, strings.Join(b, " ; "))})
		}
	}
	if pairs < 2 {
		rep.Errorf("W-pair compared %d pairs (floor 2)", pairs)
	}
}

// padOperandGuard: for the slice expression at pos with high bound A - B + 1, returns the missing guard text
// "B < A" when no enclosing if-condition states B < A or B <= A (either operand order), "" otherwise.
func padOperandGuard(info *types.Info, fd *ast.FuncDecl, pos token.Pos) string {
	missing := ""
	var path []ast.Node
	ast.Inspect(fd.Body, func(n ast.Node) bool {
		if n == nil {
			path = path[:len(path)-1]
			return true
		}
		path = append(path, n)
		se, ok := n.(*ast.SliceExpr)
		if !ok || se.Pos() != pos || se.High == nil {
			return true
		}
		add, ok := ast.Unparen(se.High).(*ast.BinaryExpr)
		if !ok || add.Op != token.ADD {
			return true
		}
		sub, ok := ast.Unparen(add.X).(*ast.BinaryExpr)
		if !ok || sub.Op != token.SUB {
			return true
		}
		a, b := types.ExprString(sub.X), types.ExprString(sub.Y)
		guarded := false
		for i := len(path) - 2; i >= 0; i-- {
			is, ok := path[i].(*ast.IfStmt)
			if !ok || !nodeWithin(is.Body, se) {
				continue
			}
			if be, ok := ast.Unparen(is.Cond).(*ast.BinaryExpr); ok {
				x, y := types.ExprString(be.X), types.ExprString(be.Y)
				if ((be.Op == token.LSS || be.Op == token.LEQ) && x == b && y == a) || ((be.Op == token.GTR || be.Op == token.GEQ) && x == a && y == b) {
					guarded = true
				}
			}
		}
		if !guarded {
			missing = b + " < " + a
		}
		return true
	})
	return missing
}

// ruleFlatSeparator: W-flatsep. pretty.Writer.fill chooses per container between the one-line
// ("flat") form, whose element separator cs is a space, and the multi-line form, whose
// separator is a newline plus indentation cut from the spaces string. When that string is too
// short for the depth it falls back: `flat = true`. Wherever flat is set to true after cs was
// decided, cs has to be set in the same statement list, otherwise the flat form is written with
// no separator at all (SEN: `[12]` for `[1 2]`).
func ruleFlatSeparator(prog *Program, rep *Report) {
	rep.Rules = append(rep.Rules, "W-flatsep: in pretty.Writer.fill every assignment flat = true that sits inside the else branch of `if flat { cs = ... }` (the late fall-back to the one-line form) is accompanied, in the same statement list, by an assignment of the element separator cs")
	pk := prog.Pkg("pretty")
	if pk == nil {
		rep.Errorf("W-flatsep: package pretty not loaded")
		return
	}
	fd, _ := prog.FuncDecl(Method(pk, "Writer", "fill"))
	if fd == nil {
		rep.Errorf("W-flatsep: pretty.Writer.fill not found")
		return
	}
	n := 0
	ast.Inspect(fd.Body, func(k ast.Node) bool {
		is, ok := k.(*ast.IfStmt)
		if !ok || types.ExprString(is.Cond) != "flat" || is.Else == nil {
			return true
		}
		ast.Inspect(is.Else, func(q ast.Node) bool {
			var list []ast.Stmt
			switch b := q.(type) {
			case *ast.BlockStmt:
				list = b.List
			case *ast.CaseClause:
				list = b.Body
			default:
				return true
			}
			setsFlat, setsCS := false, false
			var pos token.Pos
			for _, st := range list {
				as, ok := st.(*ast.AssignStmt)
				if !ok || len(as.Lhs) != 1 || len(as.Rhs) != 1 {
					continue
				}
				switch types.ExprString(as.Lhs[0]) {
				case "flat":
					if types.ExprString(as.Rhs[0]) == "true" {
						setsFlat = true
						pos = as.Pos()
					}
				case "cs":
					setsCS = true
				}
			}
			if setsFlat {
				n++
				key := fmt.Sprintf("pretty.Writer.fill:late-flat#%d", n)
				if setsCS {
					rep.Discharge("W-flatsep", key, prog.Pos(pos), "cs is set with flat")
				} else {
					rep.Violate(Finding{Rule: "W-flatsep", Key: key, Pos: prog.Pos(pos), Msg: "fill falls back to the one-line form here without setting the element separator: at this depth SEN elements are written with nothing between them"})
				}
			}
			return true
		})
		return true
	})
	rep.Eval(n)
	if n < 2 {
		rep.Errorf("W-flatsep found %d late fall-backs (floor 2)", n)
	}
}
