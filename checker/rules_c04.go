package main

func init() { rules["C04"] = ruleC04 }

func ruleC04(prog *Program, rep *Report) {
	rep.Explain("C04 decides structural clauses of 'writers emit valid JSON': (1) string escaping is total and exact per byte against RFC 8259 section 7 (G-json); further clauses are listed with their rules. Not covered: that the text parses back to an equal tree, number formatting, pretty layout arithmetic.")
	ruleJSONStringWriter(prog, rep)
}
