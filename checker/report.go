package main

import (
	"bufio"
	"encoding/json"
	"fmt"
	"os"
	"path/filepath"
	"sort"
	"strings"
	"time"
)

// Finding is one violated obligation. Key names the rule and the construct
// (never a line number) so that the known-findings file can list it without
// masking a different violation of the same property.
type Finding struct {
	Prop    string `json:"property"`
	Rule    string `json:"rule"`
	Key     string `json:"key"`
	Pos     string `json:"position_at_run"`
	Msg     string `json:"message"`
	Witness any    `json:"witness,omitempty"`
}

// Obligation is one discharged (or violated) rule instance, kept for evidence.
type Obligation struct {
	Rule string `json:"rule"`
	Key  string `json:"key"`
	Pos  string `json:"pos,omitempty"`
	How  string `json:"how"`
}

// Report accumulates what one check run decided.
type Report struct {
	Prop        string
	Tier        string
	Seed        int64
	Start       time.Time
	Findings    []Finding
	Errors      []string // checker could not decide (fail closed, exit 2)
	Obligations int
	Discharged  int
	Evaluations int
	keys        map[string]bool
	Samples     []any
	sampleCount map[string]int
	Explanation []string
	Rules       []string
	Assumptions []string
	Extra       map[string]any
	Analysed    map[string]any
}

func NewReport(prop, tier string, seed int64) *Report {
	return &Report{Prop: prop, Tier: tier, Seed: seed, Start: time.Now(), keys: map[string]bool{},
		sampleCount: map[string]int{}, Extra: map[string]any{}, Analysed: map[string]any{}}
}

func (r *Report) Errorf(format string, args ...any) {
	r.Errors = append(r.Errors, fmt.Sprintf(format, args...))
}

// Violate records a violated obligation.
func (r *Report) Violate(f Finding) {
	f.Prop = r.Prop
	for _, g := range r.Findings {
		if g.Key == f.Key {
			return // one finding per construct
		}
	}
	r.Obligations++
	r.keys[f.Key] = true
	r.Findings = append(r.Findings, f)
}

// Discharge records an obligation that was examined and holds. nontrivial
// keys are counted once each.
func (r *Report) Discharge(rule, key, pos, how string) {
	r.Obligations++
	r.Discharged++
	full := rule + "|" + key
	if !r.keys[full] {
		r.keys[full] = true
		if r.sampleCount[rule] < 4 {
			r.sampleCount[rule]++
			r.Samples = append(r.Samples, Obligation{Rule: rule, Key: key, Pos: pos, How: how})
		}
	}
}

func (r *Report) Eval(n int) { r.Evaluations += n }

func (r *Report) Explain(s string) { r.Explanation = append(r.Explanation, s) }

// Known findings --------------------------------------------------------

type knownEntry struct {
	kind string // known | fixed
	prop string
	key  string
	text string
}

func loadKnown(path string) ([]knownEntry, error) {
	f, err := os.Open(path)
	if err != nil {
		if os.IsNotExist(err) {
			return nil, nil
		}
		return nil, err
	}
	defer f.Close()
	var out []knownEntry
	sc := bufio.NewScanner(f)
	sc.Buffer(make([]byte, 1<<20), 1<<20)
	for sc.Scan() {
		line := strings.TrimSpace(sc.Text())
		if line == "" || strings.HasPrefix(line, "#") {
			continue
		}
		var e knownEntry
		switch {
		case strings.HasPrefix(line, "known:"):
			e.kind = "known"
			line = strings.TrimSpace(strings.TrimPrefix(line, "known:"))
		case strings.HasPrefix(line, "fixed:"):
			e.kind = "fixed"
			line = strings.TrimSpace(strings.TrimPrefix(line, "fixed:"))
		default:
			return nil, fmt.Errorf("known findings: unparsable line %q", line)
		}
		fields := strings.Fields(line)
		rest := []string{}
		for _, fl := range fields {
			switch {
			case strings.HasPrefix(fl, "property=") && e.prop == "":
				e.prop = strings.TrimPrefix(fl, "property=")
			case strings.HasPrefix(fl, "key=") && e.key == "" && e.kind == "known":
				e.key = strings.TrimPrefix(fl, "key=")
			default:
				rest = append(rest, fl)
			}
		}
		e.text = strings.Join(rest, " ")
		out = append(out, e)
	}
	return out, sc.Err()
}

// Finish prints the verdict lines, writes evidence and replay files and
// returns the process exit status.
func (r *Report) Finish(verifDir string) int {
	wall := time.Since(r.Start).Seconds()
	known, kerr := loadKnown(filepath.Join(verifDir, "KNOWN_FINDINGS.txt"))
	if kerr != nil {
		r.Errorf("%v", kerr)
	}
	knownKeys := map[string]knownEntry{}
	for _, k := range known {
		if k.kind == "known" && k.prop == r.Prop {
			knownKeys[k.key] = k
		}
	}
	sort.Slice(r.Findings, func(i, j int) bool { return r.Findings[i].Key < r.Findings[j].Key })
	var viol []Finding
	var knownHit []Finding
	for _, f := range r.Findings {
		if _, ok := knownKeys[f.Key]; ok {
			knownHit = append(knownHit, f)
		} else {
			viol = append(viol, f)
		}
	}
	evDir := filepath.Join(verifDir, "evidence")
	_ = os.MkdirAll(filepath.Join(evDir, "violations"), 0o755)
	// remove stale replay files of this property
	if old, _ := filepath.Glob(filepath.Join(evDir, "violations", r.Prop+"-*.json")); old != nil {
		for _, o := range old {
			_ = os.Remove(o)
		}
	}
	for _, f := range knownHit {
		fmt.Printf("KNOWN-FINDING: property=%s key=%s %s (%s)\n", r.Prop, f.Key, f.Msg, f.Pos)
	}
	samples := append([]any{}, r.Samples...)
	for i, f := range viol {
		path := filepath.Join(evDir, "violations", fmt.Sprintf("%s-%d.json", r.Prop, i+1))
		b, _ := json.MarshalIndent(f, "", " ")
		_ = os.WriteFile(path, b, 0o644)
		fmt.Printf("VIOLATION property=%s replay=%s\n", r.Prop, path)
		fmt.Printf("  rule=%s key=%s at %s: %s\n", f.Rule, f.Key, f.Pos, f.Msg)
		if f.Witness != nil {
			wb, _ := json.Marshal(f.Witness)
			fmt.Printf("  witness=%s\n", wb)
		}
		if i < 10 {
			samples = append(samples, map[string]any{"violation": f})
		}
	}
	for _, f := range knownHit {
		samples = append(samples, map[string]any{"known_finding": f})
	}
	for _, e := range r.Errors {
		fmt.Printf("ERROR property=%s checker could not decide: %s\n", r.Prop, e)
	}
	if len(samples) == 0 {
		samples = append(samples, "no obligations were generated")
	}
	distinct := 0
	for range r.keys {
		distinct++
	}
	cov := map[string]any{
		"explanation":         strings.Join(r.Explanation, " "),
		"obligations":         r.Obligations,
		"discharged":          r.Discharged,
		"evaluations":         r.Evaluations,
		"distinct_nontrivial": distinct,
		"rule":                strings.Join(r.Rules, " | "),
		"samples":             samples,
		"exhaustive":          true,
		"known_findings":      len(knownHit),
		"checker_errors":      r.Errors,
		"analysed":            r.Analysed,
		"checker_cmd":         strings.Join(os.Args, " "),
		"trusted_base":        []string{"go/parser, go/types, go list (package loading)", "golang.org/x/tools v0.29.0 go/packages, go/ssa, go/cfg, callgraph", "reference specifications under /verif/checker (ref*.go)", "Go language semantics of the statement forms the analysers interpret"},
	}
	for k, v := range r.Extra {
		cov[k] = v
	}
	ev := map[string]any{
		"property_id": r.Prop,
		"tier":        r.Tier,
		"seed":        r.Seed,
		"level":       "other",
		"coverage":    cov,
		"assumptions": r.Assumptions,
		"wall_s":      wall,
		"violations":  len(viol),
	}
	if r.Assumptions == nil {
		ev["assumptions"] = []string{}
	}
	b, _ := json.MarshalIndent(ev, "", " ")
	if err := os.WriteFile(filepath.Join(evDir, r.Prop+".json"), b, 0o644); err != nil {
		fmt.Printf("ERROR property=%s cannot write evidence: %v\n", r.Prop, err)
		return 2
	}
	fmt.Printf("%s %s: obligations=%d discharged=%d violations=%d known=%d errors=%d wall=%.1fs\n",
		r.Prop, r.Tier, r.Obligations, r.Discharged, len(viol), len(knownHit), len(r.Errors), wall)
	if len(viol) > 0 {
		return 1
	}
	if len(r.Errors) > 0 {
		return 2
	}
	return 0
}
