package main

import (
	"fmt"
	"go/token"
	"go/types"
	"sort"
	"strings"

	"golang.org/x/tools/go/ssa"
)

// D-sharedexpr (Engine D): a jp.Expr, its fragments, a Filter, a Script and an
// Equation are values the property lets any number of goroutines evaluate at
// the same time. That is safe only if evaluation never writes them: no store
// to a field or element reached from such a value, no map update in one, in
// any function the evaluation, mutation and printing API can reach. (What
// evaluation writes is the caller's data and stacks it allocates itself.)
//
// SSA form: the functions of package jp reachable from the API entries by
// static calls, closures and interface calls resolved over jp's own types;
// in them every Store / MapUpdate whose address is rooted - through field
// and element addresses, loads, slices, conversions, type assertions and
// phis - in a parameter, free variable, global or call result of a shared
// type. Memory rooted in a local allocation (Alloc, MakeSlice, MakeMap,
// a composite literal) is the activation's own.

var sharedExprEntries = map[string][]string{
	"Expr":     {"Get", "GetNodes", "First", "FirstFound", "FirstNode", "Has", "Locate", "Walk", "Set", "SetOne", "MustSet", "MustSetOne", "Del", "DelOne", "MustDel", "MustDelOne", "Remove", "RemoveOne", "MustRemove", "MustRemoveOne", "Modify", "ModifyOne", "MustModify", "MustModifyOne", "String", "BracketString", "Normal", "Append"},
	"Script":   {"Eval", "Match", "Inspect", "String", "Append"},
	"Filter":   {"String", "Append", "Walk"},
	"Equation": {"String", "Append"},
}

func ruleSharedExpr(prog *Program, rep *Report) {
	rep.Rules = append(rep.Rules, "D-sharedexpr: no function of package jp reachable from the evaluation, mutation and printing API of Expr, Script, Filter and Equation (static calls, closures, interface calls resolved over jp's types) stores to a field or element, or updates a map, whose address is rooted in a parameter, free variable, global or call result of a shared expression type (Script, Filter, Equation, the operator table, every type implementing Frag) or in the evaluated Expr itself (the receiver of an entry and every parameter or captured variable it flows into; result paths under construction have the same type and are the activation's own): shared expressions are read-only during evaluation")
	sp := prog.SSAPkg("jp")
	pk := prog.Pkg("jp")
	if sp == nil || pk == nil {
		rep.Errorf("D-sharedexpr: package jp not loaded")
		return
	}
	sprog := prog.SSA()
	scope := pk.Types.Scope()
	// shared types
	shared := map[*types.TypeName]bool{}
	var fragIface *types.Interface
	if o, ok := scope.Lookup("Frag").(*types.TypeName); ok {
		fragIface, _ = o.Type().Underlying().(*types.Interface)
	}
	if fragIface == nil {
		rep.Errorf("D-sharedexpr: interface jp.Frag not found")
		return
	}
	for _, name := range scope.Names() {
		tn, ok := scope.Lookup(name).(*types.TypeName)
		if !ok || tn.IsAlias() {
			continue
		}
		t := tn.Type()
		if _, isIface := t.Underlying().(*types.Interface); isIface {
			continue
		}
		switch name {
		case "Script", "Filter", "Equation", "op":
			shared[tn] = true
			continue
		}
		if types.Implements(t, fragIface) || types.Implements(types.NewPointer(t), fragIface) {
			shared[tn] = true
		}
	}
	if len(shared) < 10 {
		rep.Errorf("D-sharedexpr: only %d shared types found (floor 10)", len(shared))
		return
	}
	isShared := func(t types.Type) bool {
		for i := 0; i < 3; i++ {
			switch x := t.(type) {
			case *types.Pointer:
				t = x.Elem()
				continue
			case *types.Named:
				return shared[x.Obj()]
			}
			break
		}
		return false
	}
	// entries
	var work []*ssa.Function
	seen := map[*ssa.Function]bool{}
	add := func(f *ssa.Function) {
		if f != nil && !seen[f] && f.Pkg == sp && f.Blocks != nil {
			seen[f] = true
			work = append(work, f)
		}
	}
	entries := 0
	for tname, ms := range sharedExprEntries {
		tn, _ := scope.Lookup(tname).(*types.TypeName)
		if tn == nil {
			rep.Errorf("D-sharedexpr: type jp.%s not found", tname)
			continue
		}
		for _, m := range ms {
			var f *ssa.Function
			for _, t := range []types.Type{tn.Type(), types.NewPointer(tn.Type())} {
				if sel := sprog.MethodSets.MethodSet(t).Lookup(pk.Types, m); sel != nil {
					f = sprog.MethodValue(sel)
					break
				}
				// exported: Lookup with nil package works too
				if sel := sprog.MethodSets.MethodSet(t).Lookup(nil, m); sel != nil {
					f = sprog.MethodValue(sel)
					break
				}
			}
			if f == nil {
				rep.Errorf("D-sharedexpr: entry jp.%s.%s not found", tname, m)
				continue
			}
			entries++
			add(f)
		}
	}
	// methods of jp types by name, for interface calls
	byName := map[string][]*ssa.Function{}
	for _, name := range scope.Names() {
		tn, ok := scope.Lookup(name).(*types.TypeName)
		if !ok {
			continue
		}
		for _, t := range []types.Type{tn.Type(), types.NewPointer(tn.Type())} {
			mset := sprog.MethodSets.MethodSet(t)
			for i := 0; i < mset.Len(); i++ {
				if f := sprog.MethodValue(mset.At(i)); f != nil && f.Pkg == sp {
					byName[f.Name()] = append(byName[f.Name()], f)
				}
			}
		}
	}
	type wsite struct {
		fn   *ssa.Function
		pos  token.Pos
		what string
	}
	var sites []wsite
	// Expr values are slices: the expression being evaluated and the result paths under construction have
	// the same type. Shared are the receiver of an entry and what is derived from it (taint over the calls).
	exprTN, _ := scope.Lookup("Expr").(*types.TypeName)
	isExpr := func(t types.Type) bool {
		n, ok := t.(*types.Named)
		return ok && exprTN != nil && n.Obj() == exprTN
	}
	tainted := map[ssa.Value]bool{}
	var rootShared func(v ssa.Value, depth int, visiting map[ssa.Value]bool) (bool, string)
	rootShared = func(v ssa.Value, depth int, visiting map[ssa.Value]bool) (bool, string) {
		if depth > 40 || visiting[v] {
			return false, ""
		}
		visiting[v] = true
		switch x := v.(type) {
		case *ssa.FieldAddr:
			return rootShared(x.X, depth+1, visiting)
		case *ssa.IndexAddr:
			return rootShared(x.X, depth+1, visiting)
		case *ssa.Field:
			return rootShared(x.X, depth+1, visiting)
		case *ssa.Index:
			return rootShared(x.X, depth+1, visiting)
		case *ssa.Slice:
			return rootShared(x.X, depth+1, visiting)
		case *ssa.UnOp:
			if x.Op == token.MUL {
				return rootShared(x.X, depth+1, visiting)
			}
			return false, ""
		case *ssa.ChangeType:
			return rootShared(x.X, depth+1, visiting)
		case *ssa.Convert:
			return rootShared(x.X, depth+1, visiting)
		case *ssa.ChangeInterface:
			return rootShared(x.X, depth+1, visiting)
		case *ssa.MakeInterface:
			return rootShared(x.X, depth+1, visiting)
		case *ssa.TypeAssert:
			if isShared(x.AssertedType) {
				// a fragment taken out of an interface value: the expression's own element
				if ok, w := rootShared(x.X, depth+1, visiting); ok {
					return true, w
				}
				// the interface may be a local holding data; only the asserted type tells
				return isPointerLike(x.AssertedType), "a " + types.TypeString(x.AssertedType, types.RelativeTo(pk.Types)) + " taken out of an interface value"
			}
			return rootShared(x.X, depth+1, visiting)
		case *ssa.Extract:
			return rootShared(x.Tuple, depth+1, visiting)
		case *ssa.Lookup:
			return rootShared(x.X, depth+1, visiting)
		case *ssa.Phi:
			for _, e := range x.Edges {
				if ok, w := rootShared(e, depth+1, visiting); ok {
					return true, w
				}
			}
			return false, ""
		case *ssa.Parameter:
			if tainted[x] {
				return true, "the evaluated expression (parameter " + x.Name() + ")"
			}
			if isShared(x.Type()) {
				return true, "parameter " + x.Name() + " (" + types.TypeString(x.Type(), types.RelativeTo(pk.Types)) + ")"
			}
		case *ssa.FreeVar:
			if tainted[x] {
				return true, "the evaluated expression (captured " + x.Name() + ")"
			}
			if isShared(x.Type()) || isSharedPtrPtr(x.Type(), isShared) {
				return true, "captured variable " + x.Name()
			}
		case *ssa.Global:
			if isShared(x.Type()) || isSharedPtrPtr(x.Type(), isShared) {
				return true, "package variable " + x.Name()
			}
		case *ssa.Call:
			if isShared(x.Type()) && isPointerLike(x.Type()) {
				return true, "result of " + x.Call.String()
			}
		}
		return false, ""
	}
	// entry receivers
	for f := range seen {
		if f.Signature.Recv() != nil && isExpr(f.Signature.Recv().Type()) && len(f.Params) > 0 {
			tainted[f.Params[0]] = true
		}
	}
	calleesOf := func(c *ssa.CallCommon) []*ssa.Function {
		if callee := c.StaticCallee(); callee != nil {
			return []*ssa.Function{callee}
		}
		if c.IsInvoke() {
			return byName[c.Method.Name()]
		}
		return nil
	}
	for len(work) > 0 {
		f := work[len(work)-1]
		work = work[:len(work)-1]
		for _, af := range f.AnonFuncs {
			add(af)
		}
		for _, b := range f.Blocks {
			for _, ins := range b.Instrs {
				if x, ok := ins.(ssa.CallInstruction); ok {
					for _, callee := range calleesOf(x.Common()) {
						add(callee)
					}
				}
			}
		}
	}
	var all []*ssa.Function
	for f := range seen {
		all = append(all, f)
	}
	sort.Slice(all, func(i, j int) bool { return all[i].Pos() < all[j].Pos() })
	for changed := true; changed; {
		changed = false
		for _, f := range all {
			for _, b := range f.Blocks {
				for _, ins := range b.Instrs {
					switch x := ins.(type) {
					case ssa.CallInstruction:
						c := x.Common()
						for _, callee := range calleesOf(c) {
							if !seen[callee] {
								continue
							}
							args := c.Args
							params := callee.Params
							if c.IsInvoke() {
								// receiver is c.Value; params[0] is the receiver
								if len(params) > 0 {
									params = params[1:]
								}
							}
							for i, a := range args {
								if i >= len(params) || !isExpr(params[i].Type()) || tainted[params[i]] {
									continue
								}
								if ok, _ := rootShared(a, 0, map[ssa.Value]bool{}); ok {
									tainted[params[i]] = true
									changed = true
								}
							}
						}
					case *ssa.MakeClosure:
						fn, _ := x.Fn.(*ssa.Function)
						if fn == nil {
							continue
						}
						for i, bnd := range x.Bindings {
							if i >= len(fn.FreeVars) || tainted[fn.FreeVars[i]] {
								continue
							}
							if ok, _ := rootShared(bnd, 0, map[ssa.Value]bool{}); ok {
								tainted[fn.FreeVars[i]] = true
								changed = true
							}
						}
					}
				}
			}
		}
	}
	for _, f := range all {
		for _, b := range f.Blocks {
			for _, ins := range b.Instrs {
				switch x := ins.(type) {
				case *ssa.Store:
					if _, isAlloc := x.Addr.(*ssa.Alloc); isAlloc {
						continue
					}
					if ok, w := rootShared(x.Addr, 0, map[ssa.Value]bool{}); ok {
						sites = append(sites, wsite{f, x.Pos(), "store through " + w})
					}
				case *ssa.MapUpdate:
					if ok, w := rootShared(x.Map, 0, map[ssa.Value]bool{}); ok {
						sites = append(sites, wsite{f, x.Pos(), "map update through " + w})
					}
				}
			}
		}
	}
	if entries < 30 || len(seen) < 60 {
		rep.Errorf("D-sharedexpr: %d entries, %d reachable functions (floors 30, 60): anchors did not resolve", entries, len(seen))
	}
	rep.Eval(len(seen))
	sort.Slice(sites, func(i, j int) bool { return sites[i].pos < sites[j].pos })
	type grp struct {
		first token.Pos
		n     int
		what  string
	}
	groups := map[string]*grp{}
	var order []string
	for _, s := range sites {
		fn := strings.TrimPrefix(s.fn.RelString(sp.Pkg), "(")
		fn = strings.NewReplacer("*", "", ")", "", "(", "").Replace(fn)
		k := fn + "|" + s.what
		if groups[k] == nil {
			groups[k] = &grp{first: s.pos, what: s.what}
			order = append(order, k)
		}
		groups[k].n++
	}
	for _, k := range order {
		g := groups[k]
		fn := k[:strings.Index(k, "|")]
		rep.Violate(Finding{Rule: "D-sharedexpr", Key: fmt.Sprintf("jp.%s:writes-shared", fn), Pos: prog.Pos(g.first), Msg: fmt.Sprintf("%s is reachable from the evaluation API and performs a %s (%d site(s), first shown): two goroutines evaluating the same expression write the same memory", fn, g.what, g.n)})
	}
	if len(sites) == 0 {
		rep.Discharge("D-sharedexpr", "jp", "jp", fmt.Sprintf("%d entries, %d reachable functions of package jp, %d shared types: no store or map update rooted in a shared expression value", entries, len(seen), len(shared)))
	}
}

func isPointerLike(t types.Type) bool {
	switch t.Underlying().(type) {
	case *types.Pointer, *types.Slice, *types.Map:
		return true
	}
	return false
}

func isSharedPtrPtr(t types.Type, isShared func(types.Type) bool) bool {
	if p, ok := t.(*types.Pointer); ok {
		return isShared(p.Elem())
	}
	return false
}
