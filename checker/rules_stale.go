package main

import (
	"fmt"
	"go/ast"
	"go/token"
	"go/types"
	"sort"
	"strings"
)

// B-carry: a variable initialised before a loop, overridden inside the loop only under a
// condition (one arm of a switch, one branch of an if) with a value that does not depend on
// itself, and read in the loop: once an iteration has taken the overriding branch, every later
// iteration sees the override although its own condition is false (`dv := v` hoisted out of the
// per-operand loop: a `$` operand switches dv to the root and the `@` operands after it are
// resolved against the root too). Accumulators (x = f(x)), flags handled by B-flag and
// variables re-initialised unconditionally at the top level of the loop body are not matched.
type carrySite struct {
	pos  token.Pos
	fn   string
	name string
}

func carrySites(prog *Program, rel string, inScope func(fd *ast.FuncDecl) bool) (sites []carrySite, loops int) {
	pk := prog.Pkg(rel)
	if pk == nil {
		return
	}
	info := pk.TypesInfo
	for _, f := range pk.Syntax {
		if strings.HasSuffix(prog.Fset.Position(f.Pos()).Filename, "_test.go") {
			continue
		}
		for _, d := range f.Decls {
			fd, ok := d.(*ast.FuncDecl)
			if !ok || fd.Body == nil || (inScope != nil && !inScope(fd)) {
				continue
			}
			ast.Inspect(fd.Body, func(n ast.Node) bool {
				var body *ast.BlockStmt
				switch l := n.(type) {
				case *ast.ForStmt:
					body = l.Body
				case *ast.RangeStmt:
					body = l.Body
				}
				if body == nil {
					return true
				}
				loops++
				// candidate variables: assigned inside the body, declared outside it
				type use struct{ cond, uncond, selfRef, read bool }
				vars := map[types.Object]*use{}
				top := map[ast.Stmt]bool{}
				for _, st := range body.List {
					top[st] = true
				}
				var walk func(n ast.Node, conditional bool)
				walk = func(n ast.Node, conditional bool) {
					ast.Inspect(n, func(k ast.Node) bool {
						switch x := k.(type) {
						case *ast.FuncLit:
							return false
						case *ast.IfStmt:
							if x.Init != nil {
								walk(x.Init, conditional)
							}
							walk(x.Cond, conditional)
							walk(x.Body, true)
							if x.Else != nil {
								walk(x.Else, true)
							}
							return false
						case *ast.CaseClause:
							for _, e := range x.List {
								walk(e, conditional)
							}
							for _, st := range x.Body {
								walk(st, true)
							}
							return false
						case *ast.ForStmt, *ast.RangeStmt:
							if k != n {
								walk(bodyOf(k), true)
								return false
							}
						case *ast.AssignStmt:
							for i, l := range x.Lhs {
								id, ok := l.(*ast.Ident)
								if !ok {
									continue
								}
								o := info.Uses[id]
								if o == nil || (o.Pos() >= body.Pos() && o.Pos() <= body.End()) {
									continue // declared inside the loop
								}
								if _, isVar := o.(*types.Var); !isVar || o.Parent() == pk.Types.Scope() {
									continue
								}
								if vars[o] == nil {
									vars[o] = &use{}
								}
								self := x.Tok != token.ASSIGN
								if i < len(x.Rhs) && len(x.Lhs) == len(x.Rhs) {
									ast.Inspect(x.Rhs[i], func(q ast.Node) bool {
										if qid, ok := q.(*ast.Ident); ok && info.Uses[qid] == o {
											self = true
										}
										return true
									})
								} else {
									self = true // multi-value forms (v, ok = ...): treated as not a plain override
								}
								if self {
									vars[o].selfRef = true
								} else if conditional {
									vars[o].cond = true
								} else {
									vars[o].uncond = true
								}
							}
						case *ast.IncDecStmt:
							if id, ok := x.X.(*ast.Ident); ok {
								if o := info.Uses[id]; o != nil {
									if vars[o] == nil {
										vars[o] = &use{}
									}
									vars[o].selfRef = true
								}
							}
						}
						return true
					})
				}
				for _, st := range body.List {
					walk(st, false)
				}
				// reads
				lhs := map[*ast.Ident]bool{}
				ast.Inspect(body, func(k ast.Node) bool {
					if as, ok := k.(*ast.AssignStmt); ok {
						for _, l := range as.Lhs {
							if id, ok := l.(*ast.Ident); ok {
								lhs[id] = true
							}
						}
					}
					return true
				})
				ast.Inspect(body, func(k ast.Node) bool {
					if id, ok := k.(*ast.Ident); ok && !lhs[id] {
						if u := vars[info.Uses[id]]; u != nil {
							u.read = true
						}
					}
					return true
				})
				for o, u := range vars {
					if !u.cond || u.uncond || u.selfRef || !u.read {
						continue
					}
					// initialised before the loop from something that varies (not a constant / zero value)
					if b, ok := o.Type().Underlying().(*types.Basic); ok && b.Kind() == types.Bool {
						continue // B-flag
					}
					initVaries := false
					ast.Inspect(fd.Body, func(k ast.Node) bool {
						as, ok := k.(*ast.AssignStmt)
						if !ok || as.Pos() >= n.Pos() || as.Tok != token.DEFINE || len(as.Lhs) != len(as.Rhs) {
							return true
						}
						for i, l := range as.Lhs {
							if id, ok := l.(*ast.Ident); ok && info.Defs[id] == o {
								if tv, ok := info.Types[as.Rhs[i]]; !ok || tv.Value == nil {
									if _, isId := ast.Unparen(as.Rhs[i]).(*ast.Ident); isId {
										initVaries = true // x := y
									}
								}
							}
						}
						return true
					})
					if !initVaries {
						continue
					}
					// the initialisation must itself sit inside an enclosing loop iteration or the function:
					// what matters is that it is outside *this* loop
					sites = append(sites, carrySite{pos: n.Pos(), fn: funcKey(fd), name: o.Name()})
				}
				return true
			})
		}
	}
	sort.Slice(sites, func(i, j int) bool { return sites[i].pos < sites[j].pos })
	return
}

var carryAccepted = map[string]string{
	"jp.Descent.locate:carried:mx": "the override sits under `if 0 < max`, and max does not change in the loop: every iteration takes the same branch, nothing leaks from one to the next",
}

func ruleCarry(prog *Program, rep *Report, floor int, inScope func(fd *ast.FuncDecl) bool, rels ...string) {
	rep.Rules = append(rep.Rules, "B-carry: no variable that is initialised from another variable before a loop is overridden inside the loop only under a condition (with a value that does not depend on itself) and read there, without being re-initialised at the top level of the loop body: an override taken in one iteration must not leak into the next")
	total := 0
	for _, rel := range rels {
		sites, loops := carrySites(prog, rel, inScope)
		total += loops
		for _, s := range sites {
			key := fmt.Sprintf("%s.%s:carried:%s", rel, s.fn, s.name)
			if r := carryAccepted[key]; r != "" {
				rep.Discharge("B-carry", key, prog.Pos(s.pos), "accepted (read): "+r)
				continue
			}
			rep.Violate(Finding{Rule: "B-carry", Key: key, Pos: prog.Pos(s.pos), Msg: fmt.Sprintf("%s: %s is set before this loop, overridden inside it only under a condition and never re-initialised per iteration: once overridden, later iterations see the override", s.fn, s.name)})
		}
		rep.Discharge("B-carry", rel, rel, fmt.Sprintf("%d loops examined, %d carried overrides", loops, len(sites)))
	}
	rep.Eval(total)
	if total < floor {
		rep.Errorf("B-carry examined %d loops (floor %d)", total, floor)
	}
}

// B-accreset: a positional accumulator - a local updated as x = x<<k | d or x = x*K + d inside a
// loop - collects the digits of one number or escape. It has to start from zero for each of them:
// where the digit loop sits in a case clause of an outer loop, the accumulator is declared in that
// clause or assigned a constant there before the loop. Declared further out and never reset, the
// second escape of a string starts from the first one's value.
func ruleAccumulatorReset(prog *Program, rep *Report, floor int, rels ...string) {
	rep.Rules = append(rep.Rules, "B-accreset: every local positional accumulator (x = x<<k | d, x = x*K + d in a loop) whose digit loop sits inside a case clause or loop body of an outer loop is declared, or assigned a constant, inside that enclosing clause or body before the digit loop: it starts from zero for every number or escape")
	n := 0
	for _, rel := range rels {
		pk := prog.Pkg(rel)
		if pk == nil {
			continue
		}
		info := pk.TypesInfo
		for _, f := range pk.Syntax {
			if strings.HasSuffix(prog.Fset.Position(f.Pos()).Filename, "_test.go") {
				continue
			}
			for _, d := range f.Decls {
				fd, ok := d.(*ast.FuncDecl)
				if !ok || fd.Body == nil {
					continue
				}
				var path []ast.Node
				ast.Inspect(fd.Body, func(k ast.Node) bool {
					if k == nil {
						path = path[:len(path)-1]
						return true
					}
					path = append(path, k)
					as, ok := k.(*ast.AssignStmt)
					if !ok || as.Tok != token.ASSIGN || len(as.Lhs) != 1 || len(as.Rhs) != 1 {
						return true
					}
					id, ok := as.Lhs[0].(*ast.Ident)
					if !ok {
						return true
					}
					o := info.Uses[id]
					if o == nil {
						return true
					}
					// x = (x << k) | ..  or  x = x*K + ..
					positional := false
					if be, ok := ast.Unparen(as.Rhs[0]).(*ast.BinaryExpr); ok && (be.Op == token.OR || be.Op == token.ADD) {
						if in, ok := ast.Unparen(be.X).(*ast.BinaryExpr); ok && (in.Op == token.SHL || in.Op == token.MUL) && useObj(info, in.X) == o {
							if tv, ok := info.Types[in.Y]; ok && tv.Value != nil {
								positional = true
							}
						}
					}
					if !positional {
						return true
					}
					// innermost loop containing the update, and the nearest case clause / loop body outside it
					li := -1
					for i := len(path) - 2; i >= 0; i-- {
						switch path[i].(type) {
						case *ast.ForStmt, *ast.RangeStmt:
							li = i
						}
						if li >= 0 {
							break
						}
					}
					if li < 0 {
						return true
					}
					var scope ast.Node
					hasOuterLoop := false
					for i := li - 1; i >= 0; i-- {
						switch x := path[i].(type) {
						case *ast.CaseClause:
							if scope == nil {
								scope = x
							}
						case *ast.ForStmt:
							if scope == nil {
								scope = x.Body
							}
							hasOuterLoop = true
						case *ast.RangeStmt:
							if scope == nil {
								scope = x.Body
							}
							hasOuterLoop = true
						}
					}
					if scope == nil || !hasOuterLoop {
						return true
					}
					n++
					loop := path[li]
					reset := o.Pos() >= scope.Pos() && o.Pos() < loop.Pos() // declared in the clause before the loop
					ast.Inspect(scope, func(q ast.Node) bool {
						a2, ok := q.(*ast.AssignStmt)
						if !ok || a2.Pos() >= loop.Pos() || len(a2.Lhs) != len(a2.Rhs) {
							return true
						}
						for i, l := range a2.Lhs {
							if useObj(info, l) == o {
								if tv, ok := info.Types[a2.Rhs[i]]; ok && tv.Value != nil {
									reset = true
								}
							}
						}
						return true
					})
					key := fmt.Sprintf("%s.%s:accumulator:%s", rel, funcKey(fd), o.Name())
					if reset {
						rep.Discharge("B-accreset", key, prog.Pos(as.Pos()), "declared or reset in the enclosing clause before the digit loop")
					} else {
						rep.Violate(Finding{Rule: "B-accreset", Key: key, Pos: prog.Pos(as.Pos()), Msg: fmt.Sprintf("%s accumulates digits in %s, which is neither declared nor reset inside the clause that holds the digit loop: the next number or escape starts from the previous one's value", funcKey(fd), o.Name())})
					}
					return true
				})
			}
		}
	}
	rep.Eval(n)
	if n < floor {
		rep.Errorf("B-accreset examined %d accumulators (floor %d)", n, floor)
	}
}
