package main

func ruleReaderLoops(prog *Program, rep *Report) {}
func ruleC06Extra(prog *Program, rep *Report)    {}
func ruleC07Extra(prog *Program, rep *Report)    {}
func ruleC09Extra(prog *Program, rep *Report)    {}
