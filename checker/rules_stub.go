package main

func ruleC06Extra(prog *Program, rep *Report) {}
