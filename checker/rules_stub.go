package main

func ruleC06Extra(prog *Program, rep *Report) {}
func ruleC07Extra(prog *Program, rep *Report) {}
