package main

import (
	"fmt"
	"go/ast"
	"go/constant"
	"go/token"
	"go/types"
	"sort"
)

// Reader-side roles of the SEN tables, identified structurally from the
// sen.Parser machine (no private names).
type senTables struct {
	value      string // start mode
	token      string // table scanned by the token fast path
	tokenStart int64
	tokenOk    int64
	str        string // table scanned by the quoted-string fast path
	strOk      int64
	esc        string // mode entered after a backslash
	escOk      int64
	escU       int64
	decode     string // table indexed by the escape letter to get the decoded byte
	reserved   []string
	pos        token.Pos
}

func (m *Machine) clauseFor(code int64) *ast.CaseClause {
	info := m.pkg.TypesInfo
	for _, c := range m.sw.Body.List {
		cc := c.(*ast.CaseClause)
		for _, e := range cc.List {
			if tv := info.Types[e]; tv.Value != nil && tv.Value.Kind() == constant.Int {
				if v, _ := constant.Int64Val(tv.Value); v == code {
					return cc
				}
			}
		}
	}
	return nil
}

// scanIn finds `for ... range buf[...] { if T[b] != K { break } ... }` in a clause.
func (m *Machine) scanIn(cc *ast.CaseClause) (string, int64, bool) {
	info := m.pkg.TypesInfo
	var tbl string
	var code int64
	found := false
	for _, st := range cc.Body {
		ast.Inspect(st, func(n ast.Node) bool {
			rs, ok := n.(*ast.RangeStmt)
			if !ok || found || len(rs.Body.List) == 0 {
				return true
			}
			is, ok := rs.Body.List[0].(*ast.IfStmt)
			if !ok {
				return true
			}
			be, ok := is.Cond.(*ast.BinaryExpr)
			if !ok || be.Op != token.NEQ {
				return true
			}
			ix, ok := be.X.(*ast.IndexExpr)
			if !ok {
				return true
			}
			tv, cv := info.Types[ix.X].Value, info.Types[be.Y].Value
			if tv == nil || cv == nil || tv.Kind() != constant.String || cv.Kind() != constant.Int {
				return true
			}
			tbl = constant.StringVal(tv)
			code, _ = constant.Int64Val(cv)
			found = true
			return false
		})
	}
	return tbl, code, found
}

// modeAssignIn: the table constant assigned to the mode field in a clause.
func (m *Machine) modeAssignIn(cc *ast.CaseClause) (string, bool) {
	info := m.pkg.TypesInfo
	res := ""
	ok := false
	for _, st := range cc.Body {
		ast.Inspect(st, func(n ast.Node) bool {
			as, isAs := n.(*ast.AssignStmt)
			if !isAs || len(as.Lhs) != 1 || len(as.Rhs) != 1 {
				return true
			}
			sel, isSel := as.Lhs[0].(*ast.SelectorExpr)
			if !isSel || sel.Sel.Name != m.modeFld {
				return true
			}
			if tv := info.Types[as.Rhs[0]].Value; tv != nil && tv.Kind() == constant.String {
				res = constant.StringVal(tv)
				ok = true
			}
			return true
		})
	}
	return res, ok
}

// indexedConstIn: a constant string (not a mode table of the switch) indexed by the dispatched byte in a clause.
func (m *Machine) indexedConstIn(cc *ast.CaseClause) (string, bool) {
	info := m.pkg.TypesInfo
	res := ""
	ok := false
	for _, st := range cc.Body {
		ast.Inspect(st, func(n ast.Node) bool {
			ix, isIx := n.(*ast.IndexExpr)
			if !isIx {
				return true
			}
			if tv := info.Types[ix.X].Value; tv != nil && tv.Kind() == constant.String && len(constant.StringVal(tv)) >= 128 {
				res = constant.StringVal(tv)
				ok = true
			}
			return true
		})
	}
	return res, ok
}

func at(tbl string, b int) int64 {
	if b < len(tbl) {
		return int64(tbl[b])
	}
	return -1
}

func senReaderTables(prog *Program) (*senTables, error) {
	m, err := ExtractMachine(prog, "sen", "Parser", []string{"Parse"})
	if err != nil {
		return nil, err
	}
	starts, _, err := m.Starts("Parse", map[string]Val{"OnlyOne": vConstBool(true)})
	if err != nil {
		return nil, err
	}
	t := &senTables{pos: m.work.Pos()}
	v, ok := starts[0].fields[m.modeFld].isStr()
	if !ok {
		return nil, fmt.Errorf("sen.Parser: start mode is not a constant")
	}
	t.value = v
	t.tokenStart = at(v, 'a')
	cc := m.clauseFor(t.tokenStart)
	if cc == nil {
		return nil, fmt.Errorf("sen.Parser: no clause for the code of a letter in the start mode")
	}
	if t.token, t.tokenOk, ok = m.scanIn(cc); !ok {
		return nil, fmt.Errorf("sen.Parser: token fast path scan not found")
	}
	qc := m.clauseFor(at(v, '"'))
	if qc == nil {
		return nil, fmt.Errorf("sen.Parser: no clause for '\"' in the start mode")
	}
	if t.str, t.strOk, ok = m.scanIn(qc); !ok {
		return nil, fmt.Errorf("sen.Parser: string fast path scan not found")
	}
	sc := m.clauseFor(at(t.str, '\\'))
	if sc == nil {
		return nil, fmt.Errorf("sen.Parser: no clause for backslash in the string table")
	}
	if t.esc, ok = m.modeAssignIn(sc); !ok {
		return nil, fmt.Errorf("sen.Parser: escape mode not found")
	}
	t.escOk = at(t.esc, 'n')
	t.escU = at(t.esc, 'u')
	ec := m.clauseFor(t.escOk)
	if ec == nil {
		return nil, fmt.Errorf("sen.Parser: no clause for the escape-letter code")
	}
	if t.decode, ok = m.indexedConstIn(ec); !ok {
		return nil, fmt.Errorf("sen.Parser: escape decode table not found")
	}
	// reserved spellings: string constants used as switch cases on a string in the methods of the parser
	res := map[string]bool{}
	info := m.pkg.TypesInfo
	for _, fd := range m.in.methods {
		ast.Inspect(fd.Body, func(n ast.Node) bool {
			sw, isSw := n.(*ast.SwitchStmt)
			if !isSw || sw.Tag == nil {
				return true
			}
			if bt, isB := info.TypeOf(sw.Tag).Underlying().(*types.Basic); !isB || bt.Info()&types.IsString == 0 {
				return true
			}
			for _, c := range sw.Body.List {
				for _, e := range c.(*ast.CaseClause).List {
					if tv := info.Types[e].Value; tv != nil && tv.Kind() == constant.String && len(constant.StringVal(tv)) < 32 {
						res[constant.StringVal(tv)] = true
					}
				}
			}
			return true
		})
	}
	for r := range res {
		t.reserved = append(t.reserved, r)
	}
	sort.Strings(t.reserved)
	return t, nil
}
