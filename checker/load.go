package main

import (
	"fmt"
	"go/ast"
	"go/token"
	"go/types"
	"os"
	"path/filepath"
	"sort"
	"strings"

	"golang.org/x/tools/go/packages"
	"golang.org/x/tools/go/ssa"
	"golang.org/x/tools/go/ssa/ssautil"
)

const modulePath = "github.com/ohler55/ojg"

// Program is the resolved, type-checked module under analysis.
type Program struct {
	Repo   string
	Fset   *token.FileSet
	Pkgs   map[string]*packages.Package // by import path
	All    []*packages.Package          // module packages, sorted
	ssa    *ssa.Program
	ssaPkg map[string]*ssa.Package
	GoArch string
}

// LoadProgram loads every package of the module rooted at repo with full
// syntax and type information. It fails (fail closed) when no package loads or
// any package has a type or parse error.
func LoadProgram(repo string, goarch string, overlay map[string][]byte) (*Program, error) {
	return loadProgram(repo, goarch, overlay, false)
}

// LoadProgramLight loads syntax and types of the module's own packages only (dependencies from export
// data): enough for the machine extraction, and a fraction of the memory of the full load. Used by the
// in-memory table sweep, which loads one program per mutant.
func LoadProgramLight(repo string, overlay map[string][]byte) (*Program, error) {
	return loadProgram(repo, "", overlay, true)
}

func loadProgram(repo string, goarch string, overlay map[string][]byte, light bool) (*Program, error) {
	env := append(os.Environ(),
		"GOFLAGS=-mod=mod", "GOPROXY=off", "GOSUMDB=off", "GOTOOLCHAIN=local", "GOWORK=off", "CGO_ENABLED=0")
	if goarch != "" {
		env = append(env, "GOARCH="+goarch)
	}
	mode := packages.LoadAllSyntax
	if light {
		mode = packages.LoadSyntax
	}
	cfg := &packages.Config{
		Mode:    mode,
		Dir:     repo,
		Tests:   false,
		Env:     env,
		Overlay: overlay,
	}
	pkgs, err := packages.Load(cfg, "./...")
	if err != nil {
		return nil, fmt.Errorf("load: %v", err)
	}
	p := &Program{Repo: repo, Pkgs: map[string]*packages.Package{}, GoArch: goarch}
	var errs []string
	for _, pk := range pkgs {
		if !strings.HasPrefix(pk.PkgPath, modulePath) {
			continue
		}
		for _, e := range pk.Errors {
			errs = append(errs, e.Error())
		}
		p.Pkgs[pk.PkgPath] = pk
		p.All = append(p.All, pk)
		p.Fset = pk.Fset
	}
	if len(p.All) == 0 {
		return nil, fmt.Errorf("load: zero packages of %s found under %s", modulePath, repo)
	}
	if len(errs) > 0 {
		return nil, fmt.Errorf("load: packages have errors: %s", strings.Join(errs, "; "))
	}
	sort.Slice(p.All, func(i, j int) bool { return p.All[i].PkgPath < p.All[j].PkgPath })
	return p, nil
}

// Pkg returns the module package with the given path relative to the module
// root ("" for the root package).
func (p *Program) Pkg(rel string) *packages.Package {
	path := modulePath
	if rel != "" {
		path += "/" + rel
	}
	return p.Pkgs[path]
}

// LibPkgs are the library packages (programs under cmd/ and the tt test helper
// are out of scope of every property).
func (p *Program) LibPkgs() []*packages.Package {
	var out []*packages.Package
	for _, pk := range p.All {
		rel := strings.TrimPrefix(strings.TrimPrefix(pk.PkgPath, modulePath), "/")
		if strings.HasPrefix(rel, "cmd") || rel == "tt" {
			continue
		}
		out = append(out, pk)
	}
	return out
}

// SSA builds (once) the SSA form of the whole program.
func (p *Program) SSA() *ssa.Program {
	if p.ssa != nil {
		return p.ssa
	}
	var initial []*packages.Package
	initial = append(initial, p.All...)
	prog, spkgs := ssautil.AllPackages(initial, ssa.InstantiateGenerics)
	prog.Build()
	p.ssa = prog
	p.ssaPkg = map[string]*ssa.Package{}
	for i, sp := range spkgs {
		if sp != nil {
			p.ssaPkg[initial[i].PkgPath] = sp
		}
	}
	return prog
}

func (p *Program) SSAPkg(rel string) *ssa.Package {
	p.SSA()
	path := modulePath
	if rel != "" {
		path += "/" + rel
	}
	return p.ssaPkg[path]
}

// Pos renders a position relative to the repository root.
func (p *Program) Pos(pos token.Pos) string {
	if !pos.IsValid() {
		return "?"
	}
	ps := p.Fset.Position(pos)
	rel, err := filepath.Rel(p.Repo, ps.Filename)
	if err != nil {
		rel = ps.Filename
	}
	return fmt.Sprintf("%s:%d", rel, ps.Line)
}

// FuncDecl finds the declaration of a function or method object.
func (p *Program) FuncDecl(fn *types.Func) (*ast.FuncDecl, *packages.Package) {
	if fn == nil || fn.Pkg() == nil {
		return nil, nil
	}
	pk := p.Pkgs[fn.Pkg().Path()]
	if pk == nil {
		return nil, nil
	}
	for _, f := range pk.Syntax {
		for _, d := range f.Decls {
			if fd, ok := d.(*ast.FuncDecl); ok {
				if pk.TypesInfo.Defs[fd.Name] == fn {
					return fd, pk
				}
			}
		}
	}
	return nil, nil
}

// Method looks up a method (pointer or value receiver) of a named type of pkg.
func Method(pk *packages.Package, typeName, method string) *types.Func {
	obj := pk.Types.Scope().Lookup(typeName)
	if obj == nil {
		return nil
	}
	named, ok := obj.Type().(*types.Named)
	if !ok {
		return nil
	}
	ms := types.NewMethodSet(types.NewPointer(named))
	for i := 0; i < ms.Len(); i++ {
		if ms.At(i).Obj().Name() == method {
			if f, ok := ms.At(i).Obj().(*types.Func); ok {
				return f
			}
		}
	}
	return nil
}

// Func looks up a package-level function.
func Func(pk *packages.Package, name string) *types.Func {
	obj := pk.Types.Scope().Lookup(name)
	if f, ok := obj.(*types.Func); ok {
		return f
	}
	return nil
}

// NonTestFiles counts the syntax files analysed.
func (p *Program) Stats() (pkgs, files, funcs int) {
	for _, pk := range p.All {
		pkgs++
		for _, f := range pk.Syntax {
			files++
			for _, d := range f.Decls {
				if _, ok := d.(*ast.FuncDecl); ok {
					funcs++
				}
			}
		}
	}
	return
}
