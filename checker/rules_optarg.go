package main

import (
	"fmt"
	"go/ast"
	"go/types"
	"sort"
	"strings"
)

// M-optarg: the package-level functions of oj, sen and pretty take their options as
// `args ...any` and recognise them in a type switch (int, *ojg.Options, *Writer, ...). An
// argument of any other type is silently ignored. Inside the module every call of such a
// function must therefore pass arguments whose static type is one the switch has a case for
// (`sen.Options{Sort: true}` by value instead of by pointer compiles, and does nothing).
func ruleOptionArgs(prog *Program, rep *Report, callers ...string) {
	rep.Rules = append(rep.Rules, "M-optarg: every argument passed in the `args ...any` position of an option-taking function of oj, sen or pretty from inside the module has a static type that the function's option type switch has a case for (the switch is found in the function itself or in the helper it hands args[0] / args to); other types are silently ignored by those functions")
	accepted := map[*types.Func][]types.Type{}
	for _, rel := range []string{"oj", "sen", "pretty"} {
		pk := prog.Pkg(rel)
		if pk == nil {
			continue
		}
		info := pk.TypesInfo
		decls := map[types.Object]*ast.FuncDecl{}
		for _, f := range pk.Syntax {
			for _, d := range f.Decls {
				if fd, ok := d.(*ast.FuncDecl); ok && fd.Body != nil {
					decls[info.Defs[fd.Name]] = fd
				}
			}
		}
		// case types of type switches whose subject derives from the given parameter
		var switchTypes func(fd *ast.FuncDecl, param types.Object, depth int) []types.Type
		switchTypes = func(fd *ast.FuncDecl, param types.Object, depth int) []types.Type {
			var out []types.Type
			if depth > 2 {
				return out
			}
			derived := map[types.Object]bool{param: true}
			ast.Inspect(fd.Body, func(n ast.Node) bool {
				if rs, ok := n.(*ast.RangeStmt); ok && derived[useObj(info, rs.X)] {
					if id, ok := rs.Value.(*ast.Ident); ok {
						derived[info.Defs[id]] = true
					}
				}
				return true
			})
			isDerived := func(e ast.Expr) bool {
				switch x := ast.Unparen(e).(type) {
				case *ast.Ident:
					return derived[info.Uses[x]]
				case *ast.IndexExpr:
					return derived[useObj(info, x.X)]
				}
				return false
			}
			ast.Inspect(fd.Body, func(n ast.Node) bool {
				switch x := n.(type) {
				case *ast.TypeSwitchStmt:
					var subj ast.Expr
					switch a := x.Assign.(type) {
					case *ast.AssignStmt:
						if ta, ok := ast.Unparen(a.Rhs[0]).(*ast.TypeAssertExpr); ok {
							subj = ta.X
						}
					case *ast.ExprStmt:
						if ta, ok := ast.Unparen(a.X).(*ast.TypeAssertExpr); ok {
							subj = ta.X
						}
					}
					if subj != nil && isDerived(subj) {
						for _, cl := range x.Body.List {
							for _, t := range cl.(*ast.CaseClause).List {
								if tt := info.TypeOf(t); tt != nil {
									out = append(out, tt)
								}
							}
						}
					}
				case *ast.CallExpr:
					var callee types.Object
					switch fn := ast.Unparen(x.Fun).(type) {
					case *ast.Ident:
						callee = info.Uses[fn]
					case *ast.SelectorExpr:
						callee = info.Uses[fn.Sel]
					}
					g := decls[callee]
					if g == nil || g == fd || g.Type.Params == nil {
						return true
					}
					// which parameter of g receives the derived value
					idx := 0
					for _, fl := range g.Type.Params.List {
						for _, nm := range fl.Names {
							if idx < len(x.Args) && isDerived(x.Args[idx]) {
								out = append(out, switchTypes(g, info.Defs[nm], depth+1)...)
							}
							idx++
						}
					}
				}
				return true
			})
			return out
		}
		for o, fd := range decls {
			fn, ok := o.(*types.Func)
			if !ok || !fd.Name.IsExported() || fd.Type.Params == nil || len(fd.Type.Params.List) == 0 {
				continue
			}
			last := fd.Type.Params.List[len(fd.Type.Params.List)-1]
			el, isVar := last.Type.(*ast.Ellipsis)
			if !isVar || len(last.Names) != 1 {
				continue
			}
			if it, ok := info.TypeOf(el.Elt).Underlying().(*types.Interface); !ok || it.NumMethods() != 0 {
				continue
			}
			if ts := switchTypes(fd, info.Defs[last.Names[0]], 0); len(ts) > 0 {
				accepted[fn] = ts
			}
		}
	}
	if len(accepted) < 10 {
		rep.Errorf("M-optarg: only %d option-taking functions resolved (floor 10)", len(accepted))
		return
	}
	sitesN := 0
	for _, rel := range callers {
		pk := prog.Pkg(rel)
		if pk == nil {
			continue
		}
		info := pk.TypesInfo
		for _, f := range pk.Syntax {
			if strings.HasSuffix(prog.Fset.Position(f.Pos()).Filename, "_test.go") {
				continue
			}
			ast.Inspect(f, func(n ast.Node) bool {
				call, ok := n.(*ast.CallExpr)
				if !ok || call.Ellipsis.IsValid() {
					return true
				}
				var callee types.Object
				switch fn := ast.Unparen(call.Fun).(type) {
				case *ast.Ident:
					callee = info.Uses[fn]
				case *ast.SelectorExpr:
					callee = info.Uses[fn.Sel]
				}
				fn, ok := callee.(*types.Func)
				if !ok || accepted[fn] == nil {
					return true
				}
				sig := fn.Type().(*types.Signature)
				fixed := sig.Params().Len() - 1
				for i := fixed; i < len(call.Args); i++ {
					at := info.TypeOf(call.Args[i])
					if at == nil {
						continue
					}
					if _, isIface := at.Underlying().(*types.Interface); isIface {
						continue // decided at run time
					}
					if b, ok := at.(*types.Basic); ok && b.Info()&types.IsUntyped != 0 {
						at = types.Default(at)
					}
					sitesN++
					okType := false
					var names []string
					for _, t := range accepted[fn] {
						names = append(names, types.TypeString(t, types.RelativeTo(pk.Types)))
						if types.Identical(t, at) || (isIfaceType(t) && types.Implements(at, t.Underlying().(*types.Interface))) {
							okType = true
						}
					}
					key := fmt.Sprintf("%s.%s:%s(%s)", rel, enclosingFuncName(f, call.Pos()), fn.Name(), types.TypeString(at, types.RelativeTo(pk.Types)))
					if okType {
						rep.Discharge("M-optarg", key, prog.Pos(call.Pos()), "an option type the callee recognises")
					} else {
						sort.Strings(names)
						rep.Violate(Finding{Rule: "M-optarg", Key: key, Pos: prog.Pos(call.Args[i].Pos()), Msg: fmt.Sprintf("%s is called with an option of type %s, which its option switch has no case for (it recognises %s): the option is silently ignored", fn.FullName(), types.TypeString(at, types.RelativeTo(pk.Types)), strings.Join(dedupe(names), ", "))})
					}
				}
				return true
			})
		}
	}
	rep.Eval(sitesN)
	if sitesN < 2 {
		rep.Errorf("M-optarg examined %d option arguments (floor 2)", sitesN)
	}
}

func isIfaceType(t types.Type) bool {
	_, ok := t.Underlying().(*types.Interface)
	return ok
}

func dedupe(in []string) []string {
	seen := map[string]bool{}
	var out []string
	for _, s := range in {
		if !seen[s] {
			seen[s] = true
			out = append(out, s)
		}
	}
	return out
}
