package main

import (
	"fmt"
	"go/ast"
	"go/token"
	"go/types"
	"sort"
	"strings"
)

// W-tail (Engine C, typestate form): the comma-then-overwrite idiom of the writers.
//
// The container emitters of oj and sen append a separator after every member
// and, when the container is done, turn the last separator into the closing
// byte (or the newline before it) with `buf[len(buf)-1] = c`. That statement is
// right only if the last byte of the buffer is a separator this very function
// appended - not the opening bracket (empty container), not the last byte of a
// value, not whatever a flush left behind (the streaming entry empties the
// buffer inside the value emitters), not the tail of a key that was not taken
// back. Which of these it is depends on the path: the emitters steer with
// boolean locals (comma, empty, indented, space), early returns for the empty
// case and `continue` for omitted members.
//
// The rule interprets each emitter over the statement tree with the abstract
// state (tail, flags, facts):
//
//   tail   the last few segments appended to the buffer, newest last:
//          S  a separator (',' or ' ' appended as a single byte, or a literal ending in ',')
//          O  other content (literal, result of an appender, a value)
//          C:<n> a segment of n bytes that the code may take back with buf = buf[:len(buf)-<n>]
//          below the known segments the buffer is unknown ('?'); a value emitter
//          (any call that is handed the writer) may flush, so it leaves just O
//   flags  the boolean locals that are only ever assigned constants, by value
//   facts  expressions known to be non-zero (`if 0 < len(n) {`, `if end == 0 { return }`),
//          which make the loop over them run at least once
//
// and requires tail-top == S at every overwrite, in every reachable state, and
// tail-top != comma where a closing bracket or brace is appended.

const tailDepth = 4

type tailState struct {
	stack []string
	flags map[types.Object]bool
	facts map[string]bool
	trace []string // not part of the identity
}

func (s *tailState) key() string {
	var fl []string
	for o, v := range s.flags {
		fl = append(fl, fmt.Sprintf("%s@%d=%v", o.Name(), o.Pos(), v))
	}
	sort.Strings(fl)
	var fa []string
	for f := range s.facts {
		fa = append(fa, f)
	}
	sort.Strings(fa)
	return strings.Join(s.stack, " ") + "|" + strings.Join(fl, ",") + "|" + strings.Join(fa, ",")
}

func (s *tailState) clone() *tailState {
	n := &tailState{stack: append([]string(nil), s.stack...), flags: make(map[types.Object]bool, len(s.flags)), facts: make(map[string]bool, len(s.facts)), trace: s.trace}
	for k, v := range s.flags {
		n.flags[k] = v
	}
	for k := range s.facts {
		n.facts[k] = true
	}
	return n
}

func (s *tailState) note(ev string) {
	t := append(append([]string(nil), s.trace...), ev)
	if len(t) > 6 {
		t = t[len(t)-6:]
	}
	s.trace = t
}

func (s *tailState) push(seg string) {
	s.stack = append(s.stack, seg)
	if len(s.stack) > tailDepth {
		s.stack = append([]string{"?"}, s.stack[len(s.stack)-tailDepth+1:]...)
	}
}

func (s *tailState) top() string {
	if len(s.stack) == 0 {
		return "?"
	}
	return s.stack[len(s.stack)-1]
}

func (s *tailState) pop() {
	if len(s.stack) > 0 {
		s.stack = s.stack[:len(s.stack)-1]
	}
}

type tailSet map[string]*tailState

func (a tailSet) add(s *tailState) bool {
	k := s.key()
	if _, ok := a[k]; ok {
		return false
	}
	a[k] = s
	return true
}

func (a tailSet) addAll(b tailSet) bool {
	ch := false
	for _, s := range b {
		if a.add(s) {
			ch = true
		}
	}
	return ch
}

type tailFinding struct {
	pos   token.Pos
	top   string
	flags string
	trace string
}

type tailCtx struct {
	info      *types.Info
	fset      *token.FileSet
	bufText   string                // text of the buffer expression, e.g. "wr.buf"
	wrName    string                // base identifier of the buffer expression ("wr"); "" for a local buffer
	flagObjs  map[types.Object]bool // tracked boolean locals
	statusVar types.Object          // status result of the last field appender call
	findings  []tailFinding
	sites     int
	okSites   map[token.Pos]bool
	badSites  map[token.Pos]bool
	// control transfer collectors
	breaks    []tailSet
	continues []tailSet
	labels    map[string]tailSet // goto targets
	brkLabel  map[string]tailSet // labelled break
	cntLabel  map[string]tailSet
	undecided []string
	closers   int
}

func posLine(fset *token.FileSet, p token.Pos) string {
	return fmt.Sprintf("%d", fset.Position(p).Line)
}

// classifyAppend: what `B = append(B, args...)` pushes.
func (c *tailCtx) classifyAppend(call *ast.CallExpr) string {
	if len(call.Args) != 2 {
		return "O"
	}
	a := ast.Unparen(call.Args[1])
	if call.Ellipsis.IsValid() {
		if tv, ok := c.info.Types[a]; ok && tv.Value != nil {
			s := strings.Trim(tv.Value.ExactString(), `"`)
			if strings.HasSuffix(s, ",") {
				return "S,"
			}
			return "O"
		}
		return "C:len(" + types.ExprString(a) + ")"
	}
	if tv, ok := c.info.Types[a]; ok && tv.Value != nil {
		switch tv.Value.ExactString() {
		case "44": // ','
			return "S,"
		case "32": // ' '
			return "S"
		case "93", "125": // ']' '}'
			return "CLOSE"
		}
	}
	return "O"
}

func (c *tailCtx) isBuf(e ast.Expr) bool {
	return types.ExprString(ast.Unparen(e)) == c.bufText
}

// mentionsWriter: the call is handed the writer (receiver, function field or argument).
func (c *tailCtx) mentionsWriter(call *ast.CallExpr) bool {
	if c.wrName == "" {
		return false
	}
	found := false
	check := func(e ast.Expr) {
		switch x := ast.Unparen(e).(type) {
		case *ast.Ident:
			if x.Name == c.wrName {
				found = true
			}
		case *ast.UnaryExpr:
			if id, ok := ast.Unparen(x.X).(*ast.Ident); ok && id.Name == c.wrName {
				found = true
			}
		}
	}
	if sel, ok := call.Fun.(*ast.SelectorExpr); ok {
		check(sel.X)
	}
	for _, a := range call.Args {
		check(a)
	}
	return found
}

func (c *tailCtx) lastIndexOfBuf(e ast.Expr) bool {
	ix, ok := ast.Unparen(e).(*ast.IndexExpr)
	if !ok || !c.isBuf(ix.X) {
		return false
	}
	return types.ExprString(ix.Index) == "len("+c.bufText+")-1" || types.ExprString(ix.Index) == "len("+c.bufText+") - 1"
}

func (c *tailCtx) truncation(e ast.Expr) (string, bool) {
	sl, ok := ast.Unparen(e).(*ast.SliceExpr)
	if !ok || !c.isBuf(sl.X) || sl.Low != nil || sl.High == nil {
		return "", false
	}
	h := types.ExprString(sl.High)
	if h == "0" {
		return "0", true
	}
	for _, pre := range []string{"len(" + c.bufText + ")-", "len(" + c.bufText + ") - "} {
		if strings.HasPrefix(h, pre) {
			return strings.TrimSpace(h[len(pre):]), true
		}
	}
	return "?", true
}

func (c *tailCtx) each(in tailSet, f func(s *tailState) *tailState) tailSet {
	out := tailSet{}
	for _, s := range in {
		if n := f(s.clone()); n != nil {
			out.add(n)
		}
	}
	return out
}

func constBool(info *types.Info, e ast.Expr) (bool, bool) {
	if tv, ok := info.Types[e]; ok && tv.Value != nil && tv.Value.Kind().String() == "Bool" {
		return tv.Value.ExactString() == "true", true
	}
	return false, false
}

func (c *tailCtx) assign(s *ast.AssignStmt, in tailSet) tailSet {
	line := posLine(c.fset, s.Pos())
	// overwrite of the last byte
	if len(s.Lhs) == 1 && c.lastIndexOfBuf(s.Lhs[0]) {
		c.sites++
		return c.each(in, func(st *tailState) *tailState {
			if st.top() != "S" && st.top() != "S," {
				var fl []string
				for o, v := range st.flags {
					fl = append(fl, fmt.Sprintf("%s=%v", o.Name(), v))
				}
				sort.Strings(fl)
				c.findings = append(c.findings, tailFinding{pos: s.Pos(), top: st.top(), flags: strings.Join(fl, " "), trace: strings.Join(st.trace, " -> ")})
				c.badSites[s.Pos()] = true
			} else {
				c.okSites[s.Pos()] = true
			}
			st.pop()
			st.push("O")
			st.note("overwrite@" + line)
			return st
		})
	}
	// assignment to the buffer
	if len(s.Lhs) >= 1 && c.isBuf(s.Lhs[0]) && len(s.Rhs) == 1 {
		rhs := ast.Unparen(s.Rhs[0])
		if n, ok := c.truncation(rhs); ok {
			return c.each(in, func(st *tailState) *tailState {
				switch {
				case n == "0":
					st.stack = []string{"E"}
				case st.top() == "C:"+n:
					st.pop()
				default:
					st.stack = []string{"?"}
				}
				st.note("truncate " + n + "@" + line)
				return st
			})
		}
		if call, ok := rhs.(*ast.CallExpr); ok {
			if id, ok := call.Fun.(*ast.Ident); ok && id.Name == "append" && len(call.Args) >= 1 && c.isBuf(call.Args[0]) {
				seg := c.classifyAppend(call)
				if seg == "CLOSE" {
					seg = "O"
					for _, st := range in {
						if st.top() == "S," {
							var fl []string
							for o, v := range st.flags {
								fl = append(fl, fmt.Sprintf("%s=%v", o.Name(), v))
							}
							sort.Strings(fl)
							c.findings = append(c.findings, tailFinding{pos: s.Pos(), top: "DANGLING", flags: strings.Join(fl, " "), trace: strings.Join(st.trace, " -> ")})
							c.badSites[s.Pos()] = true
						}
					}
					c.closers++
				}
				return c.each(in, func(st *tailState) *tailState {
					st.push(seg)
					st.note("append " + seg + "@" + line)
					return st
				})
			}
			takesBuf := false
			for _, a := range call.Args {
				if c.isBuf(a) {
					takesBuf = true
				}
			}
			if takesBuf {
				seg := "O"
				if len(s.Lhs) == 3 {
					// buf, v, stat = fi.Append(fi, buf, ...): the field appenders write the key and, for
					// status aWrote, the value; status aSkip: nothing
					if sel, ok := call.Fun.(*ast.SelectorExpr); ok && (sel.Sel.Name == "Append" || sel.Sel.Name == "iAppend") {
						seg = "C:" + types.ExprString(sel.X) + ".keyLen()"
						if id, ok := s.Lhs[2].(*ast.Ident); ok {
							c.statusVar = c.info.Uses[id]
							if c.statusVar == nil {
								c.statusVar = c.info.Defs[id]
							}
						}
					}
				}
				return c.each(in, func(st *tailState) *tailState {
					st.push(seg)
					st.note("appender " + seg + "@" + line)
					return st
				})
			}
		}
		return c.each(in, func(st *tailState) *tailState {
			st.stack = []string{"?"}
			st.note("buffer reassigned@" + line)
			return st
		})
	}
	// flags
	out := in
	for i, l := range s.Lhs {
		id, ok := l.(*ast.Ident)
		if !ok {
			continue
		}
		o := c.info.Defs[id]
		if o == nil {
			o = c.info.Uses[id]
		}
		if o == nil {
			continue
		}
		if c.flagObjs[o] && len(s.Lhs) == len(s.Rhs) {
			if v, ok := constBool(c.info, s.Rhs[i]); ok {
				out = c.each(out, func(st *tailState) *tailState {
					st.flags[o] = v
					return st
				})
				continue
			}
		}
		// any other assignment to a variable drops the facts that mention it
		name := id.Name
		out = c.each(out, func(st *tailState) *tailState {
			for f := range st.facts {
				if f == name || strings.Contains(f, "("+name+")") {
					delete(st.facts, f)
				}
			}
			return st
		})
	}
	// a value emitter on the right-hand side (x := wr.something(...)) is rare; treat as a call
	for _, r := range s.Rhs {
		if call, ok := ast.Unparen(r).(*ast.CallExpr); ok && c.mentionsWriter(call) {
			out = c.valueCall(out, line)
		}
	}
	return out
}

func (c *tailCtx) valueCall(in tailSet, line string) tailSet {
	return c.each(in, func(st *tailState) *tailState {
		st.stack = []string{"O"}
		st.note("value emitter (may flush)@" + line)
		return st
	})
}

// nonZeroFact: cond implies expression X is non-zero in the then-branch (+1) or in the else-branch (-1).
func nonZeroFact(info *types.Info, cond ast.Expr) (string, int) {
	be, ok := ast.Unparen(cond).(*ast.BinaryExpr)
	if !ok {
		return "", 0
	}
	x, y, op := be.X, be.Y, be.Op
	if isZeroConst(info, x) {
		x, y = y, x
		switch op {
		case token.LSS:
			op = token.GTR
		case token.GTR:
			op = token.LSS
		}
	}
	if !isZeroConst(info, y) {
		return "", 0
	}
	t := types.ExprString(ast.Unparen(x))
	switch op {
	case token.GTR, token.NEQ:
		return t, 1
	case token.EQL:
		return t, -1
	}
	return "", 0
}

func (c *tailCtx) flagCond(cond ast.Expr) (types.Object, bool, bool) {
	switch x := ast.Unparen(cond).(type) {
	case *ast.Ident:
		if o := c.info.Uses[x]; o != nil && c.flagObjs[o] {
			return o, true, true
		}
	case *ast.UnaryExpr:
		if x.Op == token.NOT {
			if id, ok := ast.Unparen(x.X).(*ast.Ident); ok {
				if o := c.info.Uses[id]; o != nil && c.flagObjs[o] {
					return o, false, true
				}
			}
		}
	}
	return nil, false, false
}

func (c *tailCtx) split(cond ast.Expr, in tailSet) (thenIn, elseIn tailSet) {
	thenIn, elseIn = tailSet{}, tailSet{}
	if o, want, ok := c.flagCond(cond); ok {
		for _, st := range in {
			v, known := st.flags[o]
			if !known || v == want {
				n := st.clone()
				n.flags[o] = want
				thenIn.add(n)
			}
			if !known || v != want {
				n := st.clone()
				n.flags[o] = !want
				elseIn.add(n)
			}
		}
		return
	}
	fact, dir := nonZeroFact(c.info, cond)
	for _, st := range in {
		t, e := st.clone(), st.clone()
		if dir > 0 {
			t.facts[fact] = true
		} else if dir < 0 {
			e.facts[fact] = true
		}
		thenIn.add(t)
		elseIn.add(e)
	}
	return
}

func (c *tailCtx) block(list []ast.Stmt, in tailSet) tailSet {
	for _, st := range list {
		if len(in) == 0 {
			return in
		}
		in = c.stmt(st, in)
	}
	return in
}

func (c *tailCtx) loop(label string, body *ast.BlockStmt, post ast.Stmt, atLeastOnce func(*tailState) bool, in tailSet) tailSet {
	c.breaks = append(c.breaks, tailSet{})
	c.continues = append(c.continues, tailSet{})
	head := tailSet{}
	head.addAll(in)
	after := tailSet{} // states at the loop head after at least one iteration
	for iter := 0; ; iter++ {
		if iter > 200 {
			c.undecided = append(c.undecided, "loop fixpoint not reached")
			break
		}
		out := c.block(body.List, head)
		n := len(c.continues) - 1
		out.addAll(c.continues[n])
		c.continues[n] = tailSet{}
		if label != "" && c.cntLabel[label] != nil {
			out.addAll(c.cntLabel[label])
			delete(c.cntLabel, label)
		}
		if post != nil {
			out = c.stmt(post, out)
		}
		ch := after.addAll(out)
		if !head.addAll(out) && !ch {
			break
		}
	}
	exit := tailSet{}
	exit.addAll(after)
	for _, st := range in {
		if atLeastOnce == nil || !atLeastOnce(st) {
			exit.add(st)
		}
	}
	n := len(c.breaks) - 1
	exit.addAll(c.breaks[n])
	c.breaks = c.breaks[:n]
	c.continues = c.continues[:n]
	if label != "" && c.brkLabel[label] != nil {
		exit.addAll(c.brkLabel[label])
		delete(c.brkLabel, label)
	}
	return exit
}

func (c *tailCtx) clauses(label string, body *ast.BlockStmt, in tailSet, enter func(cl ast.Stmt, s tailSet) tailSet) tailSet {
	c.breaks = append(c.breaks, tailSet{})
	out := tailSet{}
	hasDefault := false
	for _, cl := range body.List {
		var list []ast.Stmt
		switch cc := cl.(type) {
		case *ast.CaseClause:
			list = cc.Body
			if cc.List == nil {
				hasDefault = true
			}
		case *ast.CommClause:
			list = cc.Body
			if cc.Comm == nil {
				hasDefault = true
			}
		}
		cin := in
		if enter != nil {
			cin = enter(cl, in)
		}
		out.addAll(c.block(list, cin))
	}
	if !hasDefault {
		out.addAll(in)
	}
	n := len(c.breaks) - 1
	out.addAll(c.breaks[n])
	c.breaks = c.breaks[:n]
	if label != "" && c.brkLabel[label] != nil {
		out.addAll(c.brkLabel[label])
		delete(c.brkLabel, label)
	}
	return out
}

func (c *tailCtx) stmt(st ast.Stmt, in tailSet) tailSet {
	return c.lstmt("", st, in)
}

func (c *tailCtx) lstmt(label string, st ast.Stmt, in tailSet) tailSet {
	switch s := st.(type) {
	case *ast.AssignStmt:
		return c.assign(s, in)
	case *ast.DeclStmt:
		gd, ok := s.Decl.(*ast.GenDecl)
		if !ok {
			return in
		}
		out := in
		for _, sp := range gd.Specs {
			vs, ok := sp.(*ast.ValueSpec)
			if !ok {
				continue
			}
			for i, n := range vs.Names {
				o := c.info.Defs[n]
				if o == nil || !c.flagObjs[o] {
					continue
				}
				v := false
				if i < len(vs.Values) {
					cv, ok := constBool(c.info, vs.Values[i])
					if !ok {
						continue
					}
					v = cv
				}
				out = c.each(out, func(st *tailState) *tailState {
					st.flags[o] = v
					return st
				})
			}
		}
		return out
	case *ast.ExprStmt:
		if call, ok := s.X.(*ast.CallExpr); ok {
			if id, ok := call.Fun.(*ast.Ident); ok && id.Name == "panic" {
				return tailSet{}
			}
			if c.mentionsWriter(call) {
				return c.valueCall(in, posLine(c.fset, s.Pos()))
			}
		}
		return in
	case *ast.ReturnStmt:
		return tailSet{}
	case *ast.BlockStmt:
		return c.block(s.List, in)
	case *ast.LabeledStmt:
		name := s.Label.Name
		cur := tailSet{}
		cur.addAll(in)
		var out tailSet
		for iter := 0; ; iter++ {
			out = c.lstmt(name, s.Stmt, cur)
			g := c.labels[name]
			delete(c.labels, name)
			if g == nil || !cur.addAll(g) || iter > 50 {
				break
			}
		}
		return out
	case *ast.BranchStmt:
		switch s.Tok {
		case token.BREAK:
			if s.Label != nil {
				if c.brkLabel[s.Label.Name] == nil {
					c.brkLabel[s.Label.Name] = tailSet{}
				}
				c.brkLabel[s.Label.Name].addAll(in)
			} else if n := len(c.breaks); n > 0 {
				c.breaks[n-1].addAll(in)
			}
		case token.CONTINUE:
			if s.Label != nil {
				if c.cntLabel[s.Label.Name] == nil {
					c.cntLabel[s.Label.Name] = tailSet{}
				}
				c.cntLabel[s.Label.Name].addAll(in)
			} else if n := len(c.continues); n > 0 {
				c.continues[n-1].addAll(in)
			}
		case token.GOTO:
			if c.labels[s.Label.Name] == nil {
				c.labels[s.Label.Name] = tailSet{}
			}
			c.labels[s.Label.Name].addAll(in)
		case token.FALLTHROUGH:
			c.undecided = append(c.undecided, "fallthrough at line "+posLine(c.fset, s.Pos()))
		}
		return tailSet{}
	case *ast.IfStmt:
		if s.Init != nil {
			in = c.stmt(s.Init, in)
		}
		thenIn, elseIn := c.split(s.Cond, in)
		out := c.block(s.Body.List, thenIn)
		if s.Else != nil {
			out.addAll(c.stmt(s.Else, elseIn))
		} else {
			out.addAll(elseIn)
		}
		return out
	case *ast.ForStmt:
		if s.Init != nil {
			in = c.stmt(s.Init, in)
		}
		var once func(*tailState) bool
		if be, ok := s.Cond.(*ast.BinaryExpr); ok && be.Op == token.LSS {
			bound := types.ExprString(ast.Unparen(be.Y))
			startsAtZero := false
			if as, ok := s.Init.(*ast.AssignStmt); ok && len(as.Rhs) == 1 && isZeroConst(c.info, as.Rhs[0]) {
				startsAtZero = true
			}
			if startsAtZero {
				once = func(st *tailState) bool { return st.facts[bound] }
			}
		}
		// continue in a three-clause loop runs the post statement: fold it into the loop helper
		return c.loop(label, s.Body, s.Post, once, in)
	case *ast.RangeStmt:
		x := types.ExprString(ast.Unparen(s.X))
		once := func(st *tailState) bool { return st.facts["len("+x+")"] }
		return c.loop(label, s.Body, nil, once, in)
	case *ast.SwitchStmt:
		if s.Init != nil {
			in = c.stmt(s.Init, in)
		}
		var enter func(cl ast.Stmt, set tailSet) tailSet
		if s.Tag != nil {
			if id, ok := ast.Unparen(s.Tag).(*ast.Ident); ok && c.statusVar != nil && c.info.Uses[id] == c.statusVar {
				enter = func(cl ast.Stmt, set tailSet) tailSet {
					cc := cl.(*ast.CaseClause)
					names := map[string]bool{}
					for _, e := range cc.List {
						if cid, ok := ast.Unparen(e).(*ast.Ident); ok {
							names[cid.Name] = true
						}
					}
					switch {
					case len(names) == 1 && names["aSkip"]:
						return c.each(set, func(st *tailState) *tailState {
							if strings.HasSuffix(st.top(), ".keyLen()") {
								st.pop()
								st.note("status aSkip: nothing was appended")
							}
							return st
						})
					case len(names) == 1 && names["aWrote"]:
						return c.each(set, func(st *tailState) *tailState {
							if strings.HasSuffix(st.top(), ".keyLen()") {
								st.pop()
								st.push("O")
								st.note("status aWrote: key and value appended")
							}
							return st
						})
					}
					return set
				}
			}
		} else {
			// tagless switch: clauses on tracked flags / facts filter the states in order
			return c.taglessSwitch(label, s, in)
		}
		return c.clauses(label, s.Body, in, enter)
	case *ast.TypeSwitchStmt:
		if s.Init != nil {
			in = c.stmt(s.Init, in)
		}
		return c.clauses(label, s.Body, in, nil)
	case *ast.SelectStmt:
		return c.clauses(label, s.Body, in, nil)
	case *ast.IncDecStmt, *ast.DeferStmt, *ast.GoStmt, *ast.EmptyStmt, *ast.SendStmt:
		return in
	}
	c.undecided = append(c.undecided, fmt.Sprintf("statement form %T at line %s", st, posLine(c.fset, st.Pos())))
	return in
}

func (c *tailCtx) taglessSwitch(label string, s *ast.SwitchStmt, in tailSet) tailSet {
	c.breaks = append(c.breaks, tailSet{})
	out := tailSet{}
	rest := in
	hasDefault := false
	var defaultBody []ast.Stmt
	for _, cl := range s.Body.List {
		cc := cl.(*ast.CaseClause)
		if cc.List == nil {
			hasDefault = true
			defaultBody = cc.Body
			continue
		}
		if len(cc.List) == 1 {
			t, e := c.split(cc.List[0], rest)
			out.addAll(c.block(cc.Body, t))
			rest = e
		} else {
			out.addAll(c.block(cc.Body, rest))
		}
	}
	if hasDefault {
		out.addAll(c.block(defaultBody, rest))
	} else {
		out.addAll(rest)
	}
	n := len(c.breaks) - 1
	out.addAll(c.breaks[n])
	c.breaks = c.breaks[:n]
	if label != "" && c.brkLabel[label] != nil {
		out.addAll(c.brkLabel[label])
		delete(c.brkLabel, label)
	}
	return out
}

// findOverwriteBuf returns the text of the buffer expression of the first last-byte overwrite in fd.
func findOverwriteBuf(info *types.Info, fd *ast.FuncDecl) string {
	buf := ""
	ast.Inspect(fd.Body, func(n ast.Node) bool {
		as, ok := n.(*ast.AssignStmt)
		if !ok || len(as.Lhs) != 1 || buf != "" {
			return buf == ""
		}
		ix, ok := ast.Unparen(as.Lhs[0]).(*ast.IndexExpr)
		if !ok {
			return true
		}
		t := info.TypeOf(ix.X)
		if t == nil {
			return true
		}
		sl, ok := t.Underlying().(*types.Slice)
		if !ok {
			return true
		}
		if b, ok := sl.Elem().Underlying().(*types.Basic); !ok || b.Kind() != types.Byte && b.Kind() != types.Uint8 {
			return true
		}
		x := types.ExprString(ast.Unparen(ix.X))
		idx := strings.ReplaceAll(types.ExprString(ix.Index), " ", "")
		if idx == "len("+x+")-1" {
			buf = x
		}
		return true
	})
	return buf
}

type tailResult struct {
	fn        string
	sites     int
	states    int
	findings  []tailFinding
	undecided []string
	okSites   int
}

func analyseTail(fset *token.FileSet, info *types.Info, fd *ast.FuncDecl) *tailResult {
	buf := findOverwriteBuf(info, fd)
	if buf == "" {
		return nil
	}
	c := &tailCtx{info: info, fset: fset, bufText: buf, flagObjs: map[types.Object]bool{}, labels: map[string]tailSet{}, brkLabel: map[string]tailSet{}, cntLabel: map[string]tailSet{}, okSites: map[token.Pos]bool{}, badSites: map[token.Pos]bool{}}
	if i := strings.Index(buf, "."); i > 0 {
		c.wrName = buf[:i]
	}
	// tracked flags: boolean locals every assignment of which has a constant right-hand side
	cand := map[types.Object]bool{}
	ast.Inspect(fd.Body, func(n ast.Node) bool {
		switch s := n.(type) {
		case *ast.AssignStmt:
			for i, l := range s.Lhs {
				id, ok := l.(*ast.Ident)
				if !ok {
					continue
				}
				o := info.Defs[id]
				if o == nil {
					o = info.Uses[id]
				}
				if o == nil {
					continue
				}
				if b, ok := o.Type().Underlying().(*types.Basic); !ok || b.Kind() != types.Bool {
					continue
				}
				isConst := false
				if len(s.Lhs) == len(s.Rhs) {
					_, isConst = constBool(info, s.Rhs[i])
				}
				if _, seen := cand[o]; !seen {
					cand[o] = true
				}
				if !isConst {
					cand[o] = false
				}
			}
		case *ast.ValueSpec:
			for i, n := range s.Names {
				o := info.Defs[n]
				if o == nil {
					continue
				}
				if b, ok := o.Type().Underlying().(*types.Basic); !ok || b.Kind() != types.Bool {
					continue
				}
				ok := true
				if i < len(s.Values) {
					_, ok = constBool(info, s.Values[i])
				}
				if _, seen := cand[o]; !seen {
					cand[o] = true
				}
				if !ok {
					cand[o] = false
				}
			}
		case *ast.UnaryExpr:
			if s.Op == token.AND {
				if id, ok := ast.Unparen(s.X).(*ast.Ident); ok {
					if o := info.Uses[id]; o != nil {
						cand[o] = false // address taken
					}
				}
			}
		}
		return true
	})
	for o, ok := range cand {
		if ok {
			c.flagObjs[o] = true
		}
	}
	start := tailSet{}
	start.add(&tailState{stack: []string{"?"}, flags: map[types.Object]bool{}, facts: map[string]bool{}})
	out := c.block(fd.Body.List, start)
	res := &tailResult{fn: funcKey(fd), sites: len(c.okSites) + len(c.badSites), findings: c.findings, undecided: c.undecided, states: len(out)}
	for p := range c.okSites {
		if !c.badSites[p] {
			res.okSites++
		}
	}
	if len(c.labels) > 0 {
		res.undecided = append(res.undecided, "goto to a label that is not an enclosing labelled statement")
	}
	return res
}

const fixtureTail = `package fixture

type Writer struct {
	buf     []byte
	OmitNil bool
}

func (wr *Writer) value(v any) { wr.buf = append(wr.buf, 'v') }

// fine: empty case returns early, every iteration ends with the separator
func (wr *Writer) list(n []any) {
	if len(n) == 0 {
		wr.buf = append(wr.buf, "[]"...)
		return
	}
	wr.buf = append(wr.buf, '[')
	for _, m := range n {
		wr.value(m)
		wr.buf = append(wr.buf, ',')
	}
	wr.buf[len(wr.buf)-1] = ']'
}

// broken: the early return is gone, the opening bracket can be overwritten
func (wr *Writer) listNoGuard(n []any) {
	wr.buf = append(wr.buf, '[')
	for _, m := range n {
		wr.value(m)
		wr.buf = append(wr.buf, ',')
	}
	wr.buf[len(wr.buf)-1] = ']'
}

// fine: flag steered, omitted members skipped before anything is appended
func (wr *Writer) object(n map[string]any) {
	comma := false
	wr.buf = append(wr.buf, '{')
	for k, m := range n {
		if m == nil && wr.OmitNil {
			continue
		}
		wr.buf = append(wr.buf, k...)
		wr.buf = append(wr.buf, ':')
		wr.value(m)
		wr.buf = append(wr.buf, ',')
		comma = true
	}
	if comma {
		wr.buf[len(wr.buf)-1] = '}'
	} else {
		wr.buf = append(wr.buf, '}')
	}
}

// broken: the flag is set although the member was omitted after its key had been appended
func (wr *Writer) objectKeyLeft(n map[string]any) {
	comma := false
	wr.buf = append(wr.buf, '{')
	for k, m := range n {
		wr.buf = append(wr.buf, k...)
		comma = true
		if m == nil && wr.OmitNil {
			continue
		}
		wr.buf = append(wr.buf, ':')
		wr.value(m)
		wr.buf = append(wr.buf, ',')
	}
	if comma {
		wr.buf[len(wr.buf)-1] = '}'
	} else {
		wr.buf = append(wr.buf, '}')
	}
}

// fine: the indentation taken back before the overwrite
func (wr *Writer) indented(n []any, cs string) {
	empty := true
	ind := false
	wr.buf = append(wr.buf, '[')
	for _, m := range n {
		if !ind {
			wr.buf = append(wr.buf, cs...)
			ind = true
		}
		if m == nil {
			continue
		}
		wr.value(m)
		wr.buf = append(wr.buf, ',')
		ind = false
		empty = false
	}
	if ind {
		wr.buf = wr.buf[:len(wr.buf)-len(cs)]
	}
	if !empty {
		wr.buf[len(wr.buf)-1] = '\n'
	}
	wr.buf = append(wr.buf, ']')
}
`

func ruleTail(prog *Program, rep *Report, floor int, rels ...string) {
	rep.Rules = append(rep.Rules, "W-tail: at every `buf[len(buf)-1] = c` of a container emitter the last byte of the buffer is, in every reachable abstract state, a separator (',' or ' ') that the same function appended after the last call that could have flushed the buffer; the emitters are interpreted over their statement tree with the tail of the buffer (separator / other content / a segment the code takes back with buf[:len(buf)-n] / unknown), the boolean steering locals by value, and the non-emptiness facts that make a loop run at least once. The field appenders' status codes are read as: aSkip appended nothing, aWrote appended key and value, anything else appended the key (keyLen bytes)")
	ff, finfo, ffset, err := loadFixture(fixtureTail)
	if err != nil {
		rep.Errorf("W-tail: positive-control fixture does not type-check: %v", err)
		return
	}
	var got []string
	for _, d := range ff[0].Decls {
		if fd, ok := d.(*ast.FuncDecl); ok && fd.Body != nil {
			if r := analyseTail(ffset, finfo, fd); r != nil {
				st := "ok"
				if len(r.findings) > 0 {
					st = "bad"
				}
				if len(r.undecided) > 0 {
					st = "undecided"
				}
				got = append(got, r.fn+":"+st)
			}
		}
	}
	sort.Strings(got)
	want := "Writer.indented:ok Writer.list:ok Writer.listNoGuard:bad Writer.object:ok Writer.objectKeyLeft:bad"
	if strings.Join(got, " ") != want {
		rep.Errorf("W-tail: the positive-control fixture produced [%s] (want [%s]): the interpreter no longer sees the construct", strings.Join(got, " "), want)
		return
	}
	rep.Discharge("W-tail", "positive-control", "checker/rules_tail.go", "fixture: overwritten opening bracket and key left behind reported; early return, flag steering and taken-back indentation accepted")
	total := 0
	for _, rel := range rels {
		pk := prog.Pkg(rel)
		if pk == nil {
			rep.Errorf("W-tail: package %s not loaded", rel)
			continue
		}
		for _, f := range pk.Syntax {
			if strings.HasSuffix(prog.Fset.Position(f.Pos()).Filename, "_test.go") {
				continue
			}
			for _, d := range f.Decls {
				fd, ok := d.(*ast.FuncDecl)
				if !ok || fd.Body == nil {
					continue
				}
				r := analyseTail(prog.Fset, pk.TypesInfo, fd)
				if r == nil {
					continue
				}
				total += r.sites
				key := rel + "." + r.fn
				for _, u := range r.undecided {
					rep.Errorf("W-tail: %s: undecided: %s", key, u)
				}
				seen := map[string]bool{}
				for _, fnd := range r.findings {
					k := fmt.Sprintf("%s:tail-%s", key, strings.SplitN(fnd.top, ":", 2)[0])
					if seen[k] {
						continue
					}
					seen[k] = true
					what := map[string]string{"O": "other content (the opening byte, a value or a key)", "?": "unknown (nothing this function appended since the buffer may have been emptied)", "E": "nothing: the buffer is empty", "C": "a segment that was to be taken back", "DANGLING": "DANGLING"}[strings.SplitN(fnd.top, ":", 2)[0]]
					if what == "DANGLING" {
						rep.Violate(Finding{Rule: "W-tail", Key: key + ":comma-before-closer", Pos: prog.Pos(fnd.pos), Msg: fmt.Sprintf("%s appends the closing byte on a path where the last byte of the buffer is a comma it appended itself: the container ends in a trailing comma [state: %s; path: %s]", r.fn, fnd.flags, fnd.trace)})
						continue
					}
					rep.Violate(Finding{Rule: "W-tail", Key: k, Pos: prog.Pos(fnd.pos), Msg: fmt.Sprintf("%s overwrites the last byte of the buffer on a path where that byte is %s, not a separator it appended [state: %s; path: %s]", r.fn, what, fnd.flags, fnd.trace)})
				}
				if len(r.findings) == 0 && len(r.undecided) == 0 {
					rep.Discharge("W-tail", key, prog.Pos(fd.Pos()), fmt.Sprintf("%d overwrite site(s): the tail is a separator in every reachable state", r.sites))
				}
			}
		}
	}
	rep.Eval(total)
	if total < floor {
		rep.Errorf("W-tail examined %d overwrite sites (floor %d): anchors did not resolve", total, floor)
	}
}
