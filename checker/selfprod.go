package main

import (
	"fmt"
	"os"
	"sort"
	"strings"
	"sync"
	"sync/atomic"
)

// Self product: chunk independence of a front-end that has no independent
// reference (the SEN parser and tokenizer on SEN-only syntax).
//
// X is the machine under an arbitrary chunking: fast paths may look ahead as
// far as the buffer allows and a refill may happen between any two steps. Z is
// the same machine under the canonical one-byte chunking: every dispatched
// byte is the last one of its buffer, so no fast path is ever taken. Both read
// the same bytes. The two must agree on
//
//   - the verdict for every byte (error / continue) and at end of input,
//   - container pushes and pops (lock-step, equal frames),
//   - the sequence of observable events (handler calls for a tokenizer;
//     build-stack operations and hand-offs for a parser). A fast path reports
//     a token when it sees the delimiter as look-ahead, the slow path when the
//     delimiter is dispatched, so the sequences are compared with a bounded lag.
//
// Conditions over untracked data fork on both sides; a disagreement is only
// reported when NO pairing of the forks agrees (existential pairing: sound
// against false alarms, weaker for detection).

type sstate struct {
	peek       *[256]bool // X has already looked at the next byte
	todo       *[256]bool // bytes still to explore from this state (nil: all)
	skipEOF    bool       // end of input and refill were already explored for this state
	x, z       *State
	lagX, lagZ []string
	parent     *sstate
	input      string
	depth      int
}

func (p *sstate) witness() string {
	var parts []string
	for q := p; q != nil; q = q.parent {
		parts = append(parts, q.input)
	}
	var sb strings.Builder
	for i := len(parts) - 1; i >= 0; i-- {
		sb.WriteString(parts[i])
	}
	return sb.String()
}

type selfExplorer struct {
	m                  *Machine
	multi              bool
	stack              string
	kind               string
	workers            int
	dis                map[string]Disagreement
	undec              map[string]bool
	stats              *ExploreStats
	firstPop, lastCand int
	noNote             bool // do not register pushed frames as pop candidates (the caller registers tagged frames itself)
}

// lagBound: how many events one side may be ahead. On the pinned tree the tokenizer is never more
// than 1 event ahead (a token value), the parser never more than 4 (value push, hand-off store or
// callback + send, reset); one more is allowed.
func (ex *selfExplorer) lagBound() int {
	if ex.m.in.handler != nil {
		return 2
	}
	return 5
}

const maxLag = 5

var maxLagSeen int64

type zpath struct {
	z      *State
	dec    []string
	events []string
	pushes int
	pops   int
	input  string
}

func (ex *selfExplorer) evs(evs []Event) []string {
	var out []string
	for _, e := range evs {
		switch e.Name {
		case "VAL":
			// the add-like helper's parameter: the fast and the slow path use different helpers; the build-stack operations (B) are compared instead
		case "Int", "Float", "Number":
			out = append(out, "NUM")
		default:
			out = append(out, e.String())
		}
	}
	return out
}

// zStep: one byte under one-byte chunking, re-dispatches followed, then the
// refill that precedes the next byte.
func (ex *selfExplorer) zStep(in *Interp, z *State, b int, pr *selfRes) (next []zpath, errs int, problems []string) {
	ck := ex.m.Key(z) + fmt.Sprintf("#%d", b)
	if pr.zcache == nil {
		pr.zcache = map[string]zmemo{}
	}
	if c, ok := pr.zcache[ck]; ok {
		return c.next, c.errs, c.probs
	}
	defer func() { pr.zcache[ck] = zmemo{next, errs, problems} }()
	outs := ex.chain(in, z, b, true, map[string]bool{ex.m.Key(z): true}, 0, pr)
	for _, o := range outs {
		switch o.Kind {
		case "error":
			errs++
		case "next":
			if hasNoCase(o.Notes) {
				problems = append(problems, "no-arm")
				continue
			}
			if len(o.Items) > 0 {
				problems = append(problems, "one-byte step consumed look-ahead")
				continue
			}
			for _, pu := range o.Pushes {
				if st, ok := o.Next.stacks[pu.Field]; ok && !st.Empty && !ex.noNote {
					ex.m.noteBelow(pu.Field, st)
				}
			}
			for _, h := range ex.m.Refill(in, o.Next) {
				next = append(next, zpath{z: h, dec: o.Decisions, events: ex.evs(o.Events), pushes: len(o.Pushes), pops: len(o.Pops)})
			}
		case "halt":
			problems = append(problems, "early return")
		case "panic":
			problems = append(problems, "panic: "+o.Why)
		case "no-progress":
			problems = append(problems, "no-progress")
		default:
			problems = append(problems, o.Kind+": "+o.Why)
		}
	}
	return
}

func hasNoCase(notes []string) bool {
	for _, n := range notes {
		if strings.HasPrefix(n, "no-case:") {
			return true
		}
	}
	return false
}

func (ex *selfExplorer) chain(in *Interp, x *State, b int, oneByte bool, chain map[string]bool, depth int, pr *selfRes) []Outcome {
	outs := dedupeOutcomes(ex.m, ex.m.StepOpt(in, x, b, oneByte))
	pr.arms++
	var res []Outcome
	for _, o := range outs {
		if o.Kind == "next" && o.Redispatch {
			if len(o.Items) > 0 {
				o.Kind = "undecided"
				o.Why = "re-dispatch after consuming look-ahead"
				res = append(res, o)
				continue
			}
			k := ex.m.Key(o.Next)
			if chain[k] || depth >= 4 {
				o.Kind = "no-progress"
				res = append(res, o)
				continue
			}
			chain[k] = true
			sub := ex.chain(in, o.Next, b, oneByte, chain, depth+1, pr)
			delete(chain, k)
			for _, o2 := range sub {
				o2.Events = append(append([]Event{}, o.Events...), o2.Events...)
				o2.Decisions = append(append([]string{}, o.Decisions...), o2.Decisions...)
				o2.Pops = append(append([]string{}, o.Pops...), o2.Pops...)
				o2.Pushes = append(append([]pushRec{}, o.Pushes...), o2.Pushes...)
				o2.Notes = append(append([]string{}, o.Notes...), o2.Notes...)
				res = append(res, o2)
			}
			if len(res) > 5000 {
				return []Outcome{{Kind: "undecided", Why: "too many outcomes while following re-dispatches"}}
			}
			continue
		}
		res = append(res, o)
	}
	return dedupeOutcomes(ex.m, res)
}

type zmemo struct {
	next  []zpath
	errs  int
	probs []string
}

type selfRes struct {
	zcache map[string]zmemo
	acache map[string]advMemo
	succs  []*sstate
	dis    []Disagreement
	undec  []string
	trans  int
	arms   int
	mode   string
	popped bool
}

type advMemo struct {
	cur     []zpath
	dead    string
	problem string
}

func itemsSig(items []ConsItem) string {
	var sb strings.Builder
	for _, it := range items {
		sb.WriteByte(it.Rep)
		for b := 0; b < 256; b += 8 {
			var v byte
			for j := 0; j < 8; j++ {
				if it.Set[b+j] {
					v |= 1 << j
				}
			}
			sb.WriteByte(v)
		}
	}
	return sb.String()
}

// advanceZ moves Z over the look-ahead items X consumed (memoised per
// product state: the start set is the same for every X outcome of a byte).
func (ex *selfExplorer) advanceZ(in *Interp, b0 int, start []zpath, items []ConsItem, pr *selfRes) (cur []zpath, dead string, problem string) {
	if len(items) == 0 {
		return start, "", ""
	}
	if pr.acache == nil {
		pr.acache = map[string]advMemo{}
	}
	ck := fmt.Sprintf("%d|", b0) + itemsSig(items)
	if c, ok := pr.acache[ck]; ok {
		return c.cur, c.dead, c.problem
	}
	cur, dead, problem = ex.advanceZ1(in, start, items, pr)
	pr.acache[ck] = advMemo{cur, dead, problem}
	return
}

func (ex *selfExplorer) advanceZ1(in *Interp, start []zpath, items []ConsItem, pr *selfRes) (cur []zpath, dead string, problem string) {
	cur = start
	key := func(p zpath) string {
		return ex.m.Key(p.z) + "|" + strings.Join(p.events, ",") + fmt.Sprintf("|%d,%d|", p.pushes, p.pops) + strings.Join(p.dec, ",")
	}
	for _, it := range items {
		// the set must be a union of byte classes
		var reps []int
		for _, r := range in.cls.reps() {
			if it.Set[r] {
				reps = append(reps, r)
			}
		}
		for b := 0; b < 256; b++ {
			if it.Set[b] != it.Set[in.cls.rep(b)] {
				return nil, "", fmt.Sprintf("look-ahead set splits byte class of 0x%02x", b)
			}
		}
		stepSet := func(from []zpath) ([]zpath, string, string) {
			var next []zpath
			seen := map[string]bool{}
			lastDead := ""
			for _, p := range from {
				for _, b := range reps {
					ns, errs, probs := ex.zStep(in, p.z, b, pr)
					if len(probs) > 0 {
						return nil, "", probs[0]
					}
					if len(ns) == 0 && errs > 0 {
						lastDead = p.input + string(rune(b))
					}
					for _, n := range ns {
						if !decisionsAgree(p.dec, n.dec) {
							continue
						}
						q := zpath{z: n.z, dec: append(append([]string{}, p.dec...), n.dec...), events: append(append([]string{}, p.events...), n.events...), pushes: p.pushes + n.pushes, pops: p.pops + n.pops, input: p.input + string(rune(b))}
						k := key(q)
						if !seen[k] {
							seen[k] = true
							next = append(next, q)
						}
					}
				}
			}
			return next, lastDead, ""
		}
		switch it.Rep {
		case '1':
			n, d, prob := stepSet(cur)
			if prob != "" {
				return nil, "", prob
			}
			if len(n) == 0 {
				return nil, d, ""
			}
			if d != "" {
				dead = d
			}
			cur = n
		case '+', '*':
			var all []zpath
			seen := map[string]bool{}
			add := func(ps []zpath) []zpath {
				var fresh []zpath
				for _, p := range ps {
					k := key(p)
					if !seen[k] {
						seen[k] = true
						all = append(all, p)
						fresh = append(fresh, p)
					}
				}
				return fresh
			}
			frontier := cur
			if it.Rep == '*' {
				add(cur)
			}
			for len(frontier) > 0 {
				n, d, prob := stepSet(frontier)
				if prob != "" {
					return nil, "", prob
				}
				if d != "" {
					dead = d
				}
				frontier = add(n)
				if len(all) > 2000 {
					return nil, "", "closure over a look-ahead scan too large"
				}
			}
			if len(all) == 0 {
				return nil, dead, ""
			}
			cur = all
		}
	}
	return cur, dead, ""
}

// decisionsAgree: no condition (by source position) was decided differently
// on the two sides. The first decision at a position counts.
func decisionsAgree(a, b []string) bool {
	if len(a) == 0 || len(b) == 0 {
		return true
	}
	m := map[string]byte{}
	for _, d := range a {
		i := strings.LastIndexByte(d, '=')
		if _, ok := m[d[:i]]; !ok {
			m[d[:i]] = d[i+1]
		}
	}
	seen := map[string]bool{}
	for _, d := range b {
		i := strings.LastIndexByte(d, '=')
		if seen[d[:i]] {
			continue
		}
		seen[d[:i]] = true
		if v, ok := m[d[:i]]; ok && v != d[i+1] {
			return false
		}
	}
	return true
}

// mergeLag appends the new events and cancels the common prefix.
func mergeLag(lx, lz, ex, ez []string) (nx, nz []string, ok bool) {
	nx = append(append([]string{}, lx...), ex...)
	nz = append(append([]string{}, lz...), ez...)
	for len(nx) > 0 && len(nz) > 0 {
		if nx[0] != nz[0] {
			return nx, nz, false
		}
		nx, nz = nx[1:], nz[1:]
	}
	return nx, nz, true
}

func (ex *selfExplorer) process(in *Interp, p *sstate) (res selfRes) {
	m := ex.m
	mode := m.ModeOf(p.x)
	res.mode = mode
	zmode := m.ModeOf(p.z)
	report := func(kind, byteS, detail, wit string) {
		res.dis = append(res.dis, Disagreement{Kind: kind, Mode: mode + "/" + zmode, Byte: byteS, Detail: detail, Witness: wit,
			XState: m.StateString(p.x), YState: m.StateString(p.z)})
	}
	push := func(q *sstate) { res.succs = append(res.succs, q) }
	// arbitrary chunking of X: a refill may happen here (not when X has seen the next byte: it is in the same buffer)
	if p.peek == nil && !p.skipEOF {
		for _, h := range m.Refill(in, p.x) {
			push(&sstate{x: h, z: p.z, lagX: p.lagX, lagZ: p.lagZ, parent: p, depth: p.depth})
		}
	}
	// end of input
	res.arms += 2
	xe := m.EOF(in, p.x)
	ze := m.EOF(in, p.z)
	kinds := func(outs []Outcome) (errs, halts []Outcome, other string) {
		for _, o := range outs {
			switch o.Kind {
			case "error":
				errs = append(errs, o)
			case "halt":
				halts = append(halts, o)
			default:
				other = o.Kind + ": " + o.Why
			}
		}
		return
	}
	xErr, xHalt, xo := kinds(xe)
	zErr, zHalt, zo := kinds(ze)
	switch {
	case p.peek != nil || p.skipEOF:
		// X has seen a next byte: the input does not end here (or: already explored)
	case xo != "" || zo != "":
		res.undec = append(res.undec, fmt.Sprintf("%s[self]: end of input in mode %s/%s: %s%s", m.Name, mode, zmode, xo, zo))
	case len(xHalt) > 0 && len(zHalt) == 0:
		report("chunk-eof", "EOF", "end of input here is accepted when the bytes arrived in one buffer but is an error when they arrived one byte at a time", p.witness())
	case len(xHalt) == 0 && len(zHalt) > 0:
		report("chunk-eof", "EOF", "end of input here is an error when the bytes arrived in one buffer but is accepted when they arrived one byte at a time", p.witness())
	case len(xHalt) > 0:
		okPair := false
		var sx, sz []string
		for _, a := range xHalt {
			for _, b := range zHalt {
				nx, nz, ok := mergeLag(p.lagX, p.lagZ, ex.evs(a.Events), ex.evs(b.Events))
				if ok && len(nx) == 0 && len(nz) == 0 {
					okPair = true
				}
				sx, sz = append(p.lagX, ex.evs(a.Events)...), append(p.lagZ, ex.evs(b.Events)...)
			}
		}
		if !okPair {
			report("chunk-events", "EOF", fmt.Sprintf("at end of input the outstanding events differ: one buffer %v, one byte at a time %v", sx, sz), p.witness())
		}
	}
	_, _ = xErr, zErr
	for _, b := range in.cls.reps() {
		if p.todo != nil && !p.todo[b] {
			continue
		}
		inb := string(rune(b))
		xo := ex.chain(in, p.x, b, false, map[string]bool{m.Key(p.x): true}, 0, &res)
		zn, zerrs, zprobs := ex.zStep(in, p.z, b, &res)
		res.trans += len(xo)
		if len(zprobs) > 0 {
			if strings.HasPrefix(zprobs[0], "panic") || zprobs[0] == "no-progress" || zprobs[0] == "early return" || zprobs[0] == "no-arm" {
				continue // decided by the exploration of the machine alone (A-panic, A-noarm)
			}
			res.undec = append(res.undec, fmt.Sprintf("%s[self]: mode %s byte %s (one-byte side): %s", m.Name, zmode, byteDesc(b), zprobs[0]))
			continue
		}
		xErrs, xNext := 0, 0
		bad := false
		for _, o := range xo {
			switch o.Kind {
			case "error":
				xErrs++
			case "next":
				xNext++
				if hasNoCase(o.Notes) {
					bad = true // a byte silently skipped for lack of an arm: reported by A-noarm, not followed
				}
			case "panic", "no-progress", "halt":
				bad = true // decided by the exploration of the machine alone
			default:
				res.undec = append(res.undec, fmt.Sprintf("%s[self]: mode %s byte %s: %s %s", m.Name, mode, byteDesc(b), o.Kind, o.Why))
				bad = true
			}
		}
		if bad {
			continue
		}
		// verdict on the dispatched byte
		if xErrs > 0 && zerrs == 0 && xNext == 0 {
			report("chunk-verdict", byteDesc(b), "this byte is an error when the preceding bytes were read in one buffer (mode "+mode+") but is accepted when they arrived one byte at a time (mode "+zmode+")", p.witness()+inb)
			continue
		}
		if xErrs == 0 && zerrs > 0 && len(zn) == 0 {
			report("chunk-verdict", byteDesc(b), "this byte is accepted when the preceding bytes were read in one buffer (mode "+mode+") but is an error when they arrived one byte at a time (mode "+zmode+")", p.witness()+inb)
			continue
		}
		for _, o := range xo {
			if o.Kind != "next" {
				continue
			}
			for _, pu := range o.Pushes {
				if st, ok := o.Next.stacks[pu.Field]; ok && !st.Empty {
					m.noteBelow(pu.Field, st)
				}
			}
			if len(o.Pops) > 0 {
				res.popped = true
			}
			zs, dead, prob := ex.advanceZ(in, b, zn, o.Items, &res)
			if prob != "" {
				if strings.HasPrefix(prob, "panic") || prob == "no-progress" || prob == "early return" || prob == "no-arm" {
					continue
				}
				res.undec = append(res.undec, fmt.Sprintf("%s[self]: mode %s byte %s: %s", m.Name, mode, byteDesc(b), prob))
				continue
			}
			if len(zs) == 0 {
				if len(zn) == 0 {
					continue // Z forks disagree on the dispatched byte; handled above
				}
				report("chunk-verdict", byteDesc(b), "bytes consumed by a fast path are an error when they arrive one byte at a time (mode "+zmode+")", p.witness()+inb+dead)
				continue
			}
			// pair the X outcome with the Z paths
			paired := 0
			why := ""
			wIn := ""
			evWhy, evIn := "", ""
			for _, zp := range zs {
				if !decisionsAgree(o.Decisions, zp.dec) {
					continue // the two sides took different branches of the same condition over the same data
				}
				if zp.pushes != len(o.Pushes) || zp.pops != len(o.Pops) {
					why = fmt.Sprintf("container operations differ: one buffer pushes=%d pops=%d, one byte at a time pushes=%d pops=%d", len(o.Pushes), len(o.Pops), zp.pushes, zp.pops)
					wIn = zp.input
					continue
				}
				xs, zst := o.Next.stacks[ex.stack], zp.z.stacks[ex.stack]
				if xs.String() != zst.String() || xs.Tag != zst.Tag {
					if len(o.Pops) > 0 && !xs.Empty && !zst.Empty && xs.Top.String() == zst.Top.String() && xs.Saved == zst.Saved {
						continue // the two sides restored different candidates for what the pop uncovered: not a pairing
					}
					why = fmt.Sprintf("container stack tops differ: one buffer %s, one byte at a time %s", xs.String(), zst.String())
					wIn = zp.input
					continue
				}
				nx, nz, ok := mergeLag(p.lagX, p.lagZ, ex.evs(o.Events), zp.events)
				if !ok {
					evWhy = fmt.Sprintf("event sequences differ: one buffer ...%v, one byte at a time ...%v", nx, nz)
					evIn = zp.input
					continue
				}
				if l := len(nx) + len(nz); l > int(atomic.LoadInt64(&maxLagSeen)) {
					atomic.StoreInt64(&maxLagSeen, int64(l))
				}
				if len(nx) > ex.lagBound() || len(nz) > ex.lagBound() {
					res.undec = append(res.undec, fmt.Sprintf("%s[self]: one chunking is more than %d events ahead of the other in mode %s (on the pinned tree never more than %d): the two sides no longer describe the same tokens", m.Name, ex.lagBound(), mode, ex.lagBound()-1))
					continue
				}
				paired++
				push(&sstate{x: o.Next, z: zp.z, lagX: nx, lagZ: nz, parent: p, input: inb + zp.input, depth: p.depth + 1, peek: o.Peek})
			}
			if evWhy != "" {
				why, wIn = evWhy, evIn // both sides agree on the containers: the events are the informative difference
			}
			if paired == 0 && why != "" {
				kind := "chunk-events"
				if strings.HasPrefix(why, "container") {
					kind = "chunk-stack"
				}
				report(kind, byteDesc(b), why, p.witness()+inb+wIn)
			}
		}
	}
	return res
}

func (ex *selfExplorer) round(starts []*State) {
	m := ex.m
	type seenRec struct {
		explored [256]bool
		eofDone  bool
	}
	seen := map[string]*seenRec{}
	var level []*sstate
	push := func(dst *[]*sstate, p *sstate) {
		k := m.Key(p.x) + "||" + m.Key(p.z) + "||" + strings.Join(p.lagX, ",") + "||" + strings.Join(p.lagZ, ",")
		rec := seen[k]
		if rec == nil {
			rec = &seenRec{}
			seen[k] = rec
		}
		var todo [256]bool
		n := 0
		for b := 0; b < 256; b++ {
			if (p.peek == nil || p.peek[b]) && !rec.explored[b] {
				todo[b] = true
				rec.explored[b] = true
				n++
			}
		}
		needEOF := p.peek == nil && !rec.eofDone
		if n == 0 && !needEOF {
			return
		}
		if needEOF {
			rec.eofDone = true
		}
		p.todo = &todo
		p.skipEOF = !needEOF
		*dst = append(*dst, p)
	}
	for _, s := range starts {
		for _, h := range m.enterWork(s) {
			push(&level, &sstate{x: h, z: h.clone()})
		}
	}
	nw := ex.workers
	if nw < 1 {
		nw = 1
	}
	ins := make([]*Interp, nw)
	for i := range ins {
		ins[i] = m.in.workerCopy()
	}
	lvl := 0
	ex.firstPop, ex.lastCand = -1, -1
	for len(level) > 0 {
		lvl++
		results := make([]selfRes, len(level))
		var wg sync.WaitGroup
		var next int64 = -1
		for w := 0; w < nw; w++ {
			wg.Add(1)
			go func(in *Interp) {
				defer wg.Done()
				for {
					i := int(atomic.AddInt64(&next, 1))
					if i >= len(level) || ex.stats.States+i > 60000 {
						return
					}
					results[i] = ex.process(in, level[i])
				}
			}(ins[w])
		}
		wg.Wait()
		if os.Getenv("OJGCHECK_TRACE") != "" {
			fmt.Printf("  self level %d: %d states\n", lvl, len(level))
			if os.Getenv("OJGCHECK_TRACE") == "2" {
				cnt := map[string]int{}
				for _, p := range level {
					cnt[fmt.Sprintf("%s / %s lag %v %v w=%q", m.StateString(p.x), m.StateString(p.z), p.lagX, p.lagZ, p.witness())]++
				}
				var ks []string
				for k := range cnt {
					ks = append(ks, k)
				}
				sort.Strings(ks)
				for i, k := range ks {
					if i < 60 {
						fmt.Printf("      %d x %s\n", cnt[k], k)
					}
				}
			}
		}
		if m.newBelow {
			m.newBelow = false
			m.applyBelow()
			ex.lastCand = lvl
		}
		var nextLevel []*sstate
		for i := range results {
			r := results[i]
			if r.popped && ex.firstPop < 0 {
				ex.firstPop = lvl
			}
			ex.stats.States++
			ex.stats.Transitions += r.trans
			ex.stats.ArmRuns += r.arms
			ex.stats.Modes[r.mode] = true
			for _, d := range r.dis {
				k := d.Key(m.Name)
				if old, ok := ex.dis[k]; !ok || len(old.Witness) > len(d.Witness) {
					ex.dis[k] = d
				}
			}
			for _, u := range r.undec {
				ex.undec[u] = true
			}
			for _, sp := range r.succs {
				push(&nextLevel, sp)
			}
		}
		level = nextLevel
		if ex.stats.States > 60000 {
			ex.undec[m.Name+"[self]: more than 60000 product states (the clean tree needs under 15000)"] = true
			break
		}
	}
	for _, in := range ins {
		for _, u := range in.undecided {
			ex.undec[u] = true
		}
	}
	if os.Getenv("OJGCHECK_TRACE") == "3" {
		cnt := map[string]int{}
		for k := range seen {
			secs := strings.Split(k, "||")
			for si, part := range secs {
				if si >= 2 {
					cnt[fmt.Sprintf("lag%d:%s", si, part)]++
					continue
				}
				for _, f := range strings.Split(part, " ") {
					cnt[fmt.Sprintf("%d:%s", si, f)]++
				}
			}
		}
		var ks []string
		for k := range cnt {
			ks = append(ks, k)
		}
		sort.Slice(ks, func(i, j int) bool { return cnt[ks[i]] > cnt[ks[j]] })
		for i, k := range ks {
			if i < 80 {
				fmt.Printf("   %6d %s\n", cnt[k], k)
			}
		}
	}
}

// ExploreSelf runs the self product to a fixpoint.
func ExploreSelf(m *Machine, starts []*State, multi bool, stats *ExploreStats, workers int) (map[string]Disagreement, []string) {
	ex := &selfExplorer{workers: workers, m: m, multi: multi, dis: map[string]Disagreement{}, undec: map[string]bool{}, stats: stats}
	var stackFields []string
	for f := range m.in.stackFld {
		stackFields = append(stackFields, f)
	}
	sort.Strings(stackFields)
	if len(stackFields) != 1 {
		return nil, []string{fmt.Sprintf("%s: expected exactly one container stack field, found %v", m.Name, stackFields)}
	}
	ex.stack = stackFields[0]
	m.in.cls = newByteClasses(m.tableVals, multi)
	m.in.cls.seeding = true
	for _, b := range m.seedBytes {
		m.in.cls.request("eq", b, "")
	}
	m.in.cls.seeding = false
	if stats.Modes == nil {
		stats.Modes = map[string]bool{}
	}
	for round := 0; round < 12; round++ {
		stats.Rounds++
		m.newBelow = false
		m.applyBelow()
		m.in.cls.rebuild()
		ex.dis = map[string]Disagreement{}
		stats.States, stats.Transitions, stats.ArmRuns = 0, 0, 0
		if hs := m.enterWork(starts[0]); len(hs) > 0 {
			m.computeLiveness(hs[0])
		}
		ex.round(starts)
		if !(ex.firstPop >= 0 && ex.firstPop <= ex.lastCand) && !m.in.cls.dirty {
			break
		}
		if os.Getenv("OJGCHECK_TRACE") != "" {
			fmt.Printf("self round %d: firstPop=%d lastCand=%d clsDirty=%v classes=%d states=%d\n", round, ex.firstPop, ex.lastCand, m.in.cls.dirty, len(m.in.cls.list), stats.States)
		}
	}
	var und []string
	for u := range ex.undec {
		und = append(und, u)
	}
	for _, u := range m.in.undecided {
		und = append(und, u)
	}
	sort.Strings(und)
	return ex.dis, und
}
