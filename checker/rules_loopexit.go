package main

import (
	"fmt"
	"go/ast"
	"go/token"
	"go/types"
	"sort"
	"strings"
)

// P-loopexit: two slips that turn a loop over all elements into something else.
//
//	(a) the body of a loop ends, on every path, in a return or break, and contains no
//	    continue: only the first element is ever examined (a search that answers for
//	    the first candidate instead of for any);
//	(b) an unlabelled break is the last thing a case clause does inside a loop
//	    (`default: ... if done { break }`): it leaves the switch, which ends there
//	    anyway, not the loop it was meant to stop.
type loopExitSite struct {
	pos  token.Pos
	fn   string
	kind string
	msg  string
}

func endsFlow(st ast.Stmt) bool {
	switch s := st.(type) {
	case *ast.ReturnStmt:
		return true
	case *ast.BranchStmt:
		return s.Tok == token.BREAK && s.Label == nil
	case *ast.ExprStmt:
		if call, ok := s.X.(*ast.CallExpr); ok {
			if id, ok := call.Fun.(*ast.Ident); ok && id.Name == "panic" {
				return true
			}
		}
	case *ast.IfStmt:
		if s.Else == nil {
			return false
		}
		if len(s.Body.List) == 0 || !endsFlow(s.Body.List[len(s.Body.List)-1]) {
			return false
		}
		switch e := s.Else.(type) {
		case *ast.BlockStmt:
			return len(e.List) > 0 && endsFlow(e.List[len(e.List)-1])
		case *ast.IfStmt:
			return endsFlow(e)
		}
	case *ast.BlockStmt:
		return len(s.List) > 0 && endsFlow(s.List[len(s.List)-1])
	}
	return false
}

func endsWithReturnFalse(fd *ast.FuncDecl) bool {
	if len(fd.Body.List) == 0 {
		return false
	}
	rs, ok := fd.Body.List[len(fd.Body.List)-1].(*ast.ReturnStmt)
	if !ok || len(rs.Results) != 1 {
		return false
	}
	id, ok := rs.Results[0].(*ast.Ident)
	return ok && id.Name == "false"
}

func loopExitSites(prog *Program, rel string) (sites []loopExitSite, loops int) {
	pk := prog.Pkg(rel)
	if pk == nil {
		return
	}
	for _, f := range pk.Syntax {
		if strings.HasSuffix(prog.Fset.Position(f.Pos()).Filename, "_test.go") {
			continue
		}
		for _, d := range f.Decls {
			fd, ok := d.(*ast.FuncDecl)
			if !ok || fd.Body == nil {
				continue
			}
			var path []ast.Node
			ast.Inspect(fd.Body, func(n ast.Node) bool {
				if n == nil {
					path = path[:len(path)-1]
					return true
				}
				path = append(path, n)
				var body *ast.BlockStmt
				isRange := false
				switch l := n.(type) {
				case *ast.ForStmt:
					body = l.Body
					if l.Cond == nil && l.Init == nil && l.Post == nil {
						body = nil // `for { ... }` with a final break/return is a block with early exits, not an iteration
					}
				case *ast.RangeStmt:
					body = l.Body
					isRange = true
				}
				if body != nil && len(body.List) > 0 {
					loops++
					hasContinue := false
					ast.Inspect(body, func(k ast.Node) bool {
						switch x := k.(type) {
						case *ast.FuncLit:
							return false
						case *ast.BranchStmt:
							if x.Tok == token.CONTINUE || x.Tok == token.GOTO {
								hasContinue = true
							}
						}
						return true
					})
					// a range over a map used to take "any one element" is an idiom: for _, v = range m { return v }
					single := len(body.List) == 1
					if !hasContinue && endsFlow(body.List[len(body.List)-1]) && !(isRange && single) {
						sites = append(sites, loopExitSite{pos: n.Pos(), fn: funcKey(fd), kind: "first-iteration-only",
							msg: "every path through the loop body ends in a return or break and none continues: only the first element is examined"})
					}
				}
				// (c) a search function (ends with `return false`) that returns a comparison from inside a loop
				if rs, ok := n.(*ast.ReturnStmt); ok && len(rs.Results) == 1 && endsWithReturnFalse(fd) {
					if be, ok := ast.Unparen(rs.Results[0]).(*ast.BinaryExpr); ok && (be.Op == token.EQL || be.Op == token.NEQ || be.Op == token.LSS || be.Op == token.GTR || be.Op == token.LEQ || be.Op == token.GEQ) {
						inLoop := false
						for i := len(path) - 2; i >= 0; i-- {
							switch path[i].(type) {
							case *ast.ForStmt, *ast.RangeStmt:
								inLoop = true
							case *ast.FuncLit:
								i = -1
							}
						}
						if inLoop {
							sites = append(sites, loopExitSite{pos: rs.Pos(), fn: funcKey(fd), kind: "search-answers-for-first-candidate",
								msg: "the function searches (it ends with `return false`) but returns the outcome of a comparison from inside the loop: a candidate that does not match ends the search instead of letting it go on"})
						}
					}
				}
				// (b) ineffective break
				if br, ok := n.(*ast.BranchStmt); ok && br.Tok == token.BREAK && br.Label == nil {
					// innermost breakable: walk up
					inLoop := false
					var clause *ast.CaseClause
					child := ast.Node(br)
					lastInClause := true
					for i := len(path) - 2; i >= 0; i-- {
						switch p := path[i].(type) {
						case *ast.BlockStmt:
							if len(p.List) == 0 || ast.Node(p.List[len(p.List)-1]) != child {
								if _, isStmt := child.(ast.Stmt); isStmt {
									lastInClause = false
								}
							}
						case *ast.CaseClause:
							if clause == nil {
								clause = p
								if len(p.Body) == 0 || ast.Node(p.Body[len(p.Body)-1]) != child {
									lastInClause = false
								}
							}
						case *ast.ForStmt, *ast.RangeStmt:
							if clause != nil {
								inLoop = true
							}
							i = -1
						case *ast.FuncLit, *ast.SelectStmt:
							i = -1
						}
						if i >= 0 {
							child = path[i]
						}
						if clause != nil && !inLoop {
							// keep walking up only to find the loop
							lastCopy := lastInClause
							for j := i - 1; j >= 0; j-- {
								switch path[j].(type) {
								case *ast.ForStmt, *ast.RangeStmt:
									inLoop = true
									j = -1
								case *ast.FuncLit, *ast.FuncDecl:
									j = -1
								}
							}
							lastInClause = lastCopy
							break
						}
					}
					if clause != nil && inLoop && lastInClause {
						// a bare `break` as the whole clause body is the usual way to write an empty case
						if !(len(clause.Body) == 1 && clause.Body[0] == ast.Stmt(br)) {
							sites = append(sites, loopExitSite{pos: br.Pos(), fn: funcKey(fd), kind: "break-leaves-switch-only",
								msg: "this unlabelled break is the last thing its case clause does: it leaves the switch, which ends there anyway, not the enclosing loop"})
						}
					}
				}
				return true
			})
		}
	}
	return
}

// loopExitAccepted: sites confirmed by reading, rel.func:kind -> reason.
var loopExitAccepted = map[string]string{}

func ruleLoopExit(prog *Program, rep *Report, floor int, rels ...string) {
	rep.Rules = append(rep.Rules, "P-loopexit: no loop over elements ends its body on every path with a return or break (without any continue) - that examines only the first element - and no unlabelled break is the last statement a case clause executes inside a loop (it would leave only the switch); a function that ends with `return false` does not return a comparison from inside a loop")
	total := 0
	for _, rel := range rels {
		sites, loops := loopExitSites(prog, rel)
		total += loops
		sort.Slice(sites, func(i, j int) bool { return sites[i].pos < sites[j].pos })
		cnt := map[string]int{}
		for _, s := range sites {
			base := fmt.Sprintf("%s.%s:%s", rel, s.fn, s.kind)
			cnt[base]++
			key := fmt.Sprintf("%s#%d", base, cnt[base])
			if r := loopExitAccepted[key]; r != "" {
				rep.Discharge("P-loopexit", key, prog.Pos(s.pos), "accepted (read): "+r)
				continue
			}
			rep.Violate(Finding{Rule: "P-loopexit", Key: key, Pos: prog.Pos(s.pos), Msg: s.fn + ": " + s.msg})
		}
		rep.Discharge("P-loopexit", rel, rel, fmt.Sprintf("%d loops examined, %d sites", loops, len(sites)))
	}
	rep.Eval(total)
	if total < floor {
		rep.Errorf("P-loopexit examined %d loops (floor %d)", total, floor)
	}
	_ = types.Universe
}
