package main

import (
	"fmt"
	"go/types"
	"sort"
	"strings"

	"golang.org/x/tools/go/ssa"
)

// Engine D, pool part: pooled objects and writer-owned buffers.

func isSyncPoolMethod(c *ssa.CallCommon, name string) bool {
	fn := c.StaticCallee()
	if fn == nil || fn.Name() != name {
		return false
	}
	recv := fn.Signature.Recv()
	if recv == nil {
		return false
	}
	t := recv.Type()
	if p, ok := t.(*types.Pointer); ok {
		t = p.Elem()
	}
	n, ok := t.(*types.Named)
	return ok && n.Obj().Pkg() != nil && n.Obj().Pkg().Path() == "sync" && n.Obj().Name() == "Pool"
}

func isWriterPtr(t types.Type) bool {
	p, ok := t.(*types.Pointer)
	if !ok {
		return false
	}
	n, ok := p.Elem().(*types.Named)
	if !ok || n.Obj().Pkg() == nil || n.Obj().Name() != "Writer" {
		return false
	}
	return strings.HasPrefix(n.Obj().Pkg().Path(), modulePath)
}

// derivedFrom computes the values that are the same object as one of the
// roots (through type assertions, tuple extraction, phi, conversions).
func derivedFrom(fn *ssa.Function, roots map[ssa.Value]bool) map[ssa.Value]bool {
	d := map[ssa.Value]bool{}
	for r := range roots {
		d[r] = true
	}
	for changed := true; changed; {
		changed = false
		for _, b := range fn.Blocks {
			for _, ins := range b.Instrs {
				v, ok := ins.(ssa.Value)
				if !ok || d[v] {
					continue
				}
				hit := false
				switch x := ins.(type) {
				case *ssa.TypeAssert:
					hit = d[x.X]
				case *ssa.Extract:
					hit = d[x.Tuple]
				case *ssa.Phi:
					for _, e := range x.Edges {
						if d[e] {
							hit = true
						}
					}
				case *ssa.ChangeType:
					hit = d[x.X]
				case *ssa.MakeInterface:
					hit = d[x.X]
				case *ssa.ChangeInterface:
					hit = d[x.X]
				case *ssa.UnOp:
					// load of a local variable cell that holds the object
					if al, ok := x.X.(*ssa.Alloc); ok {
						for _, ref := range *al.Referrers() {
							if st, ok := ref.(*ssa.Store); ok && st.Addr == al && d[st.Val] {
								hit = true
							}
						}
					}
				}
				if hit {
					d[v] = true
					changed = true
				}
			}
		}
	}
	return d
}

type ownSummary struct {
	memo map[*ssa.Function]map[int]bool // nil = unknown; result indexes that are owned by the receiver
	busy map[*ssa.Function]bool
}

// ownedValues: values that denote memory owned by one of the objects in d
// (a slice/map/pointer loaded from a field, a reslice of it, a phi of such,
// or the result of a method of the object that returns owned memory).
func (s *ownSummary) ownedValues(fn *ssa.Function, d map[ssa.Value]bool) map[ssa.Value]bool {
	o := map[ssa.Value]bool{}
	mutable := func(t types.Type) bool {
		switch t.Underlying().(type) {
		case *types.Slice, *types.Map, *types.Pointer:
			return true
		}
		return false
	}
	for changed := true; changed; {
		changed = false
		for _, b := range fn.Blocks {
			for _, ins := range b.Instrs {
				v, ok := ins.(ssa.Value)
				if !ok || o[v] {
					continue
				}
				hit := false
				switch x := ins.(type) {
				case *ssa.UnOp:
					if fa, ok := x.X.(*ssa.FieldAddr); ok && d[fa.X] && mutable(x.Type()) {
						hit = true
					}
					if al, ok := x.X.(*ssa.Alloc); ok {
						for _, ref := range *al.Referrers() {
							if st, ok := ref.(*ssa.Store); ok && st.Addr == al && o[st.Val] {
								hit = true
							}
						}
					}
				case *ssa.Slice:
					hit = o[x.X]
				case *ssa.Phi:
					for _, e := range x.Edges {
						if o[e] {
							hit = true
						}
					}
				case *ssa.ChangeType:
					hit = o[x.X]
				case *ssa.Extract:
					if c, ok := x.Tuple.(*ssa.Call); ok {
						if callee := c.Call.StaticCallee(); callee != nil && len(c.Call.Args) > 0 && d[c.Call.Args[0]] && callee.Signature.Recv() != nil {
							hit = s.returnsOwned(callee)[x.Index]
						}
					}
				case *ssa.Call:
					if callee := x.Call.StaticCallee(); callee != nil && len(x.Call.Args) > 0 && d[x.Call.Args[0]] && callee.Signature.Recv() != nil && callee.Signature.Results().Len() == 1 {
						hit = s.returnsOwned(callee)[0]
					}
					// append(owned, ...) writes into the owned array while it has room and returns it:
					// append(b[:0], b...) looks like a copy and is the buffer itself
					if bi, ok := x.Call.Value.(*ssa.Builtin); ok && bi.Name() == "append" && len(x.Call.Args) > 0 && o[x.Call.Args[0]] {
						hit = true
					}
				}
				if hit {
					o[v] = true
					changed = true
				}
			}
		}
	}
	return o
}

// returnsOwned: the result indexes of the method that can yield memory owned
// by its receiver.
func (s *ownSummary) returnsOwned(fn *ssa.Function) map[int]bool {
	if s.memo == nil {
		s.memo = map[*ssa.Function]map[int]bool{}
		s.busy = map[*ssa.Function]bool{}
	}
	if r, ok := s.memo[fn]; ok {
		return r
	}
	if s.busy[fn] {
		return map[int]bool{}
	}
	s.busy[fn] = true
	res := map[int]bool{}
	if len(fn.Params) > 0 && len(fn.Blocks) > 0 {
		d := derivedFrom(fn, map[ssa.Value]bool{fn.Params[0]: true})
		o := s.ownedValues(fn, d)
		for _, b := range fn.Blocks {
			for _, ins := range b.Instrs {
				if r, ok := ins.(*ssa.Return); ok {
					for i, rv := range r.Results {
						if o[rv] && mutableType(rv.Type()) {
							res[i] = true
						}
					}
				}
			}
		}
	}
	s.busy[fn] = false
	s.memo[fn] = res
	return res
}

func mutableType(t types.Type) bool {
	switch t.Underlying().(type) {
	case *types.Slice, *types.Map, *types.Pointer:
		return true
	}
	return false
}

// returnAliasExceptions: package-level functions documented to return the
// caller-supplied Writer's buffer.
var returnAliasExceptions = map[string]string{
	"sen.Bytes": "documented: 'The returned buffer is the Writer buffer and is reused on the next call to write' (caller-supplied Writer only)",
}

func ruleReturnAlias(prog *Program, rep *Report, prop string, pkgs ...string) {
	if len(pkgs) == 0 {
		pkgs = []string{"oj", "sen", "pretty"}
	}
	rep.Rules = append(rep.Rules, "D-alias: no package-level function of oj, sen or pretty returns memory owned by a Writer (a slice loaded from a Writer field, a reslice of it, or the result of a Writer method that returns such memory): never for a Writer taken from a sync.Pool, and for a caller-supplied Writer only where the documentation says so; a copying conversion (string(b), make+copy, append to a fresh slice) breaks the ownership; append to an owned slice - append(b[:0], b...) - does not")
	sum := &ownSummary{}
	checked := 0
	for _, rel := range pkgs {
		sp := prog.SSAPkg(rel)
		if sp == nil {
			rep.Errorf("ssa package %s missing", rel)
			continue
		}
		var names []string
		for n := range sp.Members {
			names = append(names, n)
		}
		sort.Strings(names)
		for _, n := range names {
			fn, ok := sp.Members[n].(*ssa.Function)
			if !ok || len(fn.Blocks) == 0 || fn.Object() == nil || !fn.Object().Exported() {
				continue
			}
			roots := map[ssa.Value]bool{}
			pooled := map[ssa.Value]bool{}
			for _, p := range fn.Params {
				if isWriterPtr(p.Type()) {
					roots[p] = true
				}
			}
			for _, b := range fn.Blocks {
				for _, ins := range b.Instrs {
					if c, ok := ins.(*ssa.Call); ok {
						if isSyncPoolMethod(&c.Call, "Get") {
							roots[c] = true
							pooled[c] = true
						} else if isWriterPtr(c.Type()) {
							roots[c] = true
						}
					}
					if a, ok := ins.(*ssa.Alloc); ok && isWriterPtr(a.Type()) {
						roots[a] = true
					}
				}
			}
			if len(roots) == 0 {
				continue
			}
			dAll := derivedFrom(fn, roots)
			oAll := sum.ownedValues(fn, dAll)
			dPool := derivedFrom(fn, pooled)
			oPool := sum.ownedValues(fn, dPool)
			key := rel + "." + n
			bad := false
			for _, b := range fn.Blocks {
				for _, ins := range b.Instrs {
					r, ok := ins.(*ssa.Return)
					if !ok {
						continue
					}
					for _, rv := range r.Results {
						if !mutableType(rv.Type()) {
							continue
						}
						checked++
						switch {
						case oPool[rv]:
							bad = true
							rep.Violate(Finding{Rule: "D-alias", Key: key + ":pooled", Pos: prog.Pos(r.Pos()),
								Msg: "returns memory that still belongs to a Writer taken from a sync.Pool: the next user of the pooled Writer overwrites bytes already returned"})
						case oAll[rv]:
							if _, ok := returnAliasExceptions[key]; ok {
								continue
							}
							bad = true
							rep.Violate(Finding{Rule: "D-alias", Key: key + ":writer-buffer", Pos: prog.Pos(r.Pos()),
								Msg: "returns the internal buffer of the Writer it was given without copying: the next call on that Writer alters a value already returned"})
						}
					}
				}
			}
			if !bad {
				rep.Discharge("D-alias", key, prog.Pos(fn.Pos()), "no returned slice/map/pointer is owned by a Writer")
			}
		}
	}
	if checked == 0 {
		rep.Errorf("D-alias examined no return value: anchors did not resolve")
	}
	_ = prop
}

// rulePoolPut: a pooled object must not be used after it was put back.
// pooledTypeName: "rel.T" of the type the result of a sync.Pool Get is asserted to in fn ("" if none).
func pooledTypeName(fn *ssa.Function, gets map[ssa.Value]bool) string {
	for _, b := range fn.Blocks {
		for _, ins := range b.Instrs {
			ta, ok := ins.(*ssa.TypeAssert)
			if !ok || !gets[ta.X] {
				continue
			}
			t := ta.AssertedType
			if p, ok := t.(*types.Pointer); ok {
				t = p.Elem()
			}
			if n, ok := t.(*types.Named); ok && n.Obj().Pkg() != nil {
				return strings.TrimPrefix(strings.TrimPrefix(n.Obj().Pkg().Path(), modulePath), "/") + "." + n.Obj().Name()
			}
		}
	}
	return ""
}

// rulePoolPut takes an optional scope: the pooled types ("oj.Parser", ...) the calling property is about.
func rulePoolPut(prog *Program, rep *Report, scope ...string) {
	rep.Rules = append(rep.Rules, "D-put: in every function that takes an object from a sync.Pool, Put is deferred, or no instruction reachable after a non-deferred Put uses the object (use after Put lets two goroutines share one instance)")
	sites := 0
	for _, pk := range prog.LibPkgs() {
		rel := strings.TrimPrefix(strings.TrimPrefix(pk.PkgPath, modulePath), "/")
		sp := prog.SSAPkg(rel)
		if sp == nil {
			continue
		}
		var fns []*ssa.Function
		for _, m := range sp.Members {
			if fn, ok := m.(*ssa.Function); ok {
				fns = append(fns, fn)
				fns = append(fns, fn.AnonFuncs...)
			}
			if t, ok := m.(*ssa.Type); ok {
				for _, tt := range []types.Type{t.Type(), types.NewPointer(t.Type())} {
					ms := prog.SSA().MethodSets.MethodSet(tt)
					for i := 0; i < ms.Len(); i++ {
						if f := prog.SSA().MethodValue(ms.At(i)); f != nil && f.Pkg == sp {
							fns = append(fns, f)
						}
					}
				}
			}
		}
		sort.Slice(fns, func(i, j int) bool { return fns[i].String() < fns[j].String() })
		seen := map[*ssa.Function]bool{}
		for _, fn := range fns {
			if seen[fn] || len(fn.Blocks) == 0 {
				continue
			}
			seen[fn] = true
			gets := map[ssa.Value]bool{}
			for _, b := range fn.Blocks {
				for _, ins := range b.Instrs {
					if c, ok := ins.(*ssa.Call); ok && isSyncPoolMethod(&c.Call, "Get") {
						gets[c] = true
					}
				}
			}
			if len(gets) == 0 {
				continue
			}
			if len(scope) > 0 {
				pt := pooledTypeName(fn, gets)
				in := false
				for _, sc := range scope {
					if sc == pt {
						in = true
					}
				}
				if !in {
					continue
				}
			}
			d := derivedFrom(fn, gets)
			key := fn.String()
			deferred, plain := 0, 0
			violated := false
			for _, b := range fn.Blocks {
				for i, ins := range b.Instrs {
					switch x := ins.(type) {
					case *ssa.Defer:
						if isSyncPoolMethod(&x.Call, "Put") {
							deferred++
						}
					case *ssa.Call:
						if !isSyncPoolMethod(&x.Call, "Put") || len(x.Call.Args) < 2 {
							continue
						}
						// the argument is a MakeInterface of the object
						if !d[x.Call.Args[1]] {
							continue
						}
						plain++
						if usedAfter(fn, b, i, d) {
							violated = true
							rep.Violate(Finding{Rule: "D-put", Key: key + ":use-after-put", Pos: prog.Pos(x.Pos()),
								Msg: "the pooled object is put back before its last use in this function: another goroutine can obtain the same instance while this call still works on it"})
						}
					}
				}
			}
			sites++
			if !violated {
				rep.Discharge("D-put", key, prog.Pos(fn.Pos()), fmt.Sprintf("deferred Put: %d, plain Put with no later use: %d", deferred, plain))
			}
		}
	}
	floor := 6
	if len(scope) > 0 {
		floor = 2
	}
	if sites < floor {
		rep.Errorf("D-put found only %d functions using sync.Pool.Get (floor %d): anchors did not resolve", sites, floor)
	}
}

// usedAfter: is any value of d used by an instruction reachable after
// instruction idx of block b?
func usedAfter(fn *ssa.Function, b *ssa.BasicBlock, idx int, d map[ssa.Value]bool) bool {
	uses := func(ins ssa.Instruction) bool {
		if _, isPhi := ins.(*ssa.Phi); isPhi {
			return false
		}
		for _, op := range ins.Operands(nil) {
			if op != nil && *op != nil && d[*op] {
				// the MakeInterface feeding the Put itself is not a use
				return true
			}
		}
		return false
	}
	for i := idx + 1; i < len(b.Instrs); i++ {
		if uses(b.Instrs[i]) {
			return true
		}
	}
	seen := map[*ssa.BasicBlock]bool{}
	work := append([]*ssa.BasicBlock{}, b.Succs...)
	for len(work) > 0 {
		c := work[0]
		work = work[1:]
		if seen[c] {
			continue
		}
		seen[c] = true
		for _, ins := range c.Instrs {
			if uses(ins) {
				return true
			}
		}
		work = append(work, c.Succs...)
	}
	return false
}
