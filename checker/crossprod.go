package main

import (
	"fmt"
	"os"
	"regexp"
	"runtime"
	"sort"
	"strings"
	"sync"
	"sync/atomic"
)

var tagRE = regexp.MustCompile(`#\d+`)

// Cross product: two front-ends of the same grammar that have no common
// reference (sen.Parser and sen.Tokenizer) are compared with each other, both
// under one-byte chunking (chunk independence of each is decided separately by
// the self product). They must accept the same language:
//
//   - whenever one side reports an error at a byte, the other side either
//     reports one too or is in a state from which no continuation is accepted
//     (one front-end may notice a hopeless input later than the other: the
//     tokenizer rejects a number in key position at its first digit, the parser
//     when the number ends);
//   - at end of input the verdicts agree under the same proviso;
//   - containers are pushed and popped on the same bytes.
//
// "No continuation is accepted" is decided on each machine's own state graph
// (backward reachability from the states that accept end of input).

type aloneNode struct {
	st     *State
	succ   map[int][]string // byte class rep -> successor keys
	accept bool             // some path accepts end of input here
	alive  bool
}

type aloneGraph struct {
	m       *Machine
	nodes   map[string]*aloneNode
	undec   []string
	skipped map[int]bool // byte classes on which some state has no arm (or panics): outside the language the two share
	exclude map[int]bool
}

// oneByteStep: one byte under one-byte chunking with re-dispatches followed and
// the refill before the next byte; steps through a missing arm, a panic or a
// no-progress loop yield nothing (decided elsewhere).
type obRes struct {
	next    []zpath
	errs    int
	skipped bool
	problem string
}

var obCache = map[*Machine]map[string]obRes{}

func oneByteStep(m *Machine, in *Interp, z *State, b int, noNote bool) (next []zpath, errs int, skipped bool, problem string) {
	cache := obCache[m]
	if cache == nil {
		cache = map[string]obRes{}
		obCache[m] = cache
	}
	ck := fmt.Sprintf("%s#%d#%d#%v", m.Key(z), b, len(m.belowC[firstStack(m)]), noNote)
	if r, ok := cache[ck]; ok {
		return r.next, r.errs, r.skipped, r.problem
	}
	defer func() { cache[ck] = obRes{next, errs, skipped, problem} }()
	ex := &selfExplorer{m: m, noNote: noNote}
	var pr selfRes
	ns, e, probs := ex.zStep(in, z, b, &pr)
	for _, p := range probs {
		if strings.HasPrefix(p, "panic") || p == "no-progress" || p == "early return" || p == "no-arm" {
			skipped = true
			continue
		}
		problem = p
	}
	return ns, e, skipped, problem
}

// stepOnce: oneByteStep without the shared cache (safe to call from workers, each with its own Interp).
func stepOnce(m *Machine, in *Interp, z *State, b int, noNote bool) (next []zpath, errs int, skipped bool, problem string) {
	ex := &selfExplorer{m: m, noNote: noNote}
	var pr selfRes
	ns, e, probs := ex.zStep(in, z, b, &pr)
	for _, p := range probs {
		if strings.HasPrefix(p, "panic") || p == "no-progress" || p == "early return" || p == "no-arm" {
			skipped = true
			continue
		}
		problem = p
	}
	return ns, e, skipped, problem
}

func parallelFor(n int, workers []*Interp, f func(i int, in *Interp)) {
	var wg sync.WaitGroup
	var next int64 = -1
	for _, in := range workers {
		wg.Add(1)
		go func(in *Interp) {
			defer wg.Done()
			for {
				i := int(atomic.AddInt64(&next, 1))
				if i >= n {
					return
				}
				f(i, in)
			}
		}(in)
	}
	wg.Wait()
}

func workerInterps(m *Machine) []*Interp {
	n := runtime.NumCPU()
	ins := make([]*Interp, n)
	for i := range ins {
		ins[i] = m.in.workerCopy()
	}
	return ins
}

func buildAloneGraph(m *Machine, starts []*State) *aloneGraph {
	g := &aloneGraph{m: m, skipped: map[int]bool{}}
	reps := m.in.cls.reps()
	type stepRes struct {
		ns   []zpath
		skip bool
		prob string
	}
	type nodeRes struct {
		accept bool
		steps  []stepRes
	}
	for round := 0; round < 8; round++ {
		g.nodes = map[string]*aloneNode{}
		m.newBelow = false
		m.applyBelow()
		ins := workerInterps(m)
		var level []string
		add := func(s *State) string {
			k := m.Key(s)
			if _, ok := g.nodes[k]; !ok {
				g.nodes[k] = &aloneNode{st: s, succ: map[int][]string{}}
				level = append(level, k)
			}
			return k
		}
		for _, s := range starts {
			for _, h := range m.enterWork(s) {
				add(h)
			}
		}
		firstPop, lastCand, lvl := -1, -1, 0
		for len(level) > 0 {
			lvl++
			cur := level
			level = nil
			results := make([]nodeRes, len(cur))
			parallelFor(len(cur), ins, func(i int, in *Interp) {
				n := g.nodes[cur[i]]
				r := &results[i]
				for _, o := range m.EOF(in, n.st) {
					if o.Kind == "halt" {
						r.accept = true
					}
				}
				r.steps = make([]stepRes, len(reps))
				for bi, b := range reps {
					ns, _, skip, prob := stepOnce(m, in, n.st, b, false)
					r.steps[bi] = stepRes{ns, skip, prob}
				}
			})
			for i, k := range cur {
				n := g.nodes[k]
				n.accept = results[i].accept
				for bi, b := range reps {
					sr := results[i].steps[bi]
					if sr.skip {
						g.skipped[b] = true
					}
					if sr.prob != "" {
						g.undec = append(g.undec, fmt.Sprintf("%s[cross]: mode %s byte %s: %s", m.Name, m.ModeOf(n.st), byteDesc(b), sr.prob))
						continue
					}
					// a pop whose uncovered frame is not determined (the abstraction knows a bounded number of
					// frames below the top) must not be used to argue that acceptance is still reachable
					restored := map[string]bool{}
					for _, p := range sr.ns {
						if p.pops > 0 {
							restored[p.z.stacks[firstStack(m)].String()] = true
						}
					}
					for _, p := range sr.ns {
						if p.pops > 0 && firstPop < 0 {
							firstPop = lvl
						}
						k2 := add(p.z)
						if p.pops > 0 && len(restored) > 1 {
							continue // explored, but not an edge of the acceptance argument
						}
						n.succ[b] = append(n.succ[b], k2)
					}
				}
			}
			if m.newBelow {
				m.newBelow = false
				m.applyBelow()
				lastCand = lvl
			}
			if len(g.nodes) > 60000 {
				g.undec = append(g.undec, m.Name+"[cross]: more than 60000 states")
				return g
			}
		}
		for _, in := range ins {
			g.undec = append(g.undec, in.undecided...)
		}
		if !(firstPop >= 0 && firstPop <= lastCand) {
			break
		}
	}
	return g
}

// computeAlive: backward reachability of acceptance, not using the excluded byte classes.
func (g *aloneGraph) computeAlive(exclude map[int]bool) {
	g.exclude = exclude
	for _, n := range g.nodes {
		n.alive = n.accept
	}
	for changed := true; changed; {
		changed = false
		for _, n := range g.nodes {
			if n.alive {
				continue
			}
			for b, ks := range n.succ {
				if exclude[b] {
					continue
				}
				for _, k := range ks {
					if g.nodes[k].alive {
						n.alive = true
						changed = true
						break
					}
				}
				if n.alive {
					break
				}
			}
		}
	}
}

func firstStack(m *Machine) string {
	for f := range m.in.stackFld {
		return f
	}
	return ""
}

// untaggedKey: the state's key with the pairing tags of the container frames removed
// (the alone graphs are built without tags).
func untaggedKey(m *Machine, s *State) string {
	c := s.clone()
	for f, st := range c.stacks {
		st.Tag = 0
		st.Prev = tagRE.ReplaceAllString(st.Prev, "#0")
		c.stacks[f] = st
	}
	return m.Key(c)
}

type cpre struct {
	eofP, eofT []Outcome
	stepP      []obRes
	stepT      []obRes
}

type cstate struct {
	pre    *cpre
	p, t   *State
	parent *cstate
	input  string
}

func (c *cstate) witness() string {
	var parts []string
	for q := c; q != nil; q = q.parent {
		parts = append(parts, q.input)
	}
	var sb strings.Builder
	for i := len(parts) - 1; i >= 0; i-- {
		sb.WriteString(parts[i])
	}
	return sb.String()
}

// ExploreCross compares machines mp and mt (which share one byte-class
// partition). Frames are paired by a tag given at push time.
func ExploreCross(mp, mt *Machine, startsP, startsT []*State, stats *ExploreStats) (map[string]Disagreement, []string) {
	dis := map[string]Disagreement{}
	var undec []string
	stackOf := func(m *Machine) string {
		var fs []string
		for f := range m.in.stackFld {
			fs = append(fs, f)
		}
		sort.Strings(fs)
		if len(fs) != 1 {
			return ""
		}
		return fs[0]
	}
	sp, stt := stackOf(mp), stackOf(mt)
	if sp == "" || stt == "" {
		return nil, []string{"cross product: each machine needs exactly one container stack"}
	}
	gp := buildAloneGraph(mp, startsP)
	gt := buildAloneGraph(mt, startsT)
	undec = append(undec, gp.undec...)
	undec = append(undec, gt.undec...)
	// bytes for which either side lacks an arm somewhere (reported by A-noarm) are outside the language the two share
	excl := map[int]bool{}
	for b := range gp.skipped {
		excl[b] = true
	}
	for b := range gt.skipped {
		excl[b] = true
	}
	gp.computeAlive(excl)
	gt.computeAlive(excl)
	missP, missT := map[string]bool{}, map[string]bool{}
	defer func() {
		if os.Getenv("OJGCHECK_TRACE") != "" {
			fmt.Printf("alive lookups missed: P=%d T=%d (graph sizes %d %d)\n", len(missP), len(missT), len(gp.nodes), len(gt.nodes))
			i := 0
			for k := range missP {
				if i < 5 {
					fmt.Println("   missP", k)
				}
				i++
			}
		}
	}()
	aliveP := func(s *State) bool {
		n, ok := gp.nodes[untaggedKey(mp, s)]
		if !ok {
			missP[untaggedKey(mp, s)] = true
			return false
		}
		return n.alive
	}
	aliveT := func(s *State) bool {
		n, ok := gt.nodes[untaggedKey(mt, s)]
		if !ok {
			missT[untaggedKey(mt, s)] = true
			return false
		}
		return n.alive
	}
	report := func(kind string, c *cstate, byteS, detail, wit string) {
		d := Disagreement{Kind: kind, Mode: mp.ModeOf(c.p) + "/" + mt.ModeOf(c.t), Byte: byteS, Detail: detail, Witness: wit,
			XState: mp.StateString(c.p), YState: mt.StateString(c.t)}
		k := d.Key(mp.Name + "~" + mt.Name)
		if old, ok := dis[k]; !ok || len(old.Witness) > len(d.Witness) {
			dis[k] = d
		}
	}
	// the product learns its own (tagged) pop candidates
	mp.belowC, mp.belowKeys, mp.pendingBelow = map[string][]absStack{}, map[string]bool{}, nil
	mt.belowC, mt.belowKeys, mt.pendingBelow = map[string][]absStack{}, map[string]bool{}, nil
	nextTag := 1
	tagOf := map[string]int{}
	var lastInsP, lastInsT []*Interp
	if stats.Modes == nil {
		stats.Modes = map[string]bool{}
	}
	for round := 0; round < 8; round++ {
		stats.Rounds++
		stats.States, stats.Transitions, stats.ArmRuns = 0, 0, 0
		dis = map[string]Disagreement{}
		firstPop, lastCand := -1, -1
		seen := map[string]bool{}
		var queue []*cstate
		push := func(c *cstate) {
			k := mp.Key(c.p) + "||" + mt.Key(c.t)
			if !seen[k] {
				seen[k] = true
				queue = append(queue, c)
			}
		}
		for _, a := range startsP {
			for _, hp := range mp.enterWork(a) {
				for _, b := range startsT {
					for _, ht := range mt.enterWork(b) {
						push(&cstate{p: hp, t: ht})
					}
				}
			}
		}
		insP, insT := workerInterps(mp), workerInterps(mt)
		lastInsP, lastInsT = insP, insT
		reps := mp.in.cls.reps()
		prefetched := 0
		for len(queue) > 0 {
			if queue[0].pre == nil {
				// prefetch the steps of everything queued so far in parallel
				batch := queue
				parallelFor(len(batch), insP, func(i int, inP *Interp) {
					c := batch[i]
					if c.pre != nil {
						return
					}
					var inT *Interp
					for w := range insP {
						if insP[w] == inP {
							inT = insT[w]
						}
					}
					pre := &cpre{eofP: mp.EOF(inP, c.p), eofT: mt.EOF(inT, c.t), stepP: make([]obRes, len(reps)), stepT: make([]obRes, len(reps))}
					for bi, b := range reps {
						n1, e1, s1, p1 := stepOnce(mp, inP, c.p, b, true)
						pre.stepP[bi] = obRes{n1, e1, s1, p1}
						n2, e2, s2, p2 := stepOnce(mt, inT, c.t, b, true)
						pre.stepT[bi] = obRes{n2, e2, s2, p2}
					}
					c.pre = pre
				})
				prefetched += len(batch)
			}
			c := queue[0]
			queue = queue[1:]
			stats.States++
			stats.Modes[mp.ModeOf(c.p)] = true
			// end of input
			accP, accT, errP, errT := false, false, false, false
			for _, o := range c.pre.eofP {
				switch o.Kind {
				case "halt":
					accP = true
				case "error":
					errP = true
				}
			}
			for _, o := range c.pre.eofT {
				switch o.Kind {
				case "halt":
					accT = true
				case "error":
					errT = true
				}
			}
			if accP && !accT && errT {
				report("cross-eof", c, "EOF", mp.Name+" accepts end of input here, "+mt.Name+" reports an error", c.witness())
			}
			if accT && !accP && errP {
				report("cross-eof", c, "EOF", mt.Name+" accepts end of input here, "+mp.Name+" reports an error", c.witness())
			}
			for bi, b := range reps {
				inb := string(rune(b))
				np, ep, skipP, probP := c.pre.stepP[bi].next, c.pre.stepP[bi].errs, c.pre.stepP[bi].skipped, c.pre.stepP[bi].problem
				nt, et, skipT, probT := c.pre.stepT[bi].next, c.pre.stepT[bi].errs, c.pre.stepT[bi].skipped, c.pre.stepT[bi].problem
				stats.Transitions++
				stats.ArmRuns += 2
				if probP != "" || probT != "" {
					undec = append(undec, fmt.Sprintf("cross %s~%s: mode %s/%s byte %s: %s%s", mp.Name, mt.Name, mp.ModeOf(c.p), mt.ModeOf(c.t), byteDesc(b), probP, probT))
					continue
				}
				if skipP || skipT {
					continue // a missing arm / panic on one side: reported by the exploration of that machine alone
				}
				if len(np) == 0 && ep > 0 {
					for _, q := range nt {
						if aliveT(q.z) {
							report("cross-verdict", c, byteDesc(b), mp.Name+" reports an error at this byte; "+mt.Name+" continues and can still accept"+gt.acceptPath(untaggedKey(mt, q.z)), c.witness()+inb)
							break
						}
					}
					continue
				}
				if len(nt) == 0 && et > 0 {
					for _, q := range np {
						if aliveP(q.z) {
							report("cross-verdict", c, byteDesc(b), mt.Name+" reports an error at this byte; "+mp.Name+" continues and can still accept"+gp.acceptPath(untaggedKey(mp, q.z)), c.witness()+inb)
							break
						}
					}
					continue
				}
				paired := 0
				why := ""
				for _, a := range np {
					for _, q := range nt {
						if !decisionsAgree(a.dec, q.dec) {
							continue // the two front-ends took different branches of the same condition over the same data
						}
						if !aliveP(a.z) && !aliveT(q.z) {
							paired++ // both hopeless: nothing more to compare
							continue
						}
						if (a.pops > 0 || q.pops > 0) && firstPop < 0 {
							firstPop = stats.States
						}
						if a.pushes != q.pushes || a.pops != q.pops {
							if !aliveP(a.z) || !aliveT(q.z) {
								paired++ // one side is already hopeless; it may skip bookkeeping the other still does
								continue
							}
							why = fmt.Sprintf("container operations differ: %s pushes=%d pops=%d, %s pushes=%d pops=%d", mp.Name, a.pushes, a.pops, mt.Name, q.pushes, q.pops)
							continue
						}
						ps, ts := a.z.stacks[sp], q.z.stacks[stt]
						if a.pushes == 1 && a.pops == 0 {
							tk := ps.Top.String() + "~" + ts.Top.String()
							if _, ok := tagOf[tk]; !ok {
								tagOf[tk] = nextTag
								nextTag++
							}
							ps.Tag, ts.Tag = tagOf[tk], tagOf[tk]
							na, nq := a.z.clone(), q.z.clone()
							na.stacks[sp], nq.stacks[stt] = ps, ts
							mp.noteBelow(sp, ps)
							mt.noteBelow(stt, ts)
							paired++
							push(&cstate{p: na, t: nq, parent: c, input: inb})
							continue
						}
						if ps.Empty != ts.Empty || ps.Tag != ts.Tag {
							if a.pops > 0 {
								continue // the two sides restored different candidates: not a pairing
							}
							why = fmt.Sprintf("container stacks differ: %s %s, %s %s", mp.Name, ps.String(), mt.Name, ts.String())
							continue
						}
						paired++
						push(&cstate{p: a.z, t: q.z, parent: c, input: inb})
					}
				}
				if paired == 0 && why != "" {
					report("cross-stack", c, byteDesc(b), why, c.witness()+inb)
				}
			}
			if mp.newBelow || mt.newBelow {
				mp.newBelow, mt.newBelow = false, false
				mp.applyBelow()
				mt.applyBelow()
				lastCand = stats.States
			}
			if stats.States > 30000 {
				undec = append(undec, "cross product: more than 30000 states (the clean tree needs under 1500)")
				break
			}
		}
		if !(firstPop >= 0 && firstPop <= lastCand) {
			break
		}
	}
	if len(missP)+len(missT) > 0 {
		undec = append(undec, fmt.Sprintf("cross product: %d+%d product states are missing from the machines' own state graphs", len(missP), len(missT)))
	}
	for _, in := range append(append([]*Interp{}, lastInsP...), lastInsT...) {
		undec = append(undec, in.undecided...)
	}
	sort.Strings(undec)
	return dis, undec
}

// acceptPath: a shortest byte string from the node to a state that accepts end of input.
func (g *aloneGraph) acceptPath(k string) string {
	if _, ok := g.nodes[k]; !ok {
		return ""
	}
	type item struct {
		k    string
		path string
	}
	seen := map[string]bool{k: true}
	queue := []item{{k, ""}}
	for len(queue) > 0 {
		it := queue[0]
		queue = queue[1:]
		n := g.nodes[it.k]
		if n.accept {
			return fmt.Sprintf(" (for instance after %q)", it.path)
		}
		var bs []int
		for b := range n.succ {
			bs = append(bs, b)
		}
		sort.Ints(bs)
		for _, b := range bs {
			if g.exclude[b] {
				continue
			}
			for _, k2 := range n.succ[b] {
				if !seen[k2] {
					seen[k2] = true
					queue = append(queue, item{k2, it.path + string(rune(b))})
				}
			}
		}
	}
	return ""
}
