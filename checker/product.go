package main

import (
	"fmt"
	"os"
	"sort"
	"strings"
	"sync"
	"sync/atomic"
)

// Product exploration of an extracted machine X against the reference
// automaton Y (refjson.go), byte by byte, container stacks in lock-step.

type pstate struct {
	x      *State
	y      RCfg
	parent *pstate
	input  string // bytes consumed on the edge from parent
	depth  int
}

type Disagreement struct {
	Kind    string // accepts-dead, rejects-live, eof-accept, eof-reject, no-arm, stack-desync, event-desync, panic, early-return, no-progress, use-before-def, err-position, eof-position
	Mode    string
	Byte    string
	Detail  string
	Witness string
	XState  string
	YState  string
	Pos     string
}

func (d Disagreement) Key(machine string) string {
	k := machine + ":" + d.Kind + ":" + d.Mode + ":" + d.Byte
	return k
}

type ExploreStats struct {
	States      int
	Transitions int
	ArmRuns     int
	Rounds      int
	Modes       map[string]bool
	Samples     []string
}

type explorer struct {
	m                  *Machine
	multi              bool
	stack              string // the container stack field
	dis                map[string]Disagreement
	undec              map[string]bool
	stats              *ExploreStats
	kind               string // parser | tokenizer | validator
	workers            int
	firstPop, lastCand int
	noEvents           bool // do not compare events (front-ends whose event timing legitimately differs from the reference)
	noRef              bool // explore the machine alone (no reference): reachability of panics, missing arms, no-progress, stale reads
}

func byteDesc(b int) string {
	if b < 0 {
		return "EOF"
	}
	if b > 0x20 && b < 0x7f && b != '"' && b != '\'' && b != '\\' {
		return fmt.Sprintf("'%c'", b)
	}
	return fmt.Sprintf("0x%02x", b)
}

func (p *pstate) witness() string {
	var parts []string
	for q := p; q != nil; q = q.parent {
		parts = append(parts, q.input)
	}
	var sb strings.Builder
	for i := len(parts) - 1; i >= 0; i-- {
		sb.WriteString(parts[i])
	}
	return sb.String()
}

func (ex *explorer) report(d Disagreement) {
	k := d.Key(ex.m.Name)
	if old, ok := ex.dis[k]; ok && len(old.Witness) <= len(d.Witness) {
		return
	}
	ex.dis[k] = d
}

// xEvents renders the machine's events in the comparison vocabulary.
func (ex *explorer) xEvents(evs []Event) []string {
	var out []string
	for _, e := range evs {
		switch ex.kind {
		case "tokenizer":
			switch e.Name {
			case "Int", "Float", "Number":
				out = append(out, "NUM")
			default:
				out = append(out, e.String())
			}
		case "parser":
			out = append(out, e.String())
		}
	}
	return out
}

func (ex *explorer) yEvents(evs []string) []string {
	var out []string
	for _, e := range evs {
		switch ex.kind {
		case "tokenizer":
			m := map[string]string{"NULL": "Null", "TRUE": "Bool(true)", "FALSE": "Bool(false)", "NUMBER": "NUM", "STRING": "String", "KEY": "Key",
				"OBJ_START": "ObjectStart", "OBJ_END": "ObjectEnd", "ARR_START": "ArrayStart", "ARR_END": "ArrayEnd"}
			out = append(out, m[e])
		case "parser":
			m := map[string]string{"NULL": "VAL(null)", "TRUE": "VAL(true)", "FALSE": "VAL(false)", "NUMBER": "VAL(number)", "STRING": "VAL(string)",
				"KEY": "KEY", "OBJ_END": "VAL(node)", "ARR_END": "VAL(node)"}
			if v, ok := m[e]; ok {
				out = append(out, v)
			}
		}
	}
	return out
}

func sameStrs(a, b []string) bool {
	if len(a) != len(b) {
		return false
	}
	for i := range a {
		if a[i] != b[i] {
			return false
		}
	}
	return true
}

type flatOutcome struct {
	Outcome
	loops int
}

// stepFlat runs one byte and follows re-dispatches (`off--`) of the same byte.
// A re-dispatch into a state already seen in the chain can never consume the
// byte: no-progress.
func (ex *explorer) stepFlat(in *Interp, x *State, b int, depth int, pr *procResult) []Outcome {
	return ex.stepChain(in, x, b, map[string]bool{ex.m.Key(x): true}, depth, pr)
}

func (ex *explorer) stepChain(in *Interp, x *State, b int, chain map[string]bool, depth int, pr *procResult) []Outcome {
	outs := dedupeOutcomes(ex.m, ex.m.Step(in, x, b))
	pr.arms++
	var res []Outcome
	for _, o := range outs {
		if o.Kind == "next" && o.Redispatch {
			if len(o.Items) > 0 {
				o.Kind = "undecided"
				o.Why = "re-dispatch after consuming look-ahead"
				res = append(res, o)
				continue
			}
			k := ex.m.Key(o.Next)
			if chain[k] || depth >= 4 {
				o.Kind = "no-progress"
				res = append(res, o)
				continue
			}
			chain[k] = true
			sub := ex.stepChain(in, o.Next, b, chain, depth+1, pr)
			delete(chain, k)
			for _, o2 := range sub {
				o2.Events = append(append([]Event{}, o.Events...), o2.Events...)
				o2.Pops = append(append([]string{}, o.Pops...), o2.Pops...)
				o2.Pushes = append(append([]pushRec{}, o.Pushes...), o2.Pushes...)
				o2.Notes = append(append([]string{}, o.Notes...), o2.Notes...)
				o2.ReadStale = append(append([]string{}, o.ReadStale...), o2.ReadStale...)
				res = append(res, o2)
			}
			if len(res) > 5000 {
				return []Outcome{{Kind: "undecided", Why: "too many outcomes while following re-dispatches"}}
			}
			continue
		}
		res = append(res, o)
	}
	return dedupeOutcomes(ex.m, res)
}

type yset struct {
	cfg    RCfg
	input  string
	events []string
}

// advanceY moves the reference over the look-ahead items the machine consumed
// without dispatching them. It returns the reachable configurations or a
// problem description.
func (ex *explorer) advanceY(start RCfg, evs []string, items []ConsItem) ([]yset, string, string) {
	cur := []yset{{cfg: start, events: evs}}
	for _, it := range items {
		stepSet := func(from []yset) ([]yset, string, string) {
			var next []yset
			seen := map[string]bool{}
			for _, y := range from {
				for b := 0; b < 256; b++ {
					if !it.Set[b] {
						continue
					}
					r := RefStep(y.cfg, byte(b), ex.multi)
					if r.Dead {
						return nil, "accepts-dead", y.input + string(rune(b))
					}
					if r.Push != 0 || r.Pop {
						return nil, "stack-desync", y.input + string(rune(b))
					}
					k := fmt.Sprintf("%v|%v", r.Next, append(append([]string{}, y.events...), r.Events...))
					if seen[k] {
						continue
					}
					seen[k] = true
					next = append(next, yset{cfg: r.Next, input: y.input + string(rune(b)), events: append(append([]string{}, y.events...), r.Events...)})
				}
			}
			return next, "", ""
		}
		switch it.Rep {
		case '1':
			n, prob, w := stepSet(cur)
			if prob != "" {
				return nil, prob, w
			}
			cur = n
		case '+', '*':
			var all []yset
			seen := map[string]bool{}
			add := func(ys []yset) []yset {
				var fresh []yset
				for _, y := range ys {
					k := fmt.Sprintf("%v|%v", y.cfg, y.events)
					if !seen[k] {
						seen[k] = true
						all = append(all, y)
						fresh = append(fresh, y)
					}
				}
				return fresh
			}
			frontier := cur
			if it.Rep == '*' {
				add(cur)
			}
			for len(frontier) > 0 {
				n, prob, w := stepSet(frontier)
				if prob != "" {
					return nil, prob, w
				}
				frontier = add(n)
				if len(all) > 4000 {
					return nil, "undecided", "reference closure too large"
				}
			}
			cur = all
		}
	}
	return cur, "", ""
}

// Explore runs the product to a fixpoint and returns the disagreements.
func Explore(m *Machine, starts []*State, multi bool, stats *ExploreStats, workers int, noRef bool, noEvents ...bool) (map[string]Disagreement, []string) {
	ex := &explorer{noRef: noRef, noEvents: len(noEvents) > 0 && noEvents[0], workers: workers, m: m, multi: multi, dis: map[string]Disagreement{}, undec: map[string]bool{}, stats: stats}
	switch {
	case m.in.handler != nil:
		ex.kind = "tokenizer"
	case m.in.buildFld != "":
		ex.kind = "parser"
	default:
		ex.kind = "validator"
	}
	var stackFields []string
	for f := range m.in.stackFld {
		stackFields = append(stackFields, f)
	}
	sort.Strings(stackFields)
	if len(stackFields) != 1 {
		return nil, []string{fmt.Sprintf("%s: expected exactly one container stack field, found %v", m.Name, stackFields)}
	}
	ex.stack = stackFields[0]
	m.in.cls = newByteClasses(m.tableVals, multi)
	m.in.cls.seeding = true
	for _, b := range m.seedBytes {
		m.in.cls.request("eq", b, "")
	}
	m.in.cls.seeding = false
	if stats.Modes == nil {
		stats.Modes = map[string]bool{}
	}
	for round := 0; round < 12; round++ {
		stats.Rounds++
		m.newBelow = false
		m.applyBelow()
		m.in.cls.rebuild()
		ex.dis = map[string]Disagreement{}
		if (m.in.precisePrev || ex.noRef) && len(starts) > 0 {
			// superset view: dead fields are normalised (live.go)
			if hs := m.enterWork(starts[0]); len(hs) > 0 {
				m.computeLiveness(hs[0])
			}
		}
		ex.round(starts)
		// another round is needed only if a pop was explored before the last
		// stack candidate was discovered, or the byte classes were refined
		if !(ex.firstPop >= 0 && ex.firstPop <= ex.lastCand) && !m.in.cls.dirty {
			break
		}
		if os.Getenv("OJGCHECK_TRACE") != "" {
			fmt.Printf("round %d: firstPop=%d lastCand=%d clsDirty=%v classes=%d\n", round, ex.firstPop, ex.lastCand, m.in.cls.dirty, len(m.in.cls.list))
		}
	}
	var und []string
	for u := range ex.undec {
		und = append(und, u)
	}
	for _, u := range m.in.undecided {
		und = append(und, u)
	}
	sort.Strings(und)
	return ex.dis, und
}

type procResult struct {
	succs  []*pstate
	dis    []Disagreement
	undec  []string
	trans  int
	arms   int
	mode   string
	popped bool
}

func (in *Interp) workerCopy() *Interp {
	c := *in
	c.undecided = nil
	c.constCache = nil
	c.nonNilCache = nil
	c.popEmpty = nil
	c.hook = nil
	return &c
}

func (ex *explorer) round(starts []*State) {
	m := ex.m
	seen := map[string]bool{}
	var level []*pstate
	push := func(dst *[]*pstate, p *pstate) {
		k := m.Key(p.x) + "||" + fmt.Sprintf("%v", p.y)
		if seen[k] {
			return
		}
		seen[k] = true
		*dst = append(*dst, p)
	}
	for _, s := range starts {
		for _, h := range m.enterWork(s) {
			if st, ok := h.stacks[ex.stack]; ok && st.Empty {
				st.Tag = symNone
				h.stacks[ex.stack] = st
			}
			push(&level, &pstate{x: h, y: RCfg{S: rStart}})
		}
	}
	nw := ex.workers
	if nw < 1 {
		nw = 1
	}
	ins := make([]*Interp, nw)
	for i := range ins {
		ins[i] = m.in.workerCopy()
	}
	lvl := 0
	ex.firstPop, ex.lastCand = -1, -1
	for len(level) > 0 {
		lvl++
		results := make([]procResult, len(level))
		var wg sync.WaitGroup
		var next int64 = -1
		for w := 0; w < nw; w++ {
			wg.Add(1)
			go func(in *Interp) {
				defer wg.Done()
				for {
					i := int(atomic.AddInt64(&next, 1))
					if i >= len(level) {
						return
					}
					results[i] = ex.process(in, level[i])
				}
			}(ins[w])
		}
		wg.Wait()
		if m.newBelow {
			m.newBelow = false
			m.applyBelow()
			ex.lastCand = lvl
		}
		var nextLevel []*pstate
		for i := range results {
			r := results[i]
			if r.popped && ex.firstPop < 0 {
				ex.firstPop = lvl
			}
			ex.stats.States++
			ex.stats.Transitions += r.trans
			ex.stats.ArmRuns += r.arms
			ex.stats.Modes[r.mode] = true
			for _, d := range r.dis {
				ex.report(d)
			}
			for _, u := range r.undec {
				ex.undec[u] = true
			}
			for _, sp := range r.succs {
				push(&nextLevel, sp)
			}
		}
		level = nextLevel
		if ex.stats.States > 150000 {
			ex.undec[ex.m.Name+": more than 150000 product states (the clean tree needs under 10000)"] = true
			break
		}
	}
	for _, in := range ins {
		for _, u := range in.undecided {
			ex.undec[u] = true
		}
	}
}

// process explores one product state: buffer refill, end of input, and one
// step for every byte class.
func (ex *explorer) process(in *Interp, p *pstate) (res procResult) {
	m := ex.m
	mode := m.ModeOf(p.x)
	res.mode = mode
	report := func(d Disagreement) { res.dis = append(res.dis, d) }
	push := func(q *pstate) { res.succs = append(res.succs, q) }
	for _, h := range m.Refill(in, p.x) {
		push(&pstate{x: h, y: p.y, parent: p, input: "", depth: p.depth})
	}
	yAcc, yEv := RefEOF(p.y)
	res.arms++
	for _, o := range m.EOF(in, p.x) {
		ex.common(o, p, mode, -1, &res)
		if ex.noRef {
			continue
		}
		switch o.Kind {
		case "error":
			if yAcc {
				report(Disagreement{Kind: "eof-reject", Mode: mode, Byte: "EOF", Detail: "input is a complete JSON text but the front-end reports an error at end of input",
					Witness: p.witness(), XState: m.StateString(p.x), YState: p.y.String(), Pos: o.ErrPos})
			}
			if o.ErrOff != nil && o.ErrOff.K != kLenBuf {
				report(Disagreement{Kind: "err-position", Mode: mode, Byte: "EOF", Detail: "end-of-input error is not positioned at the loop cursor (" + o.ErrOff.String() + ")",
					Witness: p.witness(), XState: m.StateString(p.x), YState: p.y.String(), Pos: o.ErrPos})
			}
		case "halt":
			if !yAcc {
				report(Disagreement{Kind: "eof-accept", Mode: mode, Byte: "EOF", Detail: "input is incomplete (reference state " + p.y.String() + ") but the front-end returns no error",
					Witness: p.witness(), XState: m.StateString(p.x), YState: p.y.String()})
			} else if xe, ye := ex.xEvents(o.Events), ex.yEvents(yEv); !ex.noEvents && !sameStrs(xe, ye) {
				report(Disagreement{Kind: "event-desync", Mode: mode, Byte: "EOF", Detail: fmt.Sprintf("events at end of input: front-end %v, reference %v", xe, ye),
					Witness: p.witness(), XState: m.StateString(p.x), YState: p.y.String()})
			}
		}
	}
	for _, b := range in.cls.reps() {
		ys := RefStep(p.y, byte(b), ex.multi)
		outs := dedupeOutcomes(m, ex.stepFlat(in, p.x, b, 0, &res))
		for _, o := range outs {
			res.trans++
			if !ex.common(o, p, mode, b, &res) {
				continue
			}
			inb := string(rune(b))
			if ex.noRef {
				switch o.Kind {
				case "no-progress":
					report(Disagreement{Kind: "no-progress", Mode: mode, Byte: byteDesc(b), Detail: "the byte is re-dispatched without ever being consumed",
						Witness: p.witness() + inb, XState: m.StateString(p.x), YState: "-"})
				case "next":
					nx := o.Next.clone()
					for _, pu := range o.Pushes {
						if st, ok := nx.stacks[pu.Field]; ok && !st.Empty {
							m.noteBelow(pu.Field, st)
						}
					}
					if len(o.Pops) > 0 {
						res.popped = true
					}
					w := inb
					for _, it := range o.Items {
						for bb := 0; bb < 256; bb++ {
							if it.Set[bb] {
								if it.Rep != '*' {
									w += string(rune(bb))
								}
								break
							}
						}
					}
					push(&pstate{x: nx, y: p.y, parent: p, input: w, depth: p.depth + 1})
				}
				continue
			}
			switch o.Kind {
			case "error":
				if !ys.Dead {
					report(Disagreement{Kind: "rejects-live", Mode: mode, Byte: byteDesc(b), Detail: "the reference continues (" + p.y.String() + " -> " + ys.Next.String() + ") but the front-end reports an error",
						Witness: p.witness() + inb, XState: m.StateString(p.x), YState: p.y.String(), Pos: o.ErrPos})
				}
				if o.ErrOff == nil || o.ErrOff.K != kOff || o.ErrOff.A != 0 || o.ErrOff.Flag {
					d := "?"
					if o.ErrOff != nil {
						d = o.ErrOff.String()
					}
					report(Disagreement{Kind: "err-position", Mode: mode, Byte: byteDesc(b), Detail: "error is not positioned at the dispatched byte (cursor argument " + d + ")",
						Witness: p.witness() + inb, XState: m.StateString(p.x), YState: p.y.String(), Pos: o.ErrPos})
				}
				continue
			case "halt":
				report(Disagreement{Kind: "early-return", Mode: mode, Byte: byteDesc(b), Detail: "the dispatch function returns nil before the end of the buffer",
					Witness: p.witness() + inb, XState: m.StateString(p.x), YState: p.y.String()})
				continue
			case "no-progress":
				report(Disagreement{Kind: "no-progress", Mode: mode, Byte: byteDesc(b), Detail: "the byte is re-dispatched without ever being consumed",
					Witness: p.witness() + inb, XState: m.StateString(p.x), YState: p.y.String()})
				continue
			}
			if ys.Dead {
				report(Disagreement{Kind: "accepts-dead", Mode: mode, Byte: byteDesc(b), Detail: "no RFC 8259 text continues with this byte (reference state " + p.y.String() + ") but the front-end goes on in " + m.ModeOf(o.Next),
					Witness: p.witness() + inb, XState: m.StateString(p.x), YState: p.y.String()})
				continue
			}
			nx := o.Next.clone()
			var ycfg RCfg
			switch {
			case ys.Push != 0:
				if len(o.Pushes) != 1 || len(o.Pops) != 0 {
					report(Disagreement{Kind: "stack-desync", Mode: mode, Byte: byteDesc(b), Detail: fmt.Sprintf("reference opens a container; front-end pushes=%d pops=%d", len(o.Pushes), len(o.Pops)),
						Witness: p.witness() + inb, XState: m.StateString(p.x), YState: p.y.String()})
					continue
				}
				st := nx.stacks[ex.stack]
				st.Tag = int(ys.Push)
				nx.stacks[ex.stack] = st
				m.noteBelow(ex.stack, st)
				ycfg = ys.Next
			case ys.Pop:
				res.popped = true
				if len(o.Pops) != 1 || len(o.Pushes) != 0 {
					report(Disagreement{Kind: "stack-desync", Mode: mode, Byte: byteDesc(b), Detail: fmt.Sprintf("reference closes a container; front-end pushes=%d pops=%d", len(o.Pushes), len(o.Pops)),
						Witness: p.witness() + inb, XState: m.StateString(p.x), YState: p.y.String()})
					continue
				}
				st := nx.stacks[ex.stack]
				tag := st.Tag
				if st.Empty {
					tag = symNone
				}
				ycfg = ys.AfterPop(uint8(tag), ex.multi)
			default:
				if len(o.Pops) != 0 || len(o.Pushes) != 0 {
					if _, prob, w := ex.advanceY(ys.Next, ys.Events, o.Items); prob == "accepts-dead" {
						// the stack operation belongs to look-ahead bytes no RFC 8259 text contains
						report(Disagreement{Kind: prob, Mode: mode, Byte: byteDesc(b), Detail: "the front-end consumes look-ahead bytes without dispatching them; after them no RFC 8259 text is possible",
							Witness: p.witness() + inb + w, XState: m.StateString(p.x), YState: p.y.String()})
						continue
					}
					report(Disagreement{Kind: "stack-desync", Mode: mode, Byte: byteDesc(b), Detail: fmt.Sprintf("reference keeps the container stack; front-end pushes=%d pops=%d", len(o.Pushes), len(o.Pops)),
						Witness: p.witness() + inb, XState: m.StateString(p.x), YState: p.y.String()})
					continue
				}
				ycfg = ys.Next
			}
			ysets, prob, w := ex.advanceY(ycfg, ys.Events, o.Items)
			if prob != "" {
				if prob == "undecided" {
					res.undec = append(res.undec, m.Name+": "+w)
					continue
				}
				det := "the front-end consumes look-ahead bytes without dispatching them; after them no RFC 8259 text is possible"
				if prob == "stack-desync" {
					det = "the front-end consumes a structural byte inside a look-ahead scan"
				}
				report(Disagreement{Kind: prob, Mode: mode, Byte: byteDesc(b), Detail: det,
					Witness: p.witness() + inb + w, XState: m.StateString(p.x), YState: p.y.String()})
				continue
			}
			if m.in.mirror && o.DigitUse && (b < '0' || b > '9') {
				report(Disagreement{Kind: "digit-misuse", Mode: mode, Byte: byteDesc(b), Detail: "the byte is used as a decimal digit (b - '0', directly or through a Number method) although it is not one of '0'..'9': the accumulated number is not the number in the text",
					Witness: p.witness() + inb, XState: m.StateString(p.x), YState: p.y.String()})
			}
			if m.in.mirror && b >= '1' && b <= '9' && inNumber(ys.Next.S) && !o.DigitUse && !o.Mirrored {
				report(Disagreement{Kind: "digit-dropped", Mode: mode, Byte: byteDesc(b), Detail: "the byte is a digit of a number but on this path it is neither used as a decimal digit (b - '0', directly or through a Number method) nor added to the number's text buffer: the digit is missing from the value (a statement that records it sits behind a guard this path does not pass, e.g. the end-of-buffer test)",
					Witness: p.witness() + inb, XState: m.StateString(p.x), YState: p.y.String()})
			}
			if m.in.mirror && mayBeBig(p.y.S) && inNumber(ys.Next.S) && !o.Mirrored && !bigBufEmptyDecided(o.Decisions) {
				report(Disagreement{Kind: "big-unmirrored", Mode: mode, Byte: byteDesc(b), Detail: "inside a number this byte is neither added to the number's text buffer (BigBuf) nor handled on a path that tested the buffer to be empty: when the number is being kept as text (too many digits for the accumulators) the byte is lost from the value",
					Witness: p.witness() + inb, XState: m.StateString(p.x), YState: p.y.String()})
			}
			xe := ex.xEvents(o.Events)
			for _, y := range ysets {
				ye := ex.yEvents(y.events)
				if !ex.noEvents && !sameStrs(xe, ye) {
					report(Disagreement{Kind: "event-desync", Mode: mode, Byte: byteDesc(b), Detail: fmt.Sprintf("front-end emits %v, reference %v", xe, ye),
						Witness: p.witness() + inb + y.input, XState: m.StateString(p.x), YState: p.y.String()})
					continue
				}
				if o.EndsBuffer && !o.OffExact {
					report(Disagreement{Kind: "eof-position", Mode: mode, Byte: byteDesc(b), Detail: "when the buffer ends inside this arm the cursor is not left at len(buf), so an end-of-input error is reported at the wrong column",
						Witness: p.witness() + inb + y.input, XState: m.StateString(p.x), YState: p.y.String()})
				}
				push(&pstate{x: nx, y: y.cfg, parent: p, input: inb + y.input, depth: p.depth + 1})
			}
		}
	}
	return res
}

// common handles outcome aspects shared by byte steps and EOF; it returns
// false when the outcome must not be explored further.
func (ex *explorer) common(o Outcome, p *pstate, mode string, b int, res *procResult) bool {
	m := ex.m
	in := ""
	if b >= 0 {
		in = string(rune(b))
	}
	for _, n := range o.Notes {
		if strings.HasPrefix(n, "no-case:") && o.Kind == "next" {
			res.dis = append(res.dis, Disagreement{Kind: "no-arm", Mode: mode, Byte: byteDesc(b), Detail: "the table holds action code " + strings.TrimPrefix(n, "no-case:") + " for which the dispatch switch has no case: the byte is silently skipped",
				Witness: p.witness() + in, XState: m.StateString(p.x), YState: p.y.String()})
		}
	}
	for _, n := range o.Notes {
		if strings.HasPrefix(n, "scratch-append-stale:") {
			parts := strings.SplitN(n, ":", 3)
			res.dis = append(res.dis, Disagreement{Kind: "stale-scratch", Mode: mode, Byte: byteDesc(b), Detail: "bytes are appended to scratch buffer " + parts[1] + " whose previous content was already consumed (or is left over from an earlier call) and not truncated: the next token gets a stale prefix",
				Witness: p.witness() + in, XState: m.StateString(p.x), YState: p.y.String(), Pos: parts[2]})
		}
	}
	for _, n := range o.Notes {
		if strings.HasPrefix(n, "pos-misassign:") {
			parts := strings.SplitN(n, ":", 4)
			res.dis = append(res.dis, Disagreement{Kind: "newline-unrecorded", Mode: mode, Byte: byteDesc(b), Detail: "position field " + parts[1] + " is set to " + parts[2] + " while the newline is the dispatched byte (off0+0): the column of later errors is counted from the wrong byte",
				Witness: p.witness() + in, XState: m.StateString(p.x), YState: p.y.String(), Pos: parts[3]})
		}
	}
	if b == '\n' && o.Kind == "next" && len(m.posFields) > 0 {
		for f := range m.posFields {
			if !o.Assigned[f] {
				res.dis = append(res.dis, Disagreement{Kind: "newline-unrecorded", Mode: mode, Byte: byteDesc(b), Detail: "a newline is consumed without updating position field " + f + ": later errors report the wrong line/column",
					Witness: p.witness() + in, XState: m.StateString(p.x), YState: p.y.String()})
			}
		}
	}
	if o.Kind == "next" {
		for _, it := range o.Items {
			if (it.Rep == '+' || it.Rep == '*') && it.Set['\n'] && len(m.posFields) > 0 {
				res.dis = append(res.dis, Disagreement{Kind: "newline-unrecorded", Mode: mode, Byte: byteDesc(b), Detail: "a look-ahead scan can consume newline bytes without position bookkeeping",
					Witness: p.witness() + in, XState: m.StateString(p.x), YState: p.y.String()})
			}
		}
	}
	if len(o.ReadStale) > 0 {
		res.dis = append(res.dis, Disagreement{Kind: "use-before-def", Mode: mode, Byte: byteDesc(b), Detail: "state left over from a previous call is read before being written: " + o.ReadStale[0],
			Witness: p.witness() + in, XState: m.StateString(p.x), YState: p.y.String()})
	}
	switch o.Kind {
	case "panic":
		res.dis = append(res.dis, Disagreement{Kind: "panic", Mode: mode, Byte: byteDesc(b), Detail: "runtime panic: " + o.Why,
			Witness: p.witness() + in, XState: m.StateString(p.x), YState: p.y.String()})
		return false
	case "undecided":
		res.undec = append(res.undec, fmt.Sprintf("%s: mode %s byte %s: %s", m.Name, mode, byteDesc(b), o.Why))
		return false
	}
	return true
}

func dedupeOutcomes(m *Machine, outs []Outcome) []Outcome {
	seen := map[string]bool{}
	var res []Outcome
	for _, o := range outs {
		var sb strings.Builder
		sb.WriteString(o.Kind)
		if o.Next != nil {
			sb.WriteString(m.Key(o.Next))
		}
		fmt.Fprintf(&sb, "|%v|%v|%v|%v|%v|%v|%v", o.Events, o.Pops, len(o.Pushes), o.Notes, o.ReadStale, o.EndsBuffer, o.OffExact)
		for _, it := range o.Items {
			sb.WriteByte(it.Rep)
			for b := 0; b < 256; b++ {
				if it.Set[b] {
					sb.WriteByte('1')
				} else {
					sb.WriteByte('0')
				}
			}
		}
		if len(o.Decisions) > 0 {
			sb.WriteString("|dec" + strings.Join(o.Decisions, ","))
		}
		if o.Mirrored {
			sb.WriteString("|mir")
		}
		if o.DigitUse {
			sb.WriteString("|dig")
		}
		if o.Peek != nil {
			sb.WriteString("|peek")
			for b := 0; b < 256; b++ {
				if o.Peek[b] {
					sb.WriteByte('1')
				} else {
					sb.WriteByte('0')
				}
			}
		}
		if o.ErrOff != nil {
			sb.WriteString(o.ErrOff.String())
		}
		k := sb.String()
		if seen[k] {
			continue
		}
		seen[k] = true
		res = append(res, o)
	}
	return res
}

// mayBeBig: the text buffer can only be in use after digits were accumulated: not directly after
// the minus sign or a leading zero.
func mayBeBig(s rstate) bool {
	switch s {
	case rInt, rDot, rFrac, rE, rESign, rExp:
		return true
	}
	return false
}

func inNumber(s rstate) bool {
	switch s {
	case rNeg, rZero, rInt, rDot, rFrac, rE, rESign, rExp:
		return true
	}
	return false
}

// bigBufEmptyDecided: the path took the "text buffer is empty" branch of a test of its length.
func bigBufEmptyDecided(dec []string) bool {
	for _, d := range dec {
		if !strings.Contains(d, "BigBuf") {
			continue
		}
		i := strings.LastIndexByte(d, '=')
		cond, val := strings.ReplaceAll(d[:i], " ", ""), d[i+1:]
		switch {
		case strings.HasPrefix(cond, "0<len(") && val == "0":
			return true
		case strings.HasSuffix(cond, ")>0") && strings.HasPrefix(cond, "len(") && val == "0":
			return true
		case strings.HasSuffix(cond, ")==0") && strings.HasPrefix(cond, "len(") && val == "1":
			return true
		case strings.HasSuffix(cond, ")!=0") && strings.HasPrefix(cond, "len(") && val == "0":
			return true
		}
	}
	return false
}
