package main

import (
	"fmt"
	"go/ast"
	"go/token"
	"go/types"
	"sort"
	"strings"
)

// globalWriters: package-level maps that are written after initialisation
// only by a registration API (configuration outside the property's concurrent
// call set); who-may-write is checked instead of locking.
var globalWriters = map[string][]string{
	"jp.opMap":  {"RegisterUnaryFunction", "RegisterBinaryFunction"},
	"asm.fnMap": {"Define"},
}

// ruleGlobals (Engine D, R-global): every package-level map of the library
// packages is either never written outside package initialisation, written
// only by its registration API, or accessed only while the package's mutex is
// held (locked in the accessing function before the access with a deferred or
// trailing Unlock, or the function is called only from such regions).
func ruleGlobals(prog *Program, rep *Report) {
	rep.Rules = append(rep.Rules, "D-global: every package-level map of a library package is (a) never written outside init, or (b) written only by its listed registration API, or (c) accessed (index, range, len, delete, assignment; also through a local alias) only while a package-level sync.Mutex is held: Lock() precedes the first access in the function and Unlock is deferred or follows the last access, or every caller of the function holds the lock at the call")
	total := 0
	for _, pk := range prog.LibPkgs() {
		info := pk.TypesInfo
		rel := pk.Types.Name()
		sc := pk.Types.Scope()
		maps := map[types.Object]bool{}
		mutexes := map[types.Object]bool{}
		for _, n := range sc.Names() {
			v, ok := sc.Lookup(n).(*types.Var)
			if !ok {
				continue
			}
			switch t := v.Type().Underlying().(type) {
			case *types.Map:
				maps[v] = true
			case *types.Struct:
				_ = t
				if nt, ok := v.Type().(*types.Named); ok && nt.Obj().Pkg() != nil && nt.Obj().Pkg().Path() == "sync" && (nt.Obj().Name() == "Mutex" || nt.Obj().Name() == "RWMutex") {
					mutexes[v] = true
				}
			}
		}
		if len(maps) == 0 {
			continue
		}
		type access struct {
			g     types.Object
			pos   token.Pos
			write bool
		}
		type finfo struct {
			fd      *ast.FuncDecl
			acc     []access
			lockPos token.Pos // position of a top-level M.Lock()
			deferUn token.Pos
			plainUn token.Pos
			calls   map[*types.Func][]token.Pos
			isInit  bool
		}
		funcs := map[*types.Func]*finfo{}
		var order []*types.Func
		for _, file := range pk.Syntax {
			for _, d := range file.Decls {
				fd, ok := d.(*ast.FuncDecl)
				if !ok || fd.Body == nil {
					continue
				}
				fn, _ := info.Defs[fd.Name].(*types.Func)
				if fn == nil {
					continue
				}
				fi := &finfo{fd: fd, calls: map[*types.Func][]token.Pos{}, isInit: fd.Name.Name == "init" && fd.Recv == nil}
				funcs[fn] = fi
				order = append(order, fn)
				// aliases: locals assigned only from map globals
				alias := map[types.Object]types.Object{}
				ast.Inspect(fd.Body, func(n ast.Node) bool {
					as, ok := n.(*ast.AssignStmt)
					if !ok {
						return true
					}
					for i, l := range as.Lhs {
						if i >= len(as.Rhs) {
							continue
						}
						lo := useObj(info, l)
						ro := useObj(info, as.Rhs[i])
						if lo != nil && ro != nil && maps[ro] && !maps[lo] {
							alias[lo] = ro
						}
					}
					return true
				})
				resolve := func(e ast.Expr) types.Object {
					o := useObj(info, e)
					if o == nil {
						return nil
					}
					if maps[o] {
						return o
					}
					if g, ok := alias[o]; ok {
						return g
					}
					return nil
				}
				ast.Inspect(fd.Body, func(n ast.Node) bool {
					switch x := n.(type) {
					case *ast.AssignStmt:
						for _, l := range x.Lhs {
							if ix, ok := l.(*ast.IndexExpr); ok {
								if g := resolve(ix.X); g != nil {
									fi.acc = append(fi.acc, access{g, ix.Pos(), true})
								}
							} else if o := useObj(info, l); o != nil && maps[o] {
								fi.acc = append(fi.acc, access{o, l.Pos(), true})
							}
						}
					case *ast.IndexExpr:
						if g := resolve(x.X); g != nil {
							fi.acc = append(fi.acc, access{g, x.Pos(), false})
						}
					case *ast.RangeStmt:
						if g := resolve(x.X); g != nil {
							fi.acc = append(fi.acc, access{g, x.Pos(), false})
						}
					case *ast.CallExpr:
						if id, ok := x.Fun.(*ast.Ident); ok {
							switch id.Name {
							case "delete":
								if len(x.Args) > 0 {
									if g := resolve(x.Args[0]); g != nil {
										fi.acc = append(fi.acc, access{g, x.Pos(), true})
									}
								}
							case "len":
								if len(x.Args) > 0 {
									if g := resolve(x.Args[0]); g != nil {
										fi.acc = append(fi.acc, access{g, x.Pos(), false})
									}
								}
							}
							if callee, ok := info.Uses[id].(*types.Func); ok && callee.Pkg() == pk.Types {
								fi.calls[callee] = append(fi.calls[callee], x.Pos())
							}
						}
						if sel, ok := x.Fun.(*ast.SelectorExpr); ok {
							if s := info.Selections[sel]; s != nil {
								if callee, ok := s.Obj().(*types.Func); ok && callee.Pkg() == pk.Types {
									fi.calls[callee] = append(fi.calls[callee], x.Pos())
								}
							}
						}
					}
					return true
				})
				// top-level Lock / Unlock statements
				for _, st := range fd.Body.List {
					var call *ast.CallExpr
					deferred := false
					switch s := st.(type) {
					case *ast.ExprStmt:
						call, _ = s.X.(*ast.CallExpr)
					case *ast.DeferStmt:
						call = s.Call
						deferred = true
					}
					if call == nil {
						continue
					}
					sel, ok := call.Fun.(*ast.SelectorExpr)
					if !ok {
						continue
					}
					mo := useObj(info, sel.X)
					if mo == nil || !mutexes[mo] {
						continue
					}
					switch {
					case sel.Sel.Name == "Lock" && !deferred && !fi.lockPos.IsValid():
						fi.lockPos = st.Pos()
					case sel.Sel.Name == "Unlock" && deferred:
						fi.deferUn = st.Pos()
					case sel.Sel.Name == "Unlock" && !deferred:
						fi.plainUn = st.Pos()
					}
				}
			}
		}
		// region test: is pos inside the function's critical section?
		inRegion := func(fi *finfo, pos token.Pos) bool {
			if !fi.lockPos.IsValid() || pos < fi.lockPos {
				return false
			}
			if fi.deferUn.IsValid() && fi.deferUn < pos {
				return true
			}
			if fi.plainUn.IsValid() && pos < fi.plainUn {
				return true
			}
			return false
		}
		// lock-held fixpoint (optimistic): a function is held if it has callers and every call site is in a region or in a held function
		held := map[*types.Func]bool{}
		callersOf := map[*types.Func][]*types.Func{}
		for caller, fi := range funcs {
			for callee := range fi.calls {
				callersOf[callee] = append(callersOf[callee], caller)
			}
		}
		for fn := range funcs {
			held[fn] = len(callersOf[fn]) > 0
		}
		for changed := true; changed; {
			changed = false
			for fn := range funcs {
				if !held[fn] {
					continue
				}
				for _, caller := range callersOf[fn] {
					cfi := funcs[caller]
					for _, p := range cfi.calls[fn] {
						if !(inRegion(cfi, p) || held[caller]) {
							held[fn] = false
							changed = true
						}
					}
				}
			}
		}
		var gl []types.Object
		for g := range maps {
			gl = append(gl, g)
		}
		sort.Slice(gl, func(i, j int) bool { return gl[i].Name() < gl[j].Name() })
		for _, g := range gl {
			total++
			key := rel + "." + g.Name()
			var writers []string
			for _, fn := range order {
				fi := funcs[fn]
				if fi.isInit {
					continue
				}
				for _, a := range fi.acc {
					if a.g == g && a.write {
						writers = append(writers, fn.Name())
						break
					}
				}
			}
			if len(writers) == 0 {
				rep.Discharge("D-global", key, prog.Pos(g.Pos()), "never written outside package initialisation")
				continue
			}
			if allowed, ok := globalWriters[key]; ok {
				okW := true
				for _, w := range writers {
					found := false
					for _, a := range allowed {
						if a == w {
							found = true
						}
					}
					if !found {
						okW = false
						rep.Violate(Finding{Rule: "D-global", Key: key + ":writer:" + w, Pos: prog.Pos(g.Pos()), Msg: fmt.Sprintf("package-level map %s is written by %s, which is not its registration API %v: an unsynchronised write during concurrent use", key, w, allowed)})
					}
				}
				if okW {
					rep.Discharge("D-global", key, prog.Pos(g.Pos()), "written only by its registration API "+strings.Join(allowed, ", "))
				}
				continue
			}
			bad := false
			for _, fn := range order {
				fi := funcs[fn]
				if fi.isInit {
					continue
				}
				for _, a := range fi.acc {
					if a.g != g {
						continue
					}
					if inRegion(fi, a.pos) || held[fn] {
						continue
					}
					bad = true
					rep.Violate(Finding{Rule: "D-global", Key: key + ":unlocked:" + fn.Name(), Pos: prog.Pos(a.pos), Msg: fmt.Sprintf("package-level map %s is accessed in %s without the package mutex held (it is written by %v during ordinary use)", key, fn.Name(), writers)})
					break
				}
			}
			if !bad {
				rep.Discharge("D-global", key, prog.Pos(g.Pos()), "every access is inside a critical section or in a function called only with the lock held; writers: "+strings.Join(writers, ", "))
			}
		}
	}
	if total < 5 {
		rep.Errorf("D-global examined %d package-level maps (floor 5)", total)
	}
}
