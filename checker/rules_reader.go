package main

import (
	"fmt"
	"go/ast"
	"go/token"
	"go/types"
	"strings"

	"golang.org/x/tools/go/packages"
)

// Reader-loop rules (C03 rule L, C09 rule 4). The six reader entries are
// located by their public names; inside, the dispatch function is the one
// Engine A found, the buffer and flag variables are identified by data flow
// from the call (no private names).

type readerSpec struct {
	rel, typ, root string
	strictJSON     bool
}

var readerEntries = []readerSpec{
	{"oj", "Parser", "ParseReader", true},
	{"oj", "Validator", "ValidateReader", true},
	{"oj", "Tokenizer", "Load", true},
	{"gen", "Parser", "ParseReader", true},
	{"sen", "Parser", "ParseReader", false},
	{"sen", "Tokenizer", "Load", false},
}

type readerFacts struct {
	fd       *ast.FuncDecl
	pk       *packages.Package
	loop     *ast.ForStmt
	calls    []*ast.CallExpr
	bufObj   types.Object
	eofObj   types.Object
	skipObjs map[types.Object]bool
}

func useObj(info *types.Info, e ast.Expr) types.Object {
	id, ok := ast.Unparen(e).(*ast.Ident)
	if !ok {
		return nil
	}
	if o := info.Uses[id]; o != nil {
		return o
	}
	return info.Defs[id]
}

func analyseReader(prog *Program, spec readerSpec, rep *Report) *readerFacts {
	pk := prog.Pkg(spec.rel)
	if pk == nil {
		rep.Errorf("package %s not loaded", spec.rel)
		return nil
	}
	named, _ := pk.Types.Scope().Lookup(spec.typ).Type().(*types.Named)
	_, workFn, _, _, _ := findWork(prog, pk, named)
	if workFn == nil {
		rep.Errorf("%s.%s: dispatch function not found", spec.rel, spec.typ)
		return nil
	}
	fn := Method(pk, spec.typ, spec.root)
	fd, _ := prog.FuncDecl(fn)
	if fd == nil {
		rep.Errorf("%s.%s.%s not found", spec.rel, spec.typ, spec.root)
		return nil
	}
	info := pk.TypesInfo
	rf := &readerFacts{fd: fd, pk: pk, skipObjs: map[types.Object]bool{}}
	// the for loop that contains calls of the dispatch function
	var find func(n ast.Node, loop *ast.ForStmt)
	find = func(n ast.Node, loop *ast.ForStmt) {
		ast.Inspect(n, func(c ast.Node) bool {
			switch x := c.(type) {
			case *ast.ForStmt:
				if x != loop {
					find(x.Body, x)
					return false
				}
			case *ast.CallExpr:
				if sel, ok := x.Fun.(*ast.SelectorExpr); ok {
					if s := info.Selections[sel]; s != nil && s.Obj() == workFn && loop != nil {
						rf.calls = append(rf.calls, x)
						rf.loop = loop
					}
				}
			}
			return true
		})
	}
	find(fd.Body, nil)
	if rf.loop == nil || len(rf.calls) == 0 {
		rep.Errorf("%s.%s.%s: no loop calling the dispatch function", spec.rel, spec.typ, spec.root)
		return nil
	}
	for _, c := range rf.calls {
		if len(c.Args) != 2 {
			rep.Errorf("%s.%s.%s: dispatch call with %d arguments", spec.rel, spec.typ, spec.root, len(c.Args))
			return nil
		}
		var b types.Object
		switch a := ast.Unparen(c.Args[0]).(type) {
		case *ast.Ident:
			b = useObj(info, a)
		case *ast.SliceExpr:
			b = useObj(info, a.X)
			if a.Low != nil {
				if so := useObj(info, a.Low); so != nil {
					rf.skipObjs[so] = true
				}
			}
		}
		if b == nil || (rf.bufObj != nil && b != rf.bufObj) {
			rf.bufObj = nil
			break
		}
		rf.bufObj = b
		e := useObj(info, c.Args[1])
		if e == nil || (rf.eofObj != nil && e != rf.eofObj) {
			rf.eofObj = nil
			break
		}
		rf.eofObj = e
	}
	return rf
}

func ruleReaderLoops(prog *Program, rep *Report) {
	rep.Rules = append(rep.Rules,
		"L-eof: in every reader entry the 'last' argument of the dispatch call is a flag that is set to true only under a test of the read error against io.EOF",
		"L-bytes: the buffer handed to the dispatch function is the read buffer resliced to exactly the count returned by Read (buf = buf[:cnt] directly after every Read, buf[:cap(buf)] before re-reading), optionally minus the BOM skip",
		"L-stop: an error returned by the dispatch function leaves the loop (return) before the next read",
		"L-eoftwins: the blocks of a reader entry that handle the error of the first Read and of the Read in the loop have the same statements (the result does not depend on which Read carried io.EOF)",
		"L-final: no return statement sits in code of the entry that runs only when Read reported io.EOF (after `if !errors.Is(err, io.EOF) { return }`): the entry goes on to call the dispatch function with the end-of-input flag")
	for _, spec := range readerEntries {
		rf := analyseReader(prog, spec, rep)
		if rf == nil {
			continue
		}
		key := spec.rel + "." + spec.typ + "." + spec.root
		info := rf.pk.TypesInfo
		pos := prog.Pos(rf.fd.Pos())
		if rf.bufObj == nil || rf.eofObj == nil {
			rep.Violate(Finding{Rule: "L-bytes", Key: key + ":args", Pos: pos, Msg: "the dispatch calls in the reader loop do not all pass the same buffer variable and the same end-of-input flag"})
			continue
		}
		// L-eof
		okEOF := true
		sawTrue := false
		var walk func(n ast.Node, underEOF bool)
		walk = func(n ast.Node, underEOF bool) {
			switch x := n.(type) {
			case nil:
				return
			case *ast.BlockStmt:
				// after `if <test against io.EOF> { ...; return }` the rest of the block runs only for io.EOF
				u := underEOF
				for _, st := range x.List {
					walk(st, u)
					if is, ok := st.(*ast.IfStmt); ok && mentionsEOF(info, is.Cond) && endsInReturn(is.Body) {
						u = true
					}
				}
				return
			case *ast.IfStmt:
				m := mentionsEOF(info, x.Cond)
				walk(x.Body, underEOF || m)
				if x.Else != nil {
					walk(x.Else, underEOF || m)
				}
				return
			case *ast.AssignStmt:
				for i, l := range x.Lhs {
					if useObj(info, l) == rf.eofObj && i < len(x.Rhs) {
						tv := info.Types[x.Rhs[i]]
						if tv.Value != nil && tv.Value.String() == "true" {
							sawTrue = true
							if !underEOF {
								okEOF = false
							}
						} else if tv.Value == nil {
							okEOF = false
						}
					}
				}
				return
			}
			ast.Inspect(n, func(c ast.Node) bool {
				if c == n || c == nil {
					return true
				}
				switch c.(type) {
				case *ast.IfStmt, *ast.AssignStmt, *ast.BlockStmt:
					walk(c, underEOF)
					return false
				}
				return true
			})
		}
		walk(rf.fd.Body, false)
		if okEOF && sawTrue {
			rep.Discharge("L-eof", key, pos, "flag set true only under an io.EOF test")
		} else {
			rep.Violate(Finding{Rule: "L-eof", Key: key + ":eof-flag", Pos: pos, Msg: "the end-of-input flag passed to the dispatch function is not set exclusively under a test of the read error against io.EOF"})
		}
		// L-final: code that runs only when the read error is io.EOF does not return: the loop goes on to the dispatch
		// call with the flag set, which flushes a pending top-level number and reports unfinished input
		{
			negated := func(cond ast.Expr) bool {
				switch c := ast.Unparen(cond).(type) {
				case *ast.UnaryExpr:
					return c.Op == token.NOT
				case *ast.BinaryExpr:
					return c.Op == token.NEQ
				}
				return false
			}
			var early []token.Pos
			var scan func(n ast.Node, inEOF bool)
			scan = func(n ast.Node, inEOF bool) {
				switch x := n.(type) {
				case nil:
					return
				case *ast.BlockStmt:
					u := inEOF
					for _, st := range x.List {
						scan(st, u)
						if is, ok := st.(*ast.IfStmt); ok && mentionsEOF(info, is.Cond) && negated(is.Cond) && endsInReturn(is.Body) {
							u = true
						}
					}
				case *ast.IfStmt:
					if mentionsEOF(info, x.Cond) {
						if negated(x.Cond) {
							scan(x.Body, false)
							scan(x.Else, true)
						} else {
							scan(x.Body, true)
							scan(x.Else, false)
						}
						return
					}
					// `if err != nil { ... }` around the EOF test: look inside, same state
					scan(x.Body, inEOF)
					scan(x.Else, inEOF)
				case *ast.ForStmt:
					scan(x.Body, false) // a new iteration starts with a new read
				case *ast.RangeStmt:
					scan(x.Body, false)
				case *ast.ReturnStmt:
					if inEOF {
						early = append(early, x.Pos())
					}
				case *ast.LabeledStmt:
					scan(x.Stmt, inEOF)
				}
			}
			// only the read loop and the first read are of interest: scan the statements of the body up to and
			// including the loop that contains a dispatch call (what follows the loop is the normal end of the entry)
			var upto []ast.Stmt
			for _, st := range rf.fd.Body.List {
				upto = append(upto, st)
				if _, isFor := st.(*ast.ForStmt); isFor {
					break
				}
			}
			inEOF := false
			for _, st := range upto {
				scan(st, inEOF)
				if is, ok := st.(*ast.IfStmt); ok {
					// `if err != nil { if !errors.Is(err, io.EOF) { return }; eof = true }` leaves inEOF unknown afterwards: not EOF-only
					_ = is
				}
			}
			if len(early) == 0 {
				rep.Discharge("L-final", key, pos, "no return in code that runs only for io.EOF before the final dispatch call")
			} else {
				rep.Violate(Finding{Rule: "L-final", Key: key + ":return-on-eof", Pos: prog.Pos(early[0]), Msg: "the reader entry returns in code that runs only when Read reported io.EOF, before the dispatch function was called with the end-of-input flag: a number that ends the input is never delivered and unfinished input is not reported"})
			}
		}
		// L-eoftwins: the first read and the read in the loop handle the error of Read by the same statements
		{
			var bodies []string
			var at []token.Pos
			ast.Inspect(rf.fd.Body, func(n ast.Node) bool {
				is, ok := n.(*ast.IfStmt)
				if !ok || is.Else != nil || mentionsEOF(info, is.Cond) {
					return true
				}
				// `if err != nil { ... io.EOF ... }`
				inner := false
				for _, st := range is.Body.List {
					if ii, ok := st.(*ast.IfStmt); ok && mentionsEOF(info, ii.Cond) {
						inner = true
					}
				}
				if !inner {
					return true
				}
				b := strings.Join(twinBodyLines(&ast.FuncDecl{Body: is.Body}), " | ")
				// the two spellings of the test are one test here (ValidateReader uses both)
				b = strings.ReplaceAll(strings.ReplaceAll(b, "!errors.Is(err, io.EOF)", "NOT-EOF"), "err != io.EOF", "NOT-EOF")
				bodies = append(bodies, b)
				at = append(at, is.Pos())
				return false
			})
			if len(bodies) >= 2 {
				same := true
				for _, b := range bodies[1:] {
					if b != bodies[0] {
						same = false
					}
				}
				if same {
					rep.Discharge("L-eoftwins", key, pos, fmt.Sprintf("%d read-error blocks with the same statements", len(bodies)))
				} else {
					rep.Violate(Finding{Rule: "L-eoftwins", Key: key + ":read-error-blocks", Pos: prog.Pos(at[len(at)-1]), Msg: fmt.Sprintf("the blocks that handle the error of the first Read and of the Read in the loop differ: [%s] versus [%s]: what the entry returns then depends on which Read carried io.EOF", bodies[0], bodies[len(bodies)-1])})
				}
			}
		}
		// L-bytes: every Read(buf) is followed by buf = buf[:cnt]
		okBytes := true
		reads := 0
		ast.Inspect(rf.fd.Body, func(n ast.Node) bool {
			blk, ok := n.(*ast.BlockStmt)
			if !ok {
				return true
			}
			for i, st := range blk.List {
				as, ok := st.(*ast.AssignStmt)
				if !ok || len(as.Rhs) != 1 || len(as.Lhs) != 2 {
					continue
				}
				call, ok := as.Rhs[0].(*ast.CallExpr)
				if !ok || len(call.Args) != 1 || useObj(info, call.Args[0]) != rf.bufObj {
					continue
				}
				sel, ok := call.Fun.(*ast.SelectorExpr)
				if !ok || sel.Sel.Name != "Read" {
					continue
				}
				reads++
				cnt := useObj(info, as.Lhs[0])
				good := false
				if i+1 < len(blk.List) {
					if nx, ok := blk.List[i+1].(*ast.AssignStmt); ok && len(nx.Lhs) == 1 && len(nx.Rhs) == 1 && useObj(info, nx.Lhs[0]) == rf.bufObj {
						if se, ok := nx.Rhs[0].(*ast.SliceExpr); ok && useObj(info, se.X) == rf.bufObj && se.Low == nil && se.High != nil && useObj(info, se.High) == cnt && cnt != nil {
							good = true
						}
					}
				}
				if !good {
					okBytes = false
				}
				// inside the loop, the buffer must be restored to its capacity before re-reading
				if nodeWithin(rf.loop, st) {
					restored := false
					if i > 0 {
						if pv, ok := blk.List[i-1].(*ast.AssignStmt); ok && len(pv.Lhs) == 1 && len(pv.Rhs) == 1 && useObj(info, pv.Lhs[0]) == rf.bufObj {
							if se, ok := pv.Rhs[0].(*ast.SliceExpr); ok && useObj(info, se.X) == rf.bufObj && se.Low == nil {
								if c, ok := se.High.(*ast.CallExpr); ok && len(c.Args) == 1 && useObj(info, c.Args[0]) == rf.bufObj {
									if id, ok := c.Fun.(*ast.Ident); ok && id.Name == "cap" {
										restored = true
									}
								}
							}
						}
					}
					if !restored {
						okBytes = false
					}
				}
			}
			return true
		})
		if okBytes && reads >= 2 {
			rep.Discharge("L-bytes", key, pos, "buf = buf[:cnt] after each of the Read calls; buf[:cap(buf)] before re-reading")
		} else {
			rep.Violate(Finding{Rule: "L-bytes", Key: key + ":read-reslice", Pos: pos, Msg: "a Read into the parse buffer is not followed by buf = buf[:cnt] (or the buffer is not restored to its capacity before re-reading): bytes would be parsed twice or dropped"})
		}
		// L-stop: the statement after the dispatch call(s) tests the result and returns/breaks
		okStop := false
		for i, st := range rf.loop.Body.List {
			if !containsAny(st, rf.calls) {
				continue
			}
			// the error check may be the same statement (if err := ...; err != nil) or one of the next two
			for j := i; j < len(rf.loop.Body.List) && j <= i+2; j++ {
				if is, ok := rf.loop.Body.List[j].(*ast.IfStmt); ok && mentionsNil(is.Cond) && endsInReturn(is.Body) {
					okStop = true
				}
			}
			// tokenizers that raise errors by panic have no result to test
			if es, ok := st.(*ast.IfStmt); ok {
				_ = es
			}
		}
		if !okStop {
			// dispatch function without result (errors raised by panic): nothing to test
			if c := rf.calls[0]; info.TypeOf(c) != nil {
				if tup, ok := info.TypeOf(c).(*types.Tuple); ok && tup.Len() == 0 {
					okStop = true
				}
			}
		}
		if okStop {
			rep.Discharge("L-stop", key, pos, "error result tested and returned before the next read")
		} else {
			rep.Violate(Finding{Rule: "L-stop", Key: key + ":stop", Pos: pos, Msg: "the reader loop does not return on an error of the dispatch function before reading further"})
		}
	}
}

func nodeWithin(outer ast.Node, inner ast.Node) bool {
	return outer.Pos() <= inner.Pos() && inner.End() <= outer.End()
}

func containsAny(n ast.Node, calls []*ast.CallExpr) bool {
	for _, c := range calls {
		if nodeWithin(n, c) {
			return true
		}
	}
	return false
}

func mentionsNil(e ast.Expr) bool {
	found := false
	ast.Inspect(e, func(n ast.Node) bool {
		if id, ok := n.(*ast.Ident); ok && id.Name == "nil" {
			found = true
		}
		return true
	})
	return found
}

func endsInReturn(b *ast.BlockStmt) bool {
	if len(b.List) == 0 {
		return false
	}
	switch b.List[len(b.List)-1].(type) {
	case *ast.ReturnStmt:
		return true
	}
	return false
}

func mentionsEOF(info *types.Info, e ast.Expr) bool {
	found := false
	ast.Inspect(e, func(n ast.Node) bool {
		if sel, ok := n.(*ast.SelectorExpr); ok && sel.Sel.Name == "EOF" {
			if v, ok := info.Uses[sel.Sel].(*types.Var); ok && v.Pkg() != nil && v.Pkg().Path() == "io" {
				found = true
			}
		}
		return true
	})
	return found
}

// ruleC09Extra: rebasing of the newline offset between reader buffers.
func ruleC09Extra(prog *Program, rep *Report) {
	rep.Rules = append(rep.Rules, "L-rebase: in every strict-JSON reader loop, between the dispatch call and the next Read, the position field that the error constructor subtracts from the cursor is decreased by the length of the buffer just parsed (len(buf), or len(buf)-skip for the BOM skip), as a statement of the loop body itself (every iteration)")
	for _, spec := range readerEntries {
		if !spec.strictJSON {
			continue
		}
		rf := analyseReader(prog, spec, rep)
		if rf == nil {
			continue
		}
		key := spec.rel + "." + spec.typ + "." + spec.root
		info := rf.pk.TypesInfo
		m, err := ExtractMachine(prog, spec.rel, spec.typ, []string{spec.root})
		if err != nil {
			rep.Errorf("%v", err)
			continue
		}
		// the offset-base field: subtracted from the cursor where a ParseError is built
		base := offsetBaseField(m)
		if base == "" {
			rep.Errorf("%s: cannot identify the newline-offset field of the error constructor", key)
			continue
		}
		callIdx, readIdx, rebIdx := -1, -1, -1
		good := false
		for i, st := range rf.loop.Body.List {
			if containsAny(st, rf.calls) && callIdx < 0 {
				callIdx = i
			}
			if as, ok := st.(*ast.AssignStmt); ok && len(as.Rhs) == 1 {
				if c, ok := as.Rhs[0].(*ast.CallExpr); ok {
					if sel, ok := c.Fun.(*ast.SelectorExpr); ok && sel.Sel.Name == "Read" {
						readIdx = i
					}
				}
				if as.Tok == token.SUB_ASSIGN && len(as.Lhs) == 1 {
					if sel, ok := as.Lhs[0].(*ast.SelectorExpr); ok && sel.Sel.Name == base {
						rebIdx = i
						good = isLenOf(info, as.Rhs[0], rf.bufObj, rf.skipObjs, i, rf.loop.Body.List)
					}
				}
			}
		}
		if rebIdx >= 0 && good && callIdx >= 0 && callIdx < rebIdx && (readIdx < 0 || rebIdx < readIdx) {
			rep.Discharge("L-rebase", key, prog.Pos(rf.loop.Body.List[rebIdx].Pos()), base+" -= len(buf)[-skip] between dispatch and next Read")
		} else {
			msg := "the reader loop does not decrease " + base + " by the length of the parsed buffer between two dispatch calls: columns of errors in later buffers are wrong"
			if rebIdx >= 0 && !good {
				msg = "the reader loop decreases " + base + " by something other than len(buf) (minus the BOM skip): columns depend on how the input is chunked"
			}
			rep.Violate(Finding{Rule: "L-rebase", Key: key + ":rebase", Pos: prog.Pos(rf.loop.Pos()), Msg: msg})
		}
	}
}

// isLenOf: e is len(buf) or len(buf) - skip, where skip is (one of) the BOM
// skip variable(s) and has not been reset earlier in the loop body.
func isLenOf(info *types.Info, e ast.Expr, buf types.Object, skips map[types.Object]bool, at int, body []ast.Stmt) bool {
	isLen := func(x ast.Expr) bool {
		c, ok := ast.Unparen(x).(*ast.CallExpr)
		if !ok || len(c.Args) != 1 {
			return false
		}
		id, ok := c.Fun.(*ast.Ident)
		return ok && id.Name == "len" && useObj(info, c.Args[0]) == buf
	}
	if isLen(e) {
		return true
	}
	if be, ok := ast.Unparen(e).(*ast.BinaryExpr); ok && be.Op == token.SUB && isLen(be.X) {
		so := useObj(info, be.Y)
		if so == nil || !skips[so] {
			return false
		}
		// skip must not have been zeroed before this statement in the same iteration
		for i := 0; i < at; i++ {
			if as, ok := body[i].(*ast.AssignStmt); ok {
				for _, l := range as.Lhs {
					if useObj(info, l) == so {
						return false
					}
				}
			}
		}
		return true
	}
	return false
}

func offsetBaseField(m *Machine) string {
	info := m.pkg.TypesInfo
	res := ""
	for _, file := range m.pkg.Syntax {
		ast.Inspect(file, func(n ast.Node) bool {
			cl, ok := n.(*ast.CompositeLit)
			if !ok {
				return true
			}
			nt, ok := info.TypeOf(cl).(*types.Named)
			if !ok || nt.Obj().Name() != "ParseError" {
				return true
			}
			for _, el := range cl.Elts {
				kv, ok := el.(*ast.KeyValueExpr)
				if !ok {
					continue
				}
				if id, ok := kv.Key.(*ast.Ident); !ok || id.Name != "Column" {
					continue
				}
				if be, ok := kv.Value.(*ast.BinaryExpr); ok && be.Op == token.SUB {
					if sel, ok := be.Y.(*ast.SelectorExpr); ok && m.posFields[sel.Sel.Name] {
						res = sel.Sel.Name
					}
				}
			}
			return true
		})
	}
	return strings.TrimSpace(res)
}
