package main

import (
	"fmt"
	"go/ast"
	"go/token"
	"go/types"
)

func init() { rules["C19"] = ruleC19 }

func ruleC19(prog *Program, rep *Report) {
	rep.Explain("C19 decides structural clauses of Diff/Compare/Match: Compare and Diff share one implementation in which the early exit only happens after a difference was recorded (so Compare is nil exactly when Diff is empty); in the map case the keys of both operands reach the comparison; in the slice case a length difference is recorded; numeric widening helpers convert each type directly (no narrowing intermediate conversion); Match does not compare sizes of objects (an explicit nil matches an absent member). Not covered: soundness/completeness of the reported paths and ignore-path semantics.")
	pk := prog.Pkg("alt")
	if pk == nil {
		rep.Errorf("package alt missing")
		return
	}
	info := pk.TypesInfo
	ruleCallOrder(prog, rep, 2, "alt")
	ruleParamTwins(prog, rep, 1, "alt")    // an ignore path applies to an index as it applies to a key
	ruleChildVariadic(prog, rep, 2, "alt") // ignore paths are relative to the value they are given with
	ruleTimeEq(prog, rep, "alt")           // Diff and Match treat two times as equal when Equal() says so (after rounding)
	ruleNumFamily(prog, rep, 4, "alt")     // Diff, Match and the widening helpers treat every integer width alike
	// the shared implementation: the unexported function both Diff and Compare call
	var impl *types.Func
	calls := map[string]*types.Func{}
	for _, name := range []string{"Diff", "Compare"} {
		fd, _ := prog.FuncDecl(Func(pk, name))
		if fd == nil {
			rep.Errorf("alt.%s not found", name)
			return
		}
		ast.Inspect(fd.Body, func(n ast.Node) bool {
			if call, ok := n.(*ast.CallExpr); ok {
				if id, ok := call.Fun.(*ast.Ident); ok {
					if f, ok := info.Uses[id].(*types.Func); ok && f.Pkg() == pk.Types && len(call.Args) >= 3 {
						calls[name] = f
					}
				}
			}
			return true
		})
	}
	rep.Rules = append(rep.Rules, "F-shared: alt.Diff and alt.Compare call the same implementation function")
	if calls["Diff"] == nil || calls["Diff"] != calls["Compare"] {
		rep.Violate(Finding{Rule: "F-shared", Key: "alt.Diff/Compare:shared", Pos: "alt/diff.go", Msg: "Diff and Compare do not call one shared implementation: 'Compare is nil exactly when Diff is empty' no longer follows from the code's shape"})
		return
	}
	impl = calls["Diff"]
	rep.Discharge("F-shared", "alt.Diff/Compare:shared", prog.Pos(impl.Pos()), "both call "+impl.Name())
	ifd, _ := prog.FuncDecl(impl)
	if ifd == nil {
		rep.Errorf("alt diff implementation has no body")
		return
	}
	// the result accumulator: the named result (or a local) that is appended to
	var acc types.Object
	if ifd.Type.Results != nil && len(ifd.Type.Results.List) == 1 && len(ifd.Type.Results.List[0].Names) == 1 {
		acc = info.Defs[ifd.Type.Results.List[0].Names[0]]
	}
	if acc == nil {
		rep.Errorf("alt diff implementation: result accumulator not found")
		return
	}
	isAppendAcc := func(s ast.Stmt) bool {
		as, ok := s.(*ast.AssignStmt)
		if !ok || len(as.Lhs) != 1 || len(as.Rhs) != 1 || useObj(info, as.Lhs[0]) != acc {
			return false
		}
		call, ok := as.Rhs[0].(*ast.CallExpr)
		if !ok {
			return false
		}
		id, ok := call.Fun.(*ast.Ident)
		return ok && id.Name == "append"
	}
	// F-exit
	rep.Rules = append(rep.Rules, "F-exit: every bare return inside a loop of the shared implementation, and every break that leaves a clause of its type switch outside a loop, is directly preceded, in its block or in the block of the enclosing `if <flag> { return }`, by an append to the result: the early exit never drops a difference and never returns before one was recorded")
	exits := 0
	var walk func(list []ast.Stmt, inLoop bool)
	walk = func(list []ast.Stmt, inLoop bool) {
		for i, s := range list {
			switch x := s.(type) {
			case *ast.ReturnStmt:
				if !inLoop || len(x.Results) != 0 {
					continue
				}
				exits++
				key := fmt.Sprintf("alt.%s:exit#%d", impl.Name(), exits)
				if i > 0 && isAppendAcc(list[i-1]) {
					rep.Discharge("F-exit", key, prog.Pos(x.Pos()), "preceded by an append to the result")
				} else {
					rep.Violate(Finding{Rule: "F-exit", Key: key, Pos: prog.Pos(x.Pos()), Msg: "an early return inside a loop is not directly preceded by recording a difference: Compare can return nil although Diff is not empty (or a difference is dropped)"})
				}
			case *ast.BranchStmt:
				// a break that leaves the clause of the value's kind before its elements or members were compared:
				// only after the difference that makes further comparison pointless was recorded
				if x.Tok != token.BREAK || x.Label != nil || inLoop {
					continue
				}
				exits++
				key := fmt.Sprintf("alt.%s:break#%d", impl.Name(), exits)
				if i > 0 && isAppendAcc(list[i-1]) {
					rep.Discharge("F-exit", key, prog.Pos(x.Pos()), "preceded by an append to the result")
				} else {
					rep.Violate(Finding{Rule: "F-exit", Key: key, Pos: prog.Pos(x.Pos()), Msg: "a break leaves the clause for this kind of value without a difference having been recorded just before it: the elements, the members or the lengths are never compared on this path"})
				}
			case *ast.IfStmt:
				// `if flag { return }` directly after an append
				if len(x.Body.List) == 1 {
					if r, ok := x.Body.List[0].(*ast.ReturnStmt); ok && len(r.Results) == 0 && inLoop && x.Else == nil {
						exits++
						key := fmt.Sprintf("alt.%s:exit#%d", impl.Name(), exits)
						if i > 0 && isAppendAcc(list[i-1]) {
							rep.Discharge("F-exit", key, prog.Pos(r.Pos()), "flag-guarded exit directly after an append to the result")
						} else {
							rep.Violate(Finding{Rule: "F-exit", Key: key, Pos: prog.Pos(r.Pos()), Msg: "the flag-guarded early return is not directly preceded by recording a difference: Compare can return nil although Diff is not empty"})
						}
						continue
					}
				}
				walk(x.Body.List, inLoop)
				if eb, ok := x.Else.(*ast.BlockStmt); ok {
					walk(eb.List, inLoop)
				}
			case *ast.ForStmt:
				walk(x.Body.List, true)
			case *ast.RangeStmt:
				walk(x.Body.List, true)
			case *ast.BlockStmt:
				walk(x.List, inLoop)
			case *ast.SwitchStmt:
				for _, c := range x.Body.List {
					walk(c.(*ast.CaseClause).Body, inLoop)
				}
			case *ast.TypeSwitchStmt:
				for _, c := range x.Body.List {
					walk(c.(*ast.CaseClause).Body, inLoop)
				}
			}
		}
	}
	walk(ifd.Body.List, false)
	if exits < 3 {
		rep.Errorf("F-exit found %d early exits (floor 3)", exits)
	}
	// F-keys and F-len: in the type switch of the implementation
	rep.Rules = append(rep.Rules,
		"F-keys: in the map case of the shared implementation a key set is filled by ranging over both operands (two range loops over different maps storing into the same set) and the comparison loop ranges over that set",
		"F-len: in the slice case, after the element loop, a condition comparing the two lengths with != leads to an append to the result")
	var ts *ast.TypeSwitchStmt
	for _, s := range ifd.Body.List {
		if t, ok := s.(*ast.TypeSwitchStmt); ok {
			ts = t
		}
	}
	if ts == nil {
		rep.Errorf("alt diff implementation: type switch not found")
		return
	}
	for _, c := range ts.Body.List {
		cc := c.(*ast.CaseClause)
		if len(cc.List) != 1 {
			continue
		}
		switch info.TypeOf(cc.List[0]).Underlying().(type) {
		case *types.Map:
			setFill := map[types.Object]map[types.Object]bool{}
			var rangedSets []types.Object
			for _, s := range cc.Body {
				rs, ok := s.(*ast.RangeStmt)
				if !ok {
					continue
				}
				src := useObj(info, rs.X)
				if src != nil {
					rangedSets = append(rangedSets, src)
				}
				for _, b := range rs.Body.List {
					if as, ok := b.(*ast.AssignStmt); ok && len(as.Lhs) == 1 {
						if ix, ok := as.Lhs[0].(*ast.IndexExpr); ok {
							set := useObj(info, ix.X)
							if set != nil && src != nil && rs.Key != nil && useObj(info, ix.Index) == info.Defs[identOf(rs.Key)] {
								if setFill[set] == nil {
									setFill[set] = map[types.Object]bool{}
								}
								setFill[set][src] = true
							}
						}
					}
				}
			}
			ok := false
			for set, srcs := range setFill {
				if len(srcs) >= 2 {
					for _, r := range rangedSets {
						if r == set {
							ok = true
						}
					}
				}
			}
			if ok {
				rep.Discharge("F-keys", "alt."+impl.Name()+":map-keys", prog.Pos(cc.Pos()), "keys of both operands are collected and compared")
			} else {
				rep.Violate(Finding{Rule: "F-keys", Key: "alt." + impl.Name() + ":map-keys", Pos: prog.Pos(cc.Pos()), Msg: "the map case does not collect the keys of both operands before comparing: members present in only one of the two objects are skipped"})
			}
		case *types.Slice:
			ok := false
			for _, s := range cc.Body {
				is, isIf := s.(*ast.IfStmt)
				if !isIf {
					continue
				}
				lenNeq := false
				ast.Inspect(is.Cond, func(n ast.Node) bool {
					if be, ok := n.(*ast.BinaryExpr); ok && be.Op == token.NEQ {
						if isLenCall(be.X) && isLenCall(be.Y) {
							lenNeq = true
						}
					}
					return true
				})
				if lenNeq {
					for _, b := range is.Body.List {
						if isAppendAcc(b) {
							ok = true
						}
					}
				}
			}
			if ok {
				rep.Discharge("F-len", "alt."+impl.Name()+":slice-len", prog.Pos(cc.Pos()), "length difference is recorded")
			} else {
				rep.Violate(Finding{Rule: "F-len", Key: "alt." + impl.Name() + ":slice-len", Pos: prog.Pos(cc.Pos()), Msg: "the slice case does not record a difference when the two lengths differ after all common elements matched"})
			}
		}
	}
	// F-ignore: skip tests come first
	rep.Rules = append(rep.Rules, "F-ignore: in every loop of the shared implementation that skips ignored positions (`if <test> { continue }`), nothing is appended to the result before that test in the loop body: an ignored position is never reported")
	skips := 0
	ast.Inspect(ifd.Body, func(n ast.Node) bool {
		var body *ast.BlockStmt
		switch l := n.(type) {
		case *ast.RangeStmt:
			body = l.Body
		case *ast.ForStmt:
			body = l.Body
		default:
			return true
		}
		first := -1
		for i, st := range body.List {
			if is, ok := st.(*ast.IfStmt); ok && is.Else == nil && len(is.Body.List) == 1 {
				if br, ok := is.Body.List[0].(*ast.BranchStmt); ok && br.Tok == token.CONTINUE {
					if _, isCall := ast.Unparen(is.Cond).(*ast.CallExpr); isCall {
						first = i
						break
					}
				}
			}
		}
		if first < 0 {
			return true
		}
		skips++
		key := fmt.Sprintf("alt.%s:ignore#%d", impl.Name(), skips)
		bad := false
		for i := 0; i < first; i++ {
			ast.Inspect(body.List[i], func(k ast.Node) bool {
				if st, ok := k.(ast.Stmt); ok && isAppendAcc(st) {
					bad = true
				}
				return true
			})
		}
		if bad {
			rep.Violate(Finding{Rule: "F-ignore", Key: key, Pos: prog.Pos(body.List[first].Pos()), Msg: "a difference can be recorded before the ignore test of the loop: a position covered by an ignore path is still reported"})
		} else {
			rep.Discharge("F-ignore", key, prog.Pos(body.List[first].Pos()), "the ignore test precedes every append of the loop body")
		}
		return true
	})
	if skips < 2 {
		rep.Errorf("F-ignore found %d skipping loops (floor 2)", skips)
	}
	ruleDirectConversion(prog, rep, "alt", 15)
	ruleMatchNoLen(prog, rep)
	ruleOkDrop(prog, rep, "alt")
	ruleOperandOrder(prog, rep, "alt")
	ruleFloatNarrow(prog, rep, "alt")
	ruleLoopExit(prog, rep, 40, "alt") // ignore paths and members are searched in loops
}

func isLenCall(e ast.Expr) bool {
	c, ok := ast.Unparen(e).(*ast.CallExpr)
	if !ok || len(c.Args) != 1 {
		return false
	}
	id, ok := c.Fun.(*ast.Ident)
	return ok && id.Name == "len"
}

// ruleDirectConversion: in the numeric widening helpers every arm converts the
// matched value directly to the result type.
func ruleDirectConversion(prog *Program, rep *Report, rel string, floor int) {
	rep.Rules = append(rep.Rules, "F-conv: in every type-switch arm of package "+rel+" that assigns T(x) of the arm's bound variable, x is converted directly: no inner conversion to an integer type that is narrower than, or of different signedness from, the matched type (which would wrap large values)")
	pk := prog.Pkg(rel)
	if pk == nil {
		rep.Errorf("F-conv: package %s not loaded", rel)
		return
	}
	info := pk.TypesInfo
	n := 0
	for _, f := range pk.Syntax {
		for _, d := range f.Decls {
			fd, ok := d.(*ast.FuncDecl)
			if !ok || fd.Body == nil {
				continue
			}
			ast.Inspect(fd.Body, func(k ast.Node) bool {
				ts, ok := k.(*ast.TypeSwitchStmt)
				if !ok {
					return true
				}
				for _, c := range ts.Body.List {
					cc := c.(*ast.CaseClause)
					bound := info.Implicits[cc]
					if bound == nil || len(cc.List) != 1 {
						continue
					}
					srcT, ok := bound.Type().Underlying().(*types.Basic)
					if !ok || srcT.Info()&types.IsInteger == 0 {
						continue
					}
					for _, s := range cc.Body {
						as, ok := s.(*ast.AssignStmt)
						if !ok || len(as.Rhs) != 1 {
							continue
						}
						outer, ok := as.Rhs[0].(*ast.CallExpr)
						if !ok || len(outer.Args) != 1 {
							continue
						}
						if tv, ok := info.Types[outer.Fun]; !ok || !tv.IsType() {
							continue
						}
						n++
						key := fmt.Sprintf(rel+".%s:conv:%s", funcKey(fd), types.TypeString(bound.Type(), nil))
						bad := ""
						arg := ast.Unparen(outer.Args[0])
						for {
							inner, ok := arg.(*ast.CallExpr)
							if !ok || len(inner.Args) != 1 {
								break
							}
							tv, ok := info.Types[inner.Fun]
							if !ok || !tv.IsType() {
								break
							}
							if it, ok := tv.Type.Underlying().(*types.Basic); ok && it.Info()&types.IsInteger != 0 {
								sizes := types.SizesFor("gc", "amd64")
								finalSize := int64(8)
								if ft, ok := info.TypeOf(outer).Underlying().(*types.Basic); ok {
									finalSize = sizes.Sizeof(ft)
								}
								narrower := sizes.Sizeof(it) < finalSize
								if narrower && (sizes.Sizeof(it) < sizes.Sizeof(srcT) || (it.Info()&types.IsUnsigned) != (srcT.Info()&types.IsUnsigned)) {
									bad = fmt.Sprintf("a %s value passes through %s on its way to the result", srcT.Name(), it.Name())
								}
							}
							arg = ast.Unparen(inner.Args[0])
						}
						if useObj(info, arg) != bound {
							continue
						}
						if bad != "" {
							rep.Violate(Finding{Rule: "F-conv", Key: key, Pos: prog.Pos(as.Pos()), Msg: bad + ": large values wrap, so equal numbers of different width compare as different (and different ones as equal)"})
						} else {
							rep.Discharge("F-conv", key, prog.Pos(as.Pos()), "direct conversion")
						}
					}
				}
				return true
			})
		}
	}
	if n < floor {
		rep.Errorf("F-conv found %d integer conversion arms in %s (floor %d)", n, rel, floor)
	}
}

// ruleMatchNoLen: Match on objects must not compare sizes.
func ruleMatchNoLen(prog *Program, rep *Report) {
	rep.Rules = append(rep.Rules, "F-match: in alt.Match the arm for map fingerprints never calls len on the fingerprint or the target: an explicit nil in the fingerprint matches an absent member, so the sizes of the two objects say nothing")
	pk := prog.Pkg("alt")
	info := pk.TypesInfo
	fd, _ := prog.FuncDecl(Func(pk, "Match"))
	if fd == nil {
		rep.Errorf("alt.Match not found")
		return
	}
	found := false
	ast.Inspect(fd.Body, func(k ast.Node) bool {
		ts, ok := k.(*ast.TypeSwitchStmt)
		if !ok {
			return true
		}
		for _, c := range ts.Body.List {
			cc := c.(*ast.CaseClause)
			if len(cc.List) != 1 {
				continue
			}
			if _, isMap := info.TypeOf(cc.List[0]).Underlying().(*types.Map); !isMap {
				continue
			}
			found = true
			usesLen := false
			for _, s := range cc.Body {
				ast.Inspect(s, func(q ast.Node) bool {
					if e, ok := q.(ast.Expr); ok && isLenCall(e) {
						if _, isMapArg := info.TypeOf(e.(*ast.CallExpr).Args[0]).Underlying().(*types.Map); isMapArg {
							usesLen = true
						}
					}
					return true
				})
			}
			if usesLen {
				rep.Violate(Finding{Rule: "F-match", Key: "alt.Match:map-len", Pos: prog.Pos(cc.Pos()), Msg: "Match compares the sizes of the fingerprint and target objects: a fingerprint with explicit nil members for absent keys no longer matches"})
			} else {
				rep.Discharge("F-match", "alt.Match:map-len", prog.Pos(cc.Pos()), "no size comparison on objects")
			}
		}
		return true
	})
	if !found {
		rep.Errorf("alt.Match: map arm not found")
	}
}
