package main

import (
	"fmt"
	"os"
	"sort"
	"strings"
	"sync"
)

// byteClasses partitions the 256 byte values into classes whose members the
// machine and the reference cannot tell apart: same column in every dispatch
// table of the package, same reference behaviour, and same outcome of every
// comparison the interpreter has seen applied to an input byte. Soundness is
// checked while interpreting (values derived from input bytes are tainted): a
// comparison against a constant that is not yet distinguished, or a tainted
// value reaching tracked state, refines the partition and the exploration is
// run again.
type byteClasses struct {
	muteIdentity bool // liveness sampling runs arms from unknown states: their comparisons must not refine the partition
	tables       []string
	distinct     [256]bool
	thresholds   map[int]bool
	identity     bool
	yclass       [256]int
	repOf        [256]int
	list         []int
	mem          map[int][]int
	dirty        bool
	reasons      []string
	multi        bool
	mu           sync.Mutex
	seeding      bool
}

func newByteClasses(tables []string, multi bool) *byteClasses {
	c := &byteClasses{tables: tables, thresholds: map[int]bool{}, multi: multi}
	c.computeY()
	c.dirty = true
	c.rebuild()
	return c
}

// computeY groups bytes by the behaviour of the reference automaton.
func (c *byteClasses) computeY() {
	var cfgs []RCfg
	for s := rStart; s < rDead; s++ {
		for _, k := range []bool{false, true} {
			for n := uint8(0); n < 5; n++ {
				for l := uint8(0); l < 3; l++ {
					for t := uint8(0); t < 3; t++ {
						cfgs = append(cfgs, RCfg{S: s, IsKey: k, N: n, Lit: l, Top: t})
					}
				}
			}
		}
	}
	ids := map[string]int{}
	for b := 0; b < 256; b++ {
		var sb strings.Builder
		for _, cfg := range cfgs {
			if cfg.S == rLit && int(cfg.N) >= len(litWords[cfg.Lit]) {
				continue
			}
			r := RefStep(cfg, byte(b), c.multi)
			fmt.Fprintf(&sb, "%v%v%v%v%v;", r.Dead, r.Next, r.Push, r.Pop, r.Events)
		}
		k := sb.String()
		if _, ok := ids[k]; !ok {
			ids[k] = len(ids)
		}
		c.yclass[b] = ids[k]
	}
}

func (c *byteClasses) request(kind string, v int, why string) {
	if c == nil {
		return
	}
	// fast path without the lock: already satisfied
	switch kind {
	case "eq":
		if v < 0 || v > 255 || c.distinct[v] {
			return
		}
	case "lt":
		if v <= 0 || v > 255 {
			return
		}
	case "identity":
		if c.identity || c.muteIdentity {
			return
		}
	}
	c.mu.Lock()
	defer c.mu.Unlock()
	if os.Getenv("OJGCHECK_TRACE") != "" && !c.seeding {
		fmt.Printf("class request %s %d %s\n", kind, v, why)
	}
	switch kind {
	case "eq":
		if v >= 0 && v < 256 && !c.distinct[v] {
			c.distinct[v] = true
			c.dirty = true
		}
	case "lt":
		if v > 0 && v < 256 && !c.thresholds[v] {
			c.thresholds[v] = true
			c.dirty = true
		}
	case "identity":
		if !c.identity {
			c.identity = true
			c.dirty = true
			c.reasons = append(c.reasons, why)
		}
	}
}

func (c *byteClasses) rebuild() {
	if c == nil || !c.dirty {
		return
	}
	c.dirty = false
	var ths []int
	for t := range c.thresholds {
		ths = append(ths, t)
	}
	sort.Ints(ths)
	ids := map[string]int{}
	c.mem = map[int][]int{}
	c.list = nil
	for b := 0; b < 256; b++ {
		var sb strings.Builder
		if c.identity || c.distinct[b] {
			fmt.Fprintf(&sb, "=%d", b)
		}
		for _, t := range c.tables {
			if b < len(t) {
				sb.WriteByte(t[b])
			} else {
				sb.WriteString("\xff\xff")
			}
		}
		fmt.Fprintf(&sb, "|y%d|", c.yclass[b])
		for _, t := range ths {
			if b < t {
				sb.WriteByte('<')
			} else {
				sb.WriteByte('>')
			}
		}
		k := sb.String()
		r, ok := ids[k]
		if !ok {
			r = b
			ids[k] = b
			c.list = append(c.list, b)
		}
		c.repOf[b] = r
		c.mem[r] = append(c.mem[r], b)
	}
}

var allBytes = func() []int {
	a := make([]int, 256)
	for i := range a {
		a[i] = i
	}
	return a
}()

func (c *byteClasses) reps() []int {
	if c == nil {
		return allBytes
	}
	return c.list
}

func (c *byteClasses) rep(b int) int {
	if c == nil {
		return b
	}
	return c.repOf[b]
}

func (c *byteClasses) members(rep int) []int {
	if c == nil {
		return []int{rep}
	}
	return c.mem[c.repOf[rep]]
}
