package main

import (
	"fmt"
	"go/ast"
	"go/token"
	"go/types"
	"strings"

	"golang.org/x/tools/go/packages"
)

func init() { rules["C18"] = ruleC18 }

func ruleC18(prog *Program, rep *Report) {
	rep.Explain("C18 decides the deep-copy discipline of the copying operations (alt.Dup/Decompose through their recursive worker, alt.Generify for simple containers, Dup and Simplify of gen.Array and gen.Object; the in-place Alter/GenAlter are exempt by documentation): in every arm or method that copies a container, the result is a freshly allocated container on every path (no early exit that leaves the original in the result), elements are stored through a copying call and never as the range value itself, and the receiver or input is never reinterpreted with unsafe. Also kind parity: every simple kind handled by the decomposing switch is handled by the generifying switch. Not covered: value preservation (time, big numbers), writer text equality, gen.Parser versus Generify of oj.Parser beyond C03's event agreement.")
	rep.Rules = append(rep.Rules,
		"D-fresh: in each slice/map arm of the type switch of a copying function the result variable is assigned on every path that leaves the arm (break and fall-through), and only from a container allocated in that arm (make or composite literal)",
		"D-elem: no element store of a copying arm or method (x[i] = e, x[k] = e, append(x, e), helper(x, k, e)) has the loop's range value itself as e: elements pass through the copying function itself, one of the other checked copying functions (Decompose, Generify, Dup, Simplify) or a conversion of a scalar - not through an in-place sibling such as alter",
		"D-unsafe: copying methods of gen.Array / gen.Object (Dup, Simplify) do not use package unsafe")
	arms := 0
	arms += copySwitchArms(prog, rep, "alt", "decompose")
	arms += copySwitchArms(prog, rep, "alt", "Generify")
	arms += copyMethods(prog, rep)
	if arms < 8 {
		rep.Errorf("C18 examined %d copying arms/methods (floor 8)", arms)
	}
	ruleKindParity(prog, rep)
	ruleNumFamily(prog, rep, 4, "alt", "gen")
	ruleSelfRec(prog, rep, 4, "gen", "alt")
	ruleRecvGuard(prog, rep, 4, "gen")
	ruleInfSign(prog, rep, 1, "gen")
	ruleTimeEq(prog, rep, "alt", "gen")
	ruleRecursionDropsOptions(prog, rep, "alt")        // options given to a conversion apply at every depth
	ruleFloatNarrow(prog, rep, "pretty", "alt", "gen") // a gen.Float printed or converted through float32 differs from the float64 it stands for
	ruleTwins(prog, rep)
	ruleCursorAdvance(prog, rep)                                    // two objects of one document must not be the same recycled map
	ruleArgParity(prog, rep, "oj.Parser", "gen.Parser")             // Reuse with channel delivery hands out the same map for every document
	ruleArmTwins(prog, rep, jsonFrontEnds[0], jsonFrontEnds[3], 30) // gen.Parser is oj.Parser with gen nodes
	rep.Rules = append(rep.Rules, "A-events: gen.Parser and oj.Parser emit the same value events as the reference at every byte and never append to a consumed scratch buffer (see C03/C07): the structural part of 'gen.Parser output equals Generify of oj.Parser output'")
	results := exploreFrontEnds(prog, []feSpec{jsonFrontEnds[0], jsonFrontEnds[3]}, []bool{false}, false)
	applyParseResults(rep, results, union(kindsEvents, kindsAccept, kindsPanic, map[string]bool{"stale-scratch": true}), "A-events", 18) // a parser that panics or reads past the buffer on one chunking has no output to compare
}

func isContainerType(t types.Type) bool {
	switch u := t.Underlying().(type) {
	case *types.Map:
		return true
	case *types.Slice:
		if b, ok := u.Elem().Underlying().(*types.Basic); ok && b.Kind() == types.Uint8 {
			return false
		}
		return true
	}
	return false
}

func freshExpr(info *types.Info, e ast.Expr) bool {
	switch x := ast.Unparen(e).(type) {
	case *ast.CompositeLit:
		return true
	case *ast.CallExpr:
		if id, ok := x.Fun.(*ast.Ident); ok && id.Name == "make" {
			return true
		}
	}
	return false
}

// armAssigns: does every path through list (until it falls off the end or
// breaks) assign result from a fresh local? fresh = locals allocated in the arm.
func armAssigns(info *types.Info, list []ast.Stmt, result types.Object, fresh map[types.Object]bool, assigned bool) (fallAssigned bool, ok bool) {
	ok = true
	for _, s := range list {
		switch x := s.(type) {
		case *ast.AssignStmt:
			for i, l := range x.Lhs {
				o := useObj(info, l)
				if o == nil {
					continue
				}
				if i < len(x.Rhs) && freshExpr(info, x.Rhs[i]) {
					fresh[o] = true
				}
				if o == result && i < len(x.Rhs) {
					if ro := useObj(info, x.Rhs[i]); ro != nil && fresh[ro] {
						assigned = true
					} else if freshExpr(info, x.Rhs[i]) {
						assigned = true
					} else {
						assigned = false
						ok = false // result assigned from something that is not a fresh container
					}
				}
			}
		case *ast.BranchStmt:
			if x.Tok == token.BREAK && x.Label == nil {
				if !assigned {
					ok = false
				}
				return assigned, ok
			}
		case *ast.ReturnStmt:
			// a return inside a copying arm must return a fresh container
			good := false
			if len(x.Results) == 1 {
				if ro := useObj(info, x.Results[0]); ro != nil && fresh[ro] {
					good = true
				}
				if _, isCall := ast.Unparen(x.Results[0]).(*ast.CallExpr); isCall {
					good = true // delegated copy
				}
				// a local that holds the result of a call made in this arm (val, err := c.fun(tv); return val)
				if ro := useObj(info, x.Results[0]); ro != nil && !good {
					for _, st := range list {
						ast.Inspect(st, func(k ast.Node) bool {
							as, isAs := k.(*ast.AssignStmt)
							if !isAs || len(as.Rhs) != 1 {
								return true
							}
							if _, isCall := ast.Unparen(as.Rhs[0]).(*ast.CallExpr); !isCall {
								return true
							}
							for _, l := range as.Lhs {
								if id, isId := l.(*ast.Ident); isId && (info.Defs[id] == ro || info.Uses[id] == ro) {
									good = true
								}
							}
							return true
						})
					}
				}
			}
			if len(x.Results) == 0 && assigned {
				good = true
			}
			if !good {
				ok = false
			}
			return assigned, ok
		case *ast.IfStmt:
			ta, tok := armAssigns(info, x.Body.List, result, fresh, assigned)
			if !tok {
				ok = false
			}
			ea := assigned
			if x.Else != nil {
				var eok bool
				switch e := x.Else.(type) {
				case *ast.BlockStmt:
					ea, eok = armAssigns(info, e.List, result, fresh, assigned)
				default:
					ea, eok = armAssigns(info, []ast.Stmt{e}, result, fresh, assigned)
				}
				if !eok {
					ok = false
				}
			}
			assigned = ta && ea
		case *ast.BlockStmt:
			a, bok := armAssigns(info, x.List, result, fresh, assigned)
			if !bok {
				ok = false
			}
			assigned = a
		}
	}
	return assigned, ok
}

// shallowStores: element stores whose value is a loop's range value itself.
// copyingCallees: the functions an element of a copy may pass through (each is itself checked by D-fresh / D-elem,
// or is the element's own copying method).
var copyingCallees = map[string]bool{"decompose": true, "Decompose": true, "Generify": true, "Dup": true, "Simplify": true, "Generic": true}

// nonCopyingElementCalls: in the loops of a copying arm, a call of a function of the same package that takes the
// loop's range value and returns something that can hold a container, and that is neither the copying function
// itself nor one of the copying callees: the in-place sibling (alter) returns its argument, so the "copy" shares it.
func nonCopyingElementCalls(info *types.Info, pkg *types.Package, node ast.Node, self types.Object) (out []token.Pos, names []string) {
	ast.Inspect(node, func(n ast.Node) bool {
		rs, ok := n.(*ast.RangeStmt)
		if !ok || rs.Value == nil {
			return true
		}
		val := info.Defs[identOf(rs.Value)]
		if val == nil {
			return true
		}
		switch val.Type().Underlying().(type) {
		case *types.Interface, *types.Map, *types.Slice:
		default:
			return true
		}
		ast.Inspect(rs.Body, func(k ast.Node) bool {
			call, ok := k.(*ast.CallExpr)
			if !ok {
				return true
			}
			takes := false
			for _, a := range call.Args {
				if useObj(info, a) == val {
					takes = true
				}
			}
			if !takes {
				return true
			}
			var callee types.Object
			switch fn := ast.Unparen(call.Fun).(type) {
			case *ast.Ident:
				callee = info.Uses[fn]
			case *ast.SelectorExpr:
				callee = info.Uses[fn.Sel]
			}
			f, ok := callee.(*types.Func)
			if !ok || f.Pkg() != pkg || f == self || copyingCallees[f.Name()] {
				return true
			}
			sig := f.Type().(*types.Signature)
			if sig.Results().Len() != 1 {
				return true
			}
			switch sig.Results().At(0).Type().Underlying().(type) {
			case *types.Interface, *types.Map, *types.Slice:
				out = append(out, call.Pos())
				names = append(names, f.Name())
			}
			return true
		})
		return true
	})
	return
}

func shallowStores(info *types.Info, node ast.Node) []token.Pos {
	var out []token.Pos
	ast.Inspect(node, func(n ast.Node) bool {
		rs, ok := n.(*ast.RangeStmt)
		if !ok || rs.Value == nil {
			return true
		}
		val := info.Defs[identOf(rs.Value)]
		if val == nil {
			return true
		}
		// only element values that can hold containers
		switch val.Type().Underlying().(type) {
		case *types.Interface, *types.Map, *types.Slice:
		default:
			return true
		}
		// blocks guarded by `val == nil` store a nil, which shares nothing
		var nilBlocks []ast.Node
		ast.Inspect(rs.Body, func(k ast.Node) bool {
			if is, ok := k.(*ast.IfStmt); ok {
				if be, ok := ast.Unparen(is.Cond).(*ast.BinaryExpr); ok && be.Op == token.EQL {
					if (useObj(info, be.X) == val && types.ExprString(be.Y) == "nil") || (useObj(info, be.Y) == val && types.ExprString(be.X) == "nil") {
						nilBlocks = append(nilBlocks, is.Body)
					}
				}
			}
			return true
		})
		inNil := func(n ast.Node) bool {
			for _, b := range nilBlocks {
				if nodeWithin(b, n) {
					return true
				}
			}
			return false
		}
		ast.Inspect(rs.Body, func(k ast.Node) bool {
			if k != nil && inNil(k) {
				return false
			}
			switch x := k.(type) {
			case *ast.AssignStmt:
				for i, l := range x.Lhs {
					if _, isIdx := l.(*ast.IndexExpr); isIdx && i < len(x.Rhs) && useObj(info, x.Rhs[i]) == val {
						out = append(out, x.Pos())
					}
				}
			case *ast.CallExpr:
				// append(x, m) or helper(x, k, m)
				if id, ok := x.Fun.(*ast.Ident); ok && (id.Name == "append" || info.Uses[id] != nil) {
					if _, isBuiltinOrFunc := info.Uses[id].(*types.Builtin); isBuiltinOrFunc || id.Name != "append" {
						for ai, a := range x.Args {
							if ai > 0 && useObj(info, a) == val {
								if f, isF := info.Uses[id].(*types.Func); isF {
									// a module function taking the raw element: only a problem if it stores it (helper named by shape: first arg is a map/slice)
									if sig := f.Type().(*types.Signature); sig.Params().Len() > 0 {
										switch sig.Params().At(0).Type().Underlying().(type) {
										case *types.Map, *types.Slice:
											out = append(out, x.Pos())
										}
									}
								} else if id.Name == "append" {
									out = append(out, x.Pos())
								}
							}
						}
					}
				}
			}
			return true
		})
		return true
	})
	return out
}

func copySwitchArms(prog *Program, rep *Report, rel, fname string) int {
	pk := prog.Pkg(rel)
	if pk == nil {
		rep.Errorf("package %s missing", rel)
		return 0
	}
	info := pk.TypesInfo
	var fd *ast.FuncDecl
	if i := strings.Index(fname, "."); i > 0 {
		fd, _ = prog.FuncDecl(Method(pk, fname[:i], fname[i+1:]))
	} else {
		fd, _ = prog.FuncDecl(Func(pk, fname))
	}
	if fd == nil {
		rep.Errorf("%s.%s not found", rel, fname)
		return 0
	}
	// the result variable: the named result, or the first parameter when the function ends with `return <param>`
	var result types.Object
	if fd.Type.Results != nil && len(fd.Type.Results.List) == 1 && len(fd.Type.Results.List[0].Names) == 1 {
		result = info.Defs[fd.Type.Results.List[0].Names[0]]
	} else if len(fd.Body.List) > 0 {
		if r, ok := fd.Body.List[len(fd.Body.List)-1].(*ast.ReturnStmt); ok && len(r.Results) == 1 {
			result = useObj(info, r.Results[0])
		}
	}
	if result == nil {
		rep.Errorf("%s.%s: result variable not found", rel, fname)
		return 0
	}
	n := 0
	ast.Inspect(fd.Body, func(k ast.Node) bool {
		ts, ok := k.(*ast.TypeSwitchStmt)
		if !ok {
			return true
		}
		for _, c := range ts.Body.List {
			cc := c.(*ast.CaseClause)
			if len(cc.List) != 1 || !isContainerType(info.TypeOf(cc.List[0])) {
				continue
			}
			// only the simple containers ([]any, map[string]any): element type interface
			n++
			key := fmt.Sprintf("%s.%s:%s", rel, fname, types.ExprString(cc.List[0]))
			fresh := map[types.Object]bool{}
			assigned, ok := armAssigns(info, cc.Body, result, fresh, false)
			if !assigned || !ok {
				rep.Violate(Finding{Rule: "D-fresh", Key: key + ":result", Pos: prog.Pos(cc.Pos()), Msg: "a path through the arm that copies " + types.ExprString(cc.List[0]) + " leaves the result unassigned or assigns something that was not allocated in the arm: the 'copy' is the original container, so mutating one changes the other"})
			} else {
				rep.Discharge("D-fresh", key+":result", prog.Pos(cc.Pos()), "result is a container allocated in the arm on every path")
			}
			if sh := shallowStores(info, cc); len(sh) > 0 {
				rep.Violate(Finding{Rule: "D-elem", Key: key + ":element", Pos: prog.Pos(sh[0]), Msg: "an element is stored into the copy as it is (the loop's range value): nested containers are shared between the copy and the original"})
			} else if nc, names := nonCopyingElementCalls(info, pk.Types, cc, info.Defs[fd.Name]); len(nc) > 0 {
				rep.Violate(Finding{Rule: "D-elem", Key: key + ":element-through-" + names[0], Pos: prog.Pos(nc[0]), Msg: "an element passes through " + names[0] + ", which is neither this copying function nor one of the checked copying functions (" + names[0] + " may return its argument): nested containers are shared between the copy and the original"})
			} else {
				rep.Discharge("D-elem", key+":element", prog.Pos(cc.Pos()), "elements pass through a copying call")
			}
		}
		return false
	})
	return n
}

func copyMethods(prog *Program, rep *Report) int {
	pk := prog.Pkg("gen")
	if pk == nil {
		rep.Errorf("package gen missing")
		return 0
	}
	info := pk.TypesInfo
	n := 0
	for _, typ := range []string{"Array", "Object"} {
		for _, m := range []string{"Dup", "Simplify"} {
			fd, _ := prog.FuncDecl(Method(pk, typ, m))
			key := fmt.Sprintf("gen.%s.%s", typ, m)
			if fd == nil {
				rep.Errorf("%s not found", key)
				continue
			}
			n++
			recv := info.Defs[fd.Recv.List[0].Names[0]]
			// the returned variable
			var ret types.Object
			bad := ""
			ast.Inspect(fd.Body, func(k ast.Node) bool {
				if r, ok := k.(*ast.ReturnStmt); ok && len(r.Results) == 1 {
					o := useObj(info, r.Results[0])
					if o == nil || o == recv {
						bad = "returns the receiver (or an expression) instead of a fresh container"
					}
					ret = o
				}
				return true
			})
			if ret != nil {
				ast.Inspect(fd.Body, func(k ast.Node) bool {
					as, ok := k.(*ast.AssignStmt)
					if !ok {
						return true
					}
					for i, l := range as.Lhs {
						if useObj(info, l) == ret && i < len(as.Rhs) {
							r := as.Rhs[i]
							if freshExpr(info, r) {
								continue
							}
							if call, ok := r.(*ast.CallExpr); ok {
								if id, ok := call.Fun.(*ast.Ident); ok && id.Name == "append" && len(call.Args) > 0 && useObj(info, call.Args[0]) == ret {
									continue
								}
							}
							bad = "assigns the result from " + types.ExprString(r) + ", which is not a container allocated in the method"
						}
					}
					return true
				})
			}
			usesUnsafe := false
			ast.Inspect(fd.Body, func(k ast.Node) bool {
				if sel, ok := k.(*ast.SelectorExpr); ok {
					if id, ok := sel.X.(*ast.Ident); ok {
						if pn, ok := info.Uses[id].(*types.PkgName); ok && pn.Imported().Path() == "unsafe" {
							usesUnsafe = true
						}
					}
				}
				return true
			})
			if usesUnsafe {
				rep.Violate(Finding{Rule: "D-unsafe", Key: key + ":unsafe", Pos: prog.Pos(fd.Pos()), Msg: "a copying method reinterprets memory with package unsafe: the result aliases the receiver"})
			}
			if bad != "" {
				rep.Violate(Finding{Rule: "D-fresh", Key: key + ":result", Pos: prog.Pos(fd.Pos()), Msg: key + " " + bad})
			} else {
				rep.Discharge("D-fresh", key+":result", prog.Pos(fd.Pos()), "returns a container allocated in the method")
			}
			if sh := shallowStores(info, fd.Body); len(sh) > 0 {
				rep.Violate(Finding{Rule: "D-elem", Key: key + ":element", Pos: prog.Pos(sh[0]), Msg: "an element is stored into the copy as it is (the loop's range value): nested nodes are shared between the copy and the original"})
			} else {
				rep.Discharge("D-elem", key+":element", prog.Pos(fd.Pos()), "elements pass through a copying call")
			}
		}
	}
	return n
}

// ruleKindParity: simple kinds handled by decompose are handled by Generify.
func ruleKindParity(prog *Program, rep *Report) {
	rep.Rules = append(rep.Rules, "D-kinds: every case type of the type switch of alt's decomposing worker that is a basic kind, []any, map[string]any or time.Time is also a case type of alt.Generify's switch (a kind handled on the way to simple data and not on the way to generic data is lost on the trip)")
	pk := prog.Pkg("alt")
	if pk == nil {
		return
	}
	caseTypes := func(fname string) map[string]bool {
		out := map[string]bool{}
		fd, _ := prog.FuncDecl(Func(pk, fname))
		if fd == nil {
			return out
		}
		ast.Inspect(fd.Body, func(k ast.Node) bool {
			ts, ok := k.(*ast.TypeSwitchStmt)
			if !ok {
				return true
			}
			for _, c := range ts.Body.List {
				for _, e := range c.(*ast.CaseClause).List {
					out[types.ExprString(e)] = true
				}
			}
			return false
		})
		return out
	}
	d, g := caseTypes("decompose"), caseTypes("Generify")
	if len(d) < 10 || len(g) < 10 {
		rep.Errorf("D-kinds: kind switches not found (%d, %d case types)", len(d), len(g))
		return
	}
	for t := range d {
		if t == "nil" || t == "[]byte" {
			continue
		}
		key := "alt.Generify:kind:" + t
		if g[t] {
			rep.Discharge("D-kinds", key, "alt/generifier.go", "handled by both switches")
		} else {
			rep.Violate(Finding{Rule: "D-kinds", Key: key, Pos: "alt/generifier.go", Msg: "kind " + t + " is handled when decomposing but has no case in Generify"})
		}
	}
}

var _ *packages.Package

// ruleTwins: functions written twice, once for simple and once for gen data,
// must have identical bodies.
func ruleTwins(prog *Program, rep *Report) {
	rep.Rules = append(rep.Rules, "D-twins: in package pretty, a method whose only parameter is a gen container and the method of the same receiver whose only parameter is the corresponding simple container ([]any / gen.Array, map[string]any / gen.Object) and that is called from the same type switch have identical bodies (printed AST, whitespace normalised): writers then produce identical text for a gen tree and its simple equivalent")
	pk := prog.Pkg("pretty")
	if pk == nil {
		rep.Errorf("package pretty missing")
		return
	}
	info := pk.TypesInfo
	byParam := map[string]*ast.FuncDecl{}
	for _, f := range pk.Syntax {
		for _, d := range f.Decls {
			fd, ok := d.(*ast.FuncDecl)
			if !ok || fd.Recv == nil || fd.Body == nil || fd.Type.Params == nil || len(fd.Type.Params.List) != 1 || len(fd.Type.Params.List[0].Names) != 1 {
				continue
			}
			t := info.TypeOf(fd.Type.Params.List[0].Type)
			if t == nil || !isContainerType(t) {
				continue
			}
			ts := types.TypeString(t, func(p *types.Package) string { return p.Name() })
			if _, dup := byParam[ts]; !dup {
				byParam[ts] = fd
			}
		}
	}
	pairs := [][2]string{{"[]any", "gen.Array"}, {"map[string]any", "gen.Object"}}
	n := 0
	for _, p := range pairs {
		a, b := byParam[p[0]], byParam[p[1]]
		if a == nil {
			a = byParam[p[0]]
		}
		if a == nil || b == nil {
			// interface{} spelling
			if a == nil {
				a = byParam[map[string]string{"[]any": "[]interface{}", "map[string]any": "map[string]interface{}"}[p[0]]]
			}
		}
		if a == nil || b == nil {
			rep.Errorf("D-twins: builder pair for %s / %s not found", p[0], p[1])
			continue
		}
		n++
		key := "pretty." + a.Name.Name + "=" + b.Name.Name
		sa := wsRe.ReplaceAllString(printNode(prog.Fset, a.Body), " ")
		sb := wsRe.ReplaceAllString(printNode(prog.Fset, b.Body), " ")
		if sa == sb {
			rep.Discharge("D-twins", key, prog.Pos(b.Pos()), "bodies are identical")
		} else {
			rep.Violate(Finding{Rule: "D-twins", Key: key, Pos: prog.Pos(b.Pos()), Msg: fmt.Sprintf("%s and %s are no longer copies of each other: a gen tree and its simple equivalent are laid out differently", a.Name.Name, b.Name.Name)})
		}
	}
	_ = n
}
