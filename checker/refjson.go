package main

// Reference automaton for RFC 8259 JSON texts, written from the grammar in the
// RFC (sections 2-7), byte level, with an explicit container stack symbol.
// It is the oracle of Engine A; it shares no code or table with ojg.
//
// Deviations granted by property C01: bytes >= 0x80 inside strings pass
// unvalidated; empty or whitespace-only input is accepted ("no document").
// The optional BOM is handled by the entry points' preamble, not here.
//
// Multi-document mode (callback / channel / OnlyOne == false) is not defined
// by the RFC; the reference used for it is: a sequence of JSON values, each
// optionally surrounded by whitespace; a top-level number must be followed by
// whitespace or end of input.

type rstate uint8

const (
	rStart rstate = iota // top level, before a value (whitespace allowed, end allowed)
	rDone                // single-document mode, after the value: whitespace only
	rArr0                // after '[': value or ']'
	rVal                 // a value is required (after ',' in an array, after ':')
	rAfter               // after a value inside a container: ',' or the matching close
	rKey0                // after '{': '"' or '}'
	rKey                 // after ',' in an object: '"'
	rColon               // after a key: ':'
	rStr                 // inside a string
	rEsc                 // after '\'
	rU                   // inside \uXXXX, N hex digits seen
	rNeg                 // after '-'
	rZero                // after a leading 0
	rInt                 // in the integer digits
	rDot                 // after '.'
	rFrac                // in the fraction digits
	rE                   // after e/E
	rESign               // after the exponent sign
	rExp                 // in the exponent digits
	rLit                 // inside true/false/null, N letters seen
	rDead
)

const (
	symNone = 0
	symObj  = 1
	symArr  = 2
)

type RCfg struct {
	S     rstate
	IsKey bool  // the string being read is an object key
	N     uint8 // hex digits seen / literal letters seen
	Lit   uint8 // 0 true, 1 false, 2 null
	Top   uint8 // top of the container stack
}

var litWords = [3]string{"true", "false", "null"}
var litEvents = [3]string{"TRUE", "FALSE", "NULL"}

type RStep struct {
	Dead   bool
	Next   RCfg
	Push   uint8 // symbol pushed (0 none)
	Pop    bool  // the top was popped; Next.Top must be set by the caller via AfterPop
	Events []string
}

func isWS(b byte) bool    { return b == ' ' || b == '\t' || b == '\n' || b == '\r' }
func isDigit(b byte) bool { return b >= '0' && b <= '9' }
func isHex(b byte) bool {
	return isDigit(b) || (b >= 'a' && b <= 'f') || (b >= 'A' && b <= 'F')
}

// afterValue is the state following a complete value when top is the current
// stack top.
func afterValue(top uint8, multi bool) rstate {
	if top == symNone {
		if multi {
			return rStart
		}
		return rDone
	}
	return rAfter
}

// AfterPop completes a popping step once the uncovered stack top is known.
func (r RStep) AfterPop(newTop uint8, multi bool) RCfg {
	n := r.Next
	n.Top = newTop
	n.S = afterValue(newTop, multi)
	return n
}

func dead() RStep { return RStep{Dead: true, Next: RCfg{S: rDead}} }

// RefStep is the transition function.
func RefStep(c RCfg, b byte, multi bool) RStep {
	switch c.S {
	case rStart, rArr0, rVal:
		if isWS(b) {
			return RStep{Next: c}
		}
		if c.S == rArr0 && b == ']' {
			return RStep{Pop: true, Next: c, Events: []string{"ARR_END"}}
		}
		return valueStart(c, b)
	case rDone:
		if isWS(b) {
			return RStep{Next: c}
		}
		return dead()
	case rAfter:
		if isWS(b) {
			return RStep{Next: c}
		}
		switch {
		case b == ',' && c.Top == symArr:
			n := c
			n.S = rVal
			return RStep{Next: n}
		case b == ',' && c.Top == symObj:
			n := c
			n.S = rKey
			return RStep{Next: n}
		case b == ']' && c.Top == symArr:
			return RStep{Pop: true, Next: c, Events: []string{"ARR_END"}}
		case b == '}' && c.Top == symObj:
			return RStep{Pop: true, Next: c, Events: []string{"OBJ_END"}}
		}
		return dead()
	case rKey0, rKey:
		if isWS(b) {
			return RStep{Next: c}
		}
		if b == '"' {
			n := c
			n.S = rStr
			n.IsKey = true
			return RStep{Next: n}
		}
		if c.S == rKey0 && b == '}' {
			return RStep{Pop: true, Next: c, Events: []string{"OBJ_END"}}
		}
		return dead()
	case rColon:
		if isWS(b) {
			return RStep{Next: c}
		}
		if b == ':' {
			n := c
			n.S = rVal
			return RStep{Next: n}
		}
		return dead()
	case rStr:
		switch {
		case b == '"':
			n := c
			if c.IsKey {
				n.S = rColon
				n.IsKey = false
				return RStep{Next: n, Events: []string{"KEY"}}
			}
			n.S = afterValue(c.Top, multi)
			return RStep{Next: n, Events: []string{"STRING"}}
		case b == '\\':
			n := c
			n.S = rEsc
			return RStep{Next: n}
		case b < 0x20:
			return dead()
		}
		return RStep{Next: c}
	case rEsc:
		switch b {
		case '"', '\\', '/', 'b', 'f', 'n', 'r', 't':
			n := c
			n.S = rStr
			return RStep{Next: n}
		case 'u':
			n := c
			n.S = rU
			n.N = 0
			return RStep{Next: n}
		}
		return dead()
	case rU:
		if !isHex(b) {
			return dead()
		}
		n := c
		n.N++
		if n.N == 4 {
			n.S = rStr
			n.N = 0
		}
		return RStep{Next: n}
	case rNeg:
		n := c
		switch {
		case b == '0':
			n.S = rZero
		case isDigit(b):
			n.S = rInt
		default:
			return dead()
		}
		return RStep{Next: n}
	case rZero, rInt, rFrac, rExp:
		n := c
		switch {
		case isDigit(b) && c.S != rZero:
			return RStep{Next: n}
		case b == '.' && (c.S == rZero || c.S == rInt):
			n.S = rDot
			return RStep{Next: n}
		case (b == 'e' || b == 'E') && c.S != rExp:
			n.S = rE
			return RStep{Next: n}
		}
		// the number ends here; b is handled in the state after the value
		if c.Top == symNone {
			if isWS(b) {
				n.S = afterValue(c.Top, multi)
				return RStep{Next: n, Events: []string{"NUMBER"}}
			}
			return dead()
		}
		n.S = rAfter
		r := RefStep(n, b, multi)
		if r.Dead {
			return r
		}
		r.Events = append([]string{"NUMBER"}, r.Events...)
		return r
	case rDot:
		if isDigit(b) {
			n := c
			n.S = rFrac
			return RStep{Next: n}
		}
		return dead()
	case rE:
		n := c
		switch {
		case b == '+' || b == '-':
			n.S = rESign
		case isDigit(b):
			n.S = rExp
		default:
			return dead()
		}
		return RStep{Next: n}
	case rESign:
		if isDigit(b) {
			n := c
			n.S = rExp
			return RStep{Next: n}
		}
		return dead()
	case rLit:
		w := litWords[c.Lit]
		if b != w[c.N] {
			return dead()
		}
		n := c
		n.N++
		if int(n.N) == len(w) {
			n.S = afterValue(c.Top, multi)
			n.N = 0
			return RStep{Next: n, Events: []string{litEvents[c.Lit]}}
		}
		return RStep{Next: n}
	}
	return dead()
}

func valueStart(c RCfg, b byte) RStep {
	n := c
	n.IsKey = false
	switch {
	case b == '{':
		n.S = rKey0
		n.Top = symObj
		return RStep{Next: n, Push: symObj, Events: []string{"OBJ_START"}}
	case b == '[':
		n.S = rArr0
		n.Top = symArr
		return RStep{Next: n, Push: symArr, Events: []string{"ARR_START"}}
	case b == '"':
		n.S = rStr
		return RStep{Next: n}
	case b == '-':
		n.S = rNeg
		return RStep{Next: n}
	case b == '0':
		n.S = rZero
		return RStep{Next: n}
	case isDigit(b):
		n.S = rInt
		return RStep{Next: n}
	case b == 't' || b == 'f' || b == 'n':
		n.S = rLit
		n.N = 1
		n.Lit = map[byte]uint8{'t': 0, 'f': 1, 'n': 2}[b]
		return RStep{Next: n}
	}
	return dead()
}

// RefEOF: is the input acceptable if it ends in c, and which events fire.
func RefEOF(c RCfg) (accept bool, events []string) {
	if c.Top != symNone {
		return false, nil
	}
	switch c.S {
	case rStart, rDone:
		return true, nil
	case rZero, rInt, rFrac, rExp:
		return true, []string{"NUMBER"}
	}
	return false, nil
}

// RefValid runs the reference on a whole text (used by the checker's own unit
// test against encoding/json).
func RefValid(text []byte, multi bool) bool {
	c := RCfg{S: rStart}
	var stack []uint8
	for _, b := range text {
		r := RefStep(c, b, multi)
		if r.Dead {
			return false
		}
		if r.Push != 0 {
			stack = append(stack, r.Push)
		}
		if r.Pop {
			if len(stack) == 0 {
				return false
			}
			stack = stack[:len(stack)-1]
			top := uint8(symNone)
			if len(stack) > 0 {
				top = stack[len(stack)-1]
			}
			c = r.AfterPop(top, multi)
		} else {
			c = r.Next
		}
	}
	ok, _ := RefEOF(c)
	return ok && len(stack) == 0
}

var rstateNames = map[rstate]string{rStart: "start", rDone: "done", rArr0: "arr0", rVal: "value", rAfter: "after", rKey0: "key0", rKey: "key",
	rColon: "colon", rStr: "string", rEsc: "escape", rU: "unicode", rNeg: "neg", rZero: "zero", rInt: "int", rDot: "dot", rFrac: "frac",
	rE: "exp-e", rESign: "exp-sign", rExp: "exp", rLit: "literal", rDead: "dead"}

func (c RCfg) String() string {
	s := rstateNames[c.S]
	switch c.S {
	case rStr, rEsc, rU:
		if c.IsKey {
			s += "(key)"
		}
	case rLit:
		s += "(" + litWords[c.Lit][:c.N] + ")"
	}
	if c.S == rU {
		s += string(rune('0' + c.N))
	}
	return s + "/" + []string{"top", "obj", "arr"}[c.Top]
}
