package main

import (
	"fmt"
	"go/ast"
	"go/constant"
	"go/token"
	"go/types"
	"sort"
	"strings"
	"sync"

	"golang.org/x/tools/go/packages"
)

// Machine is the table-driven front-end extracted from one receiver type.
type Machine struct {
	Name         string // e.g. "oj.Parser"
	prog         *Program
	pkg          *packages.Package
	in           *Interp
	recvType     *types.Named
	work         *ast.FuncDecl
	workFn       *types.Func
	recvObj      types.Object
	bufVar       types.Object
	lastVar      types.Object
	offVar       types.Object
	loop         *ast.ForStmt
	prologue     []ast.Stmt
	tail         []ast.Stmt
	modeFld      string
	sw           *ast.SwitchStmt
	carried      map[any]string    // function-level locals kept between bytes
	tables       map[string]string // table value -> constant name
	tableLen     map[string]int
	caseCodes    map[int64]string // action code -> constant name
	roots        map[string]*types.Func
	belowC       map[string][]absStack
	belowKeys    map[string]bool
	newBelow     bool
	tableVals    []string
	seedBytes    []int
	namedResults []types.Object
	posFields    map[string]bool
	bigStrings   []string
	mu           sync.Mutex
	pendingBelow []pushRecTag
	live         map[string]map[string]bool // field -> mode table -> may be read before written (live.go); nil: no normalisation
	liveModes    []string
}

type ConsItem struct {
	Set [256]bool
	Rep byte // '1' exactly one, '*' zero or more, '+' one or more
}

type Outcome struct {
	Kind       string // next | error | halt | panic | exitloop
	Next       *State
	Items      []ConsItem
	Redispatch bool
	Events     []Event
	Pops       []string
	Pushes     []pushRec
	ErrOff     *Val
	ErrPos     string
	Notes      []string
	ReadStale  []string
	EndsBuffer bool
	OffExact   bool
	Why        string
	Thrown     bool
	Assigned   map[string]bool
	Mirrored   bool
	DigitUse   bool
	ReadFirst  map[string]bool // tracked fields read before being written in this arm
	Decisions  []string
	Peek       *[256]bool // the arm looked at the next byte without consuming it: the next dispatched byte is in this set
}

// findWork locates the dispatch loop: a method of T whose body has
//
//	for off = 0; off < len(buf); off++ { b = buf[off]; switch recv.F[b] {...} ... }
func findWork(prog *Program, pk *packages.Package, named *types.Named) (*ast.FuncDecl, *types.Func, *ast.ForStmt, *ast.SwitchStmt, string) {
	info := pk.TypesInfo
	for _, f := range pk.Syntax {
		for _, d := range f.Decls {
			fd, ok := d.(*ast.FuncDecl)
			if !ok || fd.Recv == nil || fd.Body == nil {
				continue
			}
			fn, _ := info.Defs[fd.Name].(*types.Func)
			if fn == nil || recvNamed(fn) != named {
				continue
			}
			for _, s := range fd.Body.List {
				fs, ok := s.(*ast.ForStmt)
				if !ok || fs.Body == nil {
					continue
				}
				for _, bs := range fs.Body.List {
					sw, ok := bs.(*ast.SwitchStmt)
					if !ok || sw.Tag == nil {
						continue
					}
					ix, ok := sw.Tag.(*ast.IndexExpr)
					if !ok {
						continue
					}
					sel, ok := ix.X.(*ast.SelectorExpr)
					if !ok {
						continue
					}
					if b, ok := info.TypeOf(sel).Underlying().(*types.Basic); !ok || b.Info()&types.IsString == 0 {
						continue
					}
					if id, ok := sel.X.(*ast.Ident); !ok || len(fd.Recv.List[0].Names) != 1 || info.Uses[id] != info.Defs[fd.Recv.List[0].Names[0]] {
						continue
					}
					return fd, fn, fs, sw, sel.Sel.Name
				}
			}
		}
	}
	return nil, nil, nil, nil, ""
}

func recvNamed(fn *types.Func) *types.Named {
	sig, ok := fn.Type().(*types.Signature)
	if !ok || sig.Recv() == nil {
		return nil
	}
	t := sig.Recv().Type()
	if p, ok := t.(*types.Pointer); ok {
		t = p.Elem()
	}
	n, _ := t.(*types.Named)
	return n
}

// ExtractMachine builds the machine for type typeName of package rel.
func ExtractMachine(prog *Program, rel, typeName string, rootNames []string) (*Machine, error) {
	pk := prog.Pkg(rel)
	if pk == nil {
		return nil, fmt.Errorf("package %s not loaded", rel)
	}
	obj := pk.Types.Scope().Lookup(typeName)
	if obj == nil {
		return nil, fmt.Errorf("type %s.%s not found", rel, typeName)
	}
	named, ok := obj.Type().(*types.Named)
	if !ok {
		return nil, fmt.Errorf("%s.%s is not a named type", rel, typeName)
	}
	fd, fn, loop, sw, modeFld := findWork(prog, pk, named)
	if fd == nil {
		return nil, fmt.Errorf("%s.%s: no table dispatch loop found", rel, typeName)
	}
	info := pk.TypesInfo
	m := &Machine{Name: rel + "." + typeName, prog: prog, pkg: pk, recvType: named, work: fd, workFn: fn, loop: loop, sw: sw, modeFld: modeFld,
		carried: map[any]string{}, tables: map[string]string{}, tableLen: map[string]int{}, caseCodes: map[int64]string{}, roots: map[string]*types.Func{},
		belowC: map[string][]absStack{}, belowKeys: map[string]bool{}, posFields: map[string]bool{}}
	m.recvObj = info.Defs[fd.Recv.List[0].Names[0]]
	defer func() {
		if m.in != nil && m.recvObj != nil {
			m.in.recvName = m.recvObj.Name()
		}
	}()
	// parameters: the []byte buffer and the bool "last"
	for _, fl := range fd.Type.Params.List {
		for _, n := range fl.Names {
			o := info.Defs[n]
			switch t := o.Type().Underlying().(type) {
			case *types.Slice:
				if b, ok := t.Elem().Underlying().(*types.Basic); ok && b.Kind() == types.Uint8 {
					m.bufVar = o
				}
			case *types.Basic:
				if t.Kind() == types.Bool {
					m.lastVar = o
				}
			}
		}
	}
	if m.bufVar == nil {
		return nil, fmt.Errorf("%s: dispatch function has no []byte parameter", m.Name)
	}
	if fd.Type.Results != nil {
		for _, fl := range fd.Type.Results.List {
			for _, n := range fl.Names {
				m.namedResults = append(m.namedResults, info.Defs[n])
			}
		}
	}
	// loop variable
	if as, ok := loop.Init.(*ast.AssignStmt); ok && len(as.Lhs) == 1 {
		if id, ok := as.Lhs[0].(*ast.Ident); ok {
			m.offVar = info.Uses[id]
			if m.offVar == nil {
				m.offVar = info.Defs[id]
			}
		}
	}
	if m.offVar == nil {
		return nil, fmt.Errorf("%s: cannot identify the cursor variable of the dispatch loop", m.Name)
	}
	// check loop shape: cond off < len(buf), post off++
	if !isOffLoop(info, loop, m.offVar, m.bufVar) {
		return nil, fmt.Errorf("%s: dispatch loop is not `for off = 0; off < len(buf); off++`", m.Name)
	}
	for i, s := range fd.Body.List {
		if s == ast.Stmt(loop) {
			m.prologue = fd.Body.List[:i]
			m.tail = fd.Body.List[i+1:]
		}
	}
	// tables and action codes of the package
	sc := pk.Types.Scope()
	for _, n := range sc.Names() {
		c, ok := sc.Lookup(n).(*types.Const)
		if !ok {
			continue
		}
		switch c.Val().Kind() {
		case constant.String:
			s := constant.StringVal(c.Val())
			if len(s) == 256 || len(s) == 257 {
				if old, ok := m.tables[s]; !ok || n < old {
					m.tables[s] = n
				}
				m.tableLen[n] = len(s)
			}
			if len(s) >= 128 {
				m.bigStrings = append(m.bigStrings, s)
			}
		}
	}
	for _, c := range sw.Body.List {
		cc := c.(*ast.CaseClause)
		for _, e := range cc.List {
			if tv := info.Types[e]; tv.Value != nil && tv.Value.Kind() == constant.Int {
				v, _ := constant.Int64Val(tv.Value)
				name := types.ExprString(e)
				m.caseCodes[v] = name
			}
		}
	}
	in := &Interp{prog: prog, pkg: pk, info: info, recvType: named, tracked: map[string]bool{}, stackFld: map[string]bool{},
		addLike: map[*types.Func]bool{}, bufVar: m.bufVar, offVar: m.offVar, maxDepth: 6,
		methods: map[*types.Func]*ast.FuncDecl{}, recvOf: map[*ast.FuncDecl]types.Object{}}
	m.in = in
	in.dispatchSw = sw
	in.tableID = map[string]int{}
	{
		var names []string
		byName := map[string]string{}
		for val, n := range m.tables {
			names = append(names, n)
			byName[n] = val
		}
		sort.Strings(names)
		var tabs []string
		for i, n := range names {
			in.tableID[byName[n]] = i + 1
			tabs = append(tabs, byName[n])
		}
		sort.Strings(m.bigStrings)
		for _, bs := range m.bigStrings {
			if _, ok := in.tableID[bs]; !ok {
				in.tableID[bs] = len(tabs) + 1
				tabs = append(tabs, bs)
			}
		}
		m.tableVals = tabs
	}
	in.below = func(f string) []absStack {
		out := append([]absStack{{Empty: true}}, m.belowC[f]...)
		return out
	}
	// methods of the receiver type
	for _, f := range pk.Syntax {
		for _, d := range f.Decls {
			d2, ok := d.(*ast.FuncDecl)
			if !ok || d2.Recv == nil || d2.Body == nil {
				continue
			}
			f2, _ := info.Defs[d2.Name].(*types.Func)
			if f2 != nil && recvNamed(f2) == named {
				in.methods[f2] = d2
			}
		}
	}
	delete(in.methods, fn) // the work function itself is never inlined
	// bytes that appear as literals in the code are distinguished from the start
	seedDecls := []*ast.FuncDecl{fd}
	for _, d := range in.methods {
		seedDecls = append(seedDecls, d)
	}
	for _, d := range seedDecls {
		ast.Inspect(d.Body, func(n ast.Node) bool {
			if e, ok := n.(ast.Expr); ok {
				if tv, ok := info.Types[e]; ok && tv.Value != nil {
					switch tv.Value.Kind() {
					case constant.Int:
						isByte := false
						if bt, ok := tv.Type.Underlying().(*types.Basic); ok {
							switch bt.Kind() {
							case types.Uint8, types.Int32, types.UntypedRune:
								isByte = true
							}
						}
						if bl, isLit := e.(*ast.BasicLit); isLit && bl.Kind == token.CHAR {
							isByte = true
						}
						if isByte {
							if v, ok := constant.Int64Val(tv.Value); ok && v >= 0 && v < 256 {
								m.seedBytes = append(m.seedBytes, int(v))
							}
						}
					case constant.String:
						if sv := constant.StringVal(tv.Value); len(sv) < 32 {
							if _, isLit := e.(*ast.BasicLit); isLit {
								for i := 0; i < len(sv); i++ {
									m.seedBytes = append(m.seedBytes, int(sv[i]))
								}
							}
						}
					}
				}
			}
			return true
		})
	}
	m.classifyFields()
	for _, r := range rootNames {
		f := Method(pk, typeName, r)
		if f == nil {
			return nil, fmt.Errorf("%s: public entry %s not found", m.Name, r)
		}
		m.roots[r] = f
	}
	// carried locals: declared in the prologue, not the cursor, not re-assigned first thing in the loop
	firstAssigned := map[types.Object]bool{}
	if len(loop.Body.List) > 0 {
		if as, ok := loop.Body.List[0].(*ast.AssignStmt); ok && as.Tok == token.ASSIGN {
			for _, l := range as.Lhs {
				if id, ok := l.(*ast.Ident); ok {
					firstAssigned[info.Uses[id]] = true
				}
			}
		}
	}
	for _, s := range m.prologue {
		ast.Inspect(s, func(n ast.Node) bool {
			if id, ok := n.(*ast.Ident); ok {
				if o := info.Defs[id]; o != nil && o != m.offVar && !firstAssigned[o] {
					if _, isVar := o.(*types.Var); isVar {
						m.carried[o] = o.Name()
					}
				}
			}
			return true
		})
	}
	return m, nil
}

func isOffLoop(info *types.Info, loop *ast.ForStmt, off, buf types.Object) bool {
	be, ok := loop.Cond.(*ast.BinaryExpr)
	if !ok || be.Op != token.LSS {
		return false
	}
	if id, ok := be.X.(*ast.Ident); !ok || info.Uses[id] != off {
		return false
	}
	call, ok := be.Y.(*ast.CallExpr)
	if !ok || len(call.Args) != 1 {
		return false
	}
	if id, ok := call.Fun.(*ast.Ident); !ok || id.Name != "len" {
		return false
	}
	if id, ok := call.Args[0].(*ast.Ident); !ok || info.Uses[id] != buf {
		return false
	}
	inc, ok := loop.Post.(*ast.IncDecStmt)
	if !ok || inc.Tok != token.INC {
		return false
	}
	if id, ok := inc.X.(*ast.Ident); !ok || info.Uses[id] != off {
		return false
	}
	as, ok := loop.Init.(*ast.AssignStmt)
	if !ok || len(as.Rhs) != 1 || !isZeroLit(as.Rhs[0]) {
		return false
	}
	return true
}

// classifyFields decides which receiver fields are part of the finite control
// state: string and bool fields used in conditions, switch tags, index
// expressions or assigned to such fields; int fields compared with constants
// or used as index of a constant string; small-alphabet slices indexed in
// conditions (container stacks). Everything else is Top.
func (m *Machine) classifyFields() {
	in := m.in
	info := m.pkg.TypesInfo
	st := m.recvType.Underlying().(*types.Struct)
	fieldType := map[string]types.Type{}
	var collect func(s *types.Struct)
	collect = func(s *types.Struct) {
		for i := 0; i < s.NumFields(); i++ {
			f := s.Field(i)
			if f.Embedded() {
				t := f.Type()
				if p, ok := t.(*types.Pointer); ok {
					t = p.Elem()
				}
				if es, ok := t.Underlying().(*types.Struct); ok {
					collect(es)
				}
			}
			if _, dup := fieldType[f.Name()]; !dup {
				fieldType[f.Name()] = f.Type()
			}
		}
	}
	collect(st)
	decls := []*ast.FuncDecl{m.work}
	for _, d := range in.methods {
		decls = append(decls, d)
	}
	recvField := func(e ast.Expr, fd *ast.FuncDecl) string {
		sel, ok := e.(*ast.SelectorExpr)
		if !ok {
			return ""
		}
		id, ok := sel.X.(*ast.Ident)
		if !ok || fd.Recv == nil || len(fd.Recv.List[0].Names) != 1 {
			return ""
		}
		if info.Uses[id] != info.Defs[fd.Recv.List[0].Names[0]] {
			return ""
		}
		return sel.Sel.Name
	}
	relevant := map[string]bool{}
	isConstExpr := func(e ast.Expr) bool { tv, ok := info.Types[e]; return ok && tv.Value != nil }
	var markCond func(e ast.Expr, fd *ast.FuncDecl)
	markCond = func(e ast.Expr, fd *ast.FuncDecl) {
		ast.Inspect(e, func(n ast.Node) bool {
			switch x := n.(type) {
			case *ast.BinaryExpr:
				for _, pair := range [][2]ast.Expr{{x.X, x.Y}, {x.Y, x.X}} {
					if f := recvField(pair[0], fd); f != "" {
						t := fieldType[f]
						if b, ok := t.Underlying().(*types.Basic); ok {
							if b.Info()&types.IsInteger != 0 {
								// ints: only when compared with a constant; single bytes always (finite)
								if isConstExpr(pair[1]) || b.Kind() == types.Uint8 || b.Kind() == types.Int8 {
									relevant[f] = true
								}
							} else {
								relevant[f] = true
							}
						}
					}
				}
			case *ast.IndexExpr:
				if f := recvField(x.Index, fd); f != "" {
					relevant[f] = true
				}
				if f := recvField(x.X, fd); f != "" {
					t := fieldType[f]
					if b, ok := t.Underlying().(*types.Basic); ok && b.Info()&types.IsString != 0 {
						relevant[f] = true
					}
					if sl, ok := t.Underlying().(*types.Slice); ok {
						if b, ok := sl.Elem().Underlying().(*types.Basic); ok && b.Info()&types.IsInteger != 0 {
							in.stackFld[f] = true
						}
					}
				}
			case *ast.SelectorExpr:
				if f := recvField(x, fd); f != "" {
					if b, ok := fieldType[f].Underlying().(*types.Basic); ok && b.Info()&types.IsBoolean != 0 {
						relevant[f] = true
					}
				}
			}
			return true
		})
	}
	for _, fd := range decls {
		ast.Inspect(fd.Body, func(n ast.Node) bool {
			switch x := n.(type) {
			case *ast.IfStmt:
				markCond(x.Cond, fd)
			case *ast.SwitchStmt:
				if x.Tag != nil {
					markCond(x.Tag, fd)
					if f := recvField(x.Tag, fd); f != "" {
						relevant[f] = true
					}
				}
				for _, c := range x.Body.List {
					for _, e := range c.(*ast.CaseClause).List {
						markCond(e, fd)
					}
				}
			case *ast.ForStmt:
				if x.Cond != nil {
					markCond(x.Cond, fd)
				}
			}
			return true
		})
	}
	// closure over assignments f = ... g ...
	for changed := true; changed; {
		changed = false
		for _, fd := range decls {
			ast.Inspect(fd.Body, func(n ast.Node) bool {
				as, ok := n.(*ast.AssignStmt)
				if !ok {
					return true
				}
				for i, l := range as.Lhs {
					f := recvField(l, fd)
					if f == "" || !relevant[f] || i >= len(as.Rhs) {
						continue
					}
					ast.Inspect(as.Rhs[i], func(k ast.Node) bool {
						if e, ok := k.(ast.Expr); ok {
							if g := recvField(e, fd); g != "" && !relevant[g] {
								if _, basic := fieldType[g].Underlying().(*types.Basic); basic {
									relevant[g] = true
									changed = true
								}
							}
						}
						return true
					})
				}
				return true
			})
		}
	}
	for f := range relevant {
		if _, ok := fieldType[f].Underlying().(*types.Basic); ok {
			in.tracked[f] = true
		}
	}
	in.tracked[m.modeFld] = true
	// build stack and add-like method, token handler
	for f, t := range fieldType {
		if n, ok := t.(*types.Named); ok && n.Obj().Name() == "TokenHandler" {
			if _, isI := n.Underlying().(*types.Interface); isI {
				in.handler = t
			}
		}
		_ = f
	}
	for _, fd := range decls {
		ast.Inspect(fd.Body, func(n ast.Node) bool {
			as, ok := n.(*ast.AssignStmt)
			if !ok || len(as.Lhs) != 1 || len(as.Rhs) != 1 {
				return true
			}
			f := recvField(as.Lhs[0], fd)
			if f == "" {
				return true
			}
			call, ok := as.Rhs[0].(*ast.CallExpr)
			if !ok || len(call.Args) != 2 {
				return true
			}
			if id, ok := call.Fun.(*ast.Ident); !ok || id.Name != "append" {
				return true
			}
			if recvField(call.Args[0], fd) != f {
				return true
			}
			if nt, ok := info.TypeOf(call.Args[1]).(*types.Named); ok && nt.Obj().Name() == "Key" && nt.Obj().Pkg() != nil && strings.HasSuffix(nt.Obj().Pkg().Path(), "/gen") {
				in.buildFld = f
			}
			return true
		})
	}
	// scratch buffers: []byte fields that are both truncated (F = F[:0]) and appended to
	in.scratch = map[string]bool{}
	trunc, app := map[string]bool{}, map[string]bool{}
	for _, fd := range decls {
		ast.Inspect(fd.Body, func(n ast.Node) bool {
			as, ok := n.(*ast.AssignStmt)
			if !ok || len(as.Lhs) != 1 || len(as.Rhs) != 1 {
				return true
			}
			f := recvField(as.Lhs[0], fd)
			if f == "" {
				return true
			}
			if sl, ok := fieldType[f].Underlying().(*types.Slice); !ok {
				return true
			} else if b, ok := sl.Elem().Underlying().(*types.Basic); !ok || b.Kind() != types.Uint8 {
				return true
			}
			switch r := as.Rhs[0].(type) {
			case *ast.SliceExpr:
				if recvField(r.X, fd) == f && r.High != nil && isZeroLit(r.High) {
					trunc[f] = true
				}
			case *ast.CallExpr:
				if id, ok := r.Fun.(*ast.Ident); ok && id.Name == "append" && len(r.Args) >= 1 && recvField(r.Args[0], fd) == f {
					app[f] = true
				}
			}
			return true
		})
	}
	for f := range trunc {
		if app[f] && !in.stackFld[f] {
			in.scratch[f] = true
		}
	}
	// position fields: receiver fields read where a ParseError literal is built
	// (also in methods of embedded struct types, whose fields are promoted)
	posDecls := append([]*ast.FuncDecl{}, decls...)
	for i := 0; i < st.NumFields(); i++ {
		if f := st.Field(i); f.Embedded() {
			if en, ok := f.Type().(*types.Named); ok {
				for _, file := range m.pkg.Syntax {
					for _, d := range file.Decls {
						if d2, ok := d.(*ast.FuncDecl); ok && d2.Recv != nil && d2.Body != nil {
							if f2, _ := info.Defs[d2.Name].(*types.Func); f2 != nil && recvNamed(f2) == en {
								posDecls = append(posDecls, d2)
							}
						}
					}
				}
			}
		}
	}
	for _, fd := range posDecls {
		ast.Inspect(fd.Body, func(n ast.Node) bool {
			cl, ok := n.(*ast.CompositeLit)
			if !ok {
				return true
			}
			t := info.TypeOf(cl)
			nt, ok := t.(*types.Named)
			if !ok || nt.Obj().Name() != "ParseError" {
				return true
			}
			ast.Inspect(cl, func(k ast.Node) bool {
				if e, ok := k.(ast.Expr); ok {
					if f := recvField(e, fd); f != "" {
						m.posFields[f] = true
					}
				}
				return true
			})
			return true
		})
	}
	in.posFld = m.posFields
	if in.buildFld != "" {
		for fn, fd := range in.methods {
			if fd.Type.Params == nil || len(fd.Type.Params.List) == 0 || len(fd.Type.Params.List[0].Names) == 0 {
				continue
			}
			p0 := info.Defs[fd.Type.Params.List[0].Names[0]]
			ast.Inspect(fd.Body, func(n ast.Node) bool {
				as, ok := n.(*ast.AssignStmt)
				if !ok || len(as.Lhs) != 1 || len(as.Rhs) != 1 {
					return true
				}
				if recvField(as.Lhs[0], fd) != in.buildFld {
					return true
				}
				call, ok := as.Rhs[0].(*ast.CallExpr)
				if !ok || len(call.Args) != 2 {
					return true
				}
				if id, ok := call.Args[1].(*ast.Ident); ok && info.Uses[id] == p0 {
					in.addLike[fn] = true
				}
				return true
			})
		}
	}
}

// modeName renders a tracked value (table constants by their name).
func (m *Machine) valName(v Val) string {
	if s, ok := v.isStr(); ok {
		if n, ok := m.tables[s]; ok {
			return n
		}
	}
	return v.String()
}

func (m *Machine) StateString(s *State) string {
	var parts []string
	for k, v := range s.fields {
		parts = append(parts, k+"="+m.valName(v))
	}
	for k, v := range s.stacks {
		parts = append(parts, k+"="+v.String())
	}
	for k, v := range s.locals {
		if n, ok := m.carried[k]; ok {
			parts = append(parts, n+"="+v.String())
		}
	}
	sort.Strings(parts)
	return strings.Join(parts, " ")
}

func (m *Machine) Key(s *State) string { return s.ctrlKey(m.carried) }

func (m *Machine) ModeOf(s *State) string { return m.valName(s.fields[m.modeFld]) }

// Starts interprets a public entry up to its first call of the dispatch
// function and returns the machine states at that call.
func (m *Machine) Starts(root string, config map[string]Val) ([]*State, []string, error) {
	fn := m.roots[root]
	fd, _ := m.prog.FuncDecl(fn)
	if fd == nil {
		return nil, nil, fmt.Errorf("%s.%s: no declaration", m.Name, root)
	}
	in := m.in
	info := m.pkg.TypesInfo
	st := newState()
	st.locals[info.Defs[fd.Recv.List[0].Names[0]]] = Val{K: kRecv}
	for f := range in.tracked {
		st.fields[f] = Val{K: kTop, Stale: true}
	}
	for f := range in.stackFld {
		st.stacks[f] = absStack{Unknown: true, Top: Val{K: kTop, Stale: true}}
	}
	for f, v := range config {
		if in.tracked[f] {
			st.fields[f] = v
		}
	}
	st.garbage = map[string]bool{}
	for f := range in.scratch {
		if !in.noScratch {
			st.garbage[f] = true
		}
	}
	// exported tracked fields are configuration, not carried state
	stt := m.recvType.Underlying().(*types.Struct)
	var markExported func(s *types.Struct)
	markExported = func(s *types.Struct) {
		for i := 0; i < s.NumFields(); i++ {
			f := s.Field(i)
			if f.Embedded() {
				if es, ok := f.Type().Underlying().(*types.Struct); ok {
					markExported(es)
				}
			}
			if f.Exported() && in.tracked[f.Name()] {
				if _, ok := config[f.Name()]; !ok {
					st.fields[f.Name()] = Val{K: kTop}
				}
			}
		}
	}
	markExported(stt)
	var starts []*State
	seen := map[string]bool{}
	var notes []string
	collector := &workCollector{m: m}
	collector.onCall = func(s *State, args []Val) {
		for _, v := range s.fields {
			if v.K == kTop && v.S == "carried" {
				return
			}
		}
		c := s.clone()
		c.locals = map[any]Val{}
		c.events = nil
		c.notes = nil
		k := c.ctrlKey(nil)
		if !seen[k] {
			seen[k] = true
			starts = append(starts, c)
		}
	}
	in.hook = collector
	defer func() { in.hook = nil }()
	// parameters are unknown
	for _, e := range in.execList(fd.Body.List, st) {
		if e.ctl == cPanic {
			notes = append(notes, "entry may panic: "+e.why)
		}
	}
	if len(starts) == 0 {
		return nil, notes, fmt.Errorf("%s.%s never reaches the dispatch function", m.Name, root)
	}
	return starts, notes, nil
}

type workCollector struct {
	m      *Machine
	onCall func(s *State, args []Val)
}

// enterWork runs the dispatch function's prologue on a state captured at a
// call site, giving the state at the head of the loop.
func (m *Machine) enterWork(s *State) []*State { return m.enterWorkWith(m.in, s) }

func (m *Machine) enterWorkWith(in *Interp, s *State) []*State {
	n := s.clone()
	n.locals = map[any]Val{}
	n.locals[m.recvObj] = Val{K: kRecv}
	n.locals[m.bufVar] = Val{K: kBuf, A: 0, B: -1}
	if m.lastVar != nil {
		n.locals[m.lastVar] = vTop
	}
	for _, o := range m.namedResults {
		n.locals[o] = zeroVal(o.Type())
	}
	n.cur = -1
	var out []*State
	for _, e := range in.execList(m.prologue, n) {
		if e.ctl != cFall {
			in.undecide(m.work.Pos(), "dispatch function prologue does not fall through")
			continue
		}
		out = append(out, e.st)
	}
	return out
}

// Refill models the end of one buffer and the start of the next: locals are
// re-derived by the prologue, fields are kept.
func (m *Machine) Refill(in *Interp, s *State) []*State { return m.enterWorkWith(in, s) }

// Step runs the loop body on byte b.
func (m *Machine) Step(in *Interp, s0 *State, b int) []Outcome { return m.StepOpt(in, s0, b, false) }

// StepOpt: with oneByte the dispatched byte is the last one of its buffer
// (canonical one-byte chunking: no fast path can look ahead).
func (m *Machine) StepOpt(in *Interp, s0 *State, b int, oneByte bool) []Outcome {
	s := s0.clone()
	s.cur = b
	s.remLo, s.remHi = 0, -1
	if oneByte {
		s.remHi = 0
	}
	s.known = nil
	s.scan = nil
	s.events, s.notes, s.popped, s.pushed, s.readStale = nil, nil, nil, nil, nil
	s.errArg = nil
	s.assigned = nil
	s.readFirst = nil
	s.decisions = nil
	s.mirrored = false
	s.digitUse = false
	s.pendingRestore = 0
	s.locals[m.offVar] = vOff(0, false)
	var outs []Outcome
	for _, e := range in.execList(m.loop.Body.List, s) {
		if o := m.outcome(e, false); o.Kind != "infeasible" {
			outs = append(outs, o)
		}
	}
	return outs
}

// EOF runs the statements after the loop with last == true.
func (m *Machine) EOF(in *Interp, s0 *State) []Outcome {
	s := s0.clone()
	s.cur = -1
	s.events, s.notes, s.popped, s.pushed, s.readStale = nil, nil, nil, nil, nil
	s.errArg = nil
	s.decisions = nil
	s.assigned = nil
	s.readFirst = nil
	s.locals[m.offVar] = Val{K: kLenBuf}
	if m.lastVar != nil {
		s.locals[m.lastVar] = vConstBool(true)
	}
	var outs []Outcome
	for _, e := range in.execList(m.tail, s) {
		o := m.outcome(e, true)
		outs = append(outs, o)
	}
	return outs
}

func (m *Machine) outcome(e Exit, eof bool) Outcome {
	o := Outcome{DigitUse: e.st.digitUse, Mirrored: e.st.mirrored, ReadFirst: e.st.readFirst, Decisions: e.st.decisions, Events: e.st.events, Pops: e.st.popped, Pushes: e.st.pushed, Notes: e.st.notes, ReadStale: e.st.readStale, Assigned: e.st.assigned}
	switch e.ctl {
	case cPanic:
		if strings.HasPrefix(e.why, "explicit panic") {
			// a deliberate panic(...) is this front-end's way of raising an error (recovered by its entry point; rule E-recover)
			o.Kind = "error"
			o.ErrOff = e.st.errArg
			o.ErrPos = e.st.errPos
			o.Thrown = true
			return o
		}
		o.Kind = "panic"
		o.Why = e.why
		return o
	case cReturn:
		if len(e.ret) == 0 && len(m.namedResults) > 0 {
			for _, o := range m.namedResults {
				e.ret = append(e.ret, e.st.locals[o])
			}
		}
		if len(e.ret) >= 1 {
			switch e.ret[len(e.ret)-1].K {
			case kNonNil:
				o.Kind = "error"
				o.ErrOff = e.st.errArg
				o.ErrPos = e.st.errPos
				return o
			case kNil:
				o.Kind = "halt"
				return o
			}
			o.Kind = "undecided"
			o.Why = "return value " + e.ret[len(e.ret)-1].String()
			return o
		}
		o.Kind = "halt"
		return o
	case cBreak:
		o.Kind = "undecided"
		o.Why = "break out of the dispatch loop"
		return o
	}
	if eof {
		o.Kind = "halt"
		return o
	}
	// normal end of the loop body
	o.Kind = "next"
	off := e.st.locals[m.offVar]
	sc := e.st.scan
	any1 := ConsItem{Rep: '1'}
	for i := range any1.Set {
		any1.Set[i] = true
	}
	item := func(p int) ConsItem {
		if kb, ok := e.st.known[p]; ok {
			var it ConsItem
			it.Rep = '1'
			it.Set[kb] = true
			return it
		}
		return any1
	}
	switch {
	case off.K == kOff && !off.Flag:
		if off.A < 0 {
			if off.A == -1 {
				o.Redispatch = true
			} else {
				o.Kind = "undecided"
				o.Why = "cursor moved backwards by more than one"
			}
		}
		for p := 1; p <= off.A; p++ {
			if e.st.remHi != -1 && p > e.st.remHi {
				// the cursor was moved past the end of the buffer
				o.EndsBuffer = true
				o.OffExact = false
				break
			}
			it := item(p)
			if sc != nil && sc.Outcome == 'B' && !sc.Kpos && p == sc.Base {
				it = ConsItem{Rep: '1'}
				it.Set[sc.Break] = true
			}
			o.Items = append(o.Items, it)
		}
		if sc != nil && (sc.Outcome == 'E') {
			o.EndsBuffer = true
			o.OffExact = off.A == sc.Base-1
		} else if e.st.remHi != -1 && off.A == e.st.remHi {
			o.EndsBuffer = true
			o.OffExact = true
		}
		if sc != nil && sc.Outcome == 'X' {
			// i == K-1 was not added to the cursor: the scan result was ignored
			o.Kind = "undecided"
			o.Why = "scan exhausted but the cursor does not depend on the scan length"
		}
		if sc != nil && sc.Outcome == 'B' && sc.Kpos {
			o.Kind = "undecided"
			o.Why = "scan passed bytes but the cursor does not depend on the scan length"
		}
	case off.K == kOff && off.Flag && sc != nil:
		for p := 1; p < sc.Base; p++ {
			o.Items = append(o.Items, item(p))
		}
		r := off.A - (sc.Base - 1) // positions consumed after the last passing byte
		pass := ConsItem{Set: sc.Pass}
		extra := func(n int) {
			for j := 0; j < n; j++ {
				switch {
				case j == 0 && sc.Outcome == 'B':
					it := ConsItem{Rep: '1'}
					it.Set[sc.Break] = true
					o.Items = append(o.Items, it)
				case sc.Outcome == 'X':
					// nothing follows an exhausted scan: the cursor is past the buffer
					o.EndsBuffer = true
					o.OffExact = false
					return
				default:
					o.Items = append(o.Items, any1)
				}
			}
		}
		switch {
		case !sc.Kpos:
			// K == 0: cursor = off0 + A; with Base == 0 the dispatched byte itself broke the scan
			if off.A < 0 {
				if off.A == -1 {
					o.Redispatch = true
				} else {
					o.Kind = "undecided"
					o.Why = "cursor before the dispatched byte"
				}
			}
			if sc.Base == 0 {
				for p := 1; p <= off.A; p++ {
					o.Items = append(o.Items, item(p))
				}
			} else {
				if off.A < sc.Base-1 && off.A >= 0 {
					o.Kind = "undecided"
					o.Why = "cursor before scan base"
				}
				extra(r)
			}
		case r >= 0:
			if sc.Base == 0 {
				pass.Rep = '*' // K-1 >= 0 passing bytes after the dispatched one
			} else {
				pass.Rep = '+'
			}
			o.Items = append(o.Items, pass)
			extra(r)
		case r == -1 && sc.Base >= 1:
			pass.Rep = '*'
			o.Items = append(o.Items, pass)
		default:
			o.Kind = "undecided"
			o.Why = "cursor falls behind the scanned bytes"
		}
		if sc.Outcome == 'X' && o.Kind == "next" && !o.EndsBuffer {
			o.EndsBuffer = r >= 0
			o.OffExact = r == 0
		}
	case off.K == kTop && sc != nil && sc.Outcome == 'E':
		// stale index added on an empty range: the buffer ends here anyway
		o.EndsBuffer = true
		o.OffExact = false
	default:
		o.Kind = "undecided"
		o.Why = "cursor value " + off.String() + " at the end of the arm"
	}
	// a byte the arm looked at but left for the next dispatch
	if o.Kind == "next" && off.K == kOff && !o.Redispatch {
		peekByte := -1
		switch {
		case !off.Flag && sc == nil:
			if kb, ok := e.st.known[off.A+1]; ok && off.A >= 0 {
				peekByte = kb
			}
		case sc != nil && sc.Outcome == 'B':
			if sc.Kpos && off.Flag && off.A-(sc.Base-1) == 0 {
				peekByte = sc.Break
			}
			if !sc.Kpos && sc.Base >= 1 && off.A == sc.Base-1 {
				peekByte = sc.Break
			}
		}
		if peekByte >= 0 {
			var set [256]bool
			for _, mb := range m.in.cls.members(peekByte) {
				set[mb] = true
			}
			o.Peek = &set
		}
	}
	// the buffer is known to end after remHi more bytes: repeated look-ahead
	// items beyond it are empty (one-byte chunking, guarded fast paths)
	if o.Kind == "next" && e.st.remHi >= 0 {
		allowed := e.st.remHi
		var kept []ConsItem
		for _, it := range o.Items {
			switch it.Rep {
			case '1':
				if allowed > 0 {
					allowed--
				}
				kept = append(kept, it)
			case '*':
				if allowed > 0 {
					kept = append(kept, it)
				}
			case '+':
				if allowed == 0 {
					o.Kind = "infeasible"
				}
				kept = append(kept, it)
			}
		}
		o.Items = kept
	}
	// normalise the state kept for the next byte
	n := e.st
	keep := map[any]Val{}
	for k, v := range n.locals {
		if _, ok := m.carried[k]; ok {
			if v.K == kScanIdx {
				v = Val{K: kTop, NonNeg: true}
			}
			if v.K != kConst && v.K != kLen && v.K != kTop {
				v = vTop
			}
			if v.K == kTop {
				v.S = ""
			}
			keep[k] = v
		}
	}
	keep[m.recvObj] = Val{K: kRecv}
	for _, o := range m.namedResults {
		keep[o] = zeroVal(o.Type())
	}
	keep[m.bufVar] = Val{K: kBuf, A: 0, B: -1}
	if m.lastVar != nil {
		keep[m.lastVar] = vTop
	}
	n.locals = keep
	n.cur = -1
	n.known = nil
	n.scan = nil
	n.events, n.notes, n.popped, n.pushed, n.readStale = nil, nil, nil, nil, nil
	n.errArg = nil
	n.assigned = nil
	n.readFirst = nil
	n.decisions = nil
	n.mirrored = false
	n.digitUse = false
	n.pendingRestore = 0
	m.normaliseDead(n)
	o.Next = n
	return o
}

// noteBelow registers a (value, tag) pair that was pushed on a container
// stack; candidates for what a pop uncovers.
func (m *Machine) noteBelow(f string, a absStack) {
	k := f + "|" + a.String() + fmt.Sprintf("#%d", a.Tag)
	m.mu.Lock()
	defer m.mu.Unlock()
	if !m.belowKeys[k] {
		m.belowKeys[k] = true
		m.pendingBelow = append(m.pendingBelow, pushRecTag{f, a})
		m.newBelow = true
	}
}

// applyBelow publishes the candidates found during the last round.
func (m *Machine) applyBelow() {
	m.mu.Lock()
	defer m.mu.Unlock()
	sort.Slice(m.pendingBelow, func(i, j int) bool {
		return m.pendingBelow[i].F+m.pendingBelow[i].A.String() < m.pendingBelow[j].F+m.pendingBelow[j].A.String()
	})
	for _, p := range m.pendingBelow {
		m.belowC[p.F] = append(m.belowC[p.F], p.A)
	}
	m.pendingBelow = nil
}

type pushRecTag struct {
	F string
	A absStack
}

// prepareNilTested collects the untracked nilable receiver fields that the
// dispatch function, or a receiver method it calls, compares with nil.
func (m *Machine) prepareNilTested() {
	in := m.in
	in.nilTested = map[string]bool{}
	seen := map[*ast.FuncDecl]bool{}
	var visit func(fd *ast.FuncDecl)
	visit = func(fd *ast.FuncDecl) {
		if fd == nil || fd.Body == nil || seen[fd] {
			return
		}
		seen[fd] = true
		var recv types.Object
		if fd.Recv != nil && len(fd.Recv.List) == 1 && len(fd.Recv.List[0].Names) == 1 {
			recv = in.info.Defs[fd.Recv.List[0].Names[0]]
		}
		ast.Inspect(fd.Body, func(n ast.Node) bool {
			switch x := n.(type) {
			case *ast.CallExpr:
				if sel, ok := x.Fun.(*ast.SelectorExpr); ok {
					if s := in.info.Selections[sel]; s != nil {
						if f, ok := s.Obj().(*types.Func); ok {
							visit(in.methods[f])
						}
					}
				}
			case *ast.BinaryExpr:
				if x.Op != token.EQL && x.Op != token.NEQ {
					return true
				}
				for _, pair := range [][2]ast.Expr{{x.X, x.Y}, {x.Y, x.X}} {
					tv, ok := in.info.Types[pair[1]]
					if !ok || !tv.IsNil() {
						continue
					}
					sel, ok := ast.Unparen(pair[0]).(*ast.SelectorExpr)
					if !ok {
						continue
					}
					id, ok := sel.X.(*ast.Ident)
					if !ok || recv == nil || in.info.Uses[id] != recv {
						continue
					}
					f := sel.Sel.Name
					if in.tracked[f] || in.stackFld[f] || f == in.buildFld || !isNilable(in.info.TypeOf(sel)) {
						continue
					}
					in.nilTested[f] = true
				}
			}
			return true
		})
	}
	visit(m.work)
	// only fields that deliver output (called with, or sent, a value) matter: the answer decides
	// which hand-off events a path produces
	out := map[string]bool{}
	for fd := range seen {
		var recv types.Object
		if fd.Recv != nil && len(fd.Recv.List) == 1 && len(fd.Recv.List[0].Names) == 1 {
			recv = in.info.Defs[fd.Recv.List[0].Names[0]]
		}
		isRecvField := func(e ast.Expr) (string, bool) {
			sel, ok := ast.Unparen(e).(*ast.SelectorExpr)
			if !ok {
				return "", false
			}
			id, ok := sel.X.(*ast.Ident)
			if !ok || recv == nil || in.info.Uses[id] != recv {
				return "", false
			}
			return sel.Sel.Name, true
		}
		ast.Inspect(fd.Body, func(n ast.Node) bool {
			switch x := n.(type) {
			case *ast.CallExpr:
				if f, ok := isRecvField(x.Fun); ok {
					out[f] = true
				}
			case *ast.SendStmt:
				if f, ok := isRecvField(x.Chan); ok {
					out[f] = true
				}
			}
			return true
		})
	}
	for f := range in.nilTested {
		if !out[f] {
			delete(in.nilTested, f)
		}
	}
}
