package main

import (
	"fmt"
	"go/ast"
	"go/constant"
	"go/token"
	"go/types"
	"sort"
	"strings"

	"golang.org/x/tools/go/packages"
)

func init() { rules["C14"] = ruleC14 }

func ruleC14(prog *Program, rep *Report) {
	ruleOpArity(prog, rep)                                                           // what the parser compiles from a printed script has the operands the printer wrote
	ruleDigitBuf(prog, rep, 1, "jp", "", "oj", "sen", "gen", "alt", "pretty", "asm") // an index fragment of any size prints
	ruleCallOrder(prog, rep, 1, "jp")                                                // the three parsers of script text apply the precedence correction and the group reduction in one order
	rep.Explain("C14 decides structural clauses of the text round trip of paths and scripts: (1) every escape jp.AppendString can emit for a quoted key or string constant is accepted by the path parser's escape reader and decodes to the byte that was written; raw bytes never include the delimiter or a backslash; (2) the dot-form decision of Child.Append and the parser's dot-token reader consult the same table constant with the same class test, and the first-byte special cases of the parser are bytes the writer never emits bare; (3) no dereference of one operand under the nil guard of its sibling (the copy-paste that broke right-operand parentheses); (4) the operator table is a bijection on spellings (shared with C12). Not covered: precedence/associativity equivalence of print and re-parse, evaluation equality.")
	ruleJPStringWriter(prog, rep)
	ruleJPToken(prog, rep)
	ruleSiblingGuard(prog, rep, []string{"jp"})
	ruleElideGuard(prog, rep)
	rulePrecAgree(prog, rep)
	ruleHexFn(prog, rep)
	ruleFirstByte(prog, rep)
	ruleAccumulatorReset(prog, rep, 1, "jp")
	ruleRecursionPassesNil(prog, rep, "jp")
	ruleClassEndpoints(prog, rep, "jp") // digit, hex and letter tests of the path and script parser
	ruleLoopExit(prog, rep, 100, "jp")  // the printers and the parser loop over fragments and ints
	ruleFloatBits(prog, rep, "jp")      // a float64 constant printed with 32 bits re-parses as another number
}

// escape reader of the jp parser: the function that has a switch on a byte
// with a case for 'u' and a case for 'n' whose body appends '\n'.
func jpEscapeReader(pk *packages.Package) (map[int]int, map[int]bool, *ast.FuncDecl) {
	info := pk.TypesInfo
	for _, f := range pk.Syntax {
		for _, d := range f.Decls {
			fd, ok := d.(*ast.FuncDecl)
			if !ok || fd.Body == nil {
				continue
			}
			var best *ast.SwitchStmt
			ast.Inspect(fd.Body, func(n ast.Node) bool {
				sw, ok := n.(*ast.SwitchStmt)
				if !ok || sw.Tag == nil {
					return true
				}
				hasU, hasN := false, false
				for _, cl := range sw.Body.List {
					for _, e := range cl.(*ast.CaseClause).List {
						if tv := info.Types[e].Value; tv != nil && tv.Kind() == constant.Int {
							v, _ := constant.Int64Val(tv)
							if v == 'u' {
								hasU = true
							}
							if v == 'n' {
								hasN = true
							}
						}
					}
				}
				if hasU && hasN {
					best = sw
				}
				return true
			})
			if best == nil {
				continue
			}
			decode := map[int]int{}
			special := map[int]bool{}
			for _, cl := range best.Body.List {
				cc := cl.(*ast.CaseClause)
				for _, e := range cc.List {
					tv := info.Types[e].Value
					if tv == nil || tv.Kind() != constant.Int {
						continue
					}
					letter, _ := constant.Int64Val(tv)
					// body: buf = append(buf, K)
					if len(cc.Body) == 1 {
						if as, ok := cc.Body[0].(*ast.AssignStmt); ok && len(as.Rhs) == 1 {
							if call, ok := as.Rhs[0].(*ast.CallExpr); ok && len(call.Args) == 2 {
								if kv := info.Types[call.Args[1]].Value; kv != nil && kv.Kind() == constant.Int {
									k, _ := constant.Int64Val(kv)
									decode[int(letter)] = int(k)
									continue
								}
							}
						}
					}
					special[int(letter)] = true // x, u, U: numeric escapes
				}
			}
			return decode, special, fd
		}
	}
	return nil, nil, nil
}

func ruleJPStringWriter(prog *Program, rep *Report) {
	rep.Rules = append(rep.Rules, "G-jp: for each byte and each quote delimiter (' and \"), jp.AppendString (loop body interpreted with the byte concrete) either leaves the byte raw - never the delimiter, a backslash or a control character - or writes \\u00XY denoting the byte, or \\L where the path parser's escape reader has a case for L that appends exactly that byte")
	pk := prog.Pkg("jp")
	if pk == nil {
		rep.Errorf("package jp missing")
		return
	}
	w, err := findStrWriter(prog, "jp", "AppendString")
	if err != nil {
		rep.Errorf("%v", err)
		return
	}
	if !tableVarImmutable(prog, w) {
		rep.Errorf("jp.AppendString: escape table is assigned somewhere")
		return
	}
	decode, special, rfd := jpEscapeReader(pk)
	if rfd == nil || len(decode) < 5 || !special['u'] {
		rep.Errorf("jp: escape reader of the path parser not found")
		return
	}
	cells := 0
	for _, delim := range []int{'\'', '"'} {
		for b := 0; b < 256; b++ {
			outs, und := w.perByte(b, map[string]Val{"delim": vConstInt(int64(delim))})
			for _, u := range und {
				rep.Errorf("jp.AppendString undecided: %s", u)
			}
			if len(outs) == 0 {
				rep.Errorf("jp.AppendString: no outcome for byte %s", byteName(b))
				continue
			}
			cells++
			key := fmt.Sprintf("jp.AppendString:%s:delim=%c", byteName(b), delim)
			bad := ""
			for _, o := range outs {
				switch {
				case o.Unknown:
					bad = "emits bytes that are not constants"
				case o.Raw && len(o.Emit) > 0:
					bad = "is escaped and also left in the raw segment"
				case o.Raw:
					if b == delim || b == '\\' || b < 0x20 {
						bad = "is written raw inside the quotes (it ends the string, starts an escape or is a control character)"
					}
				case len(o.Emit) == 0:
					bad = "is dropped"
				default:
					kind, den, letter := classifyEscape(o.Emit)
					switch kind {
					case "u00":
						if den != b {
							bad = fmt.Sprintf("is written as \\u%04x which denotes a different character", den)
						}
					case "letter":
						if dv, ok := decode[letter]; !ok {
							bad = fmt.Sprintf("is written as \\%c which the path parser's escape reader rejects", letter)
						} else if dv != b {
							bad = fmt.Sprintf("is written as \\%c which the path parser decodes to 0x%02x", letter, dv)
						}
					case "uXXXX":
						if b < 0x80 {
							bad = fmt.Sprintf("is written as \\u%04x", den)
						}
					default:
						bad = fmt.Sprintf("is written as %q", intsToString(o.Emit))
					}
				}
				if bad != "" {
					break
				}
			}
			if bad != "" {
				rep.Violate(Finding{Rule: "G-jp", Key: key, Pos: prog.Pos(w.fd.Pos()), Msg: "byte " + byteName(b) + " " + bad})
			} else {
				rep.Discharge("G-jp", key, prog.Pos(w.fd.Pos()), "raw or an escape the parser decodes to the same byte")
			}
		}
	}
	rep.Eval(cells)
}

// tableTests: (table constant, comparison constant) pairs used in a function.
type tableTest struct {
	table string
	obj   types.Object
	op    token.Token
	k     int64
	pos   token.Pos
}

func tableTestsIn(info *types.Info, fd *ast.FuncDecl) []tableTest {
	var out []tableTest
	ast.Inspect(fd.Body, func(n ast.Node) bool {
		be, ok := n.(*ast.BinaryExpr)
		if !ok || (be.Op != token.EQL && be.Op != token.NEQ) {
			return true
		}
		ix, ok := be.X.(*ast.IndexExpr)
		if !ok {
			return true
		}
		tv, kv := info.Types[ix.X].Value, info.Types[be.Y].Value
		if tv == nil || kv == nil || tv.Kind() != constant.String || kv.Kind() != constant.Int || len(constant.StringVal(tv)) < 256 {
			return true
		}
		k, _ := constant.Int64Val(kv)
		out = append(out, tableTest{table: constant.StringVal(tv), obj: useObj(info, ix.X), op: be.Op, k: k, pos: be.Pos()})
		return true
	})
	return out
}

func ruleJPToken(prog *Program, rep *Report) {
	rep.Rules = append(rep.Rules, "G-jp-token: the method Child.Append calls to choose the dot form and every parser function that builds a Child from unquoted text index the same table constant and compare with the same class code; the bytes the dot-token reader treats specially as first byte (its case constants) are bytes the writer's table rejects")
	pk := prog.Pkg("jp")
	if pk == nil {
		return
	}
	info := pk.TypesInfo
	appendFn := Method(pk, "Child", "Append")
	afd, _ := prog.FuncDecl(appendFn)
	if afd == nil {
		rep.Errorf("jp.Child.Append not found")
		return
	}
	// the predicate method called in Append's condition
	var predFd *ast.FuncDecl
	ast.Inspect(afd.Body, func(n ast.Node) bool {
		call, ok := n.(*ast.CallExpr)
		if !ok {
			return true
		}
		if sel, ok := call.Fun.(*ast.SelectorExpr); ok {
			if s := info.Selections[sel]; s != nil {
				if f, ok := s.Obj().(*types.Func); ok && f.Pkg() == pk.Types && recvNamed(f) != nil && recvNamed(f).Obj().Name() == "Child" {
					if fd, _ := prog.FuncDecl(f); fd != nil && len(tableTestsIn(info, fd)) > 0 {
						predFd = fd
					}
				}
			}
		}
		return true
	})
	if predFd == nil {
		rep.Errorf("jp.Child.Append: token predicate with a table test not found")
		return
	}
	wt := tableTestsIn(info, predFd)[0]
	// parser functions that return Child(<[]byte>) built from unquoted text
	readers := 0
	for _, f := range pk.Syntax {
		for _, d := range f.Decls {
			fd, ok := d.(*ast.FuncDecl)
			if !ok || fd.Body == nil || fd == predFd {
				continue
			}
			buildsChild := false
			ast.Inspect(fd.Body, func(n ast.Node) bool {
				if ret, ok := n.(*ast.ReturnStmt); ok && len(ret.Results) == 1 {
					if call, ok := ret.Results[0].(*ast.CallExpr); ok && len(call.Args) == 1 {
						if tv, ok := info.Types[call.Fun]; ok && tv.IsType() {
							if nt, ok := tv.Type.(*types.Named); ok && nt.Obj().Name() == "Child" {
								if _, isSlice := info.TypeOf(call.Args[0]).Underlying().(*types.Slice); isSlice {
									buildsChild = true
								}
							}
						}
					}
				}
				return true
			})
			if !buildsChild {
				continue
			}
			tests := tableTestsIn(info, fd)
			if len(tests) == 0 {
				continue
			}
			readers++
			key := "jp." + funcKey(fd) + ":token-table"
			ok = true
			for _, t := range tests {
				if t.obj != wt.obj || t.k != wt.k {
					ok = false
					rep.Violate(Finding{Rule: "G-jp-token", Key: key, Pos: prog.Pos(t.pos), Msg: "the dot-token reader tests a different table or class code than Child.Append's predicate: keys the writer prints in dot form are not the keys the parser reads back"})
					break
				}
			}
			// first-byte special cases
			ast.Inspect(fd.Body, func(n ast.Node) bool {
				sw, isSw := n.(*ast.SwitchStmt)
				if !isSw || sw.Tag == nil {
					return true
				}
				for _, cl := range sw.Body.List {
					for _, e := range cl.(*ast.CaseClause).List {
						if tv := info.Types[e].Value; tv != nil && tv.Kind() == constant.Int {
							c, _ := constant.Int64Val(tv)
							if c >= 0 && c < 256 && int64(wt.table[c]) != wt.k {
								ok = false
								rep.Violate(Finding{Rule: "G-jp-token", Key: key + fmt.Sprintf(":first:%c", c), Pos: prog.Pos(e.Pos()), Msg: fmt.Sprintf("the dot-token reader treats first byte %q specially but Child.Append would print a key starting with it in dot form", rune(c))})
							}
						}
					}
				}
				return true
			})
			if ok {
				rep.Discharge("G-jp-token", key, prog.Pos(fd.Pos()), "same table constant and class code as the writer's predicate")
			}
		}
	}
	if readers < 2 {
		rep.Errorf("G-jp-token found %d dot-token readers (floor 2)", readers)
	}
}

// ruleSiblingGuard: inside `if X.a != nil { ... }` (no else) a dereference of
// the sibling pointer field X.b (same struct, same type) that is not itself
// guarded is a copy-paste slip: wrong operand and a possible nil dereference.
func ruleSiblingGuard(prog *Program, rep *Report, rels []string) {
	rep.Rules = append(rep.Rules, "P-sibling-guard: in the body of `if X.a != nil {...}` no selector is applied to the sibling pointer field X.b (same struct, same pointer type) unless X.b is itself nil-guarded by an enclosing condition (the operand substituted inconsistently by copy-paste)")
	checked := 0
	for _, rel := range rels {
		pk := prog.Pkg(rel)
		if pk == nil {
			continue
		}
		info := pk.TypesInfo
		for _, f := range pk.Syntax {
			for _, d := range f.Decls {
				fd, ok := d.(*ast.FuncDecl)
				if !ok || fd.Body == nil {
					continue
				}
				var walk func(n ast.Node, guarded map[string]bool)
				walk = func(n ast.Node, guarded map[string]bool) {
					ast.Inspect(n, func(c ast.Node) bool {
						is, ok := c.(*ast.IfStmt)
						if !ok || c == n {
							return true
						}
						g := map[string]bool{}
						for k := range guarded {
							g[k] = true
						}
						var newGuards []ast.Expr
						collectNilGuards(is.Cond, &newGuards)
						for _, e := range newGuards {
							g[types.ExprString(e)] = true
						}
						// check derefs in the body against the new guards
						for _, ge := range newGuards {
							sel, ok := ge.(*ast.SelectorExpr)
							if !ok {
								continue
							}
							pt, ok := info.TypeOf(sel).(*types.Pointer)
							if !ok {
								continue
							}
							bt := info.TypeOf(sel.X)
							if p, ok := bt.(*types.Pointer); ok {
								bt = p.Elem()
							}
							st, ok := bt.Underlying().(*types.Struct)
							if !ok {
								continue
							}
							// sibling fields of the same pointer type
							var sibs []string
							for i := 0; i < st.NumFields(); i++ {
								fl := st.Field(i)
								if fl.Name() != sel.Sel.Name && types.Identical(fl.Type(), pt) {
									sibs = append(sibs, types.ExprString(sel.X)+"."+fl.Name())
								}
							}
							if len(sibs) == 0 || is.Else != nil {
								continue
							}
							checked++
							ast.Inspect(is.Body, func(k ast.Node) bool {
								s2, ok := k.(*ast.SelectorExpr)
								if !ok {
									return true
								}
								base := types.ExprString(s2.X)
								for _, sb := range sibs {
									if base == sb && !g[sb] {
										rep.Violate(Finding{Rule: "P-sibling-guard", Key: fmt.Sprintf("%s.%s:%s-under-%s", rel, funcKey(fd), sb, types.ExprString(ge)), Pos: prog.Pos(s2.Pos()),
											Msg: fmt.Sprintf("%s is dereferenced in a block guarded only by %s != nil: the operand was substituted inconsistently (or may be nil)", sb, types.ExprString(ge))})
									}
								}
								return true
							})
						}
						walk(is.Body, g)
						if is.Else != nil {
							walk(is.Else, guarded)
						}
						return false
					})
				}
				walk(fd.Body, map[string]bool{})
			}
		}
	}
	rep.Eval(checked)
	if checked < 3 {
		rep.Errorf("P-sibling-guard examined %d guarded blocks (floor 3)", checked)
	}
}

func collectNilGuards(cond ast.Expr, out *[]ast.Expr) {
	switch x := ast.Unparen(cond).(type) {
	case *ast.BinaryExpr:
		if x.Op == token.LAND {
			collectNilGuards(x.X, out)
			collectNilGuards(x.Y, out)
			return
		}
		if x.Op == token.NEQ {
			if id, ok := x.Y.(*ast.Ident); ok && id.Name == "nil" {
				*out = append(*out, x.X)
			}
		}
	}
}

var _ = sort.Strings
var _ = strings.TrimSpace
