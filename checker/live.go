package main

import (
	"fmt"
	"go/constant"
	"os"
	"runtime"
	"sort"
	"strings"
	"sync"
)

func setKey(m map[string]bool) string {
	var ks []string
	for k := range m {
		ks = append(ks, k)
	}
	sort.Strings(ks)
	return strings.Join(ks, ",")
}

// Dead-field normalisation. A tracked scalar field that no arm reads before
// writing it, on any path from the current mode, cannot influence what the
// machine does next; keeping its last value only multiplies product states
// (the quote character after the string was closed, the \u digit counter
// after the escape ended). Liveness is computed per (field, mode table) from
// a generic sampling of the arms: every mode x byte class is interpreted once
// from a state in which every other tracked field, the container stack and
// the carried locals are unknown (so every branch is taken), recording the
// fields read before written, the fields written and the next mode. The
// backward fixpoint over that mode graph over-approximates liveness: a field
// is only declared dead in a mode when no sampled path from any mode
// reachable without writing it reads it.

type liveEdge struct {
	from, to string // table constants; to == "" means unknown (all modes)
	reads    map[string]bool
	writes   map[string]bool
	terminal bool
}

// computeLiveness fills m.live; on any doubt a mode keeps every field live.
func (m *Machine) computeLiveness(template *State) {
	in := m.in
	var fields []string
	for f := range in.tracked {
		if f != m.modeFld {
			fields = append(fields, f)
		}
	}
	sort.Strings(fields)
	if len(fields) == 0 || len(m.tableVals) == 0 {
		return
	}
	oldBelow := in.below
	in.below = func(f string) []absStack {
		return []absStack{{Empty: true}, {Unknown: true, Top: Val{K: kTop}}}
	}
	oldReads := in.trackReads
	in.trackReads = true
	undecLen := len(in.undecided)
	defer func() { in.below = oldBelow; in.trackReads = oldReads; in.undecided = in.undecided[:undecLen] }()
	allLive := map[string]bool{}
	var edges []liveEdge
	modes := map[string]bool{}
	for t := range m.tables {
		modes[t] = true
	}
	var modeList []string
	for t := range modes {
		modeList = append(modeList, t)
	}
	sort.Strings(modeList)
	in.cls.muteIdentity = true
	defer func() { in.cls.muteIdentity = false }()
	type modeRes struct {
		edges   []liveEdge
		allLive bool
	}
	results := make([]modeRes, len(modeList))
	var wg sync.WaitGroup
	sem := make(chan struct{}, runtime.NumCPU())
	for mi, t := range modeList {
		wg.Add(1)
		go func(mi int, t string) {
			defer wg.Done()
			sem <- struct{}{}
			defer func() { <-sem }()
			defer func() {
				if r := recover(); r != nil {
					results[mi].allLive = true
				}
			}()
			win := in.workerCopy()
			base := template.clone()
			for f := range in.tracked {
				if f == m.modeFld {
					continue
				}
				if v, ok := base.fields[f]; ok && v.K == kConst && isConfigField(f) {
					continue
				}
				base.fields[f] = Val{K: kTop}
			}
			base.fields[m.modeFld] = Val{K: kConst, C: constant.MakeString(t), T: in.tableID[t]}
			for f := range base.stacks {
				base.stacks[f] = absStack{Unknown: true, Top: Val{K: kTop}}
			}
			for k := range base.locals {
				if _, ok := m.carried[k]; ok {
					v := base.locals[k]
					if v.K != kLen {
						base.locals[k] = Val{K: kTop}
					}
				}
			}
			base.bs = 0
			base.garbage = nil
			res := &results[mi]
			seen := map[string]bool{}
			record := func(o Outcome) {
				e := liveEdge{from: t, reads: o.ReadFirst, writes: o.Assigned}
				switch o.Kind {
				case "next":
					if nm, ok := o.Next.fields[m.modeFld]; ok && nm.K == kConst && nm.C.Kind() == constant.String {
						e.to = constant.StringVal(nm.C)
					}
				case "error", "halt", "panic", "no-progress":
					e.terminal = true
				default:
					res.allLive = true
					return
				}
				k := fmt.Sprintf("%s|%v|%v|%v", e.to, e.terminal, setKey(e.reads), setKey(e.writes))
				if !seen[k] {
					seen[k] = true
					res.edges = append(res.edges, e)
				}
			}
			for _, b := range in.cls.reps() {
				for _, o := range m.Step(win, base, b) {
					record(o)
				}
			}
			for _, o := range m.EOF(win, base) {
				record(o)
			}
			if len(win.undecided) > 0 {
				res.allLive = true // something in this mode's arms was not understood from the generic state
			}
		}(mi, t)
	}
	wg.Wait()
	for mi, t := range modeList {
		edges = append(edges, results[mi].edges...)
		if results[mi].allLive {
			allLive[t] = true
		}
	}
	live := map[string]map[string]bool{}
	for _, f := range fields {
		live[f] = map[string]bool{}
		for t := range allLive {
			live[f][t] = true
		}
		for _, e := range edges {
			if e.reads[f] {
				live[f][e.from] = true
			}
		}
		for changed := true; changed; {
			changed = false
			for _, e := range edges {
				if live[f][e.from] || e.terminal || e.writes[f] {
					continue
				}
				l := false
				if e.to == "" {
					for _, t := range modeList {
						if live[f][t] {
							l = true
						}
					}
				} else {
					l = live[f][e.to]
				}
				if l {
					live[f][e.from] = true
					changed = true
				}
			}
		}
	}
	m.live = live
	m.liveModes = modeList
	if os.Getenv("OJGCHECK_TRACE") != "" {
		for _, f := range fields {
			var ls []string
			for _, t := range modeList {
				if live[f][t] {
					ls = append(ls, m.tables[t])
				}
			}
			fmt.Printf("  live %s: %v (allLive=%d edges=%d)\n", f, ls, len(allLive), len(edges))
		}
	}
}

// isConfigField: option fields set before parsing (never written by an arm)
// keep their value in the sampling state so that the sampled paths are those
// of the explored configuration.
func isConfigField(f string) bool { return f == "OnlyOne" }

// normaliseDead replaces the value of every dead field by a canonical unknown.
func (m *Machine) normaliseDead(s *State) {
	if m.live == nil {
		return
	}
	mv, ok := s.fields[m.modeFld]
	if !ok || mv.K != kConst || mv.C.Kind() != constant.String {
		return
	}
	t := constant.StringVal(mv.C)
	for f, lm := range m.live {
		if !lm[t] {
			if _, has := s.fields[f]; has {
				s.fields[f] = Val{K: kTop, S: "dead"}
			}
		}
	}
}
