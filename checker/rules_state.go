package main

import (
	"fmt"
	"go/ast"
	"go/types"
	"sort"
	"strings"

	"golang.org/x/tools/go/packages"
)

// Entry parity (Engine C, sibling form): the public entries of one reusable
// type must definitely assign the same receiver fields before they start
// working. A reset present in one entry and missing in its sibling leaks state
// from the previous call into the next one on that entry only.

type entryGroup struct {
	rel, typ string
	entries  []string
	work     bool // stop at the first call of the dispatch function
}

var entryGroups = []entryGroup{
	{"oj", "Parser", []string{"Parse", "ParseReader"}, true},
	{"oj", "Validator", []string{"Validate", "ValidateReader"}, true},
	{"oj", "Tokenizer", []string{"Parse", "Load"}, true},
	{"gen", "Parser", []string{"Parse", "ParseReader"}, true},
	{"sen", "Parser", []string{"Parse", "ParseReader"}, true},
	{"sen", "Tokenizer", []string{"Parse", "Load"}, true},
	{"oj", "Writer", []string{"MustJSON", "MustWrite"}, false},
	{"sen", "Writer", []string{"MustSEN", "MustWrite"}, false},
}

// parityExceptions: field differences confirmed by reading (type.field -> reason).
var parityExceptions = map[string]string{
	"oj.Writer.WriteLimit":  "default for the flush threshold; only the streaming entry flushes",
	"sen.Writer.WriteLimit": "default for the flush threshold; only the streaming entry flushes",
}

type mustSet map[string]bool

func (a mustSet) intersect(b mustSet) mustSet {
	out := mustSet{}
	for k := range a {
		if b[k] {
			out[k] = true
		}
	}
	return out
}

func (a mustSet) addAll(b mustSet) {
	for k := range b {
		a[k] = true
	}
}

type mustCtx struct {
	info   *types.Info
	recv   types.Object
	stopAt func(ast.Node) bool // true if the node contains the point where the scan stops
}

func (c *mustCtx) fieldPath(e ast.Expr) string {
	switch x := ast.Unparen(e).(type) {
	case *ast.SelectorExpr:
		if id, ok := x.X.(*ast.Ident); ok {
			if c.info.Uses[id] == c.recv {
				return x.Sel.Name
			}
			return ""
		}
		if p := c.fieldPath(x.X); p != "" {
			return p + "." + x.Sel.Name
		}
	}
	return ""
}

// must returns the fields definitely assigned by the statement list on every
// path that falls through it, whether every path terminates (return/panic),
// and whether the stop point was reached.
func (c *mustCtx) must(list []ast.Stmt) (set mustSet, terminates bool, stopped bool) {
	set = mustSet{}
	for _, s := range list {
		if c.stopAt != nil && c.stopAt(s) {
			// fields assigned in this statement before the stop point are not counted (conservative)
			return set, false, true
		}
		switch x := s.(type) {
		case *ast.AssignStmt:
			for _, l := range x.Lhs {
				if f := c.fieldPath(l); f != "" {
					set[f] = true
				}
			}
		case *ast.IncDecStmt:
			if f := c.fieldPath(x.X); f != "" {
				set[f] = true
			}
		case *ast.ReturnStmt:
			return set, true, false
		case *ast.ExprStmt:
			if call, ok := x.X.(*ast.CallExpr); ok {
				if id, ok := call.Fun.(*ast.Ident); ok && id.Name == "panic" {
					return set, true, false
				}
			}
		case *ast.BlockStmt:
			bs, t, st := c.must(x.List)
			set.addAll(bs)
			if t || st {
				return set, t, st
			}
		case *ast.IfStmt:
			if x.Init != nil {
				is, _, _ := c.must([]ast.Stmt{x.Init})
				set.addAll(is)
			}
			ts, tt, tst := c.must(x.Body.List)
			if tst {
				set.addAll(ts)
				return set, false, true
			}
			var es mustSet
			et := false
			if x.Else != nil {
				var est bool
				switch e := x.Else.(type) {
				case *ast.BlockStmt:
					es, et, est = c.must(e.List)
				default:
					es, et, est = c.must([]ast.Stmt{e})
				}
				if est {
					set.addAll(es)
					return set, false, true
				}
			} else {
				es = mustSet{}
			}
			switch {
			case tt && et:
				return set, true, false
			case tt:
				set.addAll(es)
			case et:
				set.addAll(ts)
			default:
				set.addAll(ts.intersect(es))
			}
		case *ast.SwitchStmt, *ast.TypeSwitchStmt:
			var body *ast.BlockStmt
			if sw, ok := x.(*ast.SwitchStmt); ok {
				body = sw.Body
			} else {
				body = x.(*ast.TypeSwitchStmt).Body
			}
			var acc mustSet
			hasDefault := false
			allTerm := true
			for _, cl := range body.List {
				cc := cl.(*ast.CaseClause)
				if cc.List == nil {
					hasDefault = true
				}
				cs, ct, cst := c.must(cc.Body)
				if cst {
					return set, false, true
				}
				if ct {
					continue
				}
				allTerm = false
				if acc == nil {
					acc = cs
				} else {
					acc = acc.intersect(cs)
				}
			}
			if hasDefault {
				if allTerm {
					return set, true, false
				}
				set.addAll(acc)
			}
		}
	}
	return set, false, false
}

func entryMustSet(prog *Program, pk *packages.Package, typ, entry string, stopAtWork bool) (mustSet, *ast.FuncDecl, error) {
	fn := Method(pk, typ, entry)
	fd, _ := prog.FuncDecl(fn)
	if fd == nil || fd.Recv == nil || len(fd.Recv.List[0].Names) != 1 {
		return nil, nil, fmt.Errorf("%s.%s: entry not found", typ, entry)
	}
	info := pk.TypesInfo
	ctx := &mustCtx{info: info, recv: info.Defs[fd.Recv.List[0].Names[0]]}
	if stopAtWork {
		named, _ := pk.Types.Scope().Lookup(typ).Type().(*types.Named)
		_, workFn, _, _, _ := findWork(prog, pk, named)
		if workFn == nil {
			return nil, nil, fmt.Errorf("%s: dispatch function not found", typ)
		}
		ctx.stopAt = func(n ast.Node) bool {
			found := false
			ast.Inspect(n, func(c ast.Node) bool {
				if call, ok := c.(*ast.CallExpr); ok {
					if sel, ok := call.Fun.(*ast.SelectorExpr); ok {
						if s := info.Selections[sel]; s != nil && s.Obj() == workFn {
							found = true
						}
					}
				}
				return !found
			})
			return found
		}
	}
	set, _, _ := ctx.must(fd.Body.List)
	return set, fd, nil
}

// ruleEntryParity takes an optional scope: the reusable types ("oj.Writer", ...) the calling property is about.
func ruleEntryParity(prog *Program, rep *Report, scope ...string) {
	rep.Rules = append(rep.Rules, "C-parity: the public entries of one reusable type (Parse/ParseReader, Validate/ValidateReader, Parse/Load, MustJSON/MustWrite, MustSEN/MustWrite) definitely assign the same receiver fields on every path to the start of the work (must-assignment over if/else and switch; early returns ignored); a field reset in one entry and not in its sibling is a violation unless listed with a reason")
	for _, g := range entryGroups {
		if len(scope) > 0 {
			in := false
			for _, sc := range scope {
				if sc == g.rel+"."+g.typ {
					in = true
				}
			}
			if !in {
				continue
			}
		}
		pk := prog.Pkg(g.rel)
		if pk == nil {
			rep.Errorf("package %s not loaded", g.rel)
			continue
		}
		sets := map[string]mustSet{}
		decls := map[string]*ast.FuncDecl{}
		failed := false
		for _, e := range g.entries {
			s, fd, err := entryMustSet(prog, pk, g.typ, e, g.work)
			if err != nil {
				rep.Errorf("%s.%v", g.rel, err)
				failed = true
				break
			}
			sets[e] = s
			decls[e] = fd
		}
		if failed {
			continue
		}
		all := mustSet{}
		for _, s := range sets {
			all.addAll(s)
		}
		if len(all) < 2 {
			rep.Errorf("%s.%s: entries assign fewer than 2 fields; anchors did not resolve", g.rel, g.typ)
			continue
		}
		var fields []string
		for f := range all {
			fields = append(fields, f)
		}
		sort.Strings(fields)
		for _, f := range fields {
			var missing []string
			for _, e := range g.entries {
				if !sets[e][f] {
					missing = append(missing, e)
				}
			}
			key := fmt.Sprintf("%s.%s.%s", g.rel, g.typ, f)
			if len(missing) == 0 {
				rep.Discharge("C-parity", key, prog.Pos(decls[g.entries[0]].Pos()), "assigned by every entry: "+strings.Join(g.entries, ", "))
				continue
			}
			if reason, ok := parityExceptions[key]; ok {
				rep.Discharge("C-parity", key, prog.Pos(decls[missing[0]].Pos()), "listed exception: "+reason)
				continue
			}
			rep.Violate(Finding{Rule: "C-parity", Key: key + ":missing-in:" + strings.Join(missing, ","), Pos: prog.Pos(decls[missing[0]].Pos()),
				Msg: fmt.Sprintf("field %s is definitely assigned at the start of %s.%s.%s but not of %s: state set by an earlier call survives into calls through the latter", f, g.rel, g.typ, otherThan(g.entries, missing), strings.Join(missing, ","))})
		}
	}
}

func otherThan(all, missing []string) string {
	m := map[string]bool{}
	for _, x := range missing {
		m[x] = true
	}
	var out []string
	for _, a := range all {
		if !m[a] {
			out = append(out, a)
		}
	}
	return strings.Join(out, ",")
}

func ruleC07Extra(prog *Program, rep *Report) {
	rulePutOnce(prog, rep, 10, "oj", "sen")
	ruleOptSticky(prog, rep, 5, "oj", "sen", "gen", "pretty", "alt", "jp", "asm", "")
	ruleEntryParity(prog, rep)
	ruleArgParity(prog, rep)
	ruleRestore(prog, rep)
	ruleReturnAlias(prog, rep, "C07")
	ruleBorrowedWrites(prog, rep)
	rulePoolPut(prog, rep)       // an instance put back before its last use is reset by the next caller in the middle of this call
	ruleCursorAdvance(prog, rep) // the Reuse option recycles maps through a cursor
	ruleReuseGuard(prog, rep)
	ruleCacheRead(prog, rep) // a plan looked up in the wrong cache makes an encoding depend on what was encoded before
}

// ruleRestore: a field saved to a local, overwritten and restored later must
// be restored on every path (no return between the overwrite and the restore,
// restore not nested deeper than the overwrite) or by a defer.
func ruleRestore(prog *Program, rep *Report) {
	rep.Rules = append(rep.Rules, "C-restore: where a method saves a receiver field in a local, overwrites the field and later assigns the local back, no return statement lies between the overwrite and the restore and the restore is a statement of the same block as the overwrite (or deferred): otherwise an option set for one call leaks into later calls on the error path")
	instances := 0
	for _, pk := range prog.LibPkgs() {
		info := pk.TypesInfo
		for _, file := range pk.Syntax {
			for _, d := range file.Decls {
				fd, ok := d.(*ast.FuncDecl)
				if !ok || fd.Body == nil || fd.Recv == nil || len(fd.Recv.List[0].Names) != 1 {
					continue
				}
				ctx := &mustCtx{info: info, recv: info.Defs[fd.Recv.List[0].Names[0]]}
				// saved[local] = field
				for i, st := range fd.Body.List {
					as, ok := st.(*ast.AssignStmt)
					if !ok || len(as.Lhs) != 1 || len(as.Rhs) != 1 {
						continue
					}
					f := ctx.fieldPath(as.Rhs[0])
					loc := useObj(info, as.Lhs[0])
					if f == "" || loc == nil {
						continue
					}
					// overwrite and restore among the following top-level statements
					setIdx, restoreIdx := -1, -1
					for j := i + 1; j < len(fd.Body.List); j++ {
						a2, ok := fd.Body.List[j].(*ast.AssignStmt)
						if !ok || len(a2.Lhs) != 1 || len(a2.Rhs) != 1 || ctx.fieldPath(a2.Lhs[0]) != f {
							continue
						}
						if useObj(info, a2.Rhs[0]) == loc {
							restoreIdx = j
						} else if setIdx < 0 {
							setIdx = j
						}
					}
					if setIdx < 0 {
						continue
					}
					// is there any restore at all (possibly nested)?
					nestedRestore := false
					ast.Inspect(fd.Body, func(n ast.Node) bool {
						if a2, ok := n.(*ast.AssignStmt); ok && len(a2.Lhs) == 1 && len(a2.Rhs) == 1 && ctx.fieldPath(a2.Lhs[0]) == f && useObj(info, a2.Rhs[0]) == loc {
							nestedRestore = true
						}
						return true
					})
					if !nestedRestore {
						continue // not a save/restore pattern
					}
					instances++
					key := fmt.Sprintf("%s.%s:%s", pk.Types.Name(), funcKey(fd), f)
					bad := ""
					if restoreIdx < 0 {
						bad = "the restore is nested in a conditional: not executed on every path"
					} else {
						for j := setIdx + 1; j < restoreIdx; j++ {
							ast.Inspect(fd.Body.List[j], func(n ast.Node) bool {
								if _, ok := n.(*ast.FuncLit); ok {
									return false
								}
								if _, ok := n.(*ast.ReturnStmt); ok {
									bad = "a return between the overwrite and the restore skips the restore"
								}
								return true
							})
						}
					}
					if bad != "" {
						rep.Violate(Finding{Rule: "C-restore", Key: key, Pos: prog.Pos(fd.Body.List[setIdx].Pos()), Msg: "field " + f + " is overwritten for the duration of the call but " + bad})
					} else {
						rep.Discharge("C-restore", key, prog.Pos(fd.Body.List[setIdx].Pos()), "restored by a statement of the same block with no return in between")
					}
				}
			}
		}
	}
	if instances < 1 {
		rep.Errorf("C-restore found %d save/restore instances (floor 1: oj Parser.Unmarshal)", instances)
	}
}

func funcKey(fd *ast.FuncDecl) string {
	if fd.Recv != nil && len(fd.Recv.List) == 1 {
		t := fd.Recv.List[0].Type
		if s, ok := t.(*ast.StarExpr); ok {
			t = s.X
		}
		if id, ok := t.(*ast.Ident); ok {
			return id.Name + "." + fd.Name.Name
		}
	}
	return fd.Name.Name
}

// ruleArgParity: C-argparity. The sibling entries of a reusable type read their options from
// `args ...any` with a type switch. What a given option type sets must not depend on the
// entry: the clause for one case type assigns the same receiver fields, with the same
// right-hand side text, in every entry of the group (a chan option turns Reuse off in Parse
// and must do so in ParseReader).
func ruleArgParity(prog *Program, rep *Report, scope ...string) {
	rep.Rules = append(rep.Rules, "C-argparity: in the sibling entries of one reusable type the clause of the option type switch (over `args ...any`) for a given option type makes the same receiver field assignments (field and right-hand side text): an option means the same through the []byte entry and through the reader entry")
	compared := 0
	for _, g := range entryGroups {
		if len(scope) > 0 {
			in := false
			for _, sc := range scope {
				if sc == g.rel+"."+g.typ {
					in = true
				}
			}
			if !in {
				continue
			}
		}
		pk := prog.Pkg(g.rel)
		if pk == nil {
			continue
		}
		info := pk.TypesInfo
		clauses := map[string]map[string][]string{} // entry -> case type -> sorted assignments
		var pos = map[string]*ast.FuncDecl{}
		for _, e := range g.entries {
			fd, _ := prog.FuncDecl(Method(pk, g.typ, e))
			if fd == nil || fd.Recv == nil || len(fd.Recv.List[0].Names) != 1 {
				continue
			}
			pos[e] = fd
			recv := info.Defs[fd.Recv.List[0].Names[0]]
			ctx := &mustCtx{info: info, recv: recv}
			ast.Inspect(fd.Body, func(n ast.Node) bool {
				ts, ok := n.(*ast.TypeSwitchStmt)
				if !ok {
					return true
				}
				m := map[string][]string{}
				for _, cl := range ts.Body.List {
					cc := cl.(*ast.CaseClause)
					if cc.List == nil {
						continue
					}
					var names []string
					for _, t := range cc.List {
						names = append(names, types.ExprString(t))
					}
					var asg []string
					for _, st := range cc.Body {
						ast.Inspect(st, func(k ast.Node) bool {
							if _, isLit := k.(*ast.FuncLit); isLit {
								return false
							}
							if as, ok := k.(*ast.AssignStmt); ok && len(as.Lhs) == len(as.Rhs) {
								for i, l := range as.Lhs {
									if f := ctx.fieldPath(l); f != "" {
										asg = append(asg, f+" = "+wsRe.ReplaceAllString(printNode(prog.Fset, as.Rhs[i]), " "))
									}
								}
							}
							return true
						})
					}
					sort.Strings(asg)
					m[strings.Join(names, ",")] = asg
				}
				if len(m) >= 2 && clauses[e] == nil {
					clauses[e] = m
				}
				return true
			})
		}
		if len(clauses) < 2 {
			continue // no option switch in this group (writers)
		}
		ref := g.entries[0]
		for _, e := range g.entries[1:] {
			if clauses[ref] == nil || clauses[e] == nil {
				continue
			}
			var types_ []string
			for t := range clauses[ref] {
				types_ = append(types_, t)
			}
			for t := range clauses[e] {
				if _, ok := clauses[ref][t]; !ok {
					types_ = append(types_, t)
				}
			}
			sort.Strings(types_)
			for _, t := range types_ {
				a, aok := clauses[ref][t]
				b, bok := clauses[e][t]
				if !aok || !bok {
					continue // an option only one entry accepts (io.Reader specific) is not a parity question
				}
				compared++
				key := fmt.Sprintf("%s.%s:%s=%s:case %s", g.rel, g.typ, ref, e, t)
				if strings.Join(a, " ; ") == strings.Join(b, " ; ") {
					rep.Discharge("C-argparity", key, prog.Pos(pos[e].Pos()), strings.Join(a, " ; "))
				} else {
					rep.Violate(Finding{Rule: "C-argparity", Key: key, Pos: prog.Pos(pos[e].Pos()), Msg: fmt.Sprintf("the option type %s sets [%s] in %s but [%s] in %s: the same option behaves differently through the two entries", t, strings.Join(a, " ; "), ref, strings.Join(b, " ; "), e)})
				}
			}
		}
	}
	rep.Eval(compared)
	if compared < 4 {
		rep.Errorf("C-argparity compared %d option clauses (floor 4): anchors did not resolve", compared)
	}
}
