package main

// Rules added in the round-7 session. Each is a syntactic/type-resolved rule run through runSynRule with a
// positive-control fixture (rules_extra.go).

import (
	"fmt"
	"go/ast"
	"go/token"
	"go/types"
	"strings"
)

// ---------------------------------------------------------------- P-fullrange

// matchFullRange: an index loop that is meant to visit every element of a sized thing and leaves one end out.
//
//	for i := N - 1; 0 < i; i-- { ... X[i] / X.Field(i) / X.Index(i) ... }     (element 0 never visited)
//	for i := 1; i < X.NumField(); i++ { ... X.Field(i) ... }                  (field 0 never visited)
//
// where N is len(X), X.NumField(), X.Len() or X.NumMethod(). Counting loops that do not use i as an index
// (padding loops) are not examined.
func matchFullRange(files []*ast.File, info *types.Info) (sites []synSite, examined int) {
	sizeOf := func(e ast.Expr) (string, bool) {
		call, ok := ast.Unparen(e).(*ast.CallExpr)
		if !ok {
			return "", false
		}
		switch fn := call.Fun.(type) {
		case *ast.Ident:
			if fn.Name == "len" && len(call.Args) == 1 {
				return types.ExprString(call.Args[0]), true
			}
		case *ast.SelectorExpr:
			switch fn.Sel.Name {
			case "NumField", "Len", "NumMethod":
				if len(call.Args) == 0 {
					return types.ExprString(fn.X), true
				}
			}
		}
		return "", false
	}
	usesAsIndex := func(body *ast.BlockStmt, iv types.Object) bool {
		found := false
		ast.Inspect(body, func(n ast.Node) bool {
			switch x := n.(type) {
			case *ast.IndexExpr:
				if id, ok := ast.Unparen(x.Index).(*ast.Ident); ok && info.Uses[id] == iv {
					found = true
				}
			case *ast.CallExpr:
				if sel, ok := x.Fun.(*ast.SelectorExpr); ok && (sel.Sel.Name == "Field" || sel.Sel.Name == "Index" || sel.Sel.Name == "Method") && len(x.Args) == 1 {
					if id, ok := ast.Unparen(x.Args[0]).(*ast.Ident); ok && info.Uses[id] == iv {
						found = true
					}
				}
			}
			return !found
		})
		return found
	}
	for _, f := range files {
		ast.Inspect(f, func(n ast.Node) bool {
			fs, ok := n.(*ast.ForStmt)
			if !ok || fs.Init == nil || fs.Cond == nil || fs.Post == nil {
				return true
			}
			as, ok := fs.Init.(*ast.AssignStmt)
			if !ok || as.Tok != token.DEFINE || len(as.Lhs) != 1 || len(as.Rhs) != 1 {
				return true
			}
			ivID, ok := as.Lhs[0].(*ast.Ident)
			if !ok {
				return true
			}
			iv := info.Defs[ivID]
			inc, ok := fs.Post.(*ast.IncDecStmt)
			if !ok {
				return true
			}
			if id, ok := inc.X.(*ast.Ident); !ok || info.Uses[id] != iv {
				return true
			}
			cond, ok := ast.Unparen(fs.Cond).(*ast.BinaryExpr)
			if !ok {
				return true
			}
			isIV := func(e ast.Expr) bool {
				id, ok := ast.Unparen(e).(*ast.Ident)
				return ok && info.Uses[id] == iv
			}
			isZero := func(e ast.Expr) bool {
				tv, ok := info.Types[e]
				return ok && tv.Value != nil && tv.Value.ExactString() == "0"
			}
			if inc.Tok == token.DEC {
				// init: N - 1
				be, ok := ast.Unparen(as.Rhs[0]).(*ast.BinaryExpr)
				if !ok || be.Op != token.SUB {
					return true
				}
				if tv, ok := info.Types[be.Y]; !ok || tv.Value == nil || tv.Value.ExactString() != "1" {
					return true
				}
				what, ok := sizeOf(be.X)
				if !ok || !usesAsIndex(fs.Body, iv) {
					return true
				}
				examined++
				excl := (cond.Op == token.LSS && isZero(cond.X) && isIV(cond.Y)) || (cond.Op == token.GTR && isIV(cond.X) && isZero(cond.Y))
				if excl {
					name := enclosingFuncName(f, fs.Pos())
					sites = append(sites, synSite{pos: fs.Pos(), file: f, key: fmt.Sprintf("%s:descending-loop-skips-0:%s", name, what),
						msg: fmt.Sprintf("%s walks %s downwards from its last index and stops before index 0 (%s): the first element is never visited", name, what, types.ExprString(fs.Cond))})
				}
				return true
			}
			// ascending over the fields of a struct type: must start at 0
			if inc.Tok == token.INC && cond.Op == token.LSS && isIV(cond.X) {
				call, ok := ast.Unparen(cond.Y).(*ast.CallExpr)
				if !ok {
					return true
				}
				sel, ok := call.Fun.(*ast.SelectorExpr)
				if !ok || sel.Sel.Name != "NumField" || !usesAsIndex(fs.Body, iv) {
					return true
				}
				examined++
				if !isZero(as.Rhs[0]) {
					name := enclosingFuncName(f, fs.Pos())
					what := types.ExprString(sel.X)
					sites = append(sites, synSite{pos: fs.Pos(), file: f, key: fmt.Sprintf("%s:ascending-loop-skips-0:%s", name, what),
						msg: fmt.Sprintf("%s walks the fields of %s starting at %s: field 0 is never visited", name, what, types.ExprString(as.Rhs[0]))})
				}
			}
			return true
		})
	}
	return
}

const fixtureFullRange = `package fixture

import "reflect"

func walk(rt reflect.Type) (names []string) {
	for i := rt.NumField() - 1; 0 < i; i-- {
		names = append(names, rt.Field(i).Name)
	}
	for i := rt.NumField() - 1; 0 <= i; i-- {
		names = append(names, rt.Field(i).Name)
	}
	for i := 4; 0 < i; i-- {
		names = append(names, "")
	}
	return
}
`

// ruleFullRange: P-fullrange over the listed packages.
func ruleFullRange(prog *Program, rep *Report, floor int, rels ...string) {
	rep.Rules = append(rep.Rules, "P-fullrange: an index loop that walks a sized value downwards from its last index (i := len(x)-1 / x.NumField()-1 / x.Len()-1; ...; i--) and uses i as an index includes index 0 in its condition; a loop over the fields of a struct type that counts upwards starts at 0 ("+strings.Join(rels, ", ")+")")
	runSynRule(prog, rep, "P-fullrange", rels, matchFullRange, fixtureFullRange, 1, floor)
}
