package main

// Rules added in the round-7 session. Each is a syntactic/type-resolved rule run through runSynRule with a
// positive-control fixture (rules_extra.go).

import (
	"fmt"
	"go/ast"
	"go/constant"
	"go/token"
	"go/types"
	"regexp"
	"sort"
	"strings"
)

// ---------------------------------------------------------------- P-fullrange

// matchFullRange: an index loop that is meant to visit every element of a sized thing and leaves one end out.
//
//	for i := N - 1; 0 < i; i-- { ... X[i] / X.Field(i) / X.Index(i) ... }     (element 0 never visited)
//	for i := 1; i < X.NumField(); i++ { ... X.Field(i) ... }                  (field 0 never visited)
//
// where N is len(X), X.NumField(), X.Len() or X.NumMethod(). Counting loops that do not use i as an index
// (padding loops) are not examined.
func matchFullRange(files []*ast.File, info *types.Info) (sites []synSite, examined int) {
	sizeOf := func(e ast.Expr) (string, bool) {
		call, ok := ast.Unparen(e).(*ast.CallExpr)
		if !ok {
			return "", false
		}
		switch fn := call.Fun.(type) {
		case *ast.Ident:
			if fn.Name == "len" && len(call.Args) == 1 {
				return types.ExprString(call.Args[0]), true
			}
		case *ast.SelectorExpr:
			switch fn.Sel.Name {
			case "NumField", "Len", "NumMethod":
				if len(call.Args) == 0 {
					return types.ExprString(fn.X), true
				}
			}
		}
		return "", false
	}
	usesAsIndex := func(body *ast.BlockStmt, iv types.Object) bool {
		found := false
		ast.Inspect(body, func(n ast.Node) bool {
			switch x := n.(type) {
			case *ast.IndexExpr:
				if id, ok := ast.Unparen(x.Index).(*ast.Ident); ok && info.Uses[id] == iv {
					found = true
				}
			case *ast.CallExpr:
				if sel, ok := x.Fun.(*ast.SelectorExpr); ok && (sel.Sel.Name == "Field" || sel.Sel.Name == "Index" || sel.Sel.Name == "Method") && len(x.Args) == 1 {
					if id, ok := ast.Unparen(x.Args[0]).(*ast.Ident); ok && info.Uses[id] == iv {
						found = true
					}
				}
			}
			return !found
		})
		return found
	}
	for _, f := range files {
		ast.Inspect(f, func(n ast.Node) bool {
			fs, ok := n.(*ast.ForStmt)
			if !ok || fs.Init == nil || fs.Cond == nil || fs.Post == nil {
				return true
			}
			as, ok := fs.Init.(*ast.AssignStmt)
			if !ok || as.Tok != token.DEFINE || len(as.Lhs) != 1 || len(as.Rhs) != 1 {
				return true
			}
			ivID, ok := as.Lhs[0].(*ast.Ident)
			if !ok {
				return true
			}
			iv := info.Defs[ivID]
			inc, ok := fs.Post.(*ast.IncDecStmt)
			if !ok {
				return true
			}
			if id, ok := inc.X.(*ast.Ident); !ok || info.Uses[id] != iv {
				return true
			}
			cond, ok := ast.Unparen(fs.Cond).(*ast.BinaryExpr)
			if !ok {
				return true
			}
			isIV := func(e ast.Expr) bool {
				id, ok := ast.Unparen(e).(*ast.Ident)
				return ok && info.Uses[id] == iv
			}
			isZero := func(e ast.Expr) bool {
				tv, ok := info.Types[e]
				return ok && tv.Value != nil && tv.Value.ExactString() == "0"
			}
			if inc.Tok == token.DEC {
				// init: N - 1
				be, ok := ast.Unparen(as.Rhs[0]).(*ast.BinaryExpr)
				if !ok || be.Op != token.SUB {
					return true
				}
				if tv, ok := info.Types[be.Y]; !ok || tv.Value == nil || tv.Value.ExactString() != "1" {
					return true
				}
				what, ok := sizeOf(be.X)
				if !ok || !usesAsIndex(fs.Body, iv) {
					return true
				}
				examined++
				excl := (cond.Op == token.LSS && isZero(cond.X) && isIV(cond.Y)) || (cond.Op == token.GTR && isIV(cond.X) && isZero(cond.Y))
				if excl {
					name := enclosingFuncName(f, fs.Pos())
					sites = append(sites, synSite{pos: fs.Pos(), file: f, key: fmt.Sprintf("%s:descending-loop-skips-0:%s", name, what),
						msg: fmt.Sprintf("%s walks %s downwards from its last index and stops before index 0 (%s): the first element is never visited", name, what, types.ExprString(fs.Cond))})
				}
				return true
			}
			// ascending over the fields of a struct type: must start at 0
			if inc.Tok == token.INC && cond.Op == token.LSS && isIV(cond.X) {
				call, ok := ast.Unparen(cond.Y).(*ast.CallExpr)
				if !ok {
					return true
				}
				sel, ok := call.Fun.(*ast.SelectorExpr)
				if !ok || sel.Sel.Name != "NumField" || !usesAsIndex(fs.Body, iv) {
					return true
				}
				examined++
				if !isZero(as.Rhs[0]) {
					name := enclosingFuncName(f, fs.Pos())
					what := types.ExprString(sel.X)
					sites = append(sites, synSite{pos: fs.Pos(), file: f, key: fmt.Sprintf("%s:ascending-loop-skips-0:%s", name, what),
						msg: fmt.Sprintf("%s walks the fields of %s starting at %s: field 0 is never visited", name, what, types.ExprString(as.Rhs[0]))})
				}
			}
			return true
		})
	}
	return
}

const fixtureFullRange = `package fixture

import "reflect"

func walk(rt reflect.Type) (names []string) {
	for i := rt.NumField() - 1; 0 < i; i-- {
		names = append(names, rt.Field(i).Name)
	}
	for i := rt.NumField() - 1; 0 <= i; i-- {
		names = append(names, rt.Field(i).Name)
	}
	for i := 4; 0 < i; i-- {
		names = append(names, "")
	}
	return
}
`

// ruleFullRange: P-fullrange over the listed packages.
func ruleFullRange(prog *Program, rep *Report, floor int, rels ...string) {
	rep.Rules = append(rep.Rules, "P-fullrange: an index loop that walks a sized value downwards from its last index (i := len(x)-1 / x.NumField()-1 / x.Len()-1; ...; i--) and uses i as an index includes index 0 in its condition; a loop over the fields of a struct type that counts upwards starts at 0 ("+strings.Join(rels, ", ")+")")
	runSynRule(prog, rep, "P-fullrange", rels, matchFullRange, fixtureFullRange, 1, floor)
}

// ---------------------------------------------------------------- K-numfamily

var signedFamily = []string{"int", "int8", "int16", "int32", "int64"}
var unsignedFamily = []string{"uint", "uint8", "uint16", "uint32", "uint64"}

// matchNumFamily: a case clause - of a type switch, or of a switch over reflect kinds - that lists three or
// more of the five signed (or of the five unsigned) integer types handles "the integers"; leaving one width out
// sends values of that width to another clause (usually the default), so one Go integer type is treated unlike
// its siblings.
func matchNumFamily(files []*ast.File, info *types.Info) (sites []synSite, examined int) {
	for _, f := range files {
		ast.Inspect(f, func(n ast.Node) bool {
			cc, ok := n.(*ast.CaseClause)
			if !ok || len(cc.List) < 3 {
				return true
			}
			have := map[string]bool{}
			for _, e := range cc.List {
				e = ast.Unparen(e)
				if tv, ok := info.Types[e]; ok && tv.IsType() {
					if b, ok := tv.Type.(*types.Basic); ok {
						have[b.Name()] = true
					}
					continue
				}
				// reflect.Int8 and friends (constants of type reflect.Kind)
				if sel, ok := e.(*ast.SelectorExpr); ok {
					if c, ok := info.Uses[sel.Sel].(*types.Const); ok && c.Pkg() != nil && c.Pkg().Path() == "reflect" {
						have[strings.ToLower(c.Name())] = true
					}
				}
			}
			for _, fam := range [][]string{signedFamily, unsignedFamily} {
				cnt := 0
				var missing []string
				for _, t := range fam {
					if have[t] {
						cnt++
					} else {
						missing = append(missing, t)
					}
				}
				if cnt < 3 {
					continue
				}
				examined++
				if len(missing) > 0 {
					name := enclosingFuncName(f, cc.Pos())
					sites = append(sites, synSite{pos: cc.Pos(), file: f, key: fmt.Sprintf("%s:case-misses:%s", name, strings.Join(missing, ",")),
						msg: fmt.Sprintf("%s: a case clause lists %d of the five %s-family integer types and leaves out %s: values of that width are handled by another clause", name, cnt, fam[0], strings.Join(missing, ", "))})
				}
			}
			return true
		})
	}
	return
}

const fixtureNumFamily = `package fixture

import "reflect"

func isInt(v any) bool {
	switch v.(type) {
	case int, int8, int16, int64, uint, uint8, uint16, uint32, uint64:
		return true
	}
	return false
}

func kindInt(k reflect.Kind) bool {
	switch k {
	case reflect.Int, reflect.Int8, reflect.Int16, reflect.Int32, reflect.Int64:
		return true
	case reflect.Uint, reflect.Uint8:
		return true
	}
	return false
}
`

func ruleNumFamily(prog *Program, rep *Report, floor int, rels ...string) {
	rep.Rules = append(rep.Rules, "K-numfamily: a case clause (type switch, or switch over reflect kinds) that lists at least three of the five signed integer types, or of the five unsigned ones, lists all five: no integer width is treated unlike its siblings ("+strings.Join(rels, ", ")+")")
	runSynRule(prog, rep, "K-numfamily", rels, matchNumFamily, fixtureNumFamily, 1, floor)
}

// ---------------------------------------------------------------- D-bufalias

// ruleBufAlias: the values a parser or tokenizer hands out (strings on the build stack, arguments of handler
// callbacks) must be copies of the input bytes: the read buffer of the reader entries is refilled for every
// chunk and the []byte entries parse the caller's slice. A copying conversion string(buf[a:b]) is the only way
// the front-ends make strings today; the structural necessary condition checked here is that no method of a
// front-end type, and no function of the same package such a method reaches by static calls, uses package
// unsafe at all (a zero-copy string or slice header is the only way to alias the buffer).
func ruleBufAlias(prog *Program, rep *Report, specs ...feSpec) {
	rep.Rules = append(rep.Rules, "D-bufalias: no method of a parsing front-end type (oj.Parser, oj.Validator, oj.Tokenizer, gen.Parser, sen.Parser, sen.Tokenizer), and no function of the same package reachable from one by static calls, uses package unsafe: every string handed out is a copy of the input bytes, not a view of the read buffer")
	// positive control
	ff, finfo, _, err := loadFixture(fixtureBufAlias)
	if err != nil {
		rep.Errorf("D-bufalias: fixture does not type-check: %v", err)
		return
	}
	if n := len(unsafeUses(ff[0], finfo, nil)); n != 1 {
		rep.Errorf("D-bufalias: the positive-control fixture produced %d matches (want 1)", n)
		return
	}
	rep.Discharge("D-bufalias", "positive-control", "checker/rules_r7.go", "fixture matched once")
	for _, sp := range specs {
		pk := prog.Pkg(sp.rel)
		if pk == nil {
			rep.Errorf("D-bufalias: package %s not loaded", sp.rel)
			continue
		}
		info := pk.TypesInfo
		decls := map[types.Object]*ast.FuncDecl{}
		files := map[*ast.FuncDecl]*ast.File{}
		for _, f := range pk.Syntax {
			for _, d := range f.Decls {
				if fd, ok := d.(*ast.FuncDecl); ok && fd.Body != nil {
					decls[info.Defs[fd.Name]] = fd
					files[fd] = f
				}
			}
		}
		// roots: every method of the front-end type
		var work []*ast.FuncDecl
		seen := map[*ast.FuncDecl]bool{}
		for _, fd := range decls {
			if fd.Recv == nil || len(fd.Recv.List) != 1 {
				continue
			}
			if strings.TrimPrefix(types.ExprString(fd.Recv.List[0].Type), "*") == sp.typ {
				work = append(work, fd)
				seen[fd] = true
			}
		}
		if len(work) < 3 {
			rep.Errorf("D-bufalias: %s.%s has %d methods (floor 3): anchor did not resolve", sp.rel, sp.typ, len(work))
			continue
		}
		n := 0
		for len(work) > 0 {
			fd := work[len(work)-1]
			work = work[:len(work)-1]
			n++
			for _, pos := range unsafeUses(fd, info, nil) {
				name := enclosingFuncName(files[fd], fd.Pos())
				rep.Violate(Finding{Rule: "D-bufalias", Key: sp.rel + "." + name + ":unsafe", Pos: prog.Pos(pos),
					Msg: fmt.Sprintf("%s.%s is part of the %s.%s front-end and uses package unsafe: a string or slice made this way is a view of the input buffer, which the reader entries overwrite with the next chunk", sp.rel, name, sp.rel, sp.typ)})
			}
			ast.Inspect(fd.Body, func(nd ast.Node) bool {
				call, ok := nd.(*ast.CallExpr)
				if !ok {
					return true
				}
				var callee types.Object
				switch fn := ast.Unparen(call.Fun).(type) {
				case *ast.Ident:
					callee = info.Uses[fn]
				case *ast.SelectorExpr:
					callee = info.Uses[fn.Sel]
				}
				if cd := decls[callee]; cd != nil && !seen[cd] {
					seen[cd] = true
					work = append(work, cd)
				}
				return true
			})
		}
		rep.Eval(n)
		rep.Discharge("D-bufalias", sp.rel+"."+sp.typ, sp.rel, fmt.Sprintf("%d functions of the front-end examined", n))
	}
}

// unsafeUses: positions where node uses an identifier of package unsafe.
func unsafeUses(node ast.Node, info *types.Info, _ any) (out []token.Pos) {
	ast.Inspect(node, func(n ast.Node) bool {
		if sel, ok := n.(*ast.SelectorExpr); ok {
			if id, ok := sel.X.(*ast.Ident); ok {
				if pn, ok := info.Uses[id].(*types.PkgName); ok && pn.Imported().Path() == "unsafe" {
					out = append(out, sel.Pos())
				}
			}
		}
		return true
	})
	return
}

const fixtureBufAlias = `package fixture

import "unsafe"

type P struct{ stack []any }

func (p *P) parse(buf []byte) {
	sb := buf[1:3]
	p.stack = append(p.stack, *(*string)(unsafe.Pointer(&sb)))
	p.stack = append(p.stack, string(buf[1:3]))
}
`

// ---------------------------------------------------------------- M-selfrec

// matchSelfRec: functions written as copies of one another that each walk a structure by calling
// themselves (the three field-plan builders; Alter / Simplify of the generic containers). Inside such a
// function the recursion has to stay in the same copy: a call of a sibling copy applies the sibling's
// variant (other key case, in-place instead of copying) to the nested part only.
//
//	functions: F and G have identical signatures, both call themselves, and F calls G
//	methods:   T.M calls x.M' where M' != M is a method with M's signature that x's type also offers
//	           next to M, and some type's M' calls M' on such a value itself (it is a recursive walk too)
func matchSelfRec(files []*ast.File, info *types.Info) (sites []synSite, examined int) {
	type fn struct {
		fd   *ast.FuncDecl
		file *ast.File
		obj  *types.Func
		self bool
	}
	var fns []*fn
	byObj := map[types.Object]*fn{}
	for _, f := range files {
		for _, d := range f.Decls {
			fd, ok := d.(*ast.FuncDecl)
			if !ok || fd.Body == nil {
				continue
			}
			o, _ := info.Defs[fd.Name].(*types.Func)
			if o == nil {
				continue
			}
			x := &fn{fd: fd, file: f, obj: o}
			fns = append(fns, x)
			byObj[o] = x
		}
	}
	callee := func(call *ast.CallExpr) *types.Func {
		switch f := ast.Unparen(call.Fun).(type) {
		case *ast.Ident:
			o, _ := info.Uses[f].(*types.Func)
			return o
		case *ast.SelectorExpr:
			o, _ := info.Uses[f.Sel].(*types.Func)
			return o
		}
		return nil
	}
	// methods that recurse by name: name -> true when some method of that name calls a method of that name
	recName := map[string]bool{}
	for _, x := range fns {
		ast.Inspect(x.fd.Body, func(n ast.Node) bool {
			if call, ok := n.(*ast.CallExpr); ok {
				if c := callee(call); c != nil {
					if c == x.obj {
						x.self = true
					}
					if x.fd.Recv != nil && c.Name() == x.obj.Name() && c.Type().(*types.Signature).Recv() != nil {
						recName[c.Name()] = true
					}
				}
			}
			return true
		})
	}
	sigOf := func(o *types.Func) string {
		s := o.Type().(*types.Signature)
		return s.Params().String() + s.Results().String()
	}
	for _, x := range fns {
		if x.fd.Recv == nil {
			if !x.self {
				continue
			}
			examined++
			ast.Inspect(x.fd.Body, func(n ast.Node) bool {
				call, ok := n.(*ast.CallExpr)
				if !ok {
					return true
				}
				c := callee(call)
				y := byObj[c]
				if y == nil || y == x || y.fd.Recv != nil || !y.self || sigOf(y.obj) != sigOf(x.obj) {
					return true
				}
				// a scalar handed to the sibling has no nested part (alter converts the bytes of a []byte through decompose)
				if len(call.Args) > 0 {
					if t := info.TypeOf(call.Args[0]); t != nil {
						if _, basic := t.Underlying().(*types.Basic); basic {
							return true
						}
					}
				}
				sites = append(sites, synSite{pos: call.Pos(), file: x.file, key: fmt.Sprintf("%s:recurses-into:%s", x.obj.Name(), y.obj.Name()),
					msg: fmt.Sprintf("%s and %s are recursive functions of one signature; %s calls %s here, so the nested part is handled by the sibling variant", x.obj.Name(), y.obj.Name(), x.obj.Name(), y.obj.Name())})
				return true
			})
			continue
		}
		// methods
		m := x.obj.Name()
		if !recName[m] {
			continue
		}
		examined++
		// a method that calls its own name on members as well chooses between the walks by the member's kind
		// (pretty's table builders): only a walk that never continues under its own name is a slip
		callsOwn := false
		ast.Inspect(x.fd.Body, func(n ast.Node) bool {
			if call, ok := n.(*ast.CallExpr); ok {
				if c := callee(call); c != nil && c.Name() == m && c.Type().(*types.Signature).Recv() != nil {
					callsOwn = true
				}
			}
			return true
		})
		if callsOwn {
			continue
		}
		ast.Inspect(x.fd.Body, func(n ast.Node) bool {
			call, ok := n.(*ast.CallExpr)
			if !ok {
				return true
			}
			sel, ok := ast.Unparen(call.Fun).(*ast.SelectorExpr)
			if !ok {
				return true
			}
			c := callee(call)
			if c == nil || c.Name() == m || !recName[c.Name()] || c.Type().(*types.Signature).Recv() == nil || sigOf(c) != sigOf(x.obj) {
				return true
			}
			// the value called on must offer M as well (then M was the call to make)
			t := info.TypeOf(sel.X)
			if t == nil {
				return true
			}
			if o, _, _ := types.LookupFieldOrMethod(t, true, x.obj.Pkg(), m); o == nil {
				return true
			}
			// a call on the receiver itself is delegation (Simplify implemented through another method of the same value), not recursion
			if id, ok := ast.Unparen(sel.X).(*ast.Ident); ok && x.fd.Recv != nil && len(x.fd.Recv.List) == 1 && len(x.fd.Recv.List[0].Names) == 1 && info.Uses[id] == info.Defs[x.fd.Recv.List[0].Names[0]] {
				return true
			}
			name := enclosingFuncName(x.file, x.fd.Pos())
			sites = append(sites, synSite{pos: call.Pos(), file: x.file, key: fmt.Sprintf("%s:recurses-into:%s", name, c.Name()),
				msg: fmt.Sprintf("%s walks its members by calling %s on them although they offer %s too: the nested part is handled by the sibling variant", name, c.Name(), m)})
			return true
		})
	}
	return
}

const fixtureSelfRec = `package fixture

type node interface {
	alter() any
	simplify() any
}

type arr []node

func (a arr) alter() any {
	for _, m := range a {
		_ = m.alter()
	}
	return nil
}

func (a arr) simplify() any {
	out := make([]any, 0, len(a))
	for _, m := range a {
		out = append(out, m.alter())
	}
	return out
}

type obj map[string]node

func (o obj) alter() any { return nil }

func (o obj) simplify() any {
	out := map[string]any{}
	for k, m := range o {
		out[k] = m.simplify()
	}
	return out
}

func low(v any) any {
	if a, ok := v.([]any); ok {
		for i, m := range a {
			a[i] = low(m)
		}
	}
	return v
}

func exact(v any) any {
	if a, ok := v.([]any); ok {
		for i, m := range a {
			a[i] = low(m)
		}
		return exact(a[0])
	}
	return v
}
`

func ruleSelfRec(prog *Program, rep *Report, floor int, rels ...string) {
	rep.Rules = append(rep.Rules, "M-selfrec: among recursive functions of one signature (copies of one walk) none calls another one; a method that belongs to a family of same-signature methods that walk members by calling themselves calls its own name on the members, not a sibling's ("+strings.Join(rels, ", ")+")")
	runSynRule(prog, rep, "M-selfrec", rels, matchSelfRec, fixtureSelfRec, 2, floor)
}

// ---------------------------------------------------------------- B-gentwins

// genTwinPairs: functions of one package (same receiver) whose signatures become equal when the generic
// container types are replaced by the simple ones (gen.Array -> []any, gen.Object -> map[string]any) and
// that are the only such partner of each other: the copy for generic data of a function for simple data.
func genTwinPairs(pk *Program, rel string) (pairs [][2]*ast.FuncDecl, info *types.Info) {
	p := pk.Pkg(rel)
	if p == nil {
		return nil, nil
	}
	info = p.TypesInfo
	norm := func(s string) string {
		s = strings.ReplaceAll(s, "github.com/ohler55/ojg/gen.Array", "[]any")
		s = strings.ReplaceAll(s, "github.com/ohler55/ojg/gen.Object", "map[string]any")
		s = strings.ReplaceAll(s, "interface{}", "any")
		return s
	}
	type ent struct {
		fd  *ast.FuncDecl
		sig string
		raw string
	}
	groups := map[string][]ent{}
	for _, f := range p.Syntax {
		for _, d := range f.Decls {
			fd, ok := d.(*ast.FuncDecl)
			if !ok || fd.Body == nil {
				continue
			}
			o, _ := info.Defs[fd.Name].(*types.Func)
			if o == nil {
				continue
			}
			sg := o.Type().(*types.Signature)
			recv := ""
			if sg.Recv() != nil {
				recv = sg.Recv().Type().String()
			}
			raw := recv + "|" + sg.Params().String() + sg.Results().String()
			groups[norm(raw)] = append(groups[norm(raw)], ent{fd, norm(raw), raw})
		}
	}
	for _, g := range groups {
		var simple, generic []ent
		for _, e := range g {
			if strings.Contains(e.raw, "ojg/gen.Array") || strings.Contains(e.raw, "ojg/gen.Object") {
				generic = append(generic, e)
			} else if strings.Contains(e.raw, "[]any") || strings.Contains(e.raw, "[]interface{}") || strings.Contains(e.raw, "map[string]any") || strings.Contains(e.raw, "map[string]interface{}") {
				simple = append(simple, e)
			}
		}
		if len(simple) == 1 && len(generic) == 1 {
			pairs = append(pairs, [2]*ast.FuncDecl{simple[0].fd, generic[0].fd})
		}
	}
	return
}

// twinBodyLines: the statements of a body, printed, with the generic container types spelled as the simple ones.
func twinBodyLines(fd *ast.FuncDecl) []string {
	var out []string
	var walk func(list []ast.Stmt)
	line := func(s string) {
		s = strings.ReplaceAll(s, "gen.Array", "[]any")
		s = strings.ReplaceAll(s, "gen.Object", "map[string]any")
		s = strings.ReplaceAll(s, "interface{}", "any")
		out = append(out, s)
	}
	var stmt func(s ast.Stmt)
	stmt = func(s ast.Stmt) {
		switch x := s.(type) {
		case *ast.BlockStmt:
			walk(x.List)
		case *ast.IfStmt:
			h := "if "
			if x.Init != nil {
				h += stmtString(x.Init) + "; "
			}
			line(h + types.ExprString(x.Cond))
			walk(x.Body.List)
			if x.Else != nil {
				line("else")
				stmt(x.Else)
			}
			line("end-if")
		case *ast.ForStmt:
			h := "for "
			if x.Init != nil {
				h += stmtString(x.Init)
			}
			h += "; "
			if x.Cond != nil {
				h += types.ExprString(x.Cond)
			}
			h += "; "
			if x.Post != nil {
				h += stmtString(x.Post)
			}
			line(h)
			walk(x.Body.List)
			line("end-for")
		case *ast.RangeStmt:
			k, v := "_", "_"
			if x.Key != nil {
				k = types.ExprString(x.Key)
			}
			if x.Value != nil {
				v = types.ExprString(x.Value)
			}
			line("range " + k + ", " + v + " " + x.Tok.String() + " " + types.ExprString(x.X))
			walk(x.Body.List)
			line("end-range")
		case *ast.SwitchStmt:
			h := "switch "
			if x.Tag != nil {
				h += types.ExprString(x.Tag)
			}
			line(h)
			walk(x.Body.List)
			line("end-switch")
		case *ast.TypeSwitchStmt:
			line("typeswitch " + stmtString(x.Assign))
			walk(x.Body.List)
			line("end-switch")
		case *ast.CaseClause:
			var l []string
			for _, e := range x.List {
				l = append(l, types.ExprString(e))
			}
			line("case " + strings.Join(l, ", "))
			walk(x.Body)
		case *ast.LabeledStmt:
			line("label " + x.Label.Name)
			stmt(x.Stmt)
		default:
			line(stmtString(s))
		}
	}
	walk = func(list []ast.Stmt) {
		for _, s := range list {
			stmt(s)
		}
	}
	walk(fd.Body.List)
	return out
}

func stmtString(s ast.Stmt) string {
	switch x := s.(type) {
	case *ast.AssignStmt:
		var l, r []string
		for _, e := range x.Lhs {
			l = append(l, types.ExprString(e))
		}
		for _, e := range x.Rhs {
			r = append(r, types.ExprString(e))
		}
		return strings.Join(l, ", ") + " " + x.Tok.String() + " " + strings.Join(r, ", ")
	case *ast.ExprStmt:
		return types.ExprString(x.X)
	case *ast.IncDecStmt:
		return types.ExprString(x.X) + x.Tok.String()
	case *ast.ReturnStmt:
		var r []string
		for _, e := range x.Results {
			r = append(r, types.ExprString(e))
		}
		return "return " + strings.Join(r, ", ")
	case *ast.BranchStmt:
		if x.Label != nil {
			return x.Tok.String() + " " + x.Label.Name
		}
		return x.Tok.String()
	case *ast.DeclStmt:
		if gd, ok := x.Decl.(*ast.GenDecl); ok {
			var parts []string
			for _, sp := range gd.Specs {
				if vs, ok := sp.(*ast.ValueSpec); ok {
					var n []string
					for _, id := range vs.Names {
						n = append(n, id.Name)
					}
					t := ""
					if vs.Type != nil {
						t = " " + types.ExprString(vs.Type)
					}
					var v []string
					for _, e := range vs.Values {
						v = append(v, types.ExprString(e))
					}
					parts = append(parts, "var "+strings.Join(n, ", ")+t+" = "+strings.Join(v, ", "))
				}
			}
			return strings.Join(parts, "; ")
		}
	case *ast.DeferStmt:
		return "defer " + types.ExprString(x.Call)
	case *ast.GoStmt:
		return "go " + types.ExprString(x.Call)
	case *ast.SendStmt:
		return types.ExprString(x.Chan) + " <- " + types.ExprString(x.Value)
	}
	return fmt.Sprintf("%T", s)
}

// genTwinAccepted: pairs whose bodies differ today, with the difference that was read.
var genTwinAccepted = map[string][2]string{}

// ruleGenTwins: B-gentwins.
func ruleGenTwins(prog *Program, rep *Report, floor int, rels ...string) {
	rep.Rules = append(rep.Rules, "B-gentwins: a function for simple containers ([]any, map[string]any) and the function of the same package and receiver whose signature differs only in taking the generic counterpart (gen.Array, gen.Object) have the same statements once the container types are spelled alike, or the pair is listed with the difference that was read ("+strings.Join(rels, ", ")+")")
	n := 0
	for _, rel := range rels {
		pairs, _ := genTwinPairs(prog, rel)
		for _, pr := range pairs {
			a, b := twinBodyLines(pr[0]), twinBodyLines(pr[1])
			n++
			key := fmt.Sprintf("%s.%s=%s", rel, pr[0].Name.Name, pr[1].Name.Name)
			if strings.Join(a, "\n") == strings.Join(b, "\n") {
				rep.Discharge("B-gentwins", key, prog.Pos(pr[0].Pos()), fmt.Sprintf("%d statements equal", len(a)))
				continue
			}
			onlyA, onlyB := diffLines(a, b)
			if acc, ok := genTwinAccepted[key]; ok && acc[0] == strings.Join(onlyA, " | ")+" // "+strings.Join(onlyB, " | ") {
				rep.Discharge("B-gentwins", key, prog.Pos(pr[0].Pos()), "accepted difference (read): "+acc[1])
				continue
			}
			rep.Violate(Finding{Rule: "B-gentwins", Key: key, Pos: prog.Pos(pr[1].Pos()), Msg: fmt.Sprintf("%s and its copy for generic data %s differ: only in the first [%s]; only in the copy [%s]", pr[0].Name.Name, pr[1].Name.Name, strings.Join(onlyA, " | "), strings.Join(onlyB, " | "))})
		}
	}
	rep.Eval(n)
	if n < floor {
		rep.Errorf("B-gentwins compared %d pairs (floor %d): anchors did not resolve", n, floor)
	}
}

// ---------------------------------------------------------------- D-globalwrite

// ruleGlobalWrite: package-level variables that are not maps (the option defaults, the default
// recomposer, flags) are configuration: user code may set them before use, the library itself only reads
// them. A library function that assigns one - directly, or through a local pointer taken with &G - makes
// every concurrent caller that reads the variable race with it and changes what later calls do.
func ruleGlobalWrite(prog *Program, rep *Report) {
	rep.Rules = append(rep.Rules, "D-globalwrite: outside init functions no function of a library package assigns a package-level variable of a library package (G = ..., G.f = ..., G[i] = ..., G.n++) or assigns through a local pointer that was set to &G or &G.f in the same function; sync.Pool, sync.Mutex and map variables are covered by D-put and D-global and are not examined here")
	ff, finfo, _, err := loadFixture(fixtureGlobalWrite)
	if err != nil {
		rep.Errorf("D-globalwrite: fixture does not type-check: %v", err)
		return
	}
	if fs, _ := globalWrites(ff, finfo, func(v *types.Var) bool { return v.Pkg() != nil && v.Parent() == v.Pkg().Scope() }); len(fs) != 3 {
		rep.Errorf("D-globalwrite: the positive-control fixture produced %d matches (want 3)", len(fs))
		return
	}
	rep.Discharge("D-globalwrite", "positive-control", "checker/rules_r7.go", "fixture: direct and aliased write reported, read through a pointer accepted")
	libPkgs := map[*types.Package]bool{}
	for _, pk := range prog.LibPkgs() {
		libPkgs[pk.Types] = true
	}
	isGlobal := func(v *types.Var) bool {
		if v.Pkg() == nil || !libPkgs[v.Pkg()] || v.Parent() != v.Pkg().Scope() {
			return false
		}
		if _, isMap := v.Type().Underlying().(*types.Map); isMap {
			return false
		}
		if nt, ok := v.Type().(*types.Named); ok && nt.Obj().Pkg() != nil && nt.Obj().Pkg().Path() == "sync" {
			return false
		}
		return true
	}
	total := 0
	for _, pk := range prog.LibPkgs() {
		rel := pk.Types.Name()
		sites, n := globalWrites(pk.Syntax, pk.TypesInfo, isGlobal)
		total += n
		for _, s := range sites {
			if why, ok := globalWriteAccepted[rel+"."+s.key]; ok {
				rep.Discharge("D-globalwrite", rel+"."+s.key, prog.Pos(s.pos), "accepted (read): "+why)
				continue
			}
			rep.Violate(Finding{Rule: "D-globalwrite", Key: rel + "." + s.key, Pos: prog.Pos(s.pos), Msg: s.msg})
		}
		rep.Discharge("D-globalwrite", rel, rel, fmt.Sprintf("%d assignments examined", n))
	}
	rep.Eval(total)
	if total < 500 {
		rep.Errorf("D-globalwrite examined %d assignments (floor 500): packages did not load", total)
	}
}

// globalWriteAccepted: writes of package-level variables that were read and are intended, by key.
var globalWriteAccepted = map[string]string{}

func globalWrites(files []*ast.File, info *types.Info, isGlobal func(*types.Var) bool) (sites []synSite, examined int) {
	globalOf := func(e ast.Expr) *types.Var {
		// the package-level variable an lvalue or &-operand is rooted in
		for {
			switch x := ast.Unparen(e).(type) {
			case *ast.Ident:
				if v, ok := info.Uses[x].(*types.Var); ok && isGlobal(v) {
					return v
				}
				return nil
			case *ast.SelectorExpr:
				if v, ok := info.Uses[x.Sel].(*types.Var); ok && !v.IsField() && isGlobal(v) {
					return v // pkg.G
				}
				e = x.X
			case *ast.IndexExpr:
				e = x.X
			case *ast.StarExpr:
				e = x.X
			default:
				return nil
			}
		}
	}
	for _, f := range files {
		for _, d := range f.Decls {
			fd, ok := d.(*ast.FuncDecl)
			if !ok || fd.Body == nil || (fd.Recv == nil && fd.Name.Name == "init") {
				continue
			}
			name := enclosingFuncName(f, fd.Pos())
			alias := map[types.Object]*types.Var{} // local pointer -> global it points into
			ast.Inspect(fd.Body, func(n ast.Node) bool {
				as, ok := n.(*ast.AssignStmt)
				if !ok {
					return true
				}
				for i, l := range as.Lhs {
					if i < len(as.Rhs) && len(as.Lhs) == len(as.Rhs) {
						if u, ok := ast.Unparen(as.Rhs[i]).(*ast.UnaryExpr); ok && u.Op == token.AND {
							if g := globalOf(u.X); g != nil {
								if id, ok := l.(*ast.Ident); ok {
									o := info.Defs[id]
									if o == nil {
										o = info.Uses[id]
									}
									if o != nil {
										alias[o] = g
									}
								}
							}
						}
					}
				}
				return true
			})
			report := func(pos token.Pos, g *types.Var, how string) {
				sites = append(sites, synSite{pos: pos, file: f, key: fmt.Sprintf("%s:writes:%s.%s", name, g.Pkg().Name(), g.Name()),
					msg: fmt.Sprintf("%s assigns the package-level variable %s.%s %s: concurrent callers that read it race with the write, and later calls see the changed value", name, g.Pkg().Name(), g.Name(), how)})
			}
			lhs := func(e ast.Expr, pos token.Pos) {
				examined++
				if g := globalOf(e); g != nil {
					report(pos, g, "directly")
					return
				}
				// through a local pointer: p.f = ..., *p = ..., p[i] = ...
				root := ast.Unparen(e)
				depth := 0
				for {
					switch x := root.(type) {
					case *ast.SelectorExpr:
						root = ast.Unparen(x.X)
						depth++
						continue
					case *ast.StarExpr:
						root = ast.Unparen(x.X)
						depth++
						continue
					case *ast.IndexExpr:
						root = ast.Unparen(x.X)
						depth++
						continue
					}
					break
				}
				if id, ok := root.(*ast.Ident); ok && depth > 0 {
					if g := alias[info.Uses[id]]; g != nil {
						report(pos, g, "through the local pointer "+id.Name)
					}
				}
			}
			ast.Inspect(fd.Body, func(n ast.Node) bool {
				switch x := n.(type) {
				case *ast.AssignStmt:
					if x.Tok == token.DEFINE {
						return true
					}
					for _, l := range x.Lhs {
						lhs(l, x.Pos())
					}
				case *ast.IncDecStmt:
					lhs(x.X, x.Pos())
				}
				return true
			})
		}
	}
	return
}

const fixtureGlobalWrite = `package fixture

type options struct {
	key  string
	omit bool
}

var defaults = options{key: "type"}
var counter int

func read() string {
	o := &defaults
	return o.key
}

func direct() {
	counter++
}

func aliased(k string) {
	ao := &defaults
	ao.key, ao.omit = k, true
}
`

// ---------------------------------------------------------------- E-ifaceeq

// matchIfaceEq: `a == b` (or !=) with both operands of interface type panics when the two dynamic types
// are equal and not comparable ([]any, map[string]any). Data values are `any`, so a direct comparison of two
// data values is a panic waiting for a container operand; the evaluator's helper that guards by kind is the
// only place allowed to compare.
func matchIfaceEq(files []*ast.File, info *types.Info) (sites []synSite, examined int) {
	isData := func(e ast.Expr) bool {
		tv, ok := info.Types[e]
		if !ok || tv.Type == nil || tv.IsNil() || tv.Value != nil {
			return false
		}
		it, ok := tv.Type.Underlying().(*types.Interface)
		return ok && it.NumMethods() == 0 // any: values of the data, not Frag / error / Node interfaces
	}
	for _, f := range files {
		for _, d := range f.Decls {
			fd, ok := d.(*ast.FuncDecl)
			if !ok || fd.Body == nil {
				continue
			}
			// guarded: inside a type switch or comma-ok assertion on one of the operands nothing is known
			// syntactically, so the rule accepts a comparison only where both operands were narrowed away
			// (then they are no longer of type any); a function that contains a comparison of two any values
			// must be listed as a guarded helper
			ast.Inspect(fd.Body, func(n ast.Node) bool {
				be, ok := n.(*ast.BinaryExpr)
				if !ok || (be.Op != token.EQL && be.Op != token.NEQ) {
					return true
				}
				if !isData(be.X) || !isData(be.Y) {
					return true
				}
				examined++
				name := enclosingFuncName(f, fd.Pos())
				sites = append(sites, synSite{pos: be.Pos(), file: f, key: fmt.Sprintf("%s:iface-compare:%s", name, types.ExprString(be)),
					msg: fmt.Sprintf("%s compares two values of type any with %s (%s): when both hold a slice or a map the comparison panics (comparing uncomparable type)", name, be.Op, types.ExprString(be))})
				return true
			})
		}
	}
	return
}

const fixtureIfaceEq = `package fixture

func in(left any, list []any) bool {
	for _, ev := range list {
		if left == ev {
			return true
		}
	}
	return left == nil
}
`

// ifaceEqAccepted: comparisons of two any values that were read: the function establishes comparability first.
var ifaceEqAccepted = map[string]string{
	"jp.same:iface-compare:left == right": "the helper itself: it returns false before the comparison when the left operand's dynamic type is not comparable (operands of different dynamic types compare false without a panic); M-truth evaluates it cell by cell",
}

func ruleIfaceEq(prog *Program, rep *Report, rels ...string) {
	rep.Rules = append(rep.Rules, "E-ifaceeq: no == or != has two operands of static type any (nil and constants excepted) in "+strings.Join(rels, ", ")+", except in the listed helpers that establish comparability first: a comparison of two data values panics when both are slices or both are maps")
	ff, finfo, _, err := loadFixture(fixtureIfaceEq)
	if err != nil {
		rep.Errorf("E-ifaceeq: fixture does not type-check: %v", err)
		return
	}
	if fs, _ := matchIfaceEq(ff, finfo); len(fs) != 1 {
		rep.Errorf("E-ifaceeq: the positive-control fixture produced %d matches (want 1)", len(fs))
		return
	}
	rep.Discharge("E-ifaceeq", "positive-control", "checker/rules_r7.go", "fixture matched once")
	for _, rel := range rels {
		pk := prog.Pkg(rel)
		if pk == nil {
			rep.Errorf("E-ifaceeq: package %s not loaded", rel)
			continue
		}
		sites, _ := matchIfaceEq(pk.Syntax, pk.TypesInfo)
		acc := 0
		for _, s := range sites {
			if why, ok := ifaceEqAccepted[rel+"."+s.key]; ok {
				rep.Discharge("E-ifaceeq", rel+"."+s.key, prog.Pos(s.pos), "accepted (read): "+why)
				acc++
				continue
			}
			rep.Violate(Finding{Rule: "E-ifaceeq", Key: rel + "." + s.key, Pos: prog.Pos(s.pos), Msg: s.msg})
		}
		rep.Eval(len(sites))
		rep.Discharge("E-ifaceeq", rel, rel, fmt.Sprintf("%d comparisons of two any values, %d accepted", len(sites), acc))
	}
}

// ---------------------------------------------------------------- M-flagconsist

// matchFlagConsist: a function that calls one worker several times and passes a boolean literal in the same
// argument position every time means one thing by it (MustRemoveOne: "stop after the first"); a call whose
// literal differs from the others in the same function is a copy from the sibling entry.
func matchFlagConsist(files []*ast.File, info *types.Info) (sites []synSite, examined int) {
	for _, f := range files {
		for _, d := range f.Decls {
			fd, ok := d.(*ast.FuncDecl)
			if !ok || fd.Body == nil {
				continue
			}
			type use struct {
				call *ast.CallExpr
				val  string
			}
			byCallee := map[types.Object]map[int][]use{}
			allLit := map[types.Object]map[int]bool{}
			ast.Inspect(fd.Body, func(n ast.Node) bool {
				call, ok := n.(*ast.CallExpr)
				if !ok {
					return true
				}
				var callee types.Object
				switch fn := ast.Unparen(call.Fun).(type) {
				case *ast.Ident:
					callee = info.Uses[fn]
				case *ast.SelectorExpr:
					callee = info.Uses[fn.Sel]
				}
				if _, isFn := callee.(*types.Func); !isFn {
					return true
				}
				for i, a := range call.Args {
					lit := ""
					if id, ok := ast.Unparen(a).(*ast.Ident); ok && (id.Name == "true" || id.Name == "false") {
						if _, isConst := info.Uses[id].(*types.Const); isConst {
							lit = id.Name
						}
					}
					if byCallee[callee] == nil {
						byCallee[callee] = map[int][]use{}
						allLit[callee] = map[int]bool{}
					}
					if _, seen := allLit[callee][i]; !seen {
						allLit[callee][i] = true
					}
					if lit == "" {
						allLit[callee][i] = false
						continue
					}
					byCallee[callee][i] = append(byCallee[callee][i], use{call, lit})
				}
				return true
			})
			for callee, pos := range byCallee {
				for i, uses := range pos {
					if len(uses) < 2 || !allLit[callee][i] {
						continue
					}
					examined++
					cnt := map[string]int{}
					for _, u := range uses {
						cnt[u.val]++
					}
					if len(cnt) < 2 {
						continue
					}
					minor := "true"
					if cnt["false"] < cnt["true"] {
						minor = "false"
					}
					if cnt["true"] == cnt["false"] {
						continue // no majority: a function that uses both meanings
					}
					for _, u := range uses {
						if u.val == minor {
							name := enclosingFuncName(f, fd.Pos())
							sites = append(sites, synSite{pos: u.call.Pos(), file: f, key: fmt.Sprintf("%s:%s:arg%d=%s", name, callee.Name(), i, minor),
								msg: fmt.Sprintf("%s passes %s as argument %d of %s here and %s in its %d other calls of %s", name, minor, i+1, callee.Name(), map[string]string{"true": "false", "false": "true"}[minor], len(uses)-cnt[minor], callee.Name())})
						}
					}
				}
			}
		}
	}
	return
}

const fixtureFlagConsist = `package fixture

func modify(data any, f func(any) any, one bool) any { return data }

func removeOne(data any, k int) any {
	switch k {
	case 0:
		return modify(data, nil, false)
	case 1:
		return modify(data, nil, true)
	}
	return modify(data, nil, true)
}

func remove(data any, k int) any {
	if k == 0 {
		return modify(data, nil, false)
	}
	return modify(data, nil, false)
}
`

func ruleFlagConsist(prog *Program, rep *Report, floor int, rels ...string) {
	rep.Rules = append(rep.Rules, "M-flagconsist: a function that calls one function three or more times with a boolean literal in the same argument position passes the same literal every time, or uses both equally often: the one call that differs was copied from the sibling entry ("+strings.Join(rels, ", ")+")")
	runSynRule(prog, rep, "M-flagconsist", rels, matchFlagConsist, fixtureFlagConsist, 1, floor)
}

// ---------------------------------------------------------------- P-callorder

// matchCallOrder: two functions of a package that are applied one to the result of the other (G(F(x)), or
// v := F(x); v = G(v)) are applied in that order wherever both are applied: a copy that composes them the
// other way round feeds the second the input the first was written for.
func matchCallOrder(files []*ast.File, info *types.Info) (sites []synSite, examined int) {
	type edge struct{ from, to *types.Func }
	type at struct {
		pos  token.Pos
		file *ast.File
	}
	edges := map[edge][]at{}
	pkgFunc := func(call *ast.CallExpr) *types.Func {
		id, ok := ast.Unparen(call.Fun).(*ast.Ident)
		if !ok {
			return nil
		}
		fn, _ := info.Uses[id].(*types.Func)
		if fn == nil || fn.Pkg() == nil || fn.Parent() != fn.Pkg().Scope() {
			return nil
		}
		return fn
	}
	for _, f := range files {
		for _, d := range f.Decls {
			fd, ok := d.(*ast.FuncDecl)
			if !ok || fd.Body == nil {
				continue
			}
			record := func(call *ast.CallExpr, origin map[types.Object]*types.Func) {
				g := pkgFunc(call)
				if g == nil {
					return
				}
				for _, a := range call.Args {
					var from *types.Func
					switch x := ast.Unparen(a).(type) {
					case *ast.CallExpr:
						from = pkgFunc(x)
					case *ast.Ident:
						from = origin[info.Uses[x]]
					}
					if from != nil && from != g {
						edges[edge{from, g}] = append(edges[edge{from, g}], at{call.Pos(), f})
					}
				}
			}
			// origins flow along straight-line code only: a nested block starts from a copy, and what it assigns
			// is unknown afterwards (a value set in one branch says nothing about the sibling branch)
			var block func(list []ast.Stmt, origin map[types.Object]*types.Func)
			exprs := func(n ast.Node, origin map[types.Object]*types.Func) {
				if n == nil {
					return
				}
				ast.Inspect(n, func(k ast.Node) bool {
					switch x := k.(type) {
					case *ast.FuncLit:
						block(x.Body.List, map[types.Object]*types.Func{})
						return false
					case *ast.CallExpr:
						record(x, origin)
					}
					return true
				})
			}
			assigned := func(n ast.Node, origin map[types.Object]*types.Func) {
				ast.Inspect(n, func(k ast.Node) bool {
					if as, ok := k.(*ast.AssignStmt); ok {
						for _, l := range as.Lhs {
							if id, ok := l.(*ast.Ident); ok {
								if o := info.Uses[id]; o != nil {
									delete(origin, o)
								}
							}
						}
					}
					return true
				})
			}
			copyOf := func(m map[types.Object]*types.Func) map[types.Object]*types.Func {
				c := map[types.Object]*types.Func{}
				for k, v := range m {
					c[k] = v
				}
				return c
			}
			block = func(list []ast.Stmt, origin map[types.Object]*types.Func) {
				for _, st := range list {
					switch x := st.(type) {
					case *ast.AssignStmt:
						for _, r := range x.Rhs {
							exprs(r, origin)
						}
						if len(x.Lhs) == len(x.Rhs) {
							for i, l := range x.Lhs {
								id, ok := l.(*ast.Ident)
								if !ok {
									continue
								}
								o := info.Defs[id]
								if o == nil {
									o = info.Uses[id]
								}
								if o == nil {
									continue
								}
								delete(origin, o)
								if c, ok := ast.Unparen(x.Rhs[i]).(*ast.CallExpr); ok {
									if fn := pkgFunc(c); fn != nil {
										origin[o] = fn
									}
								}
							}
						} else {
							assigned(x, origin)
						}
					case *ast.BlockStmt:
						block(x.List, copyOf(origin))
						assigned(x, origin)
					case *ast.IfStmt:
						if x.Init != nil {
							block([]ast.Stmt{x.Init}, origin)
						}
						exprs(x.Cond, origin)
						block(x.Body.List, copyOf(origin))
						if x.Else != nil {
							block([]ast.Stmt{x.Else}, copyOf(origin))
						}
						assigned(x, origin)
					case *ast.ForStmt, *ast.RangeStmt, *ast.SwitchStmt, *ast.TypeSwitchStmt, *ast.SelectStmt:
						assigned(x, origin) // a loop body may run after itself
						var body *ast.BlockStmt
						switch y := x.(type) {
						case *ast.ForStmt:
							body = y.Body
						case *ast.RangeStmt:
							exprs(y.X, origin)
							body = y.Body
						case *ast.SwitchStmt:
							exprs(y.Tag, origin)
							body = y.Body
						case *ast.TypeSwitchStmt:
							body = y.Body
						case *ast.SelectStmt:
							body = y.Body
						}
						for _, bs := range body.List {
							switch c := bs.(type) {
							case *ast.CaseClause:
								block(c.Body, copyOf(origin))
							case *ast.CommClause:
								block(c.Body, copyOf(origin))
							default:
								block([]ast.Stmt{bs}, copyOf(origin))
							}
						}
					case *ast.LabeledStmt:
						block([]ast.Stmt{x.Stmt}, origin)
					default:
						exprs(st, origin)
					}
				}
			}
			block(fd.Body.List, map[types.Object]*types.Func{})
		}
	}
	for e, ats := range edges {
		examined++
		rev := edges[edge{e.to, e.from}]
		if len(rev) == 0 || len(rev) <= len(ats) {
			// report the minority direction only (and, on a tie, both)
			if len(rev) == 0 || len(rev) < len(ats) {
				continue
			}
		}
		for _, a := range ats {
			name := enclosingFuncName(a.file, a.pos)
			sites = append(sites, synSite{pos: a.pos, file: a.file, key: fmt.Sprintf("%s:%s-then-%s", name, e.from.Name(), e.to.Name()),
				msg: fmt.Sprintf("%s applies %s to the result of %s; elsewhere in the package (%d places) %s is applied to the result of %s", name, e.to.Name(), e.from.Name(), len(rev), e.from.Name(), e.to.Name())})
		}
	}
	return
}

const fixtureCallOrder = `package fixture

type eq struct{ l, r *eq }

func correct(e *eq) *eq { return e }
func reduce(e *eq, p *eq) *eq { return e }
func read() *eq { return nil }

func a() *eq {
	e := correct(read())
	e = reduce(e, nil)
	return e
}

func b() *eq {
	return reduce(correct(read()), nil)
}

func c() *eq {
	e := reduce(read(), nil)
	e = correct(e)
	return e
}
`

func ruleCallOrder(prog *Program, rep *Report, floor int, rels ...string) {
	rep.Rules = append(rep.Rules, "P-callorder: when two package-level functions are composed (one applied to the other's result, directly or through a local variable) they are composed in the same order everywhere in the package; the minority order is reported ("+strings.Join(rels, ", ")+")")
	runSynRule(prog, rep, "P-callorder", rels, matchCallOrder, fixtureCallOrder, 1, floor)
}

// ---------------------------------------------------------------- S-gettwin

// ruleGetTwins: asm's get and getall are one function up to the JSONPath method that produces the result
// (First / Get): which data the path is applied to - the optional second argument, the local value for an
// @-path, the root otherwise - is decided by the same tests in the same order in both.
func ruleGetTwins(prog *Program, rep *Report) {
	rep.Rules = append(rep.Rules, "S-gettwin: the bodies of asm.get / asm.getall, of asm.set / asm.setall and of asm's del / delall have the same statements once the function's own name, the name of its result, string literals and the jp.Expr method that does the work (First / Get, SetOne / Set, DelOne / Del) are replaced by placeholders - both choose the data the path is applied to by the same tests in the same order - and each function uses one method of its family in all its arms")
	pk := prog.Pkg("asm")
	if pk == nil {
		rep.Errorf("S-gettwin: package asm not loaded")
		return
	}
	for _, pair := range []struct {
		a, b   string
		family string
	}{{"get", "getall", "First|Get"}, {"set", "setall", "SetOne|Set"}, {"delEval", "delall", "DelOne|Del"}} {
		lines := map[string][]string{}
		pos := map[string]token.Pos{}
		selRe := regexp.MustCompile(`\.(` + pair.family + `)\(`)
		ok := true
		for _, name := range []string{pair.a, pair.b} {
			fd, _ := prog.FuncDecl(Func(pk, name))
			if fd == nil {
				rep.Errorf("S-gettwin: asm.%s not found", name)
				ok = false
				break
			}
			res := ""
			if fd.Type.Results != nil && len(fd.Type.Results.List) == 1 && len(fd.Type.Results.List[0].Names) == 1 {
				res = fd.Type.Results.List[0].Names[0].Name
			}
			var out []string
			used := map[string]bool{}
			for _, l := range twinBodyLines(fd) {
				l = regexp.MustCompile(`"[^"]*"`).ReplaceAllString(l, "STR")
				l = regexp.MustCompile(`\b`+name+`\b`).ReplaceAllString(l, "NAME")
				if res != "" {
					l = regexp.MustCompile(`\b`+res+`\b`).ReplaceAllString(l, "RES")
				}
				for _, m := range selRe.FindAllStringSubmatch(l, -1) {
					used[m[1]] = true
				}
				l = selRe.ReplaceAllString(l, ".SEL(")
				out = append(out, l)
			}
			lines[name] = out
			pos[name] = fd.Pos()
			var us []string
			for u := range used {
				us = append(us, u)
			}
			sort.Strings(us)
			if len(us) == 1 {
				rep.Discharge("S-gettwin", "asm."+name+":one-method", prog.Pos(fd.Pos()), "every arm calls "+us[0])
			} else {
				rep.Violate(Finding{Rule: "S-gettwin", Key: "asm." + name + ":one-method", Pos: prog.Pos(fd.Pos()), Msg: fmt.Sprintf("asm.%s calls %v in its arms: the root, the local and the supplied data are not treated by one method (all / first only)", name, us)})
			}
		}
		if !ok {
			continue
		}
		rep.Eval(len(lines[pair.a]))
		if len(lines[pair.a]) < 6 {
			rep.Errorf("S-gettwin: asm.%s has %d statements (floor 6)", pair.a, len(lines[pair.a]))
		}
		key := "asm." + pair.a + "=" + pair.b
		if strings.Join(lines[pair.a], "\n") == strings.Join(lines[pair.b], "\n") {
			rep.Discharge("S-gettwin", key, prog.Pos(pos[pair.a]), fmt.Sprintf("%d statements equal up to the method that does the work", len(lines[pair.a])))
			continue
		}
		a, b := diffLines(lines[pair.a], lines[pair.b])
		first := ""
		for i := range lines[pair.a] {
			if i >= len(lines[pair.b]) || lines[pair.a][i] != lines[pair.b][i] {
				first = lines[pair.a][i]
				break
			}
		}
		rep.Violate(Finding{Rule: "S-gettwin", Key: key, Pos: prog.Pos(pos[pair.a]), Msg: fmt.Sprintf("asm.%s and asm.%s no longer choose their data alike: first difference at `%s`; only in %s %v, only in %s %v", pair.a, pair.b, first, pair.a, a, pair.b, b)})
	}
}

// ---------------------------------------------------------------- K-fallbacktwin

// A function that starts by handing all its parameters, unchanged, to another function of the same signature
// under some condition (`if !rv.CanAddr() { return reflectEmbed(rv, val, opt) }`) has a variant of itself for
// that case. The two are written as copies: the statements they share must come in the same order in both,
// and the statements only one of them has must be the ones that were read and listed here.
var fallbackTwinAccepted = map[string][2]string{
	"alt.reflectStruct=reflectEmbed": {
		"addr := rv.UnsafeAddr() | if v, fv, omit := fi.value(fi, rv, addr); !omit // if v, fv, omit := fi.ivalue(fi, rv, 0); !omit",
		"the addressable variant reads fields through their offsets from the struct's address, the other through reflection; everything else (create key first, promoted fields through nil pointers skipped, nesting, member omission) is the same",
	},
}

func ruleFallbackTwins(prog *Program, rep *Report, floor int, rels ...string) {
	rep.Rules = append(rep.Rules, "K-fallbacktwin: a function whose first statement hands all its parameters unchanged to a function of the same signature (`if c { return G(params...) }`) and that function G share their remaining statements in the same order; statements only one of them has are listed with the reason ("+strings.Join(rels, ", ")+")")
	n := 0
	for _, rel := range rels {
		pk := prog.Pkg(rel)
		if pk == nil {
			rep.Errorf("K-fallbacktwin: package %s not loaded", rel)
			continue
		}
		info := pk.TypesInfo
		decls := map[types.Object]*ast.FuncDecl{}
		for _, f := range pk.Syntax {
			for _, d := range f.Decls {
				if fd, ok := d.(*ast.FuncDecl); ok && fd.Body != nil {
					decls[info.Defs[fd.Name]] = fd
				}
			}
		}
		for _, f := range pk.Syntax {
			for _, d := range f.Decls {
				fd, ok := d.(*ast.FuncDecl)
				if !ok || fd.Body == nil || len(fd.Body.List) < 2 || fd.Type.Params == nil {
					continue
				}
				is, ok := fd.Body.List[0].(*ast.IfStmt)
				if !ok || is.Else != nil || len(is.Body.List) != 1 {
					continue
				}
				ret, ok := is.Body.List[0].(*ast.ReturnStmt)
				if !ok || len(ret.Results) != 1 {
					continue
				}
				call, ok := ast.Unparen(ret.Results[0]).(*ast.CallExpr)
				if !ok {
					continue
				}
				var callee types.Object
				switch fn := call.Fun.(type) {
				case *ast.Ident:
					callee = info.Uses[fn]
				case *ast.SelectorExpr:
					callee = info.Uses[fn.Sel]
				}
				gd := decls[callee]
				if gd == nil || gd == fd {
					continue
				}
				var params []types.Object
				for _, p := range fd.Type.Params.List {
					for _, nm := range p.Names {
						params = append(params, info.Defs[nm])
					}
				}
				if len(params) == 0 || len(params) != len(call.Args) {
					continue
				}
				same := true
				for i, a := range call.Args {
					id, ok := ast.Unparen(a).(*ast.Ident)
					if !ok || info.Uses[id] != params[i] {
						same = false
					}
				}
				if !same {
					continue
				}
				n++
				key := fmt.Sprintf("%s.%s=%s", rel, fd.Name.Name, gd.Name.Name)
				rest := &ast.FuncDecl{Name: fd.Name, Type: fd.Type, Body: &ast.BlockStmt{List: fd.Body.List[1:]}}
				a, b := twinBodyLines(rest), twinBodyLines(gd)
				onlyA, onlyB := diffLines(a, b)
				inA, inB := map[string]bool{}, map[string]bool{}
				for _, l := range onlyA {
					inA[l] = true
				}
				for _, l := range onlyB {
					inB[l] = true
				}
				var ca, cb []string
				for _, l := range a {
					if !inA[l] {
						ca = append(ca, l)
					}
				}
				for _, l := range b {
					if !inB[l] {
						cb = append(cb, l)
					}
				}
				diffText := strings.Join(onlyA, " | ") + " // " + strings.Join(onlyB, " | ")
				acc, listed := fallbackTwinAccepted[key]
				switch {
				case strings.Join(ca, "\n") != strings.Join(cb, "\n"):
					first := ""
					for i := range ca {
						if i >= len(cb) || ca[i] != cb[i] {
							first = ca[i]
							break
						}
					}
					rep.Violate(Finding{Rule: "K-fallbacktwin", Key: key + ":order", Pos: prog.Pos(gd.Pos()), Msg: fmt.Sprintf("%s and its variant %s no longer run their shared statements in the same order (first difference at `%s`)", fd.Name.Name, gd.Name.Name, first)})
				case len(onlyA)+len(onlyB) == 0:
					rep.Discharge("K-fallbacktwin", key, prog.Pos(fd.Pos()), fmt.Sprintf("%d statements equal", len(ca)))
				case listed && acc[0] == diffText:
					rep.Discharge("K-fallbacktwin", key, prog.Pos(fd.Pos()), fmt.Sprintf("%d shared statements in the same order; accepted difference (read): %s", len(ca), acc[1]))
				default:
					rep.Violate(Finding{Rule: "K-fallbacktwin", Key: key, Pos: prog.Pos(gd.Pos()), Msg: fmt.Sprintf("%s and its variant %s differ in statements that were not read: only in %s [%s]; only in %s [%s]", fd.Name.Name, gd.Name.Name, fd.Name.Name, strings.Join(onlyA, " | "), gd.Name.Name, strings.Join(onlyB, " | "))})
				}
			}
		}
	}
	rep.Eval(n)
	if n < floor {
		rep.Errorf("K-fallbacktwin found %d function pairs (floor %d)", n, floor)
	}
}

// ---------------------------------------------------------------- M-arity

// ruleOpArity: the script evaluator removes an operator's operands from the evaluation stack by the count
// recorded in the operator's table entry (copy(s[i+1:], s[i+count+1:])) while the operator's arm reads one or
// two operands. The count in the table must be the number of operands the arm reads: a larger count swallows
// the value that follows the operand (the right operand of the enclosing operator), a smaller one leaves an
// operand behind.
func orZero(s string) string {
	if s == "" {
		return "(zero)"
	}
	return s
}

func ruleOpArity(prog *Program, rep *Report) {
	rep.Rules = append(rep.Rules, "M-arity: for every operator of the script evaluator the operand count in its table entry equals the number of operands its arm of the evaluator reads (2 when the arm mentions the right operand, else 1): the count is what the evaluator removes from the stack after the arm; operators that share one clause of the evaluator (two spellings of one operator) have table entries that agree in every numeric and boolean field")
	pk := prog.Pkg("jp")
	if pk == nil {
		rep.Errorf("M-arity: package jp not loaded")
		return
	}
	info := pk.TypesInfo
	// the evaluator: a function with a switch whose case expressions are V.f for package-level variables V of one
	// pointer-to-struct type, and that shifts the stack with copy(..., o.g ...)
	type armInfo struct {
		readsRight bool
		pos        token.Pos
	}
	arms := map[types.Object]armInfo{}
	var groups [][]types.Object // operators that share one clause of the evaluator
	var tagField types.Object
	var cntField *types.Var
	var evalPos token.Pos
	for _, f := range pk.Syntax {
		for _, d := range f.Decls {
			fd, ok := d.(*ast.FuncDecl)
			if !ok || fd.Body == nil {
				continue
			}
			ast.Inspect(fd.Body, func(n ast.Node) bool {
				sw, ok := n.(*ast.SwitchStmt)
				if !ok || sw.Tag == nil {
					return true
				}
				tagSel, ok := ast.Unparen(sw.Tag).(*ast.SelectorExpr)
				if !ok {
					return true
				}
				local := map[types.Object]armInfo{}
				for _, c := range sw.Body.List {
					cc := c.(*ast.CaseClause)
					for _, e := range cc.List {
						sel, ok := ast.Unparen(e).(*ast.SelectorExpr)
						if !ok || sel.Sel.Name != tagSel.Sel.Name {
							continue
						}
						id, ok := ast.Unparen(sel.X).(*ast.Ident)
						if !ok {
							continue
						}
						v, ok := info.Uses[id].(*types.Var)
						if !ok || v.Parent() != pk.Types.Scope() {
							continue
						}
						local[v] = armInfo{pos: cc.Pos()}
					}
				}
				if len(local) < 10 {
					return true
				}
				// the operand variables: the two locals assigned from stack[i+1] and stack[i+2] before the switch
				var rightObj types.Object
				ast.Inspect(fd.Body, func(k ast.Node) bool {
					as, ok := k.(*ast.AssignStmt)
					if !ok || len(as.Lhs) != 1 || len(as.Rhs) != 1 {
						return true
					}
					ix, ok := ast.Unparen(as.Rhs[0]).(*ast.IndexExpr)
					if !ok {
						return true
					}
					be, ok := ast.Unparen(ix.Index).(*ast.BinaryExpr)
					if !ok || be.Op != token.ADD {
						return true
					}
					if tv, ok := info.Types[be.Y]; ok && tv.Value != nil && tv.Value.ExactString() == "2" {
						if id, ok := as.Lhs[0].(*ast.Ident); ok {
							rightObj = info.Uses[id]
						}
					}
					return true
				})
				if rightObj == nil {
					return true
				}
				for _, c := range sw.Body.List {
					cc := c.(*ast.CaseClause)
					reads := false
					for _, s := range cc.Body {
						ast.Inspect(s, func(k ast.Node) bool {
							if id, ok := k.(*ast.Ident); ok && info.Uses[id] == rightObj {
								reads = true
							}
							return true
						})
					}
					var grp []types.Object
					for _, e := range cc.List {
						if sel, ok := ast.Unparen(e).(*ast.SelectorExpr); ok {
							if id, ok := ast.Unparen(sel.X).(*ast.Ident); ok {
								if v, ok := info.Uses[id].(*types.Var); ok {
									if _, in := local[v]; in {
										arms[v] = armInfo{readsRight: reads, pos: cc.Pos()}
										grp = append(grp, v)
										tagField = info.Uses[sel.Sel]
									}
								}
							}
						}
					}
					if len(grp) > 1 {
						groups = append(groups, grp)
					}
				}
				evalPos = fd.Pos()
				// the count field: a field of the tag's base read inside a copy(...) call of this function
				ast.Inspect(fd.Body, func(k ast.Node) bool {
					call, ok := k.(*ast.CallExpr)
					if !ok {
						return true
					}
					if id, ok := call.Fun.(*ast.Ident); !ok || id.Name != "copy" {
						return true
					}
					ast.Inspect(call, func(m ast.Node) bool {
						if sel, ok := m.(*ast.SelectorExpr); ok && types.ExprString(sel.X) == types.ExprString(tagSel.X) {
							if fv, ok := info.Uses[sel.Sel].(*types.Var); ok && fv.IsField() {
								cntField = fv
							}
						}
						return true
					})
					return true
				})
				return false
			})
		}
	}
	if len(arms) < 10 || cntField == nil {
		rep.Errorf("M-arity: evaluator switch or operand-count field not found (%d arms)", len(arms))
		return
	}
	// the table entries: package-level V = &T{... cnt: N ...}
	n := 0
	scalars := map[types.Object]map[string]string{}
	names := map[types.Object]string{}
	for _, f := range pk.Syntax {
		for _, d := range f.Decls {
			gd, ok := d.(*ast.GenDecl)
			if !ok || gd.Tok != token.VAR {
				continue
			}
			for _, sp := range gd.Specs {
				vs := sp.(*ast.ValueSpec)
				for i, nm := range vs.Names {
					if i >= len(vs.Values) {
						continue
					}
					v := info.Defs[nm]
					arm, has := arms[v]
					if !has {
						continue
					}
					var cl *ast.CompositeLit
					switch x := ast.Unparen(vs.Values[i]).(type) {
					case *ast.UnaryExpr:
						cl, _ = x.X.(*ast.CompositeLit)
					case *ast.CompositeLit:
						cl = x
					}
					if cl == nil {
						continue
					}
					cnt := int64(0) // zero value when the field is not given
					scal := map[string]string{}
					for _, el := range cl.Elts {
						kv, ok := el.(*ast.KeyValueExpr)
						if !ok {
							continue
						}
						if id, ok := kv.Key.(*ast.Ident); ok && info.Uses[id] != tagField {
							if tv, ok := info.Types[kv.Value]; ok && tv.Value != nil && tv.Value.Kind() != constant.String {
								scal[id.Name] = tv.Value.ExactString()
							}
						}
						if id, ok := kv.Key.(*ast.Ident); ok && info.Uses[id] == cntField {
							if tv, ok := info.Types[kv.Value]; ok && tv.Value != nil {
								cnt, _ = constant.Int64Val(tv.Value)
							}
						}
					}
					scalars[v] = scal
					names[v] = nm.Name
					n++
					want := int64(1)
					if arm.readsRight {
						want = 2
					}
					key := "jp.op:" + nm.Name
					if cnt == want {
						rep.Discharge("M-arity", key, prog.Pos(nm.Pos()), fmt.Sprintf("count %d, the arm reads %d operand(s)", cnt, want))
					} else {
						rep.Violate(Finding{Rule: "M-arity", Key: key, Pos: prog.Pos(nm.Pos()), Msg: fmt.Sprintf("operator %s is registered with operand count %d but its arm of the evaluator (%s) reads %d operand(s): after the arm the evaluator removes %d values from the stack", nm.Name, cnt, prog.Pos(arm.pos), want, cnt)})
					}
				}
			}
		}
	}
	_ = evalPos
	// operators that share one clause of the evaluator are one operator under two spellings (has / exists): their
	// table entries agree in every numeric and boolean field (precedence, operand count, flags)
	for _, g := range groups {
		for _, o := range g[1:] {
			a, b := scalars[g[0]], scalars[o]
			if a == nil || b == nil {
				continue
			}
			key := "jp.op:" + names[g[0]] + "=" + names[o]
			var diff []string
			for k, v := range a {
				if b[k] != v {
					diff = append(diff, fmt.Sprintf("%s: %s vs %s", k, v, orZero(b[k])))
				}
			}
			for k, v := range b {
				if _, ok := a[k]; !ok {
					diff = append(diff, fmt.Sprintf("%s: %s vs %s", k, "(zero)", v))
				}
			}
			sort.Strings(diff)
			if len(diff) == 0 {
				rep.Discharge("M-arity", key, prog.Pos(o.Pos()), "one evaluator clause, equal table entries")
			} else {
				rep.Violate(Finding{Rule: "M-arity", Key: key, Pos: prog.Pos(o.Pos()), Msg: fmt.Sprintf("operators %s and %s are evaluated by one clause of the evaluator but their table entries differ (%s): the two spellings of one operator group differently or take different operands", names[g[0]], names[o], strings.Join(diff, "; "))})
			}
		}
	}
	// every other switch over the operator code whose default clause handles two operands (it mentions both
	// self-typed pointer fields of its receiver, e.left and e.right) lists each one-operand operator in a clause
	// of its own: one that falls to the default gets a second operand it does not have
	for _, f := range pk.Syntax {
		for _, d := range f.Decls {
			fd, ok := d.(*ast.FuncDecl)
			if !ok || fd.Body == nil || fd.Recv == nil || len(fd.Recv.List) != 1 || len(fd.Recv.List[0].Names) != 1 {
				continue
			}
			recv := info.Defs[fd.Recv.List[0].Names[0]]
			if recv == nil {
				continue
			}
			// self-typed pointer fields of the receiver's struct
			var selfFields []string
			rt := recv.Type()
			if p, ok := rt.(*types.Pointer); ok {
				if st, ok := p.Elem().Underlying().(*types.Struct); ok {
					for i := 0; i < st.NumFields(); i++ {
						if types.Identical(st.Field(i).Type(), rt) {
							selfFields = append(selfFields, st.Field(i).Name())
						}
					}
				}
			}
			if len(selfFields) != 2 {
				continue
			}
			ast.Inspect(fd.Body, func(nd ast.Node) bool {
				sw, ok := nd.(*ast.SwitchStmt)
				if !ok || sw.Tag == nil {
					return true
				}
				tagSel, ok := ast.Unparen(sw.Tag).(*ast.SelectorExpr)
				if !ok || info.Uses[tagSel.Sel] != tagField {
					return true
				}
				listed := map[types.Object]bool{}
				var def *ast.CaseClause
				for _, c := range sw.Body.List {
					cc := c.(*ast.CaseClause)
					if cc.List == nil {
						def = cc
						continue
					}
					for _, e := range cc.List {
						if sel, ok := ast.Unparen(e).(*ast.SelectorExpr); ok {
							if id, ok := ast.Unparen(sel.X).(*ast.Ident); ok {
								listed[info.Uses[id]] = true
							}
						}
					}
				}
				if def == nil || len(listed) < 2 {
					return true
				}
				both := 0
				for _, fn := range selfFields {
					found := false
					for _, st := range def.Body {
						ast.Inspect(st, func(k ast.Node) bool {
							if sel, ok := k.(*ast.SelectorExpr); ok && sel.Sel.Name == fn {
								if id, ok := ast.Unparen(sel.X).(*ast.Ident); ok && info.Uses[id] == recv {
									found = true
								}
							}
							return true
						})
					}
					if found {
						both++
					}
				}
				if both != 2 {
					return true
				}
				name := enclosingFuncName(f, fd.Pos())
				for v, sc := range scalars {
					if sc[cntField.Name()] != "1" {
						continue
					}
					key := "jp." + name + ":one-operand:" + names[v]
					if listed[v] {
						rep.Discharge("M-arity", key, prog.Pos(sw.Pos()), "has a clause of its own")
					} else {
						rep.Violate(Finding{Rule: "M-arity", Key: key, Pos: prog.Pos(sw.Pos()), Msg: fmt.Sprintf("%s handles operators by code; its default clause handles two operands, and the one-operand operator %s is in no other clause: it is given a second operand it does not have", name, names[v])})
					}
				}
				return true
			})
		}
	}
	rep.Eval(n)
	if n < 15 {
		rep.Errorf("M-arity examined %d operators (floor 15)", n)
	}
}

// ---------------------------------------------------------------- B-argconsist

// matchArgConsist: a function that is a set of copies of one piece of code (one per container type) calls the
// same callee in every copy. Where at least four calls of one callee in one function pass the same expression
// in an argument position and exactly one call passes something else, that call is the copy that slipped.
func matchArgConsist(files []*ast.File, info *types.Info) (sites []synSite, examined int) {
	for _, f := range files {
		for _, d := range f.Decls {
			fd, ok := d.(*ast.FuncDecl)
			if !ok || fd.Body == nil {
				continue
			}
			calls := map[types.Object][]*ast.CallExpr{}
			ast.Inspect(fd.Body, func(n ast.Node) bool {
				call, ok := n.(*ast.CallExpr)
				if !ok || call.Ellipsis.IsValid() {
					return true
				}
				var callee types.Object
				switch fn := ast.Unparen(call.Fun).(type) {
				case *ast.Ident:
					callee = info.Uses[fn]
				case *ast.SelectorExpr:
					callee = info.Uses[fn.Sel]
				}
				if fn, isFn := callee.(*types.Func); isFn && fn.Pkg() != nil {
					calls[callee] = append(calls[callee], call)
				}
				return true
			})
			for callee, cs := range calls {
				if len(cs) < 5 {
					continue
				}
				nargs := len(cs[0].Args)
				uniform := true
				for _, c := range cs {
					if len(c.Args) != nargs {
						uniform = false
					}
				}
				if !uniform {
					continue
				}
				for k := 0; k < nargs; k++ {
					cnt := map[string]int{}
					for _, c := range cs {
						cnt[types.ExprString(c.Args[k])]++
					}
					examined++
					if len(cnt) != 2 {
						continue
					}
					var major, minor string
					for t, n := range cnt {
						if n == len(cs)-1 {
							major = t
						} else if n == 1 {
							minor = t
						}
					}
					if major == "" || minor == "" {
						continue
					}
					for _, c := range cs {
						if types.ExprString(c.Args[k]) == minor {
							name := enclosingFuncName(f, fd.Pos())
							sites = append(sites, synSite{pos: c.Pos(), file: f, key: fmt.Sprintf("%s:%s:arg%d=%s", name, callee.Name(), k, minor),
								msg: fmt.Sprintf("%s calls %s %d times with %s as argument %d and once, here, with %s", name, callee.Name(), len(cs)-1, major, k+1, minor)})
						}
					}
				}
			}
		}
	}
	return
}

const fixtureArgConsist = `package fixture

type filter struct{}

func (f *filter) match(v, root any) bool { return false }

func walk(f *filter, data any, nodes []any) (n int) {
	switch tv := data.(type) {
	case []any:
		for _, v := range tv {
			if f.match(v, nodes[0]) {
				n++
			}
		}
	case map[string]any:
		for _, v := range tv {
			if f.match(v, nodes[0]) {
				n++
			}
		}
	case []int:
		for _, v := range tv {
			if f.match(v, nodes[0]) {
				n++
			}
		}
	case []string:
		for _, v := range tv {
			if f.match(v, data) {
				n++
			}
		}
	case []bool:
		for _, v := range tv {
			if f.match(v, nodes[0]) {
				n++
			}
		}
	}
	return
}
`

// argConsistAccepted: deviating calls that were read.
var argConsistAccepted = map[string]string{
	"jp.Expr.modify:matchWithRoot:arg0=v": "the Indexed copy has no range variable: it fetches the element with v = tv.ValueAtIndex(i) and tests that v, as the other copies test their range variable vv",
}

func ruleArgConsist(prog *Program, rep *Report, floor int, rels ...string) {
	rep.Rules = append(rep.Rules, "B-argconsist: where a function calls one callee at least five times and all calls but one pass the same expression in an argument position, the remaining call passes it too, or is listed with the reason ("+strings.Join(rels, ", ")+")")
	ff, finfo, _, err := loadFixture(fixtureArgConsist)
	if err != nil {
		rep.Errorf("B-argconsist: fixture does not type-check: %v", err)
		return
	}
	if fs, _ := matchArgConsist(ff, finfo); len(fs) != 1 {
		rep.Errorf("B-argconsist: the positive-control fixture produced %d matches (want 1)", len(fs))
		return
	}
	rep.Discharge("B-argconsist", "positive-control", "checker/rules_r7.go", "fixture matched once")
	total := 0
	for _, rel := range rels {
		pk := prog.Pkg(rel)
		if pk == nil {
			rep.Errorf("B-argconsist: package %s not loaded", rel)
			continue
		}
		sites, n := matchArgConsist(pk.Syntax, pk.TypesInfo)
		total += n
		sort.Slice(sites, func(i, j int) bool { return sites[i].key < sites[j].key })
		acc := 0
		for _, s := range sites {
			if why, ok := argConsistAccepted[rel+"."+s.key]; ok {
				rep.Discharge("B-argconsist", rel+"."+s.key, prog.Pos(s.pos), "accepted (read): "+why)
				acc++
				continue
			}
			rep.Violate(Finding{Rule: "B-argconsist", Key: rel + "." + s.key, Pos: prog.Pos(s.pos), Msg: s.msg})
		}
		rep.Discharge("B-argconsist", rel, rel, fmt.Sprintf("%d argument positions examined, %d deviating calls, %d accepted", n, len(sites), acc))
	}
	rep.Eval(total)
	if total < floor {
		rep.Errorf("B-argconsist examined %d argument positions (floor %d)", total, floor)
	}
}

// ---------------------------------------------------------------- T-quoted

// ruleQuotedIsString: what a tokenizer reports for a quoted string is a string (or a key), whatever its
// text. The arms of the dispatch switch that handle the double quote are found through the mode tables (the
// action codes some table assigns to '"' and to no control byte), and every handler method such an arm can
// reach - directly or through methods of the tokenizer - must be String or Key: an arm that can reach Bool,
// Null, Int, Float or Number turns "true", "null" or "12" into another kind of value.
func ruleQuotedIsString(prog *Program, rep *Report, specs ...feSpec) {
	rep.Rules = append(rep.Rules, "T-quoted: in oj.Tokenizer and sen.Tokenizer every arm of the dispatch switch for an action code that the mode tables assign to the double quote (and not to a control byte) reaches, directly or through tokenizer methods, only the handler methods String and Key: a quoted string is reported as a string whatever it spells")
	for _, sp := range specs {
		pk := prog.Pkg(sp.rel)
		if pk == nil {
			rep.Errorf("T-quoted: package %s not loaded", sp.rel)
			continue
		}
		info := pk.TypesInfo
		// action codes of the double quote
		quoteCodes := map[int64]bool{}
		ctrlCodes := map[int64]bool{}
		for _, nm := range pk.Types.Scope().Names() {
			c, ok := pk.Types.Scope().Lookup(nm).(*types.Const)
			if !ok || c.Val().Kind() != constant.String {
				continue
			}
			s := constant.StringVal(c.Val())
			if len(s) < 256 {
				continue
			}
			quoteCodes[int64(s['"'])] = true
			ctrlCodes[int64(s[0])] = true
			ctrlCodes[int64(s[1])] = true
			ctrlCodes[int64(s['a'])] = true // a code shared with ordinary characters is not a quote action
		}
		for c := range ctrlCodes {
			delete(quoteCodes, c)
		}
		if len(quoteCodes) == 0 {
			rep.Errorf("T-quoted: no action code for the double quote found in the mode tables of %s", sp.rel)
			continue
		}
		// methods of the tokenizer
		decls := map[types.Object]*ast.FuncDecl{}
		var methods []*ast.FuncDecl
		for _, f := range pk.Syntax {
			for _, d := range f.Decls {
				fd, ok := d.(*ast.FuncDecl)
				if !ok || fd.Body == nil || fd.Recv == nil || len(fd.Recv.List) != 1 {
					continue
				}
				if strings.TrimPrefix(types.ExprString(fd.Recv.List[0].Type), "*") == sp.typ {
					decls[info.Defs[fd.Name]] = fd
					methods = append(methods, fd)
				}
			}
		}
		// handler calls: a call of a method of an interface-typed field of the receiver
		handlerCalls := func(root ast.Node) map[string]token.Pos {
			out := map[string]token.Pos{}
			seen := map[*ast.FuncDecl]bool{}
			var visit func(n ast.Node)
			visit = func(n ast.Node) {
				ast.Inspect(n, func(k ast.Node) bool {
					// a branch that steps the cursor back (off--) finishes what came before the quote and has
					// the quote dispatched again: it does not handle the quote
					if is, ok := k.(*ast.IfStmt); ok {
						for _, st := range is.Body.List {
							if inc, ok := st.(*ast.IncDecStmt); ok && inc.Tok == token.DEC {
								if is.Else != nil {
									visit(is.Else)
								}
								return false
							}
						}
					}
					call, ok := k.(*ast.CallExpr)
					if !ok {
						return true
					}
					sel, ok := ast.Unparen(call.Fun).(*ast.SelectorExpr)
					if !ok {
						return true
					}
					if fn, ok := info.Uses[sel.Sel].(*types.Func); ok {
						if recv := fn.Type().(*types.Signature).Recv(); recv != nil {
							if _, isIface := recv.Type().Underlying().(*types.Interface); isIface {
								if inner, ok := ast.Unparen(sel.X).(*ast.SelectorExpr); ok {
									if fv, ok := info.Uses[inner.Sel].(*types.Var); ok && fv.IsField() {
										if _, had := out[fn.Name()]; !had {
											out[fn.Name()] = call.Pos()
										}
									}
								}
							}
						}
						if cd := decls[fn]; cd != nil && !seen[cd] {
							seen[cd] = true
							visit(cd.Body)
						}
					}
					return true
				})
			}
			visit(root)
			return out
		}
		arms := 0
		for _, fd := range methods {
			ast.Inspect(fd.Body, func(n ast.Node) bool {
				sw, ok := n.(*ast.SwitchStmt)
				if !ok {
					return true
				}
				for _, c := range sw.Body.List {
					cc := c.(*ast.CaseClause)
					isQuote := false
					name := ""
					for _, e := range cc.List {
						if tv, ok := info.Types[e]; ok && tv.Value != nil && tv.Value.Kind() == constant.Int {
							if v, ok := constant.Int64Val(tv.Value); ok && quoteCodes[v] {
								if _, isByte := info.TypeOf(e).Underlying().(*types.Basic); isByte {
									isQuote = true
									name = types.ExprString(e)
								}
							}
						}
					}
					if !isQuote || len(cc.List) != 1 {
						continue
					}
					// only the dispatch switch: its tag indexes a table with the input byte
					if _, ok := ast.Unparen(sw.Tag).(*ast.IndexExpr); !ok {
						continue
					}
					arms++
					key := fmt.Sprintf("%s.%s:%s", sp.rel, sp.typ, name)
					var bad []string
					var badPos token.Pos
					hc := handlerCalls(&ast.BlockStmt{List: cc.Body})
					for h, p := range hc {
						if h != "String" && h != "Key" {
							bad = append(bad, h)
							badPos = p
						}
					}
					sort.Strings(bad)
					if len(bad) > 0 {
						rep.Violate(Finding{Rule: "T-quoted", Key: key, Pos: prog.Pos(badPos), Msg: fmt.Sprintf("the arm %s of %s.%s handles the double quote and can reach the handler method(s) %s: a quoted string that spells a keyword or a number is reported as that kind of value, not as a string", name, sp.rel, sp.typ, strings.Join(bad, ", "))})
					} else {
						var hs []string
						for h := range hc {
							hs = append(hs, h)
						}
						sort.Strings(hs)
						rep.Discharge("T-quoted", key, prog.Pos(cc.Pos()), "reaches only "+strings.Join(hs, ", "))
					}
				}
				return true
			})
		}
		rep.Eval(arms)
		if arms < 2 {
			rep.Errorf("T-quoted: %s.%s has %d quote arms (floor 2): anchors did not resolve", sp.rel, sp.typ, arms)
		}
	}
}

// ---------------------------------------------------------------- C-memberstore

// ruleMemberStore: the SEN parser stores an object member in four places (value, token on the slow path,
// token on the fast path, string), each as a block that finds the pending gen.Key on the build stack, writes
// obj[string(k)] and pops the key. What such a block leaves in the parser's fields is what the next byte sees
// (the last key for the `+` string continuation, the mode), so all of these blocks assign the same fields.
func ruleMemberStore(prog *Program, rep *Report) {
	rep.Rules = append(rep.Rules, "C-memberstore: every block of a sen.Parser method that stores an object member under a pending key (an assignment to m[string(k)] with k of type gen.Key) assigns the same set of receiver fields as every other such block: the slow-path copy of a helper leaves the parser in the state its fast-path twin leaves it in")
	pk := prog.Pkg("sen")
	if pk == nil {
		rep.Errorf("C-memberstore: package sen not loaded")
		return
	}
	info := pk.TypesInfo
	type blk struct {
		pos    token.Pos
		fn     string
		fields map[string]bool
	}
	var blocks []blk
	isKeyStore := func(s ast.Stmt) bool {
		found := false
		ast.Inspect(s, func(n ast.Node) bool {
			as, ok := n.(*ast.AssignStmt)
			if !ok {
				return true
			}
			for _, l := range as.Lhs {
				ix, ok := ast.Unparen(l).(*ast.IndexExpr)
				if !ok {
					continue
				}
				call, ok := ast.Unparen(ix.Index).(*ast.CallExpr)
				if !ok || len(call.Args) != 1 {
					continue
				}
				if _, isLocal := ast.Unparen(call.Args[0]).(*ast.Ident); !isLocal {
					continue // the `+` continuation stores under a remembered key (a field), it does not pop a pending one
				}
				if t := info.TypeOf(call.Args[0]); t != nil {
					if nt, ok := t.(*types.Named); ok && nt.Obj().Name() == "Key" && nt.Obj().Pkg() != nil && strings.HasSuffix(nt.Obj().Pkg().Path(), "/gen") {
						found = true
					}
				}
			}
			return true
		})
		return found
	}
	for _, f := range pk.Syntax {
		for _, d := range f.Decls {
			fd, ok := d.(*ast.FuncDecl)
			if !ok || fd.Body == nil || fd.Recv == nil || len(fd.Recv.List) != 1 || len(fd.Recv.List[0].Names) != 1 {
				continue
			}
			if strings.TrimPrefix(types.ExprString(fd.Recv.List[0].Type), "*") != "Parser" {
				continue
			}
			recv := info.Defs[fd.Recv.List[0].Names[0]]
			// innermost blocks that contain a key store at their own level (directly or inside a switch of the block)
			var visit func(list []ast.Stmt)
			visit = func(list []ast.Stmt) {
				direct := false
				for _, s := range list {
					switch x := s.(type) {
					case *ast.AssignStmt:
						if isKeyStore(x) {
							direct = true
						}
					case *ast.SwitchStmt:
						if isKeyStore(x) {
							direct = true
						}
					}
				}
				if direct {
					b := blk{pos: list[0].Pos(), fn: enclosingFuncName(f, fd.Pos()), fields: map[string]bool{}}
					for _, s := range list {
						ast.Inspect(s, func(n ast.Node) bool {
							as, ok := n.(*ast.AssignStmt)
							if !ok {
								return true
							}
							for _, l := range as.Lhs {
								if sel, ok := ast.Unparen(l).(*ast.SelectorExpr); ok {
									if id, ok := ast.Unparen(sel.X).(*ast.Ident); ok && info.Uses[id] == recv {
										b.fields[sel.Sel.Name] = true
									}
								}
							}
							return true
						})
					}
					blocks = append(blocks, b)
					return
				}
				for _, s := range list {
					switch x := s.(type) {
					case *ast.BlockStmt:
						visit(x.List)
					case *ast.IfStmt:
						visit(x.Body.List)
						switch e := x.Else.(type) {
						case *ast.BlockStmt:
							visit(e.List)
						case *ast.IfStmt:
							visit([]ast.Stmt{e})
						}
					case *ast.ForStmt:
						visit(x.Body.List)
					case *ast.RangeStmt:
						visit(x.Body.List)
					case *ast.SwitchStmt:
						for _, c := range x.Body.List {
							visit(c.(*ast.CaseClause).Body)
						}
					case *ast.TypeSwitchStmt:
						for _, c := range x.Body.List {
							visit(c.(*ast.CaseClause).Body)
						}
					}
				}
			}
			visit(fd.Body.List)
		}
	}
	rep.Eval(len(blocks))
	if len(blocks) < 3 {
		rep.Errorf("C-memberstore found %d member-store blocks in sen.Parser (floor 3)", len(blocks))
		return
	}
	sig := func(b blk) string {
		var fs []string
		for f := range b.fields {
			fs = append(fs, f)
		}
		sort.Strings(fs)
		return strings.Join(fs, ",")
	}
	cnt := map[string]int{}
	for _, b := range blocks {
		cnt[sig(b)]++
	}
	major, best := "", 0
	for s, n := range cnt {
		if n > best {
			major, best = s, n
		}
	}
	for _, b := range blocks {
		key := "sen." + b.fn + ":member-store"
		if sig(b) == major {
			rep.Discharge("C-memberstore", key, prog.Pos(b.pos), "assigns "+major)
			continue
		}
		rep.Violate(Finding{Rule: "C-memberstore", Key: key, Pos: prog.Pos(b.pos), Msg: fmt.Sprintf("the member-store block of %s assigns the parser fields {%s}; the other %d such blocks assign {%s}", b.fn, sig(b), best, major)})
	}
}

// ---------------------------------------------------------------- E-selfprogress

// matchSelfProgress: a method that calls itself on the same receiver with its own parameters unchanged can
// only terminate because the state it branches on has changed (gen.Number.AsNum retries after FillBig has filled
// the text buffer its first case tests). In the branch that contains such a self-call, a direct assignment to a
// receiver field that an enclosing condition tests, made before the self-call, may undo that change: the retry
// then takes the same branch again, forever.
func matchSelfProgress(files []*ast.File, info *types.Info) (sites []synSite, examined int) {
	for _, f := range files {
		for _, d := range f.Decls {
			fd, ok := d.(*ast.FuncDecl)
			if !ok || fd.Body == nil || fd.Recv == nil || len(fd.Recv.List) != 1 || len(fd.Recv.List[0].Names) != 1 {
				continue
			}
			self := info.Defs[fd.Name]
			recv := info.Defs[fd.Recv.List[0].Names[0]]
			var params []types.Object
			if fd.Type.Params != nil {
				for _, p := range fd.Type.Params.List {
					for _, nm := range p.Names {
						params = append(params, info.Defs[nm])
					}
				}
			}
			fieldsIn := func(e ast.Expr, into map[string]bool) {
				if e == nil {
					return
				}
				ast.Inspect(e, func(n ast.Node) bool {
					if sel, ok := n.(*ast.SelectorExpr); ok {
						if id, ok := ast.Unparen(sel.X).(*ast.Ident); ok && info.Uses[id] == recv {
							into[sel.Sel.Name] = true
						}
					}
					return true
				})
			}
			// walk with the guard fields and the statements that precede the current one inside the innermost
			// branch whose condition tests the receiver
			var walk func(list []ast.Stmt, guards map[string]bool, prefix []ast.Stmt)
			walk = func(list []ast.Stmt, guards map[string]bool, prefix []ast.Stmt) {
				for i, s := range list {
					before := append(append([]ast.Stmt{}, prefix...), list[:i]...)
					// a self-call with unchanged arguments in this statement (not inside a nested block)?
					isSelf := false
					ast.Inspect(s, func(n ast.Node) bool {
						if _, nested := n.(*ast.BlockStmt); nested {
							return false // handled when that block is walked
						}
						call, ok := n.(*ast.CallExpr)
						if !ok {
							return true
						}
						sel, ok := ast.Unparen(call.Fun).(*ast.SelectorExpr)
						if !ok || info.Uses[sel.Sel] != self {
							return true
						}
						if id, ok := ast.Unparen(sel.X).(*ast.Ident); !ok || info.Uses[id] != recv {
							return true
						}
						if len(call.Args) != len(params) {
							return true
						}
						for k, a := range call.Args {
							id, ok := ast.Unparen(a).(*ast.Ident)
							if !ok || info.Uses[id] != params[k] {
								return true
							}
						}
						isSelf = true
						return true
					})
					if isSelf && len(guards) > 0 {
						examined++
						lastCall := -1
						for j, st := range before {
							if es, ok := st.(*ast.ExprStmt); ok {
								if c, ok := es.X.(*ast.CallExpr); ok {
									if sel, ok := c.Fun.(*ast.SelectorExpr); ok {
										if id, ok := ast.Unparen(sel.X).(*ast.Ident); ok && info.Uses[id] == recv {
											lastCall = j
										}
									}
								}
							}
						}
						for j := lastCall + 1; j < len(before); j++ {
							as, ok := before[j].(*ast.AssignStmt)
							if !ok {
								continue
							}
							for _, l := range as.Lhs {
								if sel, ok := ast.Unparen(l).(*ast.SelectorExpr); ok {
									if id, ok := ast.Unparen(sel.X).(*ast.Ident); ok && info.Uses[id] == recv && guards[sel.Sel.Name] {
										name := enclosingFuncName(f, fd.Pos())
										sites = append(sites, synSite{pos: as.Pos(), file: f, key: fmt.Sprintf("%s:retry-after-assigning:%s", name, sel.Sel.Name),
											msg: fmt.Sprintf("%s calls itself with unchanged arguments after assigning %s.%s, a field the enclosing branch condition tests: nothing guarantees that the retry takes another branch (unbounded recursion)", name, id.Name, sel.Sel.Name)})
									}
								}
							}
						}
					}
					enter := func(body []ast.Stmt, conds ...ast.Expr) {
						g := map[string]bool{}
						for k := range guards {
							g[k] = true
						}
						for _, c := range conds {
							fieldsIn(c, g)
						}
						walk(body, g, before)
					}
					switch x := s.(type) {
					case *ast.BlockStmt:
						walk(x.List, guards, before)
					case *ast.IfStmt:
						enter(x.Body.List, x.Cond)
						switch e := x.Else.(type) {
						case *ast.BlockStmt:
							enter(e.List, x.Cond)
						case *ast.IfStmt:
							enter([]ast.Stmt{e}, x.Cond)
						}
					case *ast.SwitchStmt:
						var conds []ast.Expr
						if x.Tag != nil {
							conds = append(conds, x.Tag)
						}
						for _, c := range x.Body.List {
							conds = append(conds, c.(*ast.CaseClause).List...)
						}
						for _, c := range x.Body.List {
							enter(c.(*ast.CaseClause).Body, conds...)
						}
					case *ast.ForStmt:
						walk(x.Body.List, guards, before)
					case *ast.RangeStmt:
						walk(x.Body.List, guards, before)
					}
				}
			}
			walk(fd.Body.List, map[string]bool{}, nil)
		}
	}
	return
}

const fixtureSelfProgress = `package fixture

type num struct {
	big []byte
	i   uint64
}

func (n *num) fill() { n.big = append(n.big, '1') }

func (n *num) good() any {
	switch {
	case 0 < len(n.big):
		return string(n.big)
	default:
		n.fill()
		if n.i > 10 {
			return n.good()
		}
	}
	return n.i
}

func (n *num) bad() any {
	switch {
	case 0 < len(n.big):
		return string(n.big)
	default:
		n.fill()
		n.big = n.big[:0]
		if n.i > 10 {
			return n.bad()
		}
	}
	return n.i
}
`

func ruleSelfProgress(prog *Program, rep *Report, floor int, rels ...string) {
	rep.Rules = append(rep.Rules, "E-selfprogress: in the branch in which a method calls itself on its own receiver with its parameters unchanged, no receiver field that an enclosing branch condition tests is assigned directly between the last method call on the receiver and the self-call: the retry relies on that state having changed ("+strings.Join(rels, ", ")+")")
	runSynRule(prog, rep, "E-selfprogress", rels, matchSelfProgress, fixtureSelfProgress, 1, floor)
}

// ---------------------------------------------------------------- D-globalreturn

// matchGlobalReturn: a function whose result is a pointer to a struct type of its own package hands out a
// value the caller goes on to fill in (pretty's builders return nodes whose key and members the caller sets).
// Returning a package-level variable there makes every caller share - and overwrite - one value.
func matchGlobalReturn(files []*ast.File, info *types.Info) (sites []synSite, examined int) {
	for _, f := range files {
		for _, d := range f.Decls {
			fd, ok := d.(*ast.FuncDecl)
			if !ok || fd.Body == nil || fd.Type.Results == nil || len(fd.Type.Results.List) != 1 {
				continue
			}
			rt := info.TypeOf(fd.Type.Results.List[0].Type)
			ptr, ok := rt.(*types.Pointer)
			if !ok {
				continue
			}
			nt, ok := ptr.Elem().(*types.Named)
			if !ok {
				continue
			}
			if _, isStruct := nt.Underlying().(*types.Struct); !isStruct {
				continue
			}
			self, _ := info.Defs[fd.Name].(*types.Func)
			if self == nil || nt.Obj().Pkg() != self.Pkg() {
				continue
			}
			ast.Inspect(fd.Body, func(n ast.Node) bool {
				if _, isLit := n.(*ast.FuncLit); isLit {
					return false
				}
				ret, ok := n.(*ast.ReturnStmt)
				if !ok || len(ret.Results) != 1 {
					return true
				}
				examined++
				id, ok := ast.Unparen(ret.Results[0]).(*ast.Ident)
				if !ok {
					return true
				}
				v, ok := info.Uses[id].(*types.Var)
				if !ok || v.Pkg() == nil || v.Parent() != v.Pkg().Scope() {
					return true
				}
				name := enclosingFuncName(f, fd.Pos())
				sites = append(sites, synSite{pos: ret.Pos(), file: f, key: fmt.Sprintf("%s:returns-global:%s", name, v.Name()),
					msg: fmt.Sprintf("%s returns the package-level variable %s as its *%s result: every caller gets the same value and what one caller stores in it is seen by all others", name, v.Name(), nt.Obj().Name())})
				return true
			})
		}
	}
	return
}

const fixtureGlobalReturn = `package fixture

type node struct {
	key []byte
	buf []byte
}

var plainNull = &node{buf: []byte("null")}

func buildNull(plain bool) *node {
	if plain {
		return plainNull
	}
	n := node{buf: []byte("null")}
	return &n
}
`

// globalReturnAccepted: package-level values that are handed out on purpose (read).
var globalReturnAccepted = map[string]string{}

func ruleGlobalReturn(prog *Program, rep *Report, floor int, rels ...string) {
	rep.Rules = append(rep.Rules, "D-globalreturn: no function whose result is a pointer to a struct type of its own package returns a package-level variable: the values handed out are the caller's to fill in ("+strings.Join(rels, ", ")+")")
	ff, finfo, _, err := loadFixture(fixtureGlobalReturn)
	if err != nil {
		rep.Errorf("D-globalreturn: fixture does not type-check: %v", err)
		return
	}
	if fs, _ := matchGlobalReturn(ff, finfo); len(fs) != 1 {
		rep.Errorf("D-globalreturn: the positive-control fixture produced %d matches (want 1)", len(fs))
		return
	}
	rep.Discharge("D-globalreturn", "positive-control", "checker/rules_r7.go", "fixture matched once")
	total := 0
	for _, rel := range rels {
		pk := prog.Pkg(rel)
		if pk == nil {
			rep.Errorf("D-globalreturn: package %s not loaded", rel)
			continue
		}
		sites, n := matchGlobalReturn(pk.Syntax, pk.TypesInfo)
		total += n
		for _, s := range sites {
			if why, ok := globalReturnAccepted[rel+"."+s.key]; ok {
				rep.Discharge("D-globalreturn", rel+"."+s.key, prog.Pos(s.pos), "accepted (read): "+why)
				continue
			}
			rep.Violate(Finding{Rule: "D-globalreturn", Key: rel + "." + s.key, Pos: prog.Pos(s.pos), Msg: s.msg})
		}
		rep.Discharge("D-globalreturn", rel, rel, fmt.Sprintf("%d return statements examined", n))
	}
	rep.Eval(total)
	if total < floor {
		rep.Errorf("D-globalreturn examined %d return statements (floor %d)", total, floor)
	}
}

// ---------------------------------------------------------------- A-addrretain

// matchAddrRetain: inside a loop the address of a variable that is declared outside the loop is appended to a
// slice or stored in an element while the loop assigns that variable: every retained pointer is the same
// pointer, and after the loop all of them show the last value (a per-iteration value hoisted out of its loop).
func matchAddrRetain(files []*ast.File, info *types.Info) (sites []synSite, examined int) {
	for _, f := range files {
		ast.Inspect(f, func(n ast.Node) bool {
			var body *ast.BlockStmt
			switch l := n.(type) {
			case *ast.ForStmt:
				body = l.Body
			case *ast.RangeStmt:
				body = l.Body
			default:
				return true
			}
			assigned := map[types.Object]bool{}
			ast.Inspect(body, func(k ast.Node) bool {
				if as, ok := k.(*ast.AssignStmt); ok && as.Tok != token.DEFINE {
					for _, l := range as.Lhs {
						root := ast.Unparen(l)
						for {
							if sel, ok := root.(*ast.SelectorExpr); ok {
								root = ast.Unparen(sel.X)
								continue
							}
							break
						}
						if id, ok := root.(*ast.Ident); ok {
							if o := info.Uses[id]; o != nil {
								assigned[o] = true
							}
						}
					}
				}
				return true
			})
			retained := func(e ast.Expr, pos token.Pos) {
				u, ok := ast.Unparen(e).(*ast.UnaryExpr)
				if !ok || u.Op != token.AND {
					return
				}
				id, ok := ast.Unparen(u.X).(*ast.Ident)
				if !ok {
					return
				}
				v, ok := info.Uses[id].(*types.Var)
				if !ok {
					return
				}
				examined++
				if v.Pos() >= body.Pos() && v.Pos() <= body.End() {
					return // a per-iteration variable
				}
				if v.Parent() != nil && v.Pkg() != nil && v.Parent() == v.Pkg().Scope() {
					return // a package-level value handed out on purpose is D-globalreturn's business
				}
				if !assigned[v] {
					return
				}
				name := enclosingFuncName(f, pos)
				sites = append(sites, synSite{pos: pos, file: f, key: fmt.Sprintf("%s:retains-address-of:%s", name, v.Name()),
					msg: fmt.Sprintf("%s keeps &%s in a loop that also assigns %s, and %s is declared outside the loop: every element kept is the same pointer and ends up showing the last value", name, v.Name(), v.Name(), v.Name())})
			}
			ast.Inspect(body, func(k ast.Node) bool {
				switch x := k.(type) {
				case *ast.FuncLit:
					return false
				case *ast.CallExpr:
					if id, ok := x.Fun.(*ast.Ident); ok && id.Name == "append" {
						for _, a := range x.Args[1:] {
							retained(a, x.Pos())
						}
					}
				case *ast.AssignStmt:
					for i, l := range x.Lhs {
						if _, isIx := ast.Unparen(l).(*ast.IndexExpr); isIx && i < len(x.Rhs) {
							retained(x.Rhs[i], x.Pos())
						}
					}
				}
				return true
			})
			return true
		})
	}
	return
}

const fixtureAddrRetain = `package fixture

type target struct{ name string }

func hoisted(names []string) (out []*target) {
	var t target
	for _, n := range names {
		t = target{name: n}
		out = append(out, &t)
	}
	return
}

func perIteration(names []string) (out []*target) {
	for _, n := range names {
		t := target{name: n}
		out = append(out, &t)
	}
	return
}
`

func ruleAddrRetain(prog *Program, rep *Report, floor int, rels ...string) {
	rep.Rules = append(rep.Rules, "A-addrretain: no loop appends or stores the address of a variable that is declared outside the loop and assigned inside it ("+strings.Join(rels, ", ")+")")
	runSynRule(prog, rep, "A-addrretain", rels, matchAddrRetain, fixtureAddrRetain, 1, floor)
}

// ---------------------------------------------------------------- F-timeeq

// matchTimeEq: two time.Time values compared with == or != compare wall clock, monotonic reading and the
// *Location pointer: equal instants parsed twice, or carried in different zones, differ. Equality of times is
// Equal().
func matchTimeEq(files []*ast.File, info *types.Info) (sites []synSite, examined int) {
	isTime := func(e ast.Expr) bool {
		t := info.TypeOf(e)
		if t == nil {
			return false
		}
		nt, ok := t.(*types.Named)
		return ok && nt.Obj().Name() == "Time" && nt.Obj().Pkg() != nil && nt.Obj().Pkg().Path() == "time"
	}
	for _, f := range files {
		ast.Inspect(f, func(n ast.Node) bool {
			be, ok := n.(*ast.BinaryExpr)
			if !ok || (be.Op != token.EQL && be.Op != token.NEQ) {
				return true
			}
			if !isTime(be.X) && !isTime(be.Y) {
				return true
			}
			examined++
			if isTime(be.X) && isTime(be.Y) {
				name := enclosingFuncName(f, be.Pos())
				sites = append(sites, synSite{pos: be.Pos(), file: f, key: fmt.Sprintf("%s:time-compare:%s", name, be.Op),
					msg: fmt.Sprintf("%s compares two time.Time values with %s (%s): the location pointer and the monotonic reading take part, so equal instants can compare as different", name, be.Op, types.ExprString(be))})
			}
			return true
		})
	}
	return
}

const fixtureTimeEq = `package fixture

import "time"

func same(a, b time.Time) bool { return a.Round(time.Second) != b.Round(time.Second) }
func same2(a, b time.Time) bool { return a.Equal(b) }
`

func ruleTimeEq(prog *Program, rep *Report, rels ...string) {
	rep.Rules = append(rep.Rules, "F-timeeq: no == or != compares two time.Time values ("+strings.Join(rels, ", ")+"): time equality is Equal()")
	runSynRule(prog, rep, "F-timeeq", rels, matchTimeEq, fixtureTimeEq, 1, 0)
}

// ---------------------------------------------------------------- D-bufview

// matchBufView: a method stores a view of one of its []byte parameters in a receiver field (p.tmp =
// buf[start:off+1]). The parameter of a parser's dispatch function is the caller's slice or the read buffer that
// the reader entry refills for the next chunk: a field that has to outlive the call needs a copy (append to the
// field's own memory).
func matchBufView(files []*ast.File, info *types.Info) (sites []synSite, examined int) {
	for _, f := range files {
		for _, d := range f.Decls {
			fd, ok := d.(*ast.FuncDecl)
			if !ok || fd.Body == nil || fd.Recv == nil || len(fd.Recv.List) != 1 || len(fd.Recv.List[0].Names) != 1 || fd.Type.Params == nil {
				continue
			}
			recv := info.Defs[fd.Recv.List[0].Names[0]]
			params := map[types.Object]bool{}
			for _, p := range fd.Type.Params.List {
				for _, nm := range p.Names {
					o := info.Defs[nm]
					if o == nil {
						continue
					}
					if sl, ok := o.Type().Underlying().(*types.Slice); ok {
						if b, ok := sl.Elem().Underlying().(*types.Basic); ok && b.Kind() == types.Uint8 {
							params[o] = true
						}
					}
				}
			}
			if len(params) == 0 {
				continue
			}
			ast.Inspect(fd.Body, func(n ast.Node) bool {
				as, ok := n.(*ast.AssignStmt)
				if !ok || len(as.Lhs) != len(as.Rhs) {
					return true
				}
				for i, l := range as.Lhs {
					sel, ok := ast.Unparen(l).(*ast.SelectorExpr)
					if !ok {
						continue
					}
					id, ok := ast.Unparen(sel.X).(*ast.Ident)
					if !ok || info.Uses[id] != recv {
						continue
					}
					examined++
					root := ast.Unparen(as.Rhs[i])
					for {
						if se, ok := root.(*ast.SliceExpr); ok {
							root = ast.Unparen(se.X)
							continue
						}
						break
					}
					rid, ok := root.(*ast.Ident)
					if !ok || !params[info.Uses[rid]] {
						continue
					}
					name := enclosingFuncName(f, fd.Pos())
					sites = append(sites, synSite{pos: as.Pos(), file: f, key: fmt.Sprintf("%s:field-views-param:%s", name, sel.Sel.Name),
						msg: fmt.Sprintf("%s stores %s, a view of its parameter %s, in the field %s: the bytes belong to the caller (or are the read buffer that the next chunk overwrites)", name, types.ExprString(as.Rhs[i]), rid.Name, sel.Sel.Name)})
				}
				return true
			})
		}
	}
	return
}

const fixtureBufView = `package fixture

type parser struct{ tmp []byte }

func (p *parser) parse(buf []byte) {
	p.tmp = p.tmp[:0]
	p.tmp = append(p.tmp, buf[1:3]...)
	p.tmp = buf[1:3]
}
`

func ruleBufView(prog *Program, rep *Report, floor int, rels ...string) {
	rep.Rules = append(rep.Rules, "D-bufview: no method stores a slice of one of its []byte parameters in a receiver field ("+strings.Join(rels, ", ")+"): scratch fields that outlive a buffer hold copies")
	runSynRule(prog, rep, "D-bufview", rels, matchBufView, fixtureBufView, 1, floor)
}

// ---------------------------------------------------------------- E-memoguard

// matchMemoGuard: a method that calls itself and records what it has handled in a map field of its receiver
// (a registry keyed by type) terminates on cyclic input only because it returns early for an entry that is
// already there. The structural necessary condition: before the first self-call there is a lookup v := r.M[k]
// (or r.M[k] in a condition) and a return on the "found" side of a nil test of that value - in the body of
// `if v != nil ...`, or at the top level of the else branch of `if v == nil ...`.
func matchMemoGuard(files []*ast.File, info *types.Info) (sites []synSite, examined int) {
	for _, f := range files {
		for _, d := range f.Decls {
			fd, ok := d.(*ast.FuncDecl)
			if !ok || fd.Body == nil || fd.Recv == nil || len(fd.Recv.List) != 1 || len(fd.Recv.List[0].Names) != 1 {
				continue
			}
			self := info.Defs[fd.Name]
			recv := info.Defs[fd.Recv.List[0].Names[0]]
			memoField := func(e ast.Expr) string {
				ix, ok := ast.Unparen(e).(*ast.IndexExpr)
				if !ok {
					return ""
				}
				sel, ok := ast.Unparen(ix.X).(*ast.SelectorExpr)
				if !ok {
					return ""
				}
				id, ok := ast.Unparen(sel.X).(*ast.Ident)
				if !ok || info.Uses[id] != recv {
					return ""
				}
				if _, isMap := info.TypeOf(sel).Underlying().(*types.Map); !isMap {
					return ""
				}
				return sel.Sel.Name
			}
			var firstSelf token.Pos
			written := map[string]bool{}
			ast.Inspect(fd.Body, func(n ast.Node) bool {
				switch x := n.(type) {
				case *ast.CallExpr:
					if sel, ok := ast.Unparen(x.Fun).(*ast.SelectorExpr); ok && info.Uses[sel.Sel] == self {
						if firstSelf == token.NoPos || x.Pos() < firstSelf {
							firstSelf = x.Pos()
						}
					}
				case *ast.AssignStmt:
					for _, l := range x.Lhs {
						if m := memoField(l); m != "" {
							written[m] = true
						}
					}
				}
				return true
			})
			if firstSelf == token.NoPos || len(written) == 0 {
				continue
			}
			examined++
			// variables holding a looked-up entry
			entry := map[types.Object]bool{}
			ast.Inspect(fd.Body, func(n ast.Node) bool {
				as, ok := n.(*ast.AssignStmt)
				if !ok || len(as.Rhs) != 1 {
					return true
				}
				if m := memoField(as.Rhs[0]); m != "" && written[m] {
					if id, ok := as.Lhs[0].(*ast.Ident); ok {
						o := info.Defs[id]
						if o == nil {
							o = info.Uses[id]
						}
						if o != nil {
							entry[o] = true
						}
					}
				}
				return true
			})
			nilTest := func(cond ast.Expr, op token.Token) bool {
				found := false
				ast.Inspect(cond, func(n ast.Node) bool {
					be, ok := n.(*ast.BinaryExpr)
					if !ok || be.Op != op {
						return true
					}
					isNil := func(e ast.Expr) bool {
						id, ok := ast.Unparen(e).(*ast.Ident)
						return ok && id.Name == "nil"
					}
					isEntry := func(e ast.Expr) bool {
						if id, ok := ast.Unparen(e).(*ast.Ident); ok && entry[info.Uses[id]] {
							return true
						}
						m := memoField(e)
						return m != "" && written[m]
					}
					if (isEntry(be.X) && isNil(be.Y)) || (isNil(be.X) && isEntry(be.Y)) {
						found = true
					}
					return true
				})
				return found
			}
			topReturn := func(list []ast.Stmt) bool {
				for _, s := range list {
					if _, ok := s.(*ast.ReturnStmt); ok {
						return true
					}
				}
				return false
			}
			guarded := false
			ast.Inspect(fd.Body, func(n ast.Node) bool {
				is, ok := n.(*ast.IfStmt)
				if !ok || is.Pos() > firstSelf {
					return true
				}
				if is.Init != nil {
					// if c := r.M[k]; c != nil { return }
					if as, ok := is.Init.(*ast.AssignStmt); ok && len(as.Rhs) == 1 {
						if m := memoField(as.Rhs[0]); m != "" && written[m] {
							if id, ok := as.Lhs[0].(*ast.Ident); ok && info.Defs[id] != nil {
								entry[info.Defs[id]] = true
							}
						}
					}
				}
				if nilTest(is.Cond, token.NEQ) && topReturn(is.Body.List) {
					guarded = true
				}
				if eb, ok := is.Else.(*ast.BlockStmt); ok && nilTest(is.Cond, token.EQL) && topReturn(eb.List) {
					guarded = true
				}
				return true
			})
			if !guarded {
				name := enclosingFuncName(f, fd.Pos())
				var ms []string
				for m := range written {
					ms = append(ms, m)
				}
				sort.Strings(ms)
				sites = append(sites, synSite{pos: firstSelf, file: f, key: fmt.Sprintf("%s:recursion-without-found-return:%s", name, strings.Join(ms, ",")),
					msg: fmt.Sprintf("%s records what it has handled in %s and calls itself, but no return on the found side of a lookup in that map precedes the self-call: a type that refers to itself (through a slice, map or pointer) is walked without end", name, strings.Join(ms, ", "))})
			}
		}
	}
	return
}

const fixtureMemoGuard = `package fixture

type entry struct{ kids []string }
type reg struct{ m map[string]*entry }

func (r *reg) good(k string, kids []string) *entry {
	c := r.m[k]
	if c == nil {
		c = &entry{kids: kids}
		r.m[k] = c
	} else {
		return c
	}
	for _, kid := range kids {
		r.good(kid, nil)
	}
	return c
}

func (r *reg) bad(k string, kids []string) *entry {
	c := r.m[k]
	if c == nil {
		c = &entry{kids: kids}
		if len(kids) == 0 {
			return c
		}
		r.m[k] = c
	}
	for _, kid := range kids {
		r.bad(kid, nil)
	}
	return c
}
`

func ruleMemoGuard(prog *Program, rep *Report, floor int, rels ...string) {
	rep.Rules = append(rep.Rules, "E-memoguard: a method that calls itself and records handled keys in a map field of its receiver returns, before the first self-call, on the found side of a nil test of a lookup in that map ("+strings.Join(rels, ", ")+")")
	runSynRule(prog, rep, "E-memoguard", rels, matchMemoGuard, fixtureMemoGuard, 1, floor)
}

// ---------------------------------------------------------------- C-optsticky

// matchOptSticky: an exported field of a reusable type is configuration. A method may fill in a default
// (`if w.F == 0 { w.F = d }`) or clamp it (`if max < w.F { w.F = max }`): both conditions mention the field. An
// assignment under a condition that does not mention the field is a decision taken for this call (pretty's
// one-space indentation for very deep trees); unless the method assigns the field unconditionally before that,
// the decision sticks and the next call on the same instance starts from it.
func matchOptSticky(files []*ast.File, info *types.Info) (sites []synSite, examined int) {
	for _, f := range files {
		for _, d := range f.Decls {
			fd, ok := d.(*ast.FuncDecl)
			if !ok || fd.Body == nil || fd.Recv == nil || len(fd.Recv.List) != 1 || len(fd.Recv.List[0].Names) != 1 {
				continue
			}
			recv := info.Defs[fd.Recv.List[0].Names[0]]
			if _, isPtr := recv.Type().(*types.Pointer); !isPtr {
				continue // a value receiver is a copy: nothing sticks
			}
			fieldOf := func(e ast.Expr) string {
				sel, ok := ast.Unparen(e).(*ast.SelectorExpr)
				if !ok {
					return ""
				}
				id, ok := ast.Unparen(sel.X).(*ast.Ident)
				if !ok || info.Uses[id] != recv || !sel.Sel.IsExported() {
					return ""
				}
				if v, ok := info.Uses[sel.Sel].(*types.Var); !ok || !v.IsField() {
					return ""
				}
				return sel.Sel.Name
			}
			mentions := func(e ast.Expr, field string) bool {
				found := false
				ast.Inspect(e, func(n ast.Node) bool {
					if x, ok := n.(ast.Expr); ok && fieldOf(x) == field {
						found = true
					}
					return true
				})
				return found
			}
			uncond := map[string]bool{}
			for _, s := range fd.Body.List {
				switch x := s.(type) {
				case *ast.AssignStmt:
					for _, l := range x.Lhs {
						if fl := fieldOf(l); fl != "" {
							uncond[fl] = true
						}
					}
				case *ast.IfStmt:
					if x.Else != nil {
						continue
					}
					for _, bs := range x.Body.List {
						as, ok := bs.(*ast.AssignStmt)
						if !ok {
							continue
						}
						for li, l := range as.Lhs {
							fl := fieldOf(l)
							if fl == "" {
								continue
							}
							examined++
							if mentions(x.Cond, fl) || uncond[fl] {
								continue
							}
							if len(as.Rhs) == len(as.Lhs) && mentions(as.Rhs[li], fl) {
								continue // an update of the field's own value (n.BigBuf = append(n.BigBuf, '-')), not a choice
							}
							name := enclosingFuncName(f, fd.Pos())
							sites = append(sites, synSite{pos: as.Pos(), file: f, key: fmt.Sprintf("%s:sticky-option:%s", name, fl),
								msg: fmt.Sprintf("%s assigns the exported field %s under a condition that does not mention it (%s) and has not assigned it unconditionally before: the value chosen for this call is still set on the next call of the same instance", name, fl, types.ExprString(x.Cond))})
						}
					}
				}
			}
		}
	}
	return
}

const fixtureOptSticky = `package fixture

type W struct {
	Indent int
	Width  int
	depth  int
}

func (w *W) good(depth int) {
	if w.Width == 0 {
		w.Width = 80
	}
	w.Indent = 2
	if w.Width*3/8 < depth {
		w.Indent = 1
	}
}

func (w *W) bad(depth int) {
	if w.Indent == 0 {
		w.Indent = 2
	}
	if w.Width*3/8 < depth {
		w.Indent = 1
	}
}
`

func ruleOptSticky(prog *Program, rep *Report, floor int, rels ...string) {
	rep.Rules = append(rep.Rules, "C-optsticky: a pointer-receiver method assigns an exported field of its receiver at the top level of an if statement only when the condition mentions that field (default, clamp) or the method has assigned the field unconditionally before ("+strings.Join(rels, ", ")+")")
	runSynRule(prog, rep, "C-optsticky", rels, matchOptSticky, fixtureOptSticky, 1, floor)
}

// ---------------------------------------------------------------- F-childpaths

// matchChildVariadic: a recursive function whose variadic parameter holds paths relative to the value it is
// given (alt.diff's ignore paths) has to shorten them before it descends: a self-call on an element - its first
// argument is a range variable or an index expression - that passes the variadic parameter through unchanged
// applies the parent's paths one level too deep.
func matchChildVariadic(files []*ast.File, info *types.Info) (sites []synSite, examined int) {
	for _, f := range files {
		for _, d := range f.Decls {
			fd, ok := d.(*ast.FuncDecl)
			if !ok || fd.Body == nil || fd.Type.Params == nil || len(fd.Type.Params.List) == 0 {
				continue
			}
			last := fd.Type.Params.List[len(fd.Type.Params.List)-1]
			if _, isVar := last.Type.(*ast.Ellipsis); !isVar || len(last.Names) != 1 {
				continue
			}
			vparam := info.Defs[last.Names[0]]
			self := info.Defs[fd.Name]
			rangeVars := map[types.Object]bool{}
			ast.Inspect(fd.Body, func(n ast.Node) bool {
				if rs, ok := n.(*ast.RangeStmt); ok {
					for _, e := range []ast.Expr{rs.Key, rs.Value} {
						if id, ok := e.(*ast.Ident); ok {
							if o := info.Defs[id]; o != nil {
								rangeVars[o] = true
							} else if o := info.Uses[id]; o != nil {
								rangeVars[o] = true
							}
						}
					}
				}
				return true
			})
			ast.Inspect(fd.Body, func(n ast.Node) bool {
				call, ok := n.(*ast.CallExpr)
				if !ok || len(call.Args) < 1 {
					return true
				}
				var callee types.Object
				switch fn := ast.Unparen(call.Fun).(type) {
				case *ast.Ident:
					callee = info.Uses[fn]
				case *ast.SelectorExpr:
					callee = info.Uses[fn.Sel]
				}
				if callee != self {
					return true
				}
				if !call.Ellipsis.IsValid() {
					// a self-call on the same level (not on an element) that drops the variadic parameter: the paths
					// given for this value are forgotten for its other representation
					fixed := len(fd.Type.Params.List) - 1
					nfixed := 0
					for _, p := range fd.Type.Params.List[:fixed] {
						nfixed += len(p.Names)
					}
					if len(call.Args) == nfixed {
						elem := false
						switch a0 := ast.Unparen(call.Args[0]).(type) {
						case *ast.IndexExpr:
							elem = true
						case *ast.Ident:
							elem = rangeVars[info.Uses[a0]]
						}
						examined++
						if !elem {
							name := enclosingFuncName(f, fd.Pos())
							sites = append(sites, synSite{pos: call.Pos(), file: f, key: fmt.Sprintf("%s:same-level-call-drops:%s", name, vparam.Name()),
								msg: fmt.Sprintf("%s calls itself on the same value in another form (%s) without its %s...: the paths given for this value no longer apply", name, types.ExprString(call.Args[0]), vparam.Name())})
						}
					}
					return true
				}
				if len(call.Args) < 2 {
					return true
				}
				examined++
				va, ok := ast.Unparen(call.Args[len(call.Args)-1]).(*ast.Ident)
				if !ok || info.Uses[va] != vparam {
					return true
				}
				child := false
				switch a0 := ast.Unparen(call.Args[0]).(type) {
				case *ast.IndexExpr:
					child = true
				case *ast.Ident:
					child = rangeVars[info.Uses[a0]]
				}
				if child {
					name := enclosingFuncName(f, fd.Pos())
					sites = append(sites, synSite{pos: call.Pos(), file: f, key: fmt.Sprintf("%s:child-call-passes:%s", name, vparam.Name()),
						msg: fmt.Sprintf("%s calls itself on an element (%s) and passes its own %s... through unchanged: paths meant for this level are applied one level down", name, types.ExprString(call.Args[0]), vparam.Name())})
				}
				return true
			})
		}
	}
	return
}

const fixtureChildVariadic = `package fixture

type path []any

func diff(v0, v1 any, ignores ...path) (n int) {
	if a0, ok := v0.([]any); ok {
		a1, _ := v1.([]any)
		var child []path
		for _, ig := range ignores {
			if 1 < len(ig) {
				child = append(child, ig[1:])
			}
		}
		for i, m := range a0 {
			if i == 0 {
				n += diff(m, a1[i], child...)
			} else {
				n += diff(m, a1[i], ignores...)
			}
		}
		return
	}
	if s, ok := v0.(interface{ Simplify() any }); ok {
		return diff(s.Simplify(), v1, ignores...)
	}
	if s, ok := v1.(interface{ Simplify() any }); ok {
		return diff(v0, s.Simplify())
	}
	return 0
}
`

func ruleChildVariadic(prog *Program, rep *Report, floor int, rels ...string) {
	rep.Rules = append(rep.Rules, "F-childpaths: a recursive function does not pass its own variadic parameter through unchanged in a self-call whose first argument is an element of the value (a range variable or an index expression), and does not drop it in a self-call on the value itself in another form ("+strings.Join(rels, ", ")+")")
	runSynRule(prog, rep, "F-childpaths", rels, matchChildVariadic, fixtureChildVariadic, 2, floor)
}

// ---------------------------------------------------------------- P-guardtight

// matchGuardTight: a condition of the form `K < len(x) && ... x[J] ...` guards constant indexes into x by a
// length test. When the largest constant index used in the same condition is smaller than K the test demands
// more elements than the condition looks at: inputs of length J+1..K, which the indexes could handle, take the
// other branch (a one-byte path "@" no longer counts as a path).
func matchGuardTight(files []*ast.File, info *types.Info) (sites []synSite, examined int) {
	for _, f := range files {
		ast.Inspect(f, func(n ast.Node) bool {
			is, ok := n.(*ast.IfStmt)
			if !ok {
				return true
			}
			// conjuncts of the condition
			var conj []ast.Expr
			var split func(e ast.Expr)
			split = func(e ast.Expr) {
				if be, ok := ast.Unparen(e).(*ast.BinaryExpr); ok && be.Op == token.LAND {
					split(be.X)
					split(be.Y)
					return
				}
				conj = append(conj, ast.Unparen(e))
			}
			split(is.Cond)
			if len(conj) < 2 {
				return true
			}
			for ci, c := range conj {
				be, ok := c.(*ast.BinaryExpr)
				if !ok {
					continue
				}
				// K < len(x)  or  len(x) > K
				var kExpr, lenExpr ast.Expr
				switch be.Op {
				case token.LSS:
					kExpr, lenExpr = be.X, be.Y
				case token.GTR:
					kExpr, lenExpr = be.Y, be.X
				default:
					continue
				}
				call, ok := ast.Unparen(lenExpr).(*ast.CallExpr)
				if !ok || len(call.Args) != 1 {
					continue
				}
				if id, ok := call.Fun.(*ast.Ident); !ok || id.Name != "len" {
					continue
				}
				tv, ok := info.Types[kExpr]
				if !ok || tv.Value == nil {
					continue
				}
				k, ok := constant.Int64Val(tv.Value)
				if !ok || k < 0 {
					continue
				}
				x := types.ExprString(call.Args[0])
				// constant indexes into x in the later conjuncts
				maxJ := int64(-1)
				for _, later := range conj[ci+1:] {
					ast.Inspect(later, func(m ast.Node) bool {
						ix, ok := m.(*ast.IndexExpr)
						if !ok || types.ExprString(ix.X) != x {
							return true
						}
						if jv, ok := info.Types[ix.Index]; ok && jv.Value != nil {
							if j, ok := constant.Int64Val(jv.Value); ok && j > maxJ {
								maxJ = j
							}
						}
						return true
					})
				}
				if maxJ < 0 {
					continue
				}
				// indexes or slices of x in the body may need the extra length
				needs := maxJ
				ast.Inspect(is.Body, func(m ast.Node) bool {
					switch y := m.(type) {
					case *ast.IndexExpr:
						if types.ExprString(y.X) == x {
							if jv, ok := info.Types[y.Index]; ok && jv.Value != nil {
								if j, ok := constant.Int64Val(jv.Value); ok && j > needs {
									needs = j
								}
							} else {
								needs = 1 << 30
							}
						}
					case *ast.SliceExpr:
						if types.ExprString(y.X) == x {
							for _, b := range []ast.Expr{y.Low, y.High} {
								if b == nil {
									continue
								}
								if jv, ok := info.Types[b]; ok && jv.Value != nil {
									if j, ok := constant.Int64Val(jv.Value); ok && j-1 > needs {
										needs = j - 1
									}
								} else {
									needs = 1 << 30
								}
							}
						}
					}
					return true
				})
				examined++
				if needs < k {
					name := enclosingFuncName(f, is.Pos())
					sites = append(sites, synSite{pos: is.Pos(), file: f, key: fmt.Sprintf("%s:guard-%d-index-%d:%s", name, k, needs, x),
						msg: fmt.Sprintf("%s tests %s and then looks at %s[%d] at most: values of %s with %d to %d elements take the other branch although every index used would be valid", name, types.ExprString(c), x, needs, x, needs+1, k)})
				}
			}
			return true
		})
	}
	return
}

const fixtureGuardTight = `package fixture

func isPath(tv string) bool {
	if 1 < len(tv) && (tv[0] == '$' || tv[0] == '@') {
		return true
	}
	if 0 < len(tv) && tv[0] == '[' {
		return true
	}
	if 1 < len(tv) && tv[0] == '.' {
		return tv[1] == '.'
	}
	return false
}
`

func ruleGuardTight(prog *Program, rep *Report, floor int, rels ...string) {
	rep.Rules = append(rep.Rules, "P-guardtight: a condition `K < len(x) && ...` whose later conjuncts and whose branch index x by constants no larger than J < K demands more elements than it looks at ("+strings.Join(rels, ", ")+")")
	runSynRule(prog, rep, "P-guardtight", rels, matchGuardTight, fixtureGuardTight, 1, floor)
}

// ---------------------------------------------------------------- M-operandset

// matchOperandSet: a loop `for i, ev := range S` that rewrites the elements of S by kind - a type switch whose
// clauses assign S[i] - has to assign S[i] on every path of a clause that assigns it at all: a path that falls
// out of the clause without the assignment leaves the raw element (an unresolved path expression) for the code
// that follows.
func matchOperandSet(files []*ast.File, info *types.Info) (sites []synSite, examined int) {
	for _, f := range files {
		ast.Inspect(f, func(n ast.Node) bool {
			rs, ok := n.(*ast.RangeStmt)
			if !ok || rs.Key == nil {
				return true
			}
			keyID, ok := rs.Key.(*ast.Ident)
			if !ok {
				return true
			}
			key := info.Defs[keyID]
			if key == nil {
				key = info.Uses[keyID]
			}
			sx := types.ExprString(rs.X)
			isElem := func(e ast.Expr) bool {
				ix, ok := ast.Unparen(e).(*ast.IndexExpr)
				if !ok || types.ExprString(ix.X) != sx {
					return false
				}
				id, ok := ast.Unparen(ix.Index).(*ast.Ident)
				return ok && info.Uses[id] == key
			}
			assignsElem := func(node ast.Node) bool {
				found := false
				ast.Inspect(node, func(k ast.Node) bool {
					if as, ok := k.(*ast.AssignStmt); ok {
						for _, l := range as.Lhs {
							if isElem(l) {
								found = true
							}
						}
					}
					return true
				})
				return found
			}
			// definite assignment along the statement tree; a jump leaves the clause (the tree assigns before it jumps)
			var must func(list []ast.Stmt) bool
			var mustStmt func(s ast.Stmt) bool
			mustStmt = func(s ast.Stmt) bool {
				switch x := s.(type) {
				case *ast.AssignStmt:
					for _, l := range x.Lhs {
						if isElem(l) {
							return true
						}
					}
				case *ast.BranchStmt, *ast.ReturnStmt:
					return true
				case *ast.BlockStmt:
					return must(x.List)
				case *ast.IfStmt:
					if x.Else == nil {
						return false
					}
					return must(x.Body.List) && mustStmt(x.Else)
				case *ast.SwitchStmt:
					hasDefault := false
					for _, c := range x.Body.List {
						cc := c.(*ast.CaseClause)
						if cc.List == nil {
							hasDefault = true
						}
						if !must(cc.Body) {
							return false
						}
					}
					return hasDefault
				case *ast.TypeSwitchStmt:
					hasDefault := false
					for _, c := range x.Body.List {
						cc := c.(*ast.CaseClause)
						if cc.List == nil {
							hasDefault = true
						}
						if !must(cc.Body) {
							return false
						}
					}
					return hasDefault
				case *ast.LabeledStmt:
					return mustStmt(x.Stmt)
				}
				return false
			}
			must = func(list []ast.Stmt) bool {
				for _, s := range list {
					if mustStmt(s) {
						return true
					}
				}
				return false
			}
			ast.Inspect(rs.Body, func(k ast.Node) bool {
				ts, ok := k.(*ast.TypeSwitchStmt)
				if !ok {
					return true
				}
				n := 0
				for _, c := range ts.Body.List {
					if assignsElem(c) {
						n++
					}
				}
				if n < 5 {
					return true
				}
				for _, c := range ts.Body.List {
					cc := c.(*ast.CaseClause)
					if !assignsElem(cc) {
						continue
					}
					examined++
					if !must(cc.Body) {
						var names []string
						for _, t := range cc.List {
							names = append(names, types.ExprString(t))
						}
						name := enclosingFuncName(f, cc.Pos())
						sites = append(sites, synSite{pos: cc.Pos(), file: f, key: fmt.Sprintf("%s:clause-%s:may-leave-%s[%s]-unset", name, strings.Join(names, ","), sx, keyID.Name),
							msg: fmt.Sprintf("%s: the clause for %s assigns %s[%s] on some paths only: on the others the element keeps its raw value (an unresolved operand)", name, strings.Join(names, ", "), sx, keyID.Name)})
					}
				}
				return false
			})
			return true
		})
	}
	return
}

const fixtureOperandSet = `package fixture

type expr []string

func find(x expr) (any, bool) { return nil, false }

func resolve(s []any) {
	for i, ev := range s {
		switch x := ev.(type) {
		case expr:
			if v, has := find(x); has {
				s[i] = v
			}
		case int:
			s[i] = int64(x)
		case int8:
			s[i] = int64(x)
		case int16:
			s[i] = int64(x)
		case int32:
			if x < 0 {
				s[i] = int64(-x)
			} else {
				s[i] = int64(x)
			}
		}
	}
}
`

func ruleOperandSet(prog *Program, rep *Report, floor int, rels ...string) {
	rep.Rules = append(rep.Rules, "M-operandset: in a loop that rewrites the elements of a slice by kind (type switch with at least five clauses that assign S[i]) every clause that assigns S[i] assigns it on every path that falls out of the clause ("+strings.Join(rels, ", ")+")")
	runSynRule(prog, rep, "M-operandset", rels, matchOperandSet, fixtureOperandSet, 1, floor)
}

// ---------------------------------------------------------------- K-slicearray

// matchSliceArray: in the JSONPath evaluators a reflected Go array is walked wherever a reflected slice is
// (95 of 95 case clauses over reflect kinds on the pinned tree list both or neither). A clause that lists
// reflect.Slice without reflect.Array (or the reverse) makes one evaluator stop at arrays that the others enter.
func matchSliceArray(files []*ast.File, info *types.Info) (sites []synSite, examined int) {
	for _, f := range files {
		ast.Inspect(f, func(n ast.Node) bool {
			cc, ok := n.(*ast.CaseClause)
			if !ok || len(cc.List) < 2 {
				return true
			}
			have := map[string]bool{}
			for _, e := range cc.List {
				if sel, ok := ast.Unparen(e).(*ast.SelectorExpr); ok {
					if c, ok := info.Uses[sel.Sel].(*types.Const); ok && c.Pkg() != nil && c.Pkg().Path() == "reflect" {
						have[c.Name()] = true
					}
				}
			}
			if !have["Slice"] && !have["Array"] {
				return true
			}
			examined++
			if have["Slice"] != have["Array"] {
				missing := "Array"
				if have["Array"] {
					missing = "Slice"
				}
				name := enclosingFuncName(f, cc.Pos())
				sites = append(sites, synSite{pos: cc.Pos(), file: f, key: fmt.Sprintf("%s:kinds-without-%s", name, missing),
					msg: fmt.Sprintf("%s: a case clause over reflect kinds lists one of Slice / Array without reflect.%s: values of that kind are not entered here although every other evaluator enters them", name, missing)})
			}
			return true
		})
	}
	return
}

const fixtureSliceArray = `package fixture

import "reflect"

func enter(k reflect.Kind) bool {
	switch k {
	case reflect.Ptr, reflect.Slice, reflect.Struct, reflect.Map:
		return true
	}
	switch k {
	case reflect.Array, reflect.Slice:
		return true
	}
	return false
}
`

func ruleSliceArray(prog *Program, rep *Report, floor int, rels ...string) {
	rep.Rules = append(rep.Rules, "K-slicearray: every case clause over reflect kinds that lists reflect.Slice lists reflect.Array too, and the reverse ("+strings.Join(rels, ", ")+")")
	runSynRule(prog, rep, "K-slicearray", rels, matchSliceArray, fixtureSliceArray, 1, floor)
}

// ---------------------------------------------------------------- D-poolnew

// rulePoolNew: a parser taken from a pool is supposed to behave like `var p Parser` (every option off, nothing
// recycled). The New function of a sync.Pool whose elements are one of the parsing front-end types therefore
// returns the zero value: an option switched on there (Reuse: true) is on for every package-level call, and
// with Reuse the maps of a returned document stay owned by the pooled parser.
func rulePoolNew(prog *Program, rep *Report, specs ...feSpec) {
	rep.Rules = append(rep.Rules, "D-poolnew: the New function of every sync.Pool whose elements are a parsing front-end type (oj.Parser, gen.Parser, sen.Parser, the tokenizers, the validator) returns &T{} with no field set: pooled parsers start as fresh ones")
	isFE := map[string]bool{}
	for _, sp := range specs {
		isFE[sp.rel+"."+sp.typ] = true
	}
	n := 0
	rels := map[string]bool{}
	for _, sp := range specs {
		rels[sp.rel] = true
	}
	for rel := range rels {
		pk := prog.Pkg(rel)
		if pk == nil {
			rep.Errorf("D-poolnew: package %s not loaded", rel)
			continue
		}
		info := pk.TypesInfo
		for _, f := range pk.Syntax {
			ast.Inspect(f, func(nd ast.Node) bool {
				cl, ok := nd.(*ast.CompositeLit)
				if !ok {
					return true
				}
				t := info.TypeOf(cl)
				nt, ok := t.(*types.Named)
				if !ok || nt.Obj().Name() != "Pool" || nt.Obj().Pkg() == nil || nt.Obj().Pkg().Path() != "sync" {
					return true
				}
				for _, el := range cl.Elts {
					kv, ok := el.(*ast.KeyValueExpr)
					if !ok {
						continue
					}
					fl, ok := kv.Value.(*ast.FuncLit)
					if !ok {
						continue
					}
					ast.Inspect(fl.Body, func(k ast.Node) bool {
						ret, ok := k.(*ast.ReturnStmt)
						if !ok || len(ret.Results) != 1 {
							return true
						}
						u, ok := ast.Unparen(ret.Results[0]).(*ast.UnaryExpr)
						if !ok || u.Op != token.AND {
							return true
						}
						lit, ok := u.X.(*ast.CompositeLit)
						if !ok {
							return true
						}
						lt, ok := info.TypeOf(lit).(*types.Named)
						if !ok || !isFE[rel+"."+lt.Obj().Name()] {
							return true
						}
						n++
						key := fmt.Sprintf("%s.pool-of-%s", rel, lt.Obj().Name())
						if len(lit.Elts) == 0 {
							rep.Discharge("D-poolnew", key, prog.Pos(lit.Pos()), "New returns the zero value")
						} else {
							var set []string
							for _, e := range lit.Elts {
								set = append(set, types.ExprString(e))
							}
							rep.Violate(Finding{Rule: "D-poolnew", Key: key, Pos: prog.Pos(lit.Pos()), Msg: fmt.Sprintf("the pool of %s.%s creates its parsers with %s: every package-level call starts from that setting instead of the zero value a fresh parser has", rel, lt.Obj().Name(), strings.Join(set, ", "))})
						}
						return true
					})
				}
				return true
			})
		}
	}
	rep.Eval(n)
	if n < 2 {
		rep.Errorf("D-poolnew found %d parser pools (floor 2)", n)
	}
}

// ---------------------------------------------------------------- D-recvguard

// matchRecvGuard: the conversions of the generic containers (Alter, Simplify, Dup of gen.Array and gen.Object)
// all start with one test of the receiver that separates "no container" (nil stays nil) from "a container,
// possibly empty". A copy that tests something else (0 < len(n)) turns an empty container into no container:
// Marshal then writes null for [].
func matchRecvGuard(files []*ast.File, info *types.Info) (sites []synSite, examined int) {
	type g struct {
		pos  token.Pos
		file *ast.File
		name string
		cond string
	}
	var guards []g
	for _, f := range files {
		for _, d := range f.Decls {
			fd, ok := d.(*ast.FuncDecl)
			if !ok || fd.Body == nil || fd.Recv == nil || len(fd.Recv.List) != 1 || len(fd.Recv.List[0].Names) != 1 {
				continue
			}
			recv := info.Defs[fd.Recv.List[0].Names[0]]
			if recv == nil {
				continue
			}
			switch recv.Type().Underlying().(type) {
			case *types.Slice, *types.Map:
			default:
				continue
			}
			for _, s := range fd.Body.List {
				is, ok := s.(*ast.IfStmt)
				if !ok || is.Init != nil {
					continue
				}
				// the condition mentions the receiver and nothing else that varies
				onlyRecv, mentions := true, false
				ast.Inspect(is.Cond, func(n ast.Node) bool {
					if id, ok := n.(*ast.Ident); ok {
						switch o := info.Uses[id].(type) {
						case *types.Var:
							if o == recv {
								mentions = true
							} else {
								onlyRecv = false
							}
						case *types.Func:
							onlyRecv = false
						}
					}
					return true
				})
				if !onlyRecv || !mentions {
					continue
				}
				// the guarded block builds the result: it contains a make or a composite literal or a loop over the receiver
				builds := false
				ast.Inspect(is.Body, func(n ast.Node) bool {
					switch x := n.(type) {
					case *ast.RangeStmt:
						if id, ok := ast.Unparen(x.X).(*ast.Ident); ok && info.Uses[id] == recv {
							builds = true
						}
					}
					return true
				})
				if !builds {
					continue
				}
				cond := regexp.MustCompile(`\b`+regexp.QuoteMeta(fd.Recv.List[0].Names[0].Name)+`\b`).ReplaceAllString(types.ExprString(is.Cond), "RECV")
				guards = append(guards, g{is.Pos(), f, enclosingFuncName(f, fd.Pos()), cond})
			}
		}
	}
	examined = len(guards)
	cnt := map[string]int{}
	for _, x := range guards {
		cnt[x.cond]++
	}
	major, best := "", 0
	for c, n := range cnt {
		if n > best {
			major, best = c, n
		}
	}
	if best*2 <= len(guards) {
		return // no majority: nothing to compare with
	}
	for _, x := range guards {
		if x.cond != major {
			sites = append(sites, synSite{pos: x.pos, file: x.file, key: fmt.Sprintf("%s:guard:%s", x.name, x.cond),
				msg: fmt.Sprintf("%s guards the walk over its receiver with `%s`; the other %d conversions of the container types use `%s`: an empty container is treated like no container (or the reverse)", x.name, x.cond, best, major)})
		}
	}
	return
}

const fixtureRecvGuard = `package fixture

type arr []any

func (n arr) alter() any {
	var out []any
	if n != nil {
		out = make([]any, 0, len(n))
		for _, m := range n {
			out = append(out, m)
		}
	}
	return out
}

func (n arr) dup() any {
	var out []any
	if n != nil {
		out = make([]any, 0, len(n))
		for _, m := range n {
			out = append(out, m)
		}
	}
	return out
}

func (n arr) simplify() any {
	var out []any
	if 0 < len(n) {
		out = make([]any, 0, len(n))
		for _, m := range n {
			out = append(out, m)
		}
	}
	return out
}
`

func ruleRecvGuard(prog *Program, rep *Report, floor int, rels ...string) {
	rep.Rules = append(rep.Rules, "D-recvguard: the methods of slice and map types that walk their receiver under a test of the receiver alone (Alter, Simplify, Dup of gen.Array and gen.Object) all use the same test ("+strings.Join(rels, ", ")+")")
	runSynRule(prog, rep, "D-recvguard", rels, matchRecvGuard, fixtureRecvGuard, 1, floor)
}

// ---------------------------------------------------------------- D-putonce

// matchPutOnce: an instance goes back to its pool once. A function that defers pool.Put(x) and also calls
// pool.Put(x) on some path (an error branch) puts the instance in twice: two later, overlapping callers then
// get the same parser or writer.
func matchPutOnce(files []*ast.File, info *types.Info) (sites []synSite, examined int) {
	isPut := func(call *ast.CallExpr) (string, bool) {
		sel, ok := call.Fun.(*ast.SelectorExpr)
		if !ok || sel.Sel.Name != "Put" || len(call.Args) != 1 {
			return "", false
		}
		t := info.TypeOf(sel.X)
		if t == nil {
			return "", false
		}
		if p, ok := t.(*types.Pointer); ok {
			t = p.Elem()
		}
		nt, ok := t.(*types.Named)
		if !ok || nt.Obj().Name() != "Pool" || nt.Obj().Pkg() == nil || nt.Obj().Pkg().Path() != "sync" {
			return "", false
		}
		return types.ExprString(sel.X) + "/" + types.ExprString(call.Args[0]), true
	}
	for _, f := range files {
		for _, d := range f.Decls {
			fd, ok := d.(*ast.FuncDecl)
			if !ok || fd.Body == nil {
				continue
			}
			deferred := map[string]bool{}
			var plain []struct {
				key string
				pos token.Pos
			}
			ast.Inspect(fd.Body, func(n ast.Node) bool {
				switch x := n.(type) {
				case *ast.FuncLit:
					return false
				case *ast.DeferStmt:
					if k, ok := isPut(x.Call); ok {
						deferred[k] = true
					}
					return false
				case *ast.CallExpr:
					if k, ok := isPut(x); ok {
						plain = append(plain, struct {
							key string
							pos token.Pos
						}{k, x.Pos()})
					}
				}
				return true
			})
			if len(deferred)+len(plain) > 0 {
				examined++
			}
			for _, p := range plain {
				if deferred[p.key] {
					name := enclosingFuncName(f, fd.Pos())
					sites = append(sites, synSite{pos: p.pos, file: f, key: fmt.Sprintf("%s:put-twice:%s", name, p.key),
						msg: fmt.Sprintf("%s puts %s back here although a deferred Put of the same instance is pending: the instance is in the pool twice and two later callers share it", name, p.key)})
				}
			}
		}
	}
	return
}

const fixturePutOnce = `package fixture

import "sync"

type parser struct{}

var pool = sync.Pool{New: func() any { return &parser{} }}

func must(fail bool) {
	p := pool.Get().(*parser)
	defer pool.Put(p)
	if fail {
		pool.Put(p)
		panic("failed")
	}
}

func fine() {
	p := pool.Get().(*parser)
	defer pool.Put(p)
}
`

func rulePutOnce(prog *Program, rep *Report, floor int, rels ...string) {
	rep.Rules = append(rep.Rules, "D-putonce: no function calls pool.Put(x) while a deferred pool.Put(x) of the same instance is pending ("+strings.Join(rels, ", ")+")")
	runSynRule(prog, rep, "D-putonce", rels, matchPutOnce, fixturePutOnce, 1, floor)
}

// ---------------------------------------------------------------- E-mustcompile

// matchMustCompile: regexp.MustCompile panics on a pattern that does not compile; with a pattern that is not a
// constant (a string taken from the script or from the data) the panic is an input-dependent one.
func matchMustCompile(files []*ast.File, info *types.Info) (sites []synSite, examined int) {
	for _, f := range files {
		ast.Inspect(f, func(n ast.Node) bool {
			call, ok := n.(*ast.CallExpr)
			if !ok || len(call.Args) != 1 {
				return true
			}
			sel, ok := call.Fun.(*ast.SelectorExpr)
			if !ok {
				return true
			}
			fn, ok := info.Uses[sel.Sel].(*types.Func)
			if !ok || fn.Pkg() == nil || fn.Pkg().Path() != "regexp" || !strings.HasPrefix(fn.Name(), "MustCompile") {
				return true
			}
			examined++
			if tv, ok := info.Types[call.Args[0]]; ok && tv.Value != nil {
				return true
			}
			name := enclosingFuncName(f, call.Pos())
			sites = append(sites, synSite{pos: call.Pos(), file: f, key: fmt.Sprintf("%s:mustcompile:%s", name, types.ExprString(call.Args[0])),
				msg: fmt.Sprintf("%s compiles the non-constant pattern %s with regexp.%s: a pattern that does not compile panics", name, types.ExprString(call.Args[0]), fn.Name())})
			return true
		})
	}
	return
}

const fixtureMustCompile = `package fixture

import "regexp"

var fixed = regexp.MustCompile("^[a-z]+$")

func match(pat, s string) bool {
	return regexp.MustCompile(pat).MatchString(s)
}
`

func ruleMustCompile(prog *Program, rep *Report, rels ...string) {
	rep.Rules = append(rep.Rules, "E-mustcompile: regexp.MustCompile is called with constant patterns only ("+strings.Join(rels, ", ")+")")
	runSynRule(prog, rep, "E-mustcompile", rels, matchMustCompile, fixtureMustCompile, 1, 0)
}

// ---------------------------------------------------------------- B-popsync

// matchIndexSync: the traversal loops of jp keep a fragment index fi and the fragment f = x[fi] it selects in
// two variables. Wherever a function re-derives one variable from the other by `F = X[I]`, every assignment of
// I inside a loop (`fi++`, `fi = ii & mask` after a pop) is directly followed by that re-derivation: otherwise
// the loop goes on with the fragment of the level it has just left.
func matchIndexSync(files []*ast.File, info *types.Info) (sites []synSite, examined int) {
	for _, f := range files {
		for _, d := range f.Decls {
			fd, ok := d.(*ast.FuncDecl)
			if !ok || fd.Body == nil {
				continue
			}
			// pairs (I -> F) from statements F = X[I]
			derived := map[types.Object]types.Object{}
			isDerive := func(s ast.Stmt) (types.Object, types.Object) {
				as, ok := s.(*ast.AssignStmt)
				if !ok || as.Tok != token.ASSIGN || len(as.Lhs) != 1 || len(as.Rhs) != 1 {
					return nil, nil
				}
				fid, ok := as.Lhs[0].(*ast.Ident)
				if !ok {
					return nil, nil
				}
				ix, ok := ast.Unparen(as.Rhs[0]).(*ast.IndexExpr)
				if !ok {
					return nil, nil
				}
				iid, ok := ast.Unparen(ix.Index).(*ast.Ident)
				if !ok {
					return nil, nil
				}
				// X is a path: a slice of the fragment interface (an index into data is normalised and used in other ways)
				if sl, ok := info.TypeOf(ix.X).Underlying().(*types.Slice); !ok {
					return nil, nil
				} else if nt, ok := sl.Elem().(*types.Named); !ok || nt.Obj().Name() != "Frag" {
					return nil, nil
				}
				iv, _ := info.Uses[iid].(*types.Var)
				fv, _ := info.Uses[fid].(*types.Var)
				if iv == nil || fv == nil {
					return nil, nil
				}
				if b, ok := iv.Type().Underlying().(*types.Basic); !ok || b.Info()&types.IsInteger == 0 {
					return nil, nil
				}
				return iv, fv
			}
			ast.Inspect(fd.Body, func(n ast.Node) bool {
				if s, ok := n.(ast.Stmt); ok {
					if i, fv := isDerive(s); i != nil {
						derived[i] = fv
					}
				}
				return true
			})
			if len(derived) == 0 {
				continue
			}
			var visit func(list []ast.Stmt, inLoop bool)
			check := func(list []ast.Stmt, k int, iv types.Object, pos token.Pos) {
				examined++
				if k+1 < len(list) {
					if i2, f2 := isDerive(list[k+1]); i2 == iv && f2 == derived[iv] {
						return
					}
				}
				name := enclosingFuncName(f, fd.Pos())
				sites = append(sites, synSite{pos: pos, file: f, key: fmt.Sprintf("%s:%s-moved-without-%s", name, iv.Name(), derived[iv].Name()),
					msg: fmt.Sprintf("%s assigns %s here and does not re-derive %s from it in the next statement (elsewhere %s = x[%s] follows every change of %s): the loop goes on with a stale %s", name, iv.Name(), derived[iv].Name(), derived[iv].Name(), iv.Name(), iv.Name(), derived[iv].Name())})
			}
			visit = func(list []ast.Stmt, inLoop bool) {
				for k, s := range list {
					switch x := s.(type) {
					case *ast.AssignStmt:
						if inLoop && x.Tok == token.ASSIGN && len(x.Lhs) == 1 {
							if id, ok := x.Lhs[0].(*ast.Ident); ok {
								if iv := info.Uses[id]; iv != nil && derived[iv] != nil {
									check(list, k, iv, x.Pos())
								}
							}
						}
					case *ast.IncDecStmt:
						if id, ok := x.X.(*ast.Ident); ok && inLoop {
							if iv := info.Uses[id]; iv != nil && derived[iv] != nil {
								check(list, k, iv, x.Pos())
							}
						}
					case *ast.BlockStmt:
						visit(x.List, inLoop)
					case *ast.IfStmt:
						visit(x.Body.List, inLoop)
						switch e := x.Else.(type) {
						case *ast.BlockStmt:
							visit(e.List, inLoop)
						case *ast.IfStmt:
							visit([]ast.Stmt{e}, inLoop)
						}
					case *ast.ForStmt:
						visit(x.Body.List, true)
					case *ast.RangeStmt:
						visit(x.Body.List, true)
					case *ast.SwitchStmt:
						for _, c := range x.Body.List {
							visit(c.(*ast.CaseClause).Body, inLoop)
						}
					case *ast.TypeSwitchStmt:
						for _, c := range x.Body.List {
							visit(c.(*ast.CaseClause).Body, inLoop)
						}
					case *ast.LabeledStmt:
						visit([]ast.Stmt{x.Stmt}, inLoop)
					}
				}
			}
			visit(fd.Body.List, false)
		}
	}
	return
}

const fixtureIndexSync = `package fixture

type Frag interface{ String() string }

func walk(x []Frag, stack []int) (out []Frag) {
	fi := 0
	f := x[fi]
	for 0 < len(stack) {
		ii := stack[len(stack)-1]
		stack = stack[:len(stack)-1]
		if ii < 0 {
			fi = -ii & 0xff
			continue
		}
		if ii == 0 {
			fi++
			f = x[fi]
		}
		out = append(out, f)
	}
	return
}
`

func ruleIndexSync(prog *Program, rep *Report, floor int, rels ...string) {
	rep.Rules = append(rep.Rules, "B-popsync: in a function that derives the current fragment from a fragment index by F = X[I] (X a path), every assignment of I inside a loop is directly followed by that derivation ("+strings.Join(rels, ", ")+")")
	runSynRule(prog, rep, "B-popsync", rels, matchIndexSync, fixtureIndexSync, 1, floor)
}

// ---------------------------------------------------------------- N-digitbuf

// matchDigitBuf: a loop that peels decimal digits off an integer (x /= 10) and stores them in a local array of
// fixed size needs room for every digit the integer's type can have: 19 for int and int64, 20 for uint and
// uint64, 10 for the 32-bit types. A shorter array panics for the largest values only.
func matchDigitBuf(files []*ast.File, info *types.Info) (sites []synSite, examined int) {
	need := func(t types.Type) int {
		b, ok := t.Underlying().(*types.Basic)
		if !ok {
			return 0
		}
		switch b.Kind() {
		case types.Int, types.Int64:
			return 19
		case types.Uint, types.Uint64, types.Uintptr:
			return 20
		case types.Int32, types.Uint32:
			return 10
		case types.Int16, types.Uint16:
			return 5
		case types.Int8, types.Uint8:
			return 3
		}
		return 0
	}
	for _, f := range files {
		ast.Inspect(f, func(n ast.Node) bool {
			fs, ok := n.(*ast.ForStmt)
			if !ok {
				return true
			}
			digits := 0
			ast.Inspect(fs.Body, func(k ast.Node) bool {
				as, ok := k.(*ast.AssignStmt)
				if !ok || as.Tok != token.QUO_ASSIGN || len(as.Rhs) != 1 {
					return true
				}
				if tv, ok := info.Types[as.Rhs[0]]; ok && tv.Value != nil && tv.Value.ExactString() == "10" {
					if d := need(info.TypeOf(as.Lhs[0])); d > digits {
						digits = d
					}
				}
				return true
			})
			if digits == 0 {
				return true
			}
			ast.Inspect(fs.Body, func(k ast.Node) bool {
				as, ok := k.(*ast.AssignStmt)
				if !ok || len(as.Lhs) != 1 {
					return true
				}
				ix, ok := as.Lhs[0].(*ast.IndexExpr)
				if !ok {
					return true
				}
				arr, ok := info.TypeOf(ix.X).Underlying().(*types.Array)
				if !ok {
					return true
				}
				examined++
				if int(arr.Len()) < digits {
					name := enclosingFuncName(f, fs.Pos())
					sites = append(sites, synSite{pos: as.Pos(), file: f, key: fmt.Sprintf("%s:digit-array-%d-of-%d", name, arr.Len(), digits),
						msg: fmt.Sprintf("%s stores the decimal digits of an integer that can have %d of them in an array of %d: the largest values index past its end", name, digits, arr.Len())})
				}
				return true
			})
			return true
		})
	}
	return
}

const fixtureDigitBuf = `package fixture

func appendInt(buf []byte, i int) []byte {
	num := [18]byte{}
	cnt := 0
	for ; i != 0; cnt++ {
		num[cnt] = byte(i%10) + '0'
		i /= 10
	}
	for cnt--; 0 <= cnt; cnt-- {
		buf = append(buf, num[cnt])
	}
	return buf
}
`

func ruleDigitBuf(prog *Program, rep *Report, floor int, rels ...string) {
	rep.Rules = append(rep.Rules, "N-digitbuf: a fixed-size array that a loop fills with the decimal digits of an integer (x /= 10) has room for every digit of the integer's type ("+strings.Join(rels, ", ")+")")
	runSynRule(prog, rep, "N-digitbuf", rels, matchDigitBuf, fixtureDigitBuf, 1, floor)
}

// ---------------------------------------------------------------- E-nilmapwrite

// matchNilMapWrite: `m, _ := x.(map[K]V)` leaves m nil when x holds something else, and a store m[k] = v into a
// nil map panics. Such a store needs a nil test of m around it, or a reason why the assertion cannot fail.
func matchNilMapWrite(files []*ast.File, info *types.Info) (sites []synSite, examined int) {
	for _, f := range files {
		for _, d := range f.Decls {
			fd, ok := d.(*ast.FuncDecl)
			if !ok || fd.Body == nil {
				continue
			}
			unchecked := map[types.Object]bool{}
			ast.Inspect(fd.Body, func(n ast.Node) bool {
				as, ok := n.(*ast.AssignStmt)
				if !ok || len(as.Lhs) != 2 || len(as.Rhs) != 1 {
					return true
				}
				ta, ok := ast.Unparen(as.Rhs[0]).(*ast.TypeAssertExpr)
				if !ok || ta.Type == nil {
					return true
				}
				if _, isMap := info.TypeOf(ta.Type).Underlying().(*types.Map); !isMap {
					return true
				}
				if id, ok := as.Lhs[1].(*ast.Ident); !ok || id.Name != "_" {
					return true
				}
				if id, ok := as.Lhs[0].(*ast.Ident); ok {
					o := info.Defs[id]
					if o == nil {
						o = info.Uses[id]
					}
					if o != nil {
						unchecked[o] = true
					}
				}
				return true
			})
			if len(unchecked) == 0 {
				continue
			}
			// stores m[k] = v with the enclosing nil tests
			var walk func(n ast.Node, guarded map[types.Object]bool)
			walk = func(n ast.Node, guarded map[types.Object]bool) {
				ast.Inspect(n, func(k ast.Node) bool {
					switch x := k.(type) {
					case *ast.IfStmt:
						g := map[types.Object]bool{}
						for o := range guarded {
							g[o] = true
						}
						ast.Inspect(x.Cond, func(c ast.Node) bool {
							if be, ok := c.(*ast.BinaryExpr); ok && be.Op == token.NEQ {
								for _, pair := range [][2]ast.Expr{{be.X, be.Y}, {be.Y, be.X}} {
									if id, ok := ast.Unparen(pair[0]).(*ast.Ident); ok {
										if nid, ok := ast.Unparen(pair[1]).(*ast.Ident); ok && nid.Name == "nil" && unchecked[info.Uses[id]] {
											g[info.Uses[id]] = true
										}
									}
								}
							}
							return true
						})
						if x.Init != nil {
							walk(x.Init, guarded)
						}
						walk(x.Body, g)
						if x.Else != nil {
							walk(x.Else, guarded)
						}
						return false
					case *ast.AssignStmt:
						for _, l := range x.Lhs {
							ix, ok := ast.Unparen(l).(*ast.IndexExpr)
							if !ok {
								continue
							}
							id, ok := ast.Unparen(ix.X).(*ast.Ident)
							if !ok || !unchecked[info.Uses[id]] {
								continue
							}
							examined++
							if !guarded[info.Uses[id]] {
								name := enclosingFuncName(f, fd.Pos())
								sites = append(sites, synSite{pos: x.Pos(), file: f, key: fmt.Sprintf("%s:store-into-unchecked-map:%s", name, types.ExprString(l)),
									msg: fmt.Sprintf("%s stores into %s, which a comma-ok assertion with a discarded ok may have left nil, without a nil test around the store", name, id.Name)})
							}
						}
					}
					return true
				})
			}
			walk(fd.Body, map[types.Object]bool{})
		}
	}
	return
}

const fixtureNilMapWrite = `package fixture

func add(stack []any, k string, v any) {
	obj, _ := stack[len(stack)-1].(map[string]any)
	obj[k] = v
	o2, _ := stack[0].(map[string]any)
	if o2 != nil {
		o2[k] = v
	}
}
`

// nilMapWriteAccepted: stores that rely on an invariant of the parser's build stack (read).
var nilMapWriteAccepted = map[string]string{
	"gen.Parser.add:store-into-unchecked-map:obj[string(k)]":          "the store is made under `if k, ok := stack[top].(gen.Key); ok`: a key is only ever pushed on top of the map it belongs to (the object arm pushes the map, the key arms push the key), which Engine A follows for the JSON front-ends as the kind of the build-stack top; the map below a key is therefore never absent",
	"oj.Parser.add:store-into-unchecked-map:obj[string(k)]":           "the store is made under `if k, ok := stack[top].(gen.Key); ok`: a key is only ever pushed on top of the map it belongs to (the object arm pushes the map, the key arms push the key), which Engine A follows for the JSON front-ends as the kind of the build-stack top; the map below a key is therefore never absent",
	"sen.Parser.add:store-into-unchecked-map:obj[string(k)]":          "the store is made under `if k, ok := stack[top].(gen.Key); ok`: a key is only ever pushed on top of the map it belongs to (the object arm pushes the map, the key arms push the key), which Engine A follows for the JSON front-ends as the kind of the build-stack top; the map below a key is therefore never absent",
	"sen.Parser.addString:store-into-unchecked-map:obj[string(k)]":    "the store is made under `if k, ok := stack[top].(gen.Key); ok`: a key is only ever pushed on top of the map it belongs to (the object arm pushes the map, the key arms push the key), which Engine A follows for the JSON front-ends as the kind of the build-stack top; the map below a key is therefore never absent",
	"sen.Parser.addToken:store-into-unchecked-map:obj[string(k)]":     "the store is made under `if k, ok := stack[top].(gen.Key); ok`: a key is only ever pushed on top of the map it belongs to (the object arm pushes the map, the key arms push the key), which Engine A follows for the JSON front-ends as the kind of the build-stack top; the map below a key is therefore never absent",
	"sen.Parser.addTokenWith:store-into-unchecked-map:obj[string(k)]": "the store is made under `if k, ok := stack[top].(gen.Key); ok`: a key is only ever pushed on top of the map it belongs to (the object arm pushes the map, the key arms push the key), which Engine A follows for the JSON front-ends as the kind of the build-stack top; the map below a key is therefore never absent",
}

func ruleNilMapWrite(prog *Program, rep *Report, rels ...string) {
	rep.Rules = append(rep.Rules, "E-nilmapwrite: a store into a map obtained by `m, _ := x.(map...)` sits inside a test `m != nil`, or the site is listed with the reason why the assertion cannot fail ("+strings.Join(rels, ", ")+")")
	ff, finfo, _, err := loadFixture(fixtureNilMapWrite)
	if err != nil {
		rep.Errorf("E-nilmapwrite: fixture does not type-check: %v", err)
		return
	}
	if fs, _ := matchNilMapWrite(ff, finfo); len(fs) != 1 {
		rep.Errorf("E-nilmapwrite: the positive-control fixture produced %d matches (want 1)", len(fs))
		return
	}
	rep.Discharge("E-nilmapwrite", "positive-control", "checker/rules_r7.go", "fixture matched once")
	for _, rel := range rels {
		pk := prog.Pkg(rel)
		if pk == nil {
			rep.Errorf("E-nilmapwrite: package %s not loaded", rel)
			continue
		}
		sites, n := matchNilMapWrite(pk.Syntax, pk.TypesInfo)
		rep.Eval(n)
		acc := 0
		for _, s := range sites {
			if why, ok := nilMapWriteAccepted[rel+"."+s.key]; ok {
				rep.Discharge("E-nilmapwrite", rel+"."+s.key, prog.Pos(s.pos), "accepted (read): "+why)
				acc++
				continue
			}
			rep.Violate(Finding{Rule: "E-nilmapwrite", Key: rel + "." + s.key, Pos: prog.Pos(s.pos), Msg: s.msg})
		}
		rep.Discharge("E-nilmapwrite", rel, rel, fmt.Sprintf("%d stores examined, %d accepted", n, acc))
	}
}

// ---------------------------------------------------------------- F-paramtwins

// ruleParamTwins: two functions of one package whose signatures differ only in the basic type of one
// parameter (ignoreIndex(i int, ignores []Path) bool / ignoreKey(k string, ignores []Path) bool) are the same
// function for two kinds of path element. Their bodies are compared after the names of their parameters and
// locals are replaced by positional placeholders and the differing basic type by T.
func ruleParamTwins(prog *Program, rep *Report, floor int, rels ...string) {
	rep.Rules = append(rep.Rules, "F-paramtwins: two functions of a package whose signatures differ only in the basic type of one parameter, and that are the only such partners of each other, have the same statements once parameter and local names are replaced by positional placeholders and the differing type by T ("+strings.Join(rels, ", ")+")")
	n := 0
	for _, rel := range rels {
		pk := prog.Pkg(rel)
		if pk == nil {
			rep.Errorf("F-paramtwins: package %s not loaded", rel)
			continue
		}
		info := pk.TypesInfo
		type ent struct {
			fd   *ast.FuncDecl
			diff string // the basic type that was replaced
		}
		groups := map[string][]ent{}
		for _, f := range pk.Syntax {
			for _, d := range f.Decls {
				fd, ok := d.(*ast.FuncDecl)
				if !ok || fd.Body == nil || fd.Recv != nil {
					continue
				}
				o, _ := info.Defs[fd.Name].(*types.Func)
				if o == nil {
					continue
				}
				sg := o.Type().(*types.Signature)
				if sg.Params().Len() < 2 || sg.Variadic() {
					continue
				}
				// exactly one parameter of basic type among at least one parameter of a named/composite type
				basicAt, nb := -1, 0
				for i := 0; i < sg.Params().Len(); i++ {
					if _, ok := sg.Params().At(i).Type().(*types.Basic); ok {
						basicAt = i
						nb++
					}
				}
				if nb != 1 {
					continue
				}
				var parts []string
				for i := 0; i < sg.Params().Len(); i++ {
					if i == basicAt {
						parts = append(parts, "T")
					} else {
						parts = append(parts, sg.Params().At(i).Type().String())
					}
				}
				key := strings.Join(parts, ",") + "->" + sg.Results().String()
				groups[key] = append(groups[key], ent{fd, sg.Params().At(basicAt).Type().String()})
			}
		}
		norm := func(e ent) []string {
			// positional names for parameters and locals, in order of definition
			names := map[string]string{}
			k := 0
			ast.Inspect(e.fd, func(nd ast.Node) bool {
				if ts, ok := nd.(*ast.TypeSwitchStmt); ok {
					// the variable a type switch binds has no object of its own (one per clause)
					if as, ok := ts.Assign.(*ast.AssignStmt); ok && len(as.Lhs) == 1 {
						if id, ok := as.Lhs[0].(*ast.Ident); ok {
							if _, seen := names[id.Name]; !seen {
								names[id.Name] = fmt.Sprintf("v%d", k)
								k++
							}
						}
					}
				}
				if id, ok := nd.(*ast.Ident); ok {
					if v, ok := info.Defs[id].(*types.Var); ok && !v.IsField() && id.Name != "_" {
						if _, seen := names[id.Name]; !seen {
							names[id.Name] = fmt.Sprintf("v%d", k)
							k++
						}
					}
				}
				return true
			})
			var out []string
			for _, l := range twinBodyLines(e.fd) {
				for old, nw := range names {
					l = regexp.MustCompile(`\b`+regexp.QuoteMeta(old)+`\b`).ReplaceAllString(l, "\x00"+nw+"\x00")
				}
				l = strings.ReplaceAll(l, "\x00", "")
				l = regexp.MustCompile(`\b`+regexp.QuoteMeta(e.diff)+`\b`).ReplaceAllString(l, "T")
				out = append(out, l)
			}
			return out
		}
		for _, g := range groups {
			if len(g) != 2 || g[0].diff == g[1].diff {
				continue
			}
			n++
			a, b := norm(g[0]), norm(g[1])
			key := fmt.Sprintf("%s.%s=%s", rel, g[0].fd.Name.Name, g[1].fd.Name.Name)
			if strings.Join(a, "\n") == strings.Join(b, "\n") {
				rep.Discharge("F-paramtwins", key, prog.Pos(g[0].fd.Pos()), fmt.Sprintf("%d statements equal", len(a)))
				continue
			}
			oa, ob := diffLines(a, b)
			rep.Violate(Finding{Rule: "F-paramtwins", Key: key, Pos: prog.Pos(g[1].fd.Pos()), Msg: fmt.Sprintf("%s and %s are one function for two element types and differ: only in %s %v; only in %s %v", g[0].fd.Name.Name, g[1].fd.Name.Name, g[0].fd.Name.Name, oa, g[1].fd.Name.Name, ob)})
		}
	}
	rep.Eval(n)
	if n < floor {
		rep.Errorf("F-paramtwins compared %d pairs (floor %d)", n, floor)
	}
}

// ---------------------------------------------------------------- G-runecase

// matchRuneCase: the case functions of package unicode work on code points. Handing them one byte of a string
// (unicode.ToUpper(rune(b[0]))) treats the first byte of a multi-byte character as a character of its own: the
// text is left unchanged or, when the result is stored back as a byte, corrupted.
func matchRuneCase(files []*ast.File, info *types.Info) (sites []synSite, examined int) {
	for _, f := range files {
		ast.Inspect(f, func(n ast.Node) bool {
			call, ok := n.(*ast.CallExpr)
			if !ok || len(call.Args) != 1 {
				return true
			}
			sel, ok := call.Fun.(*ast.SelectorExpr)
			if !ok {
				return true
			}
			fn, ok := info.Uses[sel.Sel].(*types.Func)
			if !ok || fn.Pkg() == nil || fn.Pkg().Path() != "unicode" {
				return true
			}
			examined++
			conv, ok := ast.Unparen(call.Args[0]).(*ast.CallExpr)
			if !ok || len(conv.Args) != 1 {
				return true
			}
			if tv, ok := info.Types[conv.Fun]; !ok || !tv.IsType() {
				return true
			}
			if b, ok := info.TypeOf(conv.Args[0]).Underlying().(*types.Basic); ok && b.Kind() == types.Uint8 {
				name := enclosingFuncName(f, call.Pos())
				sites = append(sites, synSite{pos: call.Pos(), file: f, key: fmt.Sprintf("%s:unicode.%s-of-byte", name, fn.Name()),
					msg: fmt.Sprintf("%s applies unicode.%s to one byte (%s): for a character outside ASCII that byte is only the first of several", name, fn.Name(), types.ExprString(call.Args[0]))})
			}
			return true
		})
	}
	return
}

const fixtureRuneCase = `package fixture

import "unicode"

func title(s string) string {
	b := []byte(s)
	if 0 < len(b) {
		b[0] = byte(unicode.ToUpper(rune(b[0])))
	}
	ra := []rune(s)
	if 0 < len(ra) {
		ra[0] = unicode.ToUpper(ra[0])
	}
	return string(b) + string(ra)
}
`

func ruleRuneCase(prog *Program, rep *Report, floor int, rels ...string) {
	rep.Rules = append(rep.Rules, "G-runecase: the functions of package unicode are applied to runes, never to a single byte of a string converted with rune(b[i]) ("+strings.Join(rels, ", ")+")")
	runSynRule(prog, rep, "G-runecase", rels, matchRuneCase, fixtureRuneCase, 1, floor)
}

// ---------------------------------------------------------------- N-infsign

// matchInfSign: a number whose value does not fit a float64 is kept as text, whichever way it overflowed. The
// test for that is math.IsInf(f, 0); a sign of +1 or -1 lets the other infinity through as a value.
func matchInfSign(files []*ast.File, info *types.Info) (sites []synSite, examined int) {
	for _, f := range files {
		ast.Inspect(f, func(n ast.Node) bool {
			call, ok := n.(*ast.CallExpr)
			if !ok || len(call.Args) != 2 {
				return true
			}
			sel, ok := call.Fun.(*ast.SelectorExpr)
			if !ok {
				return true
			}
			fn, ok := info.Uses[sel.Sel].(*types.Func)
			if !ok || fn.Pkg() == nil || fn.Pkg().Path() != "math" || fn.Name() != "IsInf" {
				return true
			}
			examined++
			if tv, ok := info.Types[call.Args[1]]; ok && tv.Value != nil && tv.Value.ExactString() == "0" {
				return true
			}
			name := enclosingFuncName(f, call.Pos())
			sites = append(sites, synSite{pos: call.Pos(), file: f, key: fmt.Sprintf("%s:isinf-one-sided", name),
				msg: fmt.Sprintf("%s tests %s: an overflow towards the other infinity is taken for a value", name, types.ExprString(call))})
			return true
		})
	}
	return
}

const fixtureInfSign = `package fixture

import "math"

func keepAsText(f float64) bool { return math.IsInf(f, 1) }
func both(f float64) bool       { return math.IsInf(f, 0) }
`

func ruleInfSign(prog *Program, rep *Report, floor int, rels ...string) {
	rep.Rules = append(rep.Rules, "N-infsign: math.IsInf is called with sign 0 (both infinities) ("+strings.Join(rels, ", ")+")")
	runSynRule(prog, rep, "N-infsign", rels, matchInfSign, fixtureInfSign, 1, floor)
}
