package main

import (
	"bytes"
	"fmt"
	"go/ast"
	"go/printer"
	"go/token"
	"go/types"
	"regexp"
	"sort"
	"strings"

	"golang.org/x/tools/go/packages"
)

// Engine B: sibling cells of the JSONPath evaluators.
//
// A cell is the code of one (evaluator, fragment kind, container type,
// last|inner) combination, located through types: the case clause of the type
// switch over jp.Frag implementers, then the case clause of the type switch
// over the container value, then the branch of the `int(fi) == len(x)-1` test.
// Its skeleton is the printed AST with the container idioms normalised
// (len(c) / c.Size() / cached size -> LEN, c[i] / c.ValueAtIndex(i) -> ELEM(i),
// the bound container variable -> C), so that the copies for []any, gen.Array
// and Indexed (or map, gen.Object and Keyed) can be compared with each other.

type jpCell struct {
	Clause  *ast.CaseClause
	ContVar string
	Eval    string
	Frag    string
	Cont    string
	Pos     string // last | inner | all
	Skel    string
	At      token.Pos
}

func (c jpCell) Key() string { return fmt.Sprintf("%s/%s/%s/%s", c.Eval, c.Frag, c.Cont, c.Pos) }

func printNode(fset *token.FileSet, n any) string {
	var buf bytes.Buffer
	cfg := printer.Config{Mode: printer.RawFormat, Tabwidth: 1}
	_ = cfg.Fprint(&buf, fset, n)
	return buf.String()
}

var wsRe = regexp.MustCompile(`\s+`)

func normaliseSkeleton(src string, contVar string) string {
	s := src
	if contVar != "" && contVar != "_" {
		v := regexp.QuoteMeta(contVar)
		s = regexp.MustCompile(`\blen\(`+v+`\)`).ReplaceAllString(s, "LEN")
		s = regexp.MustCompile(`\b`+v+`\.Size\(\)`).ReplaceAllString(s, "LEN")
		s = regexp.MustCompile(`\b`+v+`\.ValueAtIndex\(([^()]*(?:\([^()]*\)[^()]*)*)\)`).ReplaceAllString(s, "ELEM($1)")
		s = regexp.MustCompile(`\b`+v+`\.SetValueAtIndex\(`).ReplaceAllString(s, "SETELEM(")
		s = regexp.MustCompile(`\b`+v+`\[([^\[\]]*(?:\[[^\[\]]*\][^\[\]]*)*)\]`).ReplaceAllString(s, "ELEM($1)")
		s = regexp.MustCompile(`\b`+v+`\b`).ReplaceAllString(s, "C")
	}
	// cached size
	s = regexp.MustCompile(`\bsize := LEN\b`).ReplaceAllString(s, "")
	s = regexp.MustCompile(`\bsize\b`).ReplaceAllString(s, "LEN")
	s = wsRe.ReplaceAllString(s, " ")
	return strings.TrimSpace(s)
}

// isLastTest recognises `int(fi) == len(x)-1`.
func isLastTest(e ast.Expr) bool {
	be, ok := ast.Unparen(e).(*ast.BinaryExpr)
	if !ok || be.Op != token.EQL {
		return false
	}
	sub, ok := ast.Unparen(be.Y).(*ast.BinaryExpr)
	if !ok || sub.Op != token.SUB {
		return false
	}
	return isLenCall(sub.X)
}

func jpFragInterface(pk *packages.Package) *types.Interface {
	o := pk.Types.Scope().Lookup("Frag")
	if o == nil {
		return nil
	}
	i, _ := o.Type().Underlying().(*types.Interface)
	return i
}

func jpCells(prog *Program, evaluators []string) ([]jpCell, error) {
	pk := prog.Pkg("jp")
	if pk == nil {
		return nil, fmt.Errorf("package jp missing")
	}
	info := pk.TypesInfo
	frag := jpFragInterface(pk)
	if frag == nil {
		return nil, fmt.Errorf("jp.Frag not found")
	}
	var cells []jpCell
	for _, ev := range evaluators {
		fn := Method(pk, "Expr", ev)
		fd, _ := prog.FuncDecl(fn)
		if fd == nil {
			return nil, fmt.Errorf("jp.Expr.%s not found", ev)
		}
		ast.Inspect(fd.Body, func(n ast.Node) bool {
			ts, ok := n.(*ast.TypeSwitchStmt)
			if !ok {
				return true
			}
			// is this the fragment switch?
			fragCases := 0
			for _, c := range ts.Body.List {
				for _, t := range c.(*ast.CaseClause).List {
					if tt := info.TypeOf(t); tt != nil && types.Implements(tt, frag) {
						fragCases++
					}
				}
			}
			if fragCases < 5 {
				return true
			}
			for _, c := range ts.Body.List {
				cc := c.(*ast.CaseClause)
				if len(cc.List) != 1 {
					continue
				}
				fname := types.ExprString(cc.List[0])
				// container switches: nested type switches whose cases include a slice or map type
				// (outermost ones only; a union has one per member type)
				var css []*ast.TypeSwitchStmt
				var ifCells []*ast.CaseClause
				var ifVars []string
				for _, s := range cc.Body {
					ast.Inspect(s, func(k ast.Node) bool {
						// the same test written as `if tv, ok := prev.(gen.Array); ok { ... }` (GetNodes, FirstNode):
						// a cell of its own, keyed like a clause of a container switch
						if is, ok := k.(*ast.IfStmt); ok {
							if as, ok := is.Init.(*ast.AssignStmt); ok && len(as.Lhs) == 2 && len(as.Rhs) == 1 {
								if ta, ok := ast.Unparen(as.Rhs[0]).(*ast.TypeAssertExpr); ok && ta.Type != nil {
									okID, _ := as.Lhs[1].(*ast.Ident)
									condID, _ := ast.Unparen(is.Cond).(*ast.Ident)
									tvID, _ := as.Lhs[0].(*ast.Ident)
									isCont := false
									if tt := info.TypeOf(ta.Type); tt != nil {
										switch tt.Underlying().(type) {
										case *types.Slice, *types.Map:
											isCont = true
										}
									}
									if isCont && okID != nil && condID != nil && tvID != nil && okID.Name == condID.Name {
										ifCells = append(ifCells, &ast.CaseClause{Case: is.Pos(), List: []ast.Expr{ta.Type}, Body: is.Body.List})
										ifVars = append(ifVars, tvID.Name)
										return false
									}
								}
							}
						}
						t2, ok := k.(*ast.TypeSwitchStmt)
						if !ok {
							return true
						}
						isCont := false
						for _, c2 := range t2.Body.List {
							for _, t := range c2.(*ast.CaseClause).List {
								switch info.TypeOf(t).Underlying().(type) {
								case *types.Slice, *types.Map:
									isCont = true
								}
							}
						}
						if isCont {
							css = append(css, t2)
							return false
						}
						return true
					})
				}
				addCell := func(cc2 *ast.CaseClause, cont, contVar string) {
					// split on the last-fragment test
					var split *ast.IfStmt
					for _, s := range cc2.Body {
						ast.Inspect(s, func(k ast.Node) bool {
							if is, ok := k.(*ast.IfStmt); ok && split == nil && isLastTest(is.Cond) && is.Else != nil {
								split = is
							}
							return split == nil
						})
					}
					if split == nil {
						var sb strings.Builder
						for _, s := range cc2.Body {
							sb.WriteString(printNode(prog.Fset, s))
							sb.WriteString("\n")
						}
						cells = append(cells, jpCell{Clause: cc2, ContVar: contVar, Eval: ev, Frag: fname, Cont: cont, Pos: "all", Skel: normaliseSkeleton(sb.String(), contVar), At: cc2.Pos()})
						return
					}
					// prefix (statements before the split, with the split replaced) is shared by both positions
					var prefix strings.Builder
					for _, s := range cc2.Body {
						if nodeWithin(s, split) {
							// print the statement with the split blanked out: approximate by printing up to the split
							full := printNode(prog.Fset, s)
							sp := printNode(prog.Fset, split)
							prefix.WriteString(strings.Replace(full, sp, "SPLIT", 1))
						} else {
							prefix.WriteString(printNode(prog.Fset, s))
						}
						prefix.WriteString("\n")
					}
					pre := normaliseSkeleton(prefix.String(), contVar)
					cells = append(cells, jpCell{Clause: cc2, ContVar: contVar, Eval: ev, Frag: fname, Cont: cont, Pos: "last", Skel: pre + " ## " + normaliseSkeleton(printNode(prog.Fset, split.Body), contVar), At: split.Body.Pos()})
					cells = append(cells, jpCell{Clause: cc2, ContVar: contVar, Eval: ev, Frag: fname, Cont: cont, Pos: "inner", Skel: pre + " ## " + normaliseSkeleton(printNode(prog.Fset, split.Else), contVar), At: split.Else.Pos()})
				}
				for ci, cs := range css {
					occ := ""
					if len(css) > 1 {
						occ = fmt.Sprintf("#%d", ci+1)
					}
					for _, c2 := range cs.Body.List {
						cc2 := c2.(*ast.CaseClause)
						var names []string
						for _, t := range cc2.List {
							names = append(names, types.ExprString(t))
						}
						cont := strings.Join(names, "|")
						if cc2.List == nil {
							cont = "default"
						}
						cont += occ
						contVar := ""
						if o := info.Implicits[cc2]; o != nil {
							contVar = o.Name()
						}
						addCell(cc2, cont, contVar)
					}
				}
				// the statements of the fragment's case before its first container test: defaults and the unpacking of
				// the fragment (start, end, step of a slice), shared by all containers - a cell of its own
				first := token.NoPos
				for _, cs := range css {
					if first == token.NoPos || cs.Pos() < first {
						first = cs.Pos()
					}
				}
				for _, ic := range ifCells {
					if first == token.NoPos || ic.Pos() < first {
						first = ic.Pos()
					}
				}
				if first != token.NoPos {
					var pre []ast.Stmt
					for _, st := range cc.Body {
						if st.End() <= first {
							pre = append(pre, st)
						}
					}
					if len(pre) > 0 {
						addCell(&ast.CaseClause{Case: pre[0].Pos(), Body: pre}, "preamble", "")
					}
				}
				ifSeen := map[string]int{}
				for i, ic := range ifCells {
					name := types.ExprString(ic.List[0])
					ifSeen[name]++
					if ifSeen[name] > 1 {
						name += fmt.Sprintf("#%d", ifSeen[name])
					}
					addCell(ic, name, ifVars[i])
				}
			}
			return false
		})
	}
	sort.Slice(cells, func(i, j int) bool { return cells[i].Key() < cells[j].Key() })
	return cells, nil
}

// fpWithCtx: fingerprint lines carry the side of the `last fragment?` test they sit on (second sibling table).
var fpWithCtx bool

// arithFingerprint: the statements of a cell that decide WHICH indexes are
// selected: assignments to int variables, for-loop headers and conditions
// over int variables / LEN / constants only.
func arithFingerprint(prog *Program, pk *packages.Package, node ast.Node, contVar string) []string {
	info := pk.TypesInfo
	intOnly := func(e ast.Expr) bool {
		ok := true
		seen := false
		ast.Inspect(e, func(n ast.Node) bool {
			switch x := n.(type) {
			case *ast.Ident:
				o := info.Uses[x]
				if o == nil {
					return true
				}
				switch ob := o.(type) {
				case *types.Var:
					seen = true
					if ob.Name() == contVar {
						return true // LEN / ELEM after normalisation
					}
					if b, isB := ob.Type().Underlying().(*types.Basic); !isB || b.Info()&types.IsInteger == 0 {
						ok = false
					}
				case *types.Const, *types.Builtin, *types.TypeName, *types.Nil:
				default:
					ok = false
				}
			case *ast.CallExpr:
				// len(C), C.Size(), int(..) are fine; other calls are not arithmetic
				if id, isId := x.Fun.(*ast.Ident); isId && id.Name == "len" {
					seen = true
					return false // the length of anything is an integer: a test such as `3 < len(name)` selects, too
				}
				if id, isId := x.Fun.(*ast.Ident); isId && id.Name == "int" {
					return true
				}
				if sel, isSel := x.Fun.(*ast.SelectorExpr); isSel && sel.Sel.Name == "Size" {
					return true
				}
				ok = false
			case *ast.IndexExpr:
				ok = false
			}
			return true
		})
		return ok && seen
	}
	set := map[string]int{}
	// which side of the `last fragment?` test a statement sits on is part of what it means: a clamp that
	// only the last-fragment branch applies leaves the inner-fragment branch without it
	ctx := map[ast.Node]string{}
	ast.Inspect(node, func(n ast.Node) bool {
		is, ok := n.(*ast.IfStmt)
		if !ok || !isLastTest(is.Cond) {
			return true
		}
		mark := func(root ast.Node, tag string) {
			if root == nil {
				return
			}
			ast.Inspect(root, func(k ast.Node) bool {
				switch k.(type) {
				case *ast.AssignStmt, *ast.IfStmt, *ast.ForStmt, *ast.IncDecStmt, *ast.BranchStmt:
					if ctx[k] == "" {
						ctx[k] = tag
					}
				}
				return true
			})
		}
		if fpWithCtx {
			mark(is.Body, "[last] ")
			mark(is.Else, "[inner] ")
		}
		return true
	})
	// nesting depth of every if statement within the cell (an early exit moved into a branch changes when it happens)
	ifDepth := map[ast.Node]int{}
	var depthWalk func(n ast.Node, d int)
	depthWalk = func(n ast.Node, d int) {
		ast.Inspect(n, func(k ast.Node) bool {
			if k == n {
				return true
			}
			switch x := k.(type) {
			case *ast.IfStmt:
				ifDepth[x] = d
				depthWalk(x.Body, d+1)
				if x.Else != nil {
					depthWalk(x.Else, d+1)
				}
				return false
			case *ast.ForStmt:
				depthWalk(x.Body, 0) // the depth counts from the innermost loop: `if c { for {..} }` and `for { if c {..} }` are one shape
				return false
			case *ast.RangeStmt:
				depthWalk(x.Body, 0)
				return false
			}
			return true
		})
	}
	depthWalk(node, 0)
	// an early exit repeated at the end of every branch of an if/else is the same as one exit after it: "all"
	isExitIf := func(st ast.Stmt, name string) bool {
		is, ok := st.(*ast.IfStmt)
		if !ok || is.Else != nil || len(is.Body.List) != 1 {
			return false
		}
		id, ok := ast.Unparen(is.Cond).(*ast.Ident)
		if !ok || id.Name != name {
			return false
		}
		switch ex := is.Body.List[0].(type) {
		case *ast.ReturnStmt:
			return true
		case *ast.BranchStmt:
			return ex.Label != nil
		}
		return false
	}
	hasTopExit := func(list []ast.Stmt, name string) bool {
		for _, st := range list {
			if isExitIf(st, name) {
				return true
			}
		}
		return false
	}
	// statements that sit directly in a loop body, in the cell's own statement list or in a branch of the
	// `last fragment?` test are reached whatever the iteration did before
	anchored := map[ast.Node]bool{}
	markList := func(list []ast.Stmt) {
		for _, st := range list {
			anchored[st] = true
		}
	}
	ast.Inspect(node, func(n ast.Node) bool {
		switch x := n.(type) {
		case *ast.CaseClause:
			if n == node {
				markList(x.Body)
			}
		case *ast.BlockStmt:
			if n == node {
				markList(x.List)
			}
		case *ast.ForStmt:
			markList(x.Body.List)
		case *ast.RangeStmt:
			markList(x.Body.List)
		case *ast.IfStmt:
			if isLastTest(x.Cond) {
				markList(x.Body.List)
				if eb, ok := x.Else.(*ast.BlockStmt); ok {
					markList(eb.List)
				}
			}
		}
		return true
	})
	exitCover := map[ast.Node]string{} // exit-if statement -> "all" | "some"
	ast.Inspect(node, func(n ast.Node) bool {
		is, ok := n.(*ast.IfStmt)
		if !ok {
			return true
		}
		branches := [][]ast.Stmt{is.Body.List}
		complete := false
		if eb, ok := is.Else.(*ast.BlockStmt); ok {
			branches = append(branches, eb.List)
			complete = true
		}
		for _, br := range branches {
			for _, st := range br {
				x, ok := st.(*ast.IfStmt)
				if !ok {
					continue
				}
				id, ok := ast.Unparen(x.Cond).(*ast.Ident)
				if !ok || !isExitIf(x, id.Name) {
					continue
				}
				all := complete
				for _, other := range branches {
					if !hasTopExit(other, id.Name) {
						all = false
					}
				}
				if all {
					exitCover[x] = "all"
				} else {
					exitCover[x] = "some"
				}
			}
		}
		return true
	})
	cur := ""
	add := func(prefix string, n any) {
		set[cur+prefix+normaliseSkeleton(printNode(prog.Fset, n), contVar)]++
	}
	constInt := func(e ast.Expr) bool {
		tv, ok := info.Types[e]
		return ok && tv.Value != nil
	}
	ast.Inspect(node, func(n ast.Node) bool {
		if n != nil {
			cur = ctx[n]
		}
		switch x := n.(type) {
		case *ast.AssignStmt:
			if len(x.Lhs) == 1 && len(x.Rhs) == 1 {
				// the traversal stack cut back to a mark: S = S[:m]
				if se, ok := ast.Unparen(x.Rhs[0]).(*ast.SliceExpr); ok && se.Low == nil && se.High != nil && types.ExprString(se.X) == types.ExprString(x.Lhs[0]) {
					if _, isId := x.Lhs[0].(*ast.Ident); isId && intOnly(se.High) {
						add("cut ", x)
					}
				}
				// an integer frame pushed on the traversal stack: S = append(S, di|flag)
				if c, ok := x.Rhs[0].(*ast.CallExpr); ok && len(c.Args) >= 2 && !c.Ellipsis.IsValid() {
					if fid, ok := c.Fun.(*ast.Ident); ok && fid.Name == "append" && types.ExprString(c.Args[0]) == types.ExprString(x.Lhs[0]) {
						for _, a := range c.Args[1:] {
							if intOnly(a) {
								add("push ", a) // also the frame in append(stack, prev, di|descentFlag)
							}
						}
					}
				}
				if id, ok := x.Lhs[0].(*ast.Ident); ok {
					o := info.Uses[id]
					if o == nil {
						o = info.Defs[id]
					}
					if v, ok := o.(*types.Var); ok {
						if b, isB := v.Type().Underlying().(*types.Basic); isB && b.Info()&types.IsInteger != 0 && (intOnly(x.Rhs[0]) || (x.Tok == token.ASSIGN && constInt(x.Rhs[0])) || (x.Tok == token.DEFINE && namedOrNegConst(info, x.Rhs[0]))) {
							add("", x) // also a clamp to a constant (i = 0): it changes which index is selected
						}
						if b, isB := v.Type().Underlying().(*types.Basic); isB && b.Info()&types.IsBoolean != 0 {
							if tv := info.Types[x.Rhs[0]]; tv.Value != nil {
								add("", x)
							}
						}
					}
				}
			}
		case *ast.ExprStmt:
			// a method fed the dispatched byte (p.num.AddFrac(b), p.num.AddDigit(b)): which method a copy calls decides
			// what the byte contributes
			if call, ok := x.X.(*ast.CallExpr); ok && len(call.Args) == 1 {
				if sel, ok := call.Fun.(*ast.SelectorExpr); ok {
					if id, ok := ast.Unparen(call.Args[0]).(*ast.Ident); ok {
						if t := info.TypeOf(id); t != nil {
							if b, isB := t.Underlying().(*types.Basic); isB && b.Kind() == types.Uint8 {
								set[cur+"call "+sel.Sel.Name+"(byte)"]++
							}
						}
					}
				}
			}
		case *ast.IncDecStmt:
			// a counter or cursor moved outside a loop header (p.mi++): which branch moves it matters
			if t := info.TypeOf(x.X); t != nil {
				if b, isB := t.Underlying().(*types.Basic); isB && b.Info()&types.IsInteger != 0 {
					if _, isSel := ast.Unparen(x.X).(*ast.SelectorExpr); isSel {
						add("", x)
					}
				}
			}
		case *ast.BranchStmt:
			if x.Label != nil {
				set[cur+x.Tok.String()+" "+x.Label.Name]++
			}
		case *ast.ForStmt:
			h := "for "
			if x.Init != nil {
				h += normaliseSkeleton(printNode(prog.Fset, x.Init), contVar)
			}
			h += "; "
			if x.Cond != nil {
				h += normaliseSkeleton(printNode(prog.Fset, x.Cond), contVar)
			}
			h += "; "
			if x.Post != nil {
				h += normaliseSkeleton(printNode(prog.Fset, x.Post), contVar)
			}
			set[cur+h]++
		case *ast.IfStmt:
			if intOnly(x.Cond) && !isLastTest(x.Cond) {
				add("if ", x.Cond)
			}
			// `if one { return ... }` / `if one { break done }`: the early exit of the *One forms, with the depth of
			// if-nesting at which it sits (inside the branch that changed something, or after both branches)
			if id, ok := ast.Unparen(x.Cond).(*ast.Ident); ok && x.Else == nil && len(x.Body.List) == 1 {
				if tv := info.TypeOf(id); tv != nil && info.Uses[id] != nil && info.Uses[id].Pos() < node.Pos() { // a flag handed in from outside the cell (the `one` parameter), not a comma-ok result
					if b, isB := tv.Underlying().(*types.Basic); isB && b.Info()&types.IsBoolean != 0 {
						// where the exit sits: after the work of the iteration whatever branch it took ("always": directly in
						// the loop body, or repeated at the end of every branch), or in some branches only
						where := "always"
						if !anchored[x] {
							switch exitCover[x] {
							case "all":
								where = "always"
							default:
								where = "in some branches"
							}
						}
						switch ex := x.Body.List[0].(type) {
						case *ast.ReturnStmt:
							set[cur+fmt.Sprintf("exit-if %s: return (%s)", id.Name, where)] = 1
						case *ast.BranchStmt:
							if ex.Label != nil {
								set[cur+fmt.Sprintf("exit-if %s: %s %s (%s)", id.Name, ex.Tok, ex.Label.Name, where)] = 1
							}
						}
					}
				}
			}
		}
		return true
	})
	var out []string
	for k, n := range set {
		if k == "LEN := LEN" || k == "" {
			continue
		}
		if bare := strings.TrimPrefix(strings.TrimPrefix(k, "[last] "), "[inner] "); n > 1 && !strings.HasPrefix(bare, "push ") && !strings.HasPrefix(bare, "for ") && !strings.HasPrefix(bare, "exit-if ") && !strings.HasPrefix(bare, "cut ") {
			k = fmt.Sprintf("%s  (x%d)", k, n) // a multiset: a test added next to an equal one is a change
		}
		out = append(out, k)
	}
	sort.Strings(out)
	return out
}

// namedOrNegConst: a default given as a named constant or a negative literal (end := maxEnd, end := -1): which
// of the two a copy starts from decides what an open-ended slice selects.
func namedOrNegConst(info *types.Info, e ast.Expr) bool {
	switch x := ast.Unparen(e).(type) {
	case *ast.Ident:
		_, ok := info.Uses[x].(*types.Const)
		return ok && x.Name != "true" && x.Name != "false" && x.Name != "iota"
	case *ast.UnaryExpr:
		if x.Op == token.SUB {
			_, ok := x.X.(*ast.BasicLit)
			return ok
		}
	}
	return false
}
