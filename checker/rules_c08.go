package main

func init() { rules["C08"] = ruleC08 }

func ruleC08(prog *Program, rep *Report) {
	rep.Explain("C08 decides the ownership/locking shape concurrent use relies on: pooled objects are not used after Put and nothing they own is handed out (D-put, D-alias), package-level mutable state is accessed under its mutex or is immutable after initialisation (D-global), and values documented as shareable are not written by evaluation (D-shared). Not covered: full data-race freedom (no happens-before reasoning beyond lockset + ownership), equality of concurrent and sequential results.")
	rulePoolPut(prog, rep)
	ruleReturnAlias(prog, rep, "C08")
	ruleGlobals(prog, rep)
	ruleGlobalWrite(prog, rep)
	rulePutOnce(prog, rep, 10, "oj", "sen")
	rulePoolNew(prog, rep, append(append([]feSpec{}, jsonFrontEnds...), senFrontEnds...)...)
	ruleGlobalReturn(prog, rep, 10, "pretty", "oj", "sen", "alt", "gen", "jp", "asm", "")
	rulePreRegister(prog, rep)
	ruleLossyKey(prog, rep)                         // types that collide under one registry key are registered again on every Recompose: a map write during a shared call
	ruleFieldLoopBounds(prog, rep, []string{"alt"}) // a field the registration walk leaves out is registered lazily, during a shared Recompose
	ruleFullRange(prog, rep, 4, "alt", "oj", "sen", "gen", "pretty", "asm", "jp", "")
	// an instance taken from a pool was last used by another caller: whatever an entry does not reset is
	// state shared between goroutines
	ruleEntryParity(prog, rep)
	ruleSharedExpr(prog, rep)
	ruleBorrowedWrites(prog, rep) // what a pooled parser or writer is left with is what the next, possibly concurrent, caller starts from
	ruleCacheRead(prog, rep)      // a plan looked up in the wrong cache makes a result depend on what other goroutines encoded first
}
