package main

import (
	"fmt"
	"go/types"
	"os"
	"runtime"
	"sort"
	"strconv"
	"strings"
	"sync"
)

// Front-ends named by the properties (public API names only).
type feSpec struct {
	rel   string
	typ   string
	roots []string
}

var jsonFrontEnds = []feSpec{
	{"oj", "Parser", []string{"Parse", "ParseReader"}},
	{"oj", "Validator", []string{"Validate", "ValidateReader"}},
	{"oj", "Tokenizer", []string{"Parse", "Load"}},
	{"gen", "Parser", []string{"Parse", "ParseReader"}},
}

type feResult struct {
	spec         feSpec
	multi        bool
	name         string
	dis          map[string]Disagreement
	undec        []string
	stats        ExploreStats
	err          error
	starts       int
	notes        []string
	classes      int
	tracked      []string
	noRef        bool
	superset     bool
	self         bool
	cross        bool
	clsEq, clsLt map[int]bool
	clsIdentity  bool
}

func (r feResult) label() string {
	n := r.name
	if r.multi {
		n += "[multi]"
	}
	if r.noRef {
		n += "[alone]"
	}
	if r.superset {
		n += "[superset]"
	}
	if r.self {
		n += "[self]"
	}
	if r.cross {
		n += "[cross]"
	}
	return n
}

// subsumed: every behaviour of b is a behaviour of a (a's fields are equal or
// non-stale Top where b's are constants).
func subsumedBy(b, a *State) bool {
	if len(a.fields) != len(b.fields) || len(a.stacks) != len(b.stacks) {
		return false
	}
	for k, bv := range b.fields {
		av, ok := a.fields[k]
		if !ok {
			return false
		}
		if av.String() == bv.String() {
			continue
		}
		if av.K == kTop && !av.Stale && av.S == "" && bv.K == kConst {
			continue
		}
		return false
	}
	for k, bs := range b.stacks {
		if as, ok := a.stacks[k]; !ok || as.String() != bs.String() {
			return false
		}
	}
	return true
}

// startStates interprets the entry points and returns the distinct states at
// the first call of the dispatch function for the requested document mode.
func startStates(m *Machine, spec feSpec, multi bool, res *feResult) []*State {
	cfg := map[string]Val{"OnlyOne": vConstBool(!multi)}
	var sel []*State
	seen := map[string]bool{}
	for _, root := range spec.roots {
		starts, notes, err := m.Starts(root, cfg)
		if err != nil {
			res.err = err
			return nil
		}
		res.notes = append(res.notes, notes...)
		for _, s := range starts {
			if b, ok := s.fields["OnlyOne"].isBool(); ok && b == multi {
				continue // the other mode
			}
			if _, has := s.fields["OnlyOne"]; has {
				if _, ok := s.fields["OnlyOne"].isBool(); !ok {
					res.err = fmt.Errorf("%s.%s: OnlyOne is not determined at the first call of the dispatch function", res.name, root)
					return nil
				}
			}
			k := s.ctrlKey(nil)
			if !seen[k] {
				seen[k] = true
				sel = append(sel, s)
			}
		}
	}
	// drop start states subsumed by another one
	var keep []*State
	for i, s := range sel {
		sub := false
		for j, o := range sel {
			if i != j && subsumedBy(s, o) && !(subsumedBy(o, s) && j > i) {
				sub = true
				break
			}
		}
		if !sub {
			keep = append(keep, s)
		}
	}
	res.starts = len(keep)
	if len(keep) == 0 {
		res.err = fmt.Errorf("%s: no start state for multi=%v", res.name, multi)
		return nil
	}
	return keep
}

func exploreOne(prog *Program, spec feSpec, multi bool, workers int, noRef bool, noEvents ...bool) feResult {
	res := feResult{spec: spec, multi: multi, name: spec.rel + "." + spec.typ}
	m, err := ExtractMachine(prog, spec.rel, spec.typ, spec.roots)
	if err != nil {
		res.err = err
		return res
	}
	m.in.precisePrev = len(noEvents) > 0 && noEvents[0]
	m.in.buildKinds = m.in.precisePrev
	if exploreMirror != nil && hasNumberField(m) {
		m.in.mirror = true
		m.in.mirrorFns = exploreMirror
		m.in.digitFns = exploreDigitFns
	}
	for f := range m.in.tracked {
		res.tracked = append(res.tracked, f)
	}
	sort.Strings(res.tracked)
	keep := startStates(m, spec, multi, &res)
	if res.err != nil {
		return res
	}
	res.dis, res.undec = Explore(m, keep, multi, &res.stats, workers, noRef, noEvents...)
	res.undec = append(res.undec, m.in.undecided...)
	res.classes = len(m.in.cls.list)
	return res
}

// exploreSelfOne: chunk independence of one front-end (selfprod.go).
func exploreSelfOne(prog *Program, spec feSpec, multi bool, workers int) feResult {
	res := feResult{spec: spec, multi: multi, name: spec.rel + "." + spec.typ, self: true}
	m, err := ExtractMachine(prog, spec.rel, spec.typ, spec.roots)
	if err != nil {
		res.err = err
		return res
	}
	m.in.buildKinds = true
	m.in.selfEvents = true
	m.in.noScratch = true
	m.prepareNilTested()
	for f := range m.in.tracked {
		res.tracked = append(res.tracked, f)
	}
	sort.Strings(res.tracked)
	keep := startStates(m, spec, multi, &res)
	if res.err != nil {
		return res
	}
	res.dis, res.undec = ExploreSelf(m, keep, multi, &res.stats, workers)
	res.undec = append(res.undec, m.in.undecided...)
	res.classes = len(m.in.cls.list)
	return res
}

// exploreCrossOne: sen.Parser against sen.Tokenizer (crossprod.go).
func exploreCrossOne(prog *Program, a, b feSpec, multi bool) feResult {
	res := feResult{spec: a, multi: multi, name: a.rel + "." + a.typ + "~" + b.rel + "." + b.typ, cross: true}
	ma, err := ExtractMachine(prog, a.rel, a.typ, a.roots)
	if err != nil {
		res.err = err
		return res
	}
	mb, err := ExtractMachine(prog, b.rel, b.typ, b.roots)
	if err != nil {
		res.err = err
		return res
	}
	for _, m := range []*Machine{ma, mb} {
		m.in.buildKinds = true
		m.in.precisePrev = true // "can still accept" must know what a closed container returns to
		m.in.prevDepth = 2
		m.in.noScratch = true
		m.in.selfEvents = true // records the branch taken at conditions over untracked data
	}
	sa := startStates(ma, a, multi, &res)
	if res.err != nil {
		return res
	}
	sb := startStates(mb, b, multi, &res)
	if res.err != nil {
		return res
	}
	// one byte-class partition for both machines
	for round := 0; round < 6; round++ {
		cls := newByteClasses(append(append([]string{}, ma.tableVals...), mb.tableVals...), multi)
		cls.seeding = true
		for _, sbs := range [][]int{ma.seedBytes, mb.seedBytes} {
			for _, x := range sbs {
				cls.request("eq", x, "")
			}
		}
		if round > 0 {
			// carry over what the previous round asked for
			for v := range res.clsEq {
				cls.request("eq", v, "")
			}
			for v := range res.clsLt {
				cls.request("lt", v, "")
			}
			if res.clsIdentity {
				cls.request("identity", 0, "carried over")
			}
		}
		cls.seeding = false
		cls.rebuild()
		ma.in.cls, mb.in.cls = cls, cls
		delete(obCache, ma)
		delete(obCache, mb)
		ma.belowC, ma.belowKeys, ma.pendingBelow = map[string][]absStack{}, map[string]bool{}, nil
		mb.belowC, mb.belowKeys, mb.pendingBelow = map[string][]absStack{}, map[string]bool{}, nil
		if hs := ma.enterWork(sa[0]); len(hs) > 0 {
			ma.computeLiveness(hs[0])
		}
		if hs := mb.enterWork(sb[0]); len(hs) > 0 {
			mb.computeLiveness(hs[0])
		}
		res.stats = ExploreStats{}
		res.dis, res.undec = ExploreCross(ma, mb, sa, sb, &res.stats)
		if !cls.dirty {
			break
		}
		if res.clsEq == nil {
			res.clsEq, res.clsLt = map[int]bool{}, map[int]bool{}
		}
		for v := range cls.distinct {
			if cls.distinct[v] {
				res.clsEq[v] = true
			}
		}
		for v := range cls.thresholds {
			if cls.thresholds[v] {
				res.clsLt[v] = true
			}
		}
		res.clsIdentity = res.clsIdentity || cls.identity
	}
	res.undec = append(res.undec, ma.in.undecided...)
	res.undec = append(res.undec, mb.in.undecided...)
	res.classes = len(ma.in.cls.list)
	delete(obCache, ma)
	delete(obCache, mb)
	return res
}

func exploreSelf(prog *Program, specs []feSpec, modes []bool) []feResult {
	type job struct {
		spec  feSpec
		multi bool
	}
	var jobs []job
	for _, s := range specs {
		for _, mo := range modes {
			jobs = append(jobs, job{s, mo})
		}
	}
	out := make([]feResult, len(jobs))
	workers := runtime.NumCPU() / len(jobs)
	if workers < 2 {
		workers = 2
	}
	var wg sync.WaitGroup
	for i, j := range jobs {
		wg.Add(1)
		go func(i int, j job) {
			defer wg.Done()
			defer func() {
				if r := recover(); r != nil {
					out[i].err = fmt.Errorf("%s.%s: checker panic: %v", j.spec.rel, j.spec.typ, r)
				}
			}()
			out[i] = exploreSelfOne(prog, j.spec, j.multi, workers)
		}(i, j)
	}
	wg.Wait()
	return out
}

// exploreFrontEnds runs the explorations concurrently.
func exploreFrontEnds(prog *Program, specs []feSpec, modes []bool, noRef bool, superset ...bool) []feResult {
	type job struct {
		spec  feSpec
		multi bool
	}
	var jobs []job
	for _, s := range specs {
		for _, mo := range modes {
			jobs = append(jobs, job{s, mo})
		}
	}
	out := make([]feResult, len(jobs))
	workers := runtime.NumCPU() / len(jobs)
	if workers < 2 {
		workers = 2
	}
	var wg sync.WaitGroup
	for i, j := range jobs {
		wg.Add(1)
		go func(i int, j job) {
			defer wg.Done()
			defer func() {
				if r := recover(); r != nil {
					out[i].err = fmt.Errorf("%s.%s: checker panic: %v", j.spec.rel, j.spec.typ, r)
				}
			}()
			out[i] = exploreOne(prog, j.spec, j.multi, workers, noRef, superset...)
			out[i].noRef = noRef
			out[i].superset = len(superset) > 0 && superset[0]
		}(i, j)
	}
	wg.Wait()
	return out
}

// kinds of disagreement decided by each property.
var (
	kindsCross    = map[string]bool{"cross-verdict": true, "cross-eof": true, "cross-stack": true}
	kindsChunk    = map[string]bool{"chunk-verdict": true, "chunk-eof": true, "chunk-stack": true, "chunk-events": true}
	kindsSuperset = map[string]bool{"rejects-live": true, "eof-reject": true, "stack-desync": true, "panic": true, "no-progress": true, "early-return": true}
	kindsAccept   = map[string]bool{"accepts-dead": true, "rejects-live": true, "eof-accept": true, "eof-reject": true, "early-return": true, "stack-desync": true}
	kindsEvents   = map[string]bool{"event-desync": true}
	kindsPanic    = map[string]bool{"panic": true, "no-arm": true, "no-progress": true}
	kindsStale    = map[string]bool{"use-before-def": true, "stale-scratch": true}
	kindsPosition = map[string]bool{"err-position": true, "eof-position": true, "newline-unrecorded": true}
)

// applyParseResults turns exploration results into findings/obligations.
func applyParseResults(rep *Report, results []feResult, kinds map[string]bool, rule string, minModes int) {
	for _, r := range results {
		if r.err != nil {
			rep.Errorf("%v", r.err)
			continue
		}
		for _, u := range r.undec {
			rep.Errorf("undecided: %s", u)
		}
		if len(r.stats.Modes) < minModes || r.stats.States < 50 {
			rep.Errorf("%s: exploration reached only %d modes / %d states (floor %d modes): extraction is incomplete", r.label(), len(r.stats.Modes), r.stats.States, minModes)
		}
		var keys []string
		for k := range r.dis {
			keys = append(keys, k)
		}
		sort.Strings(keys)
		bad := 0
		for _, k := range keys {
			d := r.dis[k]
			if !kinds[d.Kind] {
				continue
			}
			bad++
			key := k
			if r.multi {
				key = strings.Replace(k, r.name+":", r.name+"[multi]:", 1)
			}
			rep.Violate(Finding{Rule: rule + "/" + d.Kind, Key: key, Pos: d.Pos, Msg: d.Detail,
				Witness: map[string]any{"input": d.Witness, "machine_state": d.XState, "reference_state": d.YState, "mode": d.Mode, "byte": d.Byte, "multi_document": r.multi}})
		}
		n := r.stats.Transitions + r.stats.States // byte steps + end-of-input checks
		rep.Eval(r.stats.ArmRuns)
		rep.Obligations += n - bad
		rep.Discharged += n - bad
		rep.keysAdd(fmt.Sprintf("%s/%s", rule, r.label()), r.stats.States)
		rep.Samples = append(rep.Samples, map[string]any{
			"front_end": r.label(), "start_states": r.starts, "product_states": r.stats.States, "transitions_checked": r.stats.Transitions,
			"arm_interpretations": r.stats.ArmRuns, "modes_reached": len(r.stats.Modes), "byte_classes": r.classes, "tracked_fields": r.tracked,
			"rounds": r.stats.Rounds, "disagreements_of_this_property": bad,
		})
	}
}

func (r *Report) keysAdd(prefix string, n int) {
	for i := 0; i < n; i++ {
		r.keys[fmt.Sprintf("%s#%d", prefix, i)] = true
	}
}

const engineAExplanation = "Engine A: each front-end's dispatch loop is located structurally (a for-loop over the []byte parameter whose body switches on recv.<stringField>[b]); its mode tables are read as compile-time constants and every switch arm is summarised by abstract interpretation over a finite domain (mode table, small ints, booleans, top of the container stack, buffer cursor as off0+c(+K)); class scans and keyword fast paths are followed exactly, conditions over unknown data fork. The resulting transition system is explored in product with an independent RFC 8259 reference automaton (refjson.go), container stacks in lock-step, to a fixpoint: every reachable (machine state, reference state) pair x every byte class x end-of-input, with a buffer refill allowed between any two bytes (chunking). Nothing is executed; the verdict covers inputs of every length."

func init() {
	rules["C01"] = ruleC01
}

func ruleC01(prog *Program, rep *Report) {
	rep.Rules = append(rep.Rules, "A-accept: in single-document mode the extracted machine and the RFC 8259 reference agree on every byte: no step where the machine continues and the reference is dead (accepts-dead), none where the machine errors and the reference lives (rejects-live), equal verdicts at end of input in every reachable state (eof-accept/eof-reject), no early return, container push/pop in lock-step (stack-desync); an arm that can panic, skip a byte for lack of a case or re-dispatch forever neither accepts nor rejects and is a violation too")
	rep.Explain(engineAExplanation)
	rep.Explain("C01 decides the accept language of oj.Parser (Parse, ParseReader), oj.Validator, oj.Tokenizer and gen.Parser with OnlyOne=true. Distinct non-trivial cases are product states; obligations are (state, byte class) steps plus end-of-input checks. Not covered: faithfulness of the compiled code to Go semantics; the BOM preamble is checked by rule A-bom; reader errors other than EOF.")
	rep.Assumptions = append(rep.Assumptions, "Go semantics of the interpreted statement forms", "callbacks and handler methods do not modify the parser", "a type switch over a call result lists every dynamic type the callee returns")
	results := exploreFrontEnds(prog, jsonFrontEnds, []bool{false}, false)
	applyParseResults(rep, results, union(kindsAccept, kindsPanic), "A-accept", 18)
	ruleBOM(prog, rep)
	if rep.Tier == "thorough" {
		mutationSweep(prog, rep, union(kindsAccept, kindsPanic), sweepSize())
	}
}

// ruleBOM: every public entry skips exactly the three BOM bytes and only
// under the test buf[0]==0xEF && buf[1]==0xBB && buf[2]==0xBF.
func ruleBOM(prog *Program, rep *Report) {
	rep.Rules = append(rep.Rules, "A-bom: in every public entry the buffer handed to the dispatch function is either the whole buffer or buf[3:] (skip == 3), and the skipping form is control-dependent on buf[0]==0xEF, buf[1]==0xBB and buf[2]==0xBF and is decided outside the read loop (first buffer only)")
	want := map[string]bool{"0=239": true, "1=187": true, "2=191": true}
	for _, spec := range jsonFrontEnds {
		pk := prog.Pkg(spec.rel)
		if pk == nil {
			rep.Errorf("package %s missing", spec.rel)
			continue
		}
		for _, root := range spec.roots {
			fn := Method(pk, spec.typ, root)
			fd, _ := prog.FuncDecl(fn)
			if fd == nil {
				rep.Errorf("%s.%s.%s not found", spec.rel, spec.typ, root)
				continue
			}
			sites := bomSites(pk, fd)
			key := fmt.Sprintf("%s.%s.%s", spec.rel, spec.typ, root)
			if len(sites) == 0 {
				rep.Violate(Finding{Rule: "A-bom", Key: key + ":no-bom-skip", Pos: prog.Pos(fd.Pos()), Msg: "entry has no BOM skipping site (a leading UTF-8 BOM would be rejected)"})
				continue
			}
			for _, s := range sites {
				ok := s.n == 3
				for w := range want {
					if !s.atoms[w] {
						ok = false
					}
				}
				for a := range s.atoms {
					if !want[a] {
						ok = false
					}
				}
				if ok && s.inLoop {
					rep.Violate(Finding{Rule: "A-bom", Key: key + ":bom-test-in-loop", Pos: prog.Pos(s.pos), Msg: "the BOM skip is decided inside the read loop: the bytes EF BB BF at the start of any later buffer of the stream are dropped, so the reader entry accepts texts the []byte entry rejects"})
				} else if ok {
					rep.Discharge("A-bom", key, prog.Pos(s.pos), "skips 3 bytes under the exact BOM test")
				} else {
					var as []string
					for a := range s.atoms {
						as = append(as, a)
					}
					sort.Strings(as)
					rep.Violate(Finding{Rule: "A-bom", Key: key + ":bom-test", Pos: prog.Pos(s.pos), Msg: fmt.Sprintf("BOM skip of %d bytes guarded by byte tests %v (want skip 3 under 0=239 1=187 2=191)", s.n, as)})
				}
			}
		}
	}
}

var senFrontEnds = []feSpec{
	{"sen", "Parser", []string{"Parse", "ParseReader"}},
	{"sen", "Tokenizer", []string{"Parse", "Load"}},
}

func union(ms ...map[string]bool) map[string]bool {
	out := map[string]bool{}
	for _, m := range ms {
		for k := range m {
			out[k] = true
		}
	}
	return out
}

func init() {
	rules["C03"] = ruleC03
	rules["C06"] = ruleC06
	rules["C07"] = ruleC07
	rules["C09"] = ruleC09
}

func ruleC03(prog *Program, rep *Report) {
	rep.Rules = append(rep.Rules,
		"A-agree: each JSON front-end (oj.Parser, oj.Validator, oj.Tokenizer, gen.Parser) agrees with the common reference as an acceptor (single- and multi-document mode) and as an event source (value/token events emitted at the same byte, same kind); agreement with one reference implies pairwise agreement",
		"A-chunk: a buffer refill is allowed between any two bytes of the exploration and every fast path guarded by the remaining buffer length is explored both taken and not taken, so agreement holds for every chunking",
		"A-subset: sen.Parser and sen.Tokenizer, explored in product with the RFC 8259 reference but compared as a superset: wherever the reference continues the SEN front-end continues (no rejects-live), wherever the reference accepts at end of input the SEN front-end does (no eof-reject), containers open and close in lock-step while the input is JSON (no stack-desync), and no JSON prefix drives them into a panic or an endless re-dispatch; bytes only SEN accepts are not followed. For sen.Parser the kind of the top of the build stack (pending key / object being filled / other) is tracked, because its helpers choose key-or-value from it",
		"A-senchunk: sen.Parser and sen.Tokenizer each explored in product with themselves: one side under an arbitrary chunking (fast paths look ahead as far as the buffer allows, a refill may happen between any two steps), the other under one-byte chunking (no fast path is ever taken), reading the same bytes. The two sides must give the same verdict for every byte and at end of input, push and pop containers in lock-step with equal frames, and produce the same sequence of observable operations (handler calls; for the parser: build-stack pushes/pops/truncations, key pushes, result store / callback call / channel send), compared with a bounded lag because a fast path reports a token when it sees the delimiter and the slow path when the delimiter is dispatched. Conditions over untracked data fork on both sides and are paired by source position; a disagreement is reported only when no pairing agrees",
		"A-sencross: sen.Parser against sen.Tokenizer, both under one-byte chunking (their chunk independence is A-senchunk), one shared byte-class partition: whenever one reports an error at a byte (or at end of input) the other reports one too or is in a state from which no continuation is accepted, and containers are pushed and popped on the same bytes. 'No continuation is accepted' is decided on each machine's own state graph by backward reachability from the accepting states, using only pops whose uncovered frame the abstraction determines (frames remember the two frames they cover), so it under-approximates: a front-end that notices a hopeless input later than the other (a number in key position) is not reported, a real divergence nested deeper than two containers may be missed. Bytes for which either side lacks an arm (known findings of A-noarm) are outside the compared language",
		"A-preamble: the []byte entry and the reader entry of one front-end reject the same first bytes before the dispatch function sees the input (the partial byte-order-mark test), unless the dispatch function rejects that first byte anyway",
		"A-noarm: in sen.Parser and sen.Tokenizer explored alone, every action code a reachable (mode, byte) cell holds has a case in the dispatch switch (a missing case silently skips the byte in one sibling only)")
	rep.Explain(engineAExplanation)
	rep.Explain("C03 decides agreement of the strict-JSON front-ends as acceptors and event sources under every chunking, in single- and multi-document mode (the multi-document reference is: a sequence of JSON values optionally separated by whitespace; a top-level number ends at whitespace or end of input), and the structural part of sen.Parser/sen.Tokenizer agreement (no silently skipped action code). Not covered: equality of the value trees (values are Top in the abstract domain), alt.Builder reconstruction, Simplify, and equality of the SEN and JSON trees for a JSON text (A-subset decides acceptance and container structure only).")
	rep.Assumptions = append(rep.Assumptions, "Go semantics of the interpreted statement forms", "callbacks and handler methods do not modify the parser", "a type switch over a call result lists every dynamic type the callee returns")
	results := exploreFrontEnds(prog, jsonFrontEnds, []bool{false, true}, false)
	applyParseResults(rep, results, union(kindsAccept, kindsEvents, kindsPanic, map[string]bool{"stale-scratch": true}), "A-agree", 18)
	sres := exploreFrontEnds(prog, senFrontEnds, []bool{false, true}, true)
	applyParseResults(rep, sres, map[string]bool{"no-arm": true}, "A-noarm", 12)
	// the SEN superset and chunking views: single-document mode in the quick tier, both modes in the thorough tier
	senModes := []bool{false}
	if rep.Tier == "thorough" {
		senModes = []bool{false, true}
	}
	ssup := exploreFrontEnds(prog, senFrontEnds, senModes, false, true)
	applyParseResults(rep, ssup, kindsSuperset, "A-subset", 12)
	sself := exploreSelf(prog, senFrontEnds, senModes)
	applyParseResults(rep, sself, kindsChunk, "A-senchunk", 12)
	var scross []feResult
	for _, mo := range senModes {
		scross = append(scross, exploreCrossOne(prog, senFrontEnds[0], senFrontEnds[1], mo))
	}
	applyParseResults(rep, scross, kindsCross, "A-sencross", 12)
	rulePreambleAgree(prog, rep)
	ruleArmTwinsAll(prog, rep, true)
	ruleBOM(prog, rep)           // the []byte and the reader entry must skip the same preamble
	ruleEscapeDecode(prog, rep)  // the five copies of the escape decoding must produce the same string
	ruleBigLimitAgree(prog, rep) // the kind of value a number comes back as must not depend on the chunking
	ruleSENFollow(prog, rep)
	ruleMemberStore(prog, rep)
	ruleBufView(prog, rep, 20, "oj", "gen", "sen") // a partial token kept as a view of the read buffer is overwritten by the next chunk
	ruleReaderLoops(prog, rep)
	ruleBufAlias(prog, rep, append(append([]feSpec{}, jsonFrontEnds...), senFrontEnds...)...)                            // with a view of the read buffer the result depends on the chunking
	ruleEntryParity(prog, rep, "oj.Parser", "oj.Validator", "oj.Tokenizer", "gen.Parser", "sen.Parser", "sen.Tokenizer") // the []byte and the reader entry must start from the same state
	ruleArgParity(prog, rep, "oj.Parser", "oj.Validator", "oj.Tokenizer", "gen.Parser", "sen.Parser", "sen.Tokenizer")
	if rep.Tier == "thorough" {
		mutationSweep(prog, rep, union(kindsAccept, kindsEvents, kindsPanic), sweepSize())
	}
}

func ruleC06(prog *Program, rep *Report) {
	rep.Rules = append(rep.Rules,
		"A-panic: no reachable (machine state, byte) of any of the six table-driven front-ends makes an arm index a constant string or the container stack out of range, slice the buffer beyond len(buf), or pop an empty container stack; no byte is re-dispatched forever (no-progress); every reachable table code has a case (JSON front-ends)")
	rep.Explain(engineAExplanation)
	rep.Explain("C06 (parser part) decides the panic surface that is visible in the finite control state of the six table-driven front-ends, for every reachable state and byte, JSON front-ends in product with the reference, SEN front-ends explored alone (over-approximated reachability). Explicit panic(...) calls are treated as thrown errors and handled by rule E-recover. Not covered here: index/nil safety of data the domain keeps as Top (build stack contents, number buffers), recursion depth.")
	results := exploreFrontEnds(prog, jsonFrontEnds, []bool{false, true}, false)
	applyParseResults(rep, results, kindsPanic, "A-panic", 18)
	sres := exploreFrontEnds(prog, senFrontEnds, []bool{false, true}, true)
	applyParseResults(rep, sres, map[string]bool{"panic": true, "no-progress": true}, "A-panic", 12)
	ruleC06Extra(prog, rep)
	if rep.Tier == "thorough" {
		// a table cell rarely leads to a panic, so nearly every mutant is explored in full (no early exit):
		// a third of the default sweep keeps the thorough tier within minutes
		mutationSweep(prog, rep, kindsPanic, (sweepSize()+3)/4)
	}
}

func ruleC07(prog *Program, rep *Report) {
	rep.Rules = append(rep.Rules,
		"A-stale: at the first call of the dispatch function every control field (mode, next mode, literal index, flags, container stack) is either assigned by the public entry or definitely written on every machine path before it is read; a read of a value left over from a previous call is a violation")
	rep.Explain(engineAExplanation)
	rep.Explain("C07 (machine part): the entries Parse/ParseReader/Validate/ValidateReader/Load are interpreted from a state in which every control field holds a 'stale' value; the exploration reports any read of a stale value in a condition, index or switch tag. This discharges mode-guarded scratch fields without an exception list. Other carried state is checked by the C-reset rules below.")
	results := exploreFrontEnds(prog, jsonFrontEnds, []bool{false, true}, false)
	applyParseResults(rep, results, kindsStale, "A-stale", 18)
	sres := exploreFrontEnds(prog, senFrontEnds, []bool{false, true}, true)
	applyParseResults(rep, sres, kindsStale, "A-stale", 12)
	ruleC07Extra(prog, rep)
}

func ruleC09(prog *Program, rep *Report) {
	rep.Rules = append(rep.Rules,
		"A-errpos: every error raised inside the dispatch loop passes the loop cursor of the dispatched byte (off0+0) to the error constructor, and errors are raised exactly at the byte where the reference dies (C01 synchrony): together 'first offending byte'",
		"A-eofpos: whenever a buffer can end inside an arm (empty or exhausted scan) the cursor is left at exactly len(buf), so the end-of-input error is positioned just past the last byte")
	rep.Explain(engineAExplanation)
	rep.Explain("C09 decides the structural facts the reported position depends on: cursor argument of every error, cursor at buffer exhaustion, newline bookkeeping, rebasing of the newline offset between reader buffers, and use of one error constructor. Not covered: arithmetic of the column beyond these facts; BOM offset.")
	results := exploreFrontEnds(prog, jsonFrontEnds, []bool{false, true}, false)
	applyParseResults(rep, results, union(kindsPosition, kindsPanic, map[string]bool{"accepts-dead": true, "rejects-live": true}), "A-errpos", 18) // an arm that slices past len(buf) compares stale bytes: the error, if any, is reported at another byte
	ruleC09Extra(prog, rep)
	ruleEntryParity(prog, rep, "oj.Parser", "oj.Validator", "oj.Tokenizer", "gen.Parser") // a line counter or newline offset that one entry does not reset puts the position of the next document's error on the lines of the previous one
	if rep.Tier == "thorough" {
		mutationSweep(prog, rep, union(kindsPosition, map[string]bool{"accepts-dead": true, "rejects-live": true}), sweepSize())
	}
}

func sweepSize() int {
	if v, err := strconv.Atoi(os.Getenv("OJGCHECK_SWEEP")); err == nil && v > 0 {
		return v
	}
	return 120
}

// hasNumberField: the front-end accumulates numbers in a gen.Number field (the validator does not).
func hasNumberField(m *Machine) bool {
	st, ok := m.recvType.Underlying().(*types.Struct)
	if !ok {
		return false
	}
	for i := 0; i < st.NumFields(); i++ {
		if n, ok := st.Field(i).Type().(*types.Named); ok && n.Obj().Name() == "Number" && n.Obj().Pkg() != nil && strings.HasSuffix(n.Obj().Pkg().Path(), "/gen") {
			return true
		}
	}
	return false
}

// reportKinds emits the disagreements of the given kinds under another rule name
// (the exploration's obligations were already counted by applyParseResults).
func reportKinds(rep *Report, results []feResult, kinds map[string]bool, rule string) {
	for _, r := range results {
		if r.err != nil {
			continue
		}
		var keys []string
		for k := range r.dis {
			keys = append(keys, k)
		}
		sort.Strings(keys)
		n := 0
		for _, k := range keys {
			d := r.dis[k]
			if !kinds[d.Kind] {
				continue
			}
			n++
			key := k
			if r.multi {
				key = strings.Replace(k, r.name+":", r.name+"[multi]:", 1)
			}
			rep.Violate(Finding{Rule: rule + "/" + d.Kind, Key: key, Pos: d.Pos, Msg: d.Detail,
				Witness: map[string]any{"input": d.Witness, "machine_state": d.XState, "reference_state": d.YState, "mode": d.Mode, "byte": d.Byte, "multi_document": r.multi}})
		}
		if n == 0 {
			rep.Discharge(rule, r.label(), "", "no step of the explored product violates the rule")
		}
	}
}

// rulePreambleAgree: a first byte that one entry rejects in its preamble (before the dispatch function)
// and the sibling entry hands to the dispatch function must be rejected there too.
func rulePreambleAgree(prog *Program, rep *Report) {
	n := 0
	for _, g := range entryGroups {
		if !g.work || len(g.entries) != 2 {
			continue
		}
		rej := map[string]map[int]string{}
		for _, e := range g.entries {
			rej[e] = preambleRejects(prog, g.rel, g.typ, map[string]bool{e: true})
		}
		m, err := ExtractMachine(prog, g.rel, g.typ, g.entries)
		if err != nil {
			rep.Errorf("A-preamble: %v", err)
			continue
		}
		m.in.cls = nil // every byte is its own class
		for i, e := range g.entries {
			other := g.entries[1-i]
			var bs []int
			for b := range rej[e] {
				bs = append(bs, b)
			}
			sort.Ints(bs)
			for _, b := range bs {
				n++
				key := fmt.Sprintf("%s.%s:preamble:%s:%s-only", g.rel, g.typ, byteDesc(b), e)
				if rej[other][b] != "" {
					rep.Discharge("A-preamble", key, "", "both entries reject it in the preamble")
					continue
				}
				// does the dispatch function reject it as first byte?
				starts, _, err := m.Starts(other, map[string]Val{"OnlyOne": vConstBool(true)})
				if err != nil || len(starts) == 0 {
					rep.Errorf("A-preamble: %s.%s.%s: no start state: %v", g.rel, g.typ, other, err)
					continue
				}
				accepts := false
				for _, s0 := range starts {
					for _, h := range m.enterWork(s0) {
						for _, o := range m.Step(m.in, h, b) {
							if o.Kind != "error" {
								accepts = true
							}
						}
					}
				}
				if !accepts {
					rep.Discharge("A-preamble", key, "", "the dispatch function rejects this first byte as well")
					continue
				}
				rep.Violate(Finding{Rule: "A-preamble", Key: key, Pos: "",
					Msg: fmt.Sprintf("%s.%s.%s rejects a document whose first byte is %s (unless a byte order mark follows) before parsing; %s hands the same bytes to the dispatch function, which accepts that byte: the two entries disagree on such input", g.rel, g.typ, e, byteDesc(b), other)})
			}
		}
	}
	rep.Eval(n)
	if n < 4 {
		rep.Errorf("A-preamble examined %d preamble rejections (floor 4): anchors did not resolve", n)
	}
}
