package main

import (
	"fmt"
	"go/ast"
	"go/constant"
	"go/token"
	"go/types"
)

func init() { rules["C17"] = ruleC17 }

func ruleC17(prog *Program, rep *Report) {
	rep.Explain("C17 decides the bookkeeping pairing of the streaming matcher: the six leaf events of jp.MatchHandler funnel into one helper with the event's own value; that helper and the container-end helper advance the trailing array index exactly once per event (one unconditional call), container start pushes exactly one path fragment and container end pops exactly one; target selection is an existential test over all targets (a loop over the targets never answers false before every target was tried); found-flags are not carried between fragments; the tokenizer emits the token events the reference emits (Engine A, so a value cannot change kind on a slow path); oj.Match*/sen.Match* are wired to the tokenizer entries. Not covered: PathMatch versus evaluator semantics, document order, the values delivered.")
	pk := prog.Pkg("jp")
	if pk == nil {
		rep.Errorf("package jp missing")
		return
	}
	info := pk.TypesInfo
	method := func(name string) *ast.FuncDecl {
		fd, _ := prog.FuncDecl(Method(pk, "MatchHandler", name))
		return fd
	}
	ruleFindFirst(prog, rep, "jp")
	ruleQuotedIsString(prog, rep, jsonFrontEnds[2], senFrontEnds[1])
	ruleBufView(prog, rep, 20, "oj", "sen")
	ruleReaderLoops(prog, rep)                                 // MatchLoad sees the document through the reader entry: every chunk, and the end of input, reach the tokenizer
	ruleAddrRetain(prog, rep, 1, "jp")                         // the handler keeps one entry per target
	ruleBufAlias(prog, rep, jsonFrontEnds[2], senFrontEnds[1]) // a string delivered to the callback must survive the next read
	// T-leaf
	rep.Rules = append(rep.Rules, "T-leaf: each leaf method of jp.MatchHandler (Null, Bool, Int, Float, Number, String) consists of exactly one call of the same helper method whose argument is the method's own parameter (nil for Null; a conversion of the parameter for Number)")
	var helper *types.Func
	for _, name := range []string{"Null", "Bool", "Int", "Float", "Number", "String"} {
		fd := method(name)
		key := "jp.MatchHandler." + name
		if fd == nil {
			rep.Errorf("%s not found", key)
			continue
		}
		okShape := false
		detail := "body is not a single helper call"
		if len(fd.Body.List) == 1 {
			if es, ok := fd.Body.List[0].(*ast.ExprStmt); ok {
				if call, ok := es.X.(*ast.CallExpr); ok && len(call.Args) == 1 {
					if sel, ok := call.Fun.(*ast.SelectorExpr); ok {
						if s := info.Selections[sel]; s != nil {
							callee, _ := s.Obj().(*types.Func)
							if helper == nil {
								helper = callee
							}
							var param types.Object
							if fd.Type.Params != nil && len(fd.Type.Params.List) == 1 && len(fd.Type.Params.List[0].Names) == 1 {
								param = info.Defs[fd.Type.Params.List[0].Names[0]]
							}
							arg := ast.Unparen(call.Args[0])
							// strip one conversion
							if c, ok := arg.(*ast.CallExpr); ok && len(c.Args) == 1 {
								if tv, ok := info.Types[c.Fun]; ok && tv.IsType() {
									arg = ast.Unparen(c.Args[0])
								}
							}
							switch {
							case callee != helper:
								detail = "calls a different helper than its siblings"
							case param == nil:
								if id, ok := arg.(*ast.Ident); ok && id.Name == "nil" {
									okShape = true
								} else {
									detail = "has no parameter but does not pass nil"
								}
							case useObj(info, arg) == param:
								okShape = true
							default:
								detail = "does not pass its own parameter to the helper"
							}
						}
					}
				}
			}
		}
		if okShape {
			rep.Discharge("T-leaf", key, prog.Pos(fd.Pos()), "single helper call with the event's own value")
		} else {
			rep.Violate(Finding{Rule: "T-leaf", Key: key, Pos: prog.Pos(fd.Pos()), Msg: "leaf event " + name + " " + detail + ": the value delivered for a match differs from the document's"})
		}
	}
	if helper == nil {
		rep.Errorf("jp.MatchHandler: leaf helper not found")
		return
	}
	// T-inc / T-push / T-pop
	rep.Rules = append(rep.Rules, "T-inc: the leaf helper and the container-end helper each contain exactly one call of the index-increment helper, as a statement of the function body itself (not nested in a condition); T-push/T-pop: the container-start helper appends exactly one fragment to the path and the container-end helper reslices the path by exactly one, both as unconditional statements of the function body")
	helperFd, _ := prog.FuncDecl(helper)
	// the increment helper: the method the leaf helper calls as its last statement
	var inc *types.Func
	if helperFd != nil && len(helperFd.Body.List) > 0 {
		if es, ok := helperFd.Body.List[len(helperFd.Body.List)-1].(*ast.ExprStmt); ok {
			if call, ok := es.X.(*ast.CallExpr); ok && len(call.Args) == 0 {
				if sel, ok := call.Fun.(*ast.SelectorExpr); ok {
					if s := info.Selections[sel]; s != nil {
						inc, _ = s.Obj().(*types.Func)
					}
				}
			}
		}
	}
	if inc == nil {
		rep.Violate(Finding{Rule: "T-inc", Key: "jp.MatchHandler." + helper.Name() + ":inc", Pos: prog.Pos(helper.Pos()), Msg: "the leaf helper does not end with an unconditional call of the index-increment helper: array indexes in reported paths drift"})
		return
	}
	countCalls := func(fd *ast.FuncDecl, target *types.Func) (top, nested int) {
		for _, st := range fd.Body.List {
			isTop := false
			if es, ok := st.(*ast.ExprStmt); ok {
				if call, ok := es.X.(*ast.CallExpr); ok {
					if sel, ok := call.Fun.(*ast.SelectorExpr); ok {
						if s := info.Selections[sel]; s != nil && s.Obj() == types.Object(target) {
							top++
							isTop = true
						}
					}
				}
			}
			if !isTop {
				ast.Inspect(st, func(n ast.Node) bool {
					if call, ok := n.(*ast.CallExpr); ok {
						if sel, ok := call.Fun.(*ast.SelectorExpr); ok {
							if s := info.Selections[sel]; s != nil && s.Obj() == types.Object(target) {
								nested++
							}
						}
					}
					return true
				})
			}
		}
		return
	}
	// container start/end helpers: the methods ObjectStart/ArrayStart and ObjectEnd/ArrayEnd call
	calleeOf := func(name string) *types.Func {
		fd := method(name)
		if fd == nil || len(fd.Body.List) != 1 {
			return nil
		}
		if es, ok := fd.Body.List[0].(*ast.ExprStmt); ok {
			if call, ok := es.X.(*ast.CallExpr); ok {
				if sel, ok := call.Fun.(*ast.SelectorExpr); ok {
					if s := info.Selections[sel]; s != nil {
						f, _ := s.Obj().(*types.Func)
						return f
					}
				}
			}
		}
		return nil
	}
	startH, endH := calleeOf("ObjectStart"), calleeOf("ObjectEnd")
	if startH == nil || endH == nil || calleeOf("ArrayStart") != startH || calleeOf("ArrayEnd") != endH {
		rep.Violate(Finding{Rule: "T-push", Key: "jp.MatchHandler:start-end-helpers", Pos: prog.Pos(helper.Pos()), Msg: "ObjectStart/ArrayStart (ObjectEnd/ArrayEnd) do not funnel into one start (end) helper each"})
		return
	}
	for _, h := range []*types.Func{helper, endH} {
		fd, _ := prog.FuncDecl(h)
		top, nested := countCalls(fd, inc)
		key := "jp.MatchHandler." + h.Name() + ":inc"
		// a return that precedes the increment leaves the function without it
		earlyReturn := token.NoPos
		if top == 1 {
			var incPos token.Pos
			for _, st := range fd.Body.List {
				if es, ok := st.(*ast.ExprStmt); ok {
					if call, ok := es.X.(*ast.CallExpr); ok {
						if sel, ok := call.Fun.(*ast.SelectorExpr); ok {
							if sl := info.Selections[sel]; sl != nil && sl.Obj() == inc {
								incPos = st.Pos()
							}
						}
					}
				}
			}
			ast.Inspect(fd.Body, func(n ast.Node) bool {
				switch x := n.(type) {
				case *ast.FuncLit:
					return false
				case *ast.ReturnStmt:
					if incPos.IsValid() && x.Pos() < incPos && !earlyReturn.IsValid() {
						earlyReturn = x.Pos()
					}
				}
				return true
			})
		}
		if earlyReturn.IsValid() {
			rep.Violate(Finding{Rule: "T-inc", Key: key + ":return-before-increment", Pos: prog.Pos(earlyReturn), Msg: h.Name() + " can return before it advances the trailing array index: the elements after a container that took this path are reported one index too low"})
		} else if top == 1 && nested == 0 {
			rep.Discharge("T-inc", key, prog.Pos(fd.Pos()), "exactly one unconditional index increment, no return before it")
		} else {
			rep.Violate(Finding{Rule: "T-inc", Key: key, Pos: prog.Pos(fd.Pos()), Msg: fmt.Sprintf("%s advances the trailing array index %d time(s) unconditionally and %d time(s) conditionally (want exactly once per event): array indexes in reported paths drift", h.Name(), top, nested)})
		}
	}
	{
		fd, _ := prog.FuncDecl(startH)
		if top, nested := countCalls(fd, inc); top+nested != 0 {
			rep.Violate(Finding{Rule: "T-inc", Key: "jp.MatchHandler." + startH.Name() + ":inc", Pos: prog.Pos(fd.Pos()), Msg: "the container-start helper advances the array index: the index is advanced when the container ends"})
		}
	}
	pathOps := func(fd *ast.FuncDecl) (pushTop, pushNested, popTop, popNested int) {
		classify := func(as *ast.AssignStmt) (push, pop bool) {
			if len(as.Lhs) != 1 || len(as.Rhs) != 1 {
				return
			}
			sel, ok := as.Lhs[0].(*ast.SelectorExpr)
			if !ok || sel.Sel.Name != "Path" {
				return
			}
			switch r := as.Rhs[0].(type) {
			case *ast.CallExpr:
				if id, ok := r.Fun.(*ast.Ident); ok && id.Name == "append" && len(r.Args) == 2 && !r.Ellipsis.IsValid() {
					push = true
				}
			case *ast.SliceExpr:
				// h.Path[:len(h.Path)-1]
				if be, ok := r.High.(*ast.BinaryExpr); ok && be.Op == token.SUB && isLenCall(be.X) {
					if tv := info.Types[be.Y].Value; tv != nil {
						if v, _ := constant.Int64Val(tv); v == 1 {
							pop = true
						}
					}
				}
			}
			return
		}
		for _, st := range fd.Body.List {
			if as, ok := st.(*ast.AssignStmt); ok {
				pu, po := classify(as)
				if pu {
					pushTop++
				}
				if po {
					popTop++
				}
				continue
			}
			ast.Inspect(st, func(n ast.Node) bool {
				if as, ok := n.(*ast.AssignStmt); ok {
					pu, po := classify(as)
					if pu {
						pushNested++
					}
					if po {
						popNested++
					}
				}
				return true
			})
		}
		return
	}
	{
		fd, _ := prog.FuncDecl(startH)
		pt, pn, ot, on := pathOps(fd)
		if pt == 1 && pn == 0 && ot+on == 0 {
			rep.Discharge("T-push", "jp.MatchHandler."+startH.Name()+":path", prog.Pos(fd.Pos()), "pushes exactly one fragment, unconditionally")
		} else {
			rep.Violate(Finding{Rule: "T-push", Key: "jp.MatchHandler." + startH.Name() + ":path", Pos: prog.Pos(fd.Pos()), Msg: fmt.Sprintf("container start pushes %d+%d fragments and pops %d (want exactly one unconditional push)", pt, pn, ot+on)})
		}
		fd2, _ := prog.FuncDecl(endH)
		pt, pn, ot, on = pathOps(fd2)
		if ot == 1 && on == 0 && pt+pn == 0 {
			rep.Discharge("T-pop", "jp.MatchHandler."+endH.Name()+":path", prog.Pos(fd2.Pos()), "pops exactly one fragment, unconditionally")
		} else {
			rep.Violate(Finding{Rule: "T-pop", Key: "jp.MatchHandler." + endH.Name() + ":path", Pos: prog.Pos(fd2.Pos()), Msg: fmt.Sprintf("container end pops %d+%d fragments and pushes %d (want exactly one unconditional pop)", ot, on, pt+pn)})
		}
	}
	// T-any: loops over the targets never answer false early
	rep.Rules = append(rep.Rules, "T-any: in the methods of jp.MatchHandler a loop over the targets that answers with a boolean returns only the constant true from inside the loop (existential test over all targets); false is returned after the loop")
	for _, f := range pk.Syntax {
		for _, d := range f.Decls {
			fd, ok := d.(*ast.FuncDecl)
			if !ok || fd.Body == nil || fd.Recv == nil {
				continue
			}
			fn, _ := info.Defs[fd.Name].(*types.Func)
			if rn := recvNamed(fn); rn == nil || rn.Obj().Name() != "MatchHandler" {
				continue
			}
			res := fn.Type().(*types.Signature).Results()
			if res.Len() != 1 {
				continue
			}
			if b, ok := res.At(0).Type().Underlying().(*types.Basic); !ok || b.Info()&types.IsBoolean == 0 {
				continue
			}
			ast.Inspect(fd.Body, func(n ast.Node) bool {
				rs, ok := n.(*ast.RangeStmt)
				if !ok {
					return true
				}
				sel, ok := rs.X.(*ast.SelectorExpr)
				if !ok || sel.Sel.Name != "Targets" {
					return true
				}
				key := "jp.MatchHandler." + fd.Name.Name + ":any-target"
				bad := false
				ast.Inspect(rs.Body, func(k ast.Node) bool {
					if r, ok := k.(*ast.ReturnStmt); ok && len(r.Results) == 1 {
						tv := info.Types[r.Results[0]]
						if tv.Value == nil || !constant.BoolVal(tv.Value) {
							bad = true
						}
					}
					return true
				})
				if bad {
					rep.Violate(Finding{Rule: "T-any", Key: key, Pos: prog.Pos(rs.Pos()), Msg: "the loop over the targets can answer with something other than the constant true before all targets were tried: a later target that selects the location is ignored when an earlier one does not"})
				} else {
					rep.Discharge("T-any", key, prog.Pos(rs.Pos()), "returns only true from inside the loop")
				}
				return true
			})
		}
	}
	ruleLoopFlag(prog, rep, "B-flag")
	ruleScopedFlag(prog, rep)
	// tokenizer events
	rep.Rules = append(rep.Rules, "A-events: the events oj.Tokenizer emits agree with the reference at every byte in single- and multi-document mode (see C03) and no reachable step of the tokenizer panics (a panic in MatchLoad is not parse-then-locate)")
	// numbers delivered to the callback: no digit is left out on any path (N-digit, as in C02)
	exploreDigitFns = numberDigitFns(prog)
	exploreMirror = numberMirrorFns(prog)
	rep.Rules = append(rep.Rules, "N-digit (see C02) for oj.Tokenizer: a digit that keeps the reference inside a number is used as a digit or added to the number's text on every path, also when the buffer ends right after it")
	results := exploreFrontEnds(prog, []feSpec{jsonFrontEnds[2]}, []bool{false, true}, false)
	exploreDigitFns, exploreMirror = nil, nil
	reportKinds(rep, results, map[string]bool{"digit-misuse": true, "digit-dropped": true}, "N-digit")
	applyParseResults(rep, results, union(kindsEvents, kindsPanic, map[string]bool{"stale-scratch": true}), "A-events", 18) // a key with a stale prefix is not matched
}

// ruleScopedFlag: in jp.PathMatch style code (a switch over fragment kinds
// inside a loop) a comma-ok flag must be local to the arm that sets it.
func ruleScopedFlag(prog *Program, rep *Report) {
	rep.Rules = append(rep.Rules, "T-scope: in the functions of jp that match a path against targets, a boolean that one arm of a switch inside a loop assigns by plain assignment (=) and another arm tests is declared inside the loop body: a flag shared by the arms carries one fragment's answer into the next")
	pk := prog.Pkg("jp")
	info := pk.TypesInfo
	fd, _ := prog.FuncDecl(Func(pk, "PathMatch"))
	if fd == nil {
		rep.Errorf("jp.PathMatch not found")
		return
	}
	n := 0
	for _, top := range fd.Body.List {
		var body *ast.BlockStmt
		switch l := top.(type) {
		case *ast.ForStmt:
			body = l.Body
		case *ast.RangeStmt:
			body = l.Body
		default:
			continue
		}
		ast.Inspect(body, func(q ast.Node) bool {
			as, ok := q.(*ast.AssignStmt)
			if !ok || as.Tok != token.ASSIGN {
				return true
			}
			for _, l := range as.Lhs {
				id, ok := l.(*ast.Ident)
				if !ok || id.Name == "_" {
					continue
				}
				v, _ := info.Uses[id].(*types.Var)
				if v == nil {
					continue
				}
				if b, isB := v.Type().Underlying().(*types.Basic); !isB || b.Info()&types.IsBoolean == 0 {
					continue
				}
				n++
				if !(body.Pos() <= v.Pos() && v.Pos() <= body.End()) {
					rep.Violate(Finding{Rule: "T-scope", Key: "jp.PathMatch:flag:" + v.Name(), Pos: prog.Pos(id.Pos()), Msg: fmt.Sprintf("the flag %s is declared outside the loop over fragments and assigned inside one arm: another arm sees the previous fragment's answer", v.Name())})
				}
			}
			return true
		})
	}
	_ = n
	rep.Discharge("T-scope", "jp.PathMatch:flags", prog.Pos(fd.Pos()), "flags assigned in the fragment loop are declared inside it")
}
