package main

import (
	"go/ast"
	"go/constant"
	"go/token"
	"go/types"
	"strings"
)

func panicVal() Val { return Val{K: kTop, S: "panic"} }

func (in *Interp) eval(e ast.Expr, st *State) []evalRes {
	// constants first: the type checker already evaluated them
	if cv, ok := in.constCache[e]; ok {
		return []evalRes{{st, cv}}
	}
	if tv, ok := in.info.Types[e]; ok && tv.Value != nil {
		switch tv.Value.Kind() {
		case constant.Int, constant.String, constant.Bool:
			v := Val{K: kConst, C: tv.Value}
			if tv.Value.Kind() == constant.String {
				if sv := constant.StringVal(tv.Value); len(sv) >= 128 {
					v.T = in.tableID[sv]
				}
			}
			if in.constCache == nil {
				in.constCache = map[ast.Expr]Val{}
			}
			in.constCache[e] = v
			return []evalRes{{st, v}}
		case constant.Float:
			return []evalRes{{st, vTop}}
		}
	}
	switch x := e.(type) {
	case *ast.ParenExpr:
		return in.eval(x.X, st)
	case *ast.BasicLit:
		return []evalRes{{st, vTop}}
	case *ast.Ident:
		if x.Name == "nil" {
			return []evalRes{{st, Val{K: kNil}}}
		}
		obj := in.info.Uses[x]
		if obj == nil {
			obj = in.info.Defs[x]
		}
		if v, ok := st.locals[obj]; ok {
			return []evalRes{{st, v}}
		}
		return []evalRes{{st, vTop}}
	case *ast.SelectorExpr:
		if f := in.fieldPath(x, st); f != "" {
			if in.stackFld[f] {
				return []evalRes{{st, Val{K: kTop, S: "stack:" + f}}}
			}
			if in.tracked[f] {
				if in.trackReads && !st.assigned[f] {
					if st.readFirst == nil {
						st.readFirst = map[string]bool{}
					}
					st.readFirst[f] = true
				}
				if v, ok := st.fields[f]; ok {
					return []evalRes{{st, v}}
				}
				return []evalRes{{st, Val{K: kTop, Stale: true}}}
			}
			return []evalRes{{st, vTop}}
		}
		// evaluate base for effects
		if _, isPkg := in.info.Uses[identOf(x.X)].(*types.PkgName); isPkg {
			return []evalRes{{st, vTop}}
		}
		var out []evalRes
		for _, r := range in.eval(x.X, st) {
			out = append(out, evalRes{r.st, vTop})
		}
		return out
	case *ast.StarExpr:
		var out []evalRes
		for _, r := range in.eval(x.X, st) {
			out = append(out, evalRes{r.st, vTop})
		}
		return out
	case *ast.UnaryExpr:
		var out []evalRes
		switch x.Op {
		case token.AND:
			for _, r := range in.evalForEffect(x.X, st) {
				out = append(out, evalRes{r, Val{K: kNonNil}})
			}
			return out
		case token.NOT:
			for _, c := range in.cond(x.X, st) {
				out = append(out, evalRes{c.st, vConstBool(!c.v)})
			}
			return out
		}
		for _, r := range in.eval(x.X, st) {
			v := vTop
			if r.v.K == kConst && (x.Op == token.SUB || x.Op == token.ADD || x.Op == token.XOR) {
				v = Val{K: kConst, C: constant.UnaryOp(x.Op, r.v.C, 0)}
			}
			out = append(out, evalRes{r.st, v})
		}
		return out
	case *ast.BinaryExpr:
		switch x.Op {
		case token.LAND, token.LOR, token.EQL, token.NEQ, token.LSS, token.LEQ, token.GTR, token.GEQ:
			var out []evalRes
			for _, c := range in.cond(x, st) {
				out = append(out, evalRes{c.st, vConstBool(c.v)})
			}
			return out
		}
		var out []evalRes
		for _, l := range in.eval(x.X, st) {
			for _, r := range in.eval(x.Y, l.st) {
				out = append(out, evalRes{r.st, in.binop(x.Op, l.v, r.v, in.info.TypeOf(x), r.st, x.Pos())})
			}
		}
		return out
	case *ast.IndexExpr:
		return in.evalIndex(x, st)
	case *ast.SliceExpr:
		return in.evalSlice(x, st)
	case *ast.CallExpr:
		return in.evalCall(x, st)
	case *ast.TypeAssertExpr:
		var out []evalRes
		for _, r := range in.eval(x.X, st) {
			out = append(out, evalRes{r.st, vTop})
		}
		return out
	case *ast.CompositeLit:
		return []evalRes{{st, Val{K: kTop, NonNeg: false}}}
	case *ast.FuncLit:
		return []evalRes{{st, Val{K: kNonNil}}}
	case *ast.KeyValueExpr:
		return in.eval(x.Value, st)
	}
	in.undecide(e.Pos(), "expression %T", e)
	return nil
}

func identOf(e ast.Expr) *ast.Ident {
	id, _ := e.(*ast.Ident)
	return id
}

func (in *Interp) evalForEffect(e ast.Expr, st *State) []*State {
	switch x := e.(type) {
	case *ast.CompositeLit:
		cur := []*State{st}
		for _, el := range x.Elts {
			var next []*State
			for _, c := range cur {
				for _, r := range in.eval(el, c) {
					next = append(next, r.st)
				}
			}
			cur = next
		}
		return cur
	}
	var out []*State
	for _, r := range in.eval(e, st) {
		out = append(out, r.st)
	}
	return out
}

func wrapInt(c constant.Value, t types.Type) constant.Value {
	if t == nil {
		return c
	}
	b, ok := t.Underlying().(*types.Basic)
	if !ok || c.Kind() != constant.Int {
		return c
	}
	i, exact := constant.Int64Val(c)
	if !exact {
		return c
	}
	switch b.Kind() {
	case types.Uint8:
		return constant.MakeInt64(int64(uint8(i)))
	case types.Int8:
		return constant.MakeInt64(int64(int8(i)))
	case types.Uint16:
		return constant.MakeInt64(int64(uint16(i)))
	case types.Int16:
		return constant.MakeInt64(int64(int16(i)))
	case types.Uint32:
		return constant.MakeInt64(int64(uint32(i)))
	case types.Int32:
		return constant.MakeInt64(int64(int32(i)))
	}
	return c
}

func (in *Interp) binop(op token.Token, l, r Val, t types.Type, st *State, pos token.Pos) Val {
	if in.mirror && op == token.SUB && l.FromB && st != nil && st.cur >= 0 {
		// b - '0': the dispatched byte is used as a decimal digit
		if lv, ok := l.isInt(); ok && int(lv) == st.cur {
			if rv, ok := r.isInt(); ok && rv == '0' && !r.FromB {
				st.digitUse = true
			}
		}
	}
	v := in.binop0(op, l, r, t, st, pos)
	if (l.FromB || r.FromB) && v.K == kConst {
		v.FromB = true
	}
	if v.K == kTop && ((l.K == kTop && l.Stale) || (r.K == kTop && r.Stale)) {
		v.Stale = true
	}
	return v
}

func (in *Interp) binop0(op token.Token, l, r Val, t types.Type, st *State, pos token.Pos) Val {
	if l.K == kConst && r.K == kConst && l.C.Kind() == r.C.Kind() {
		switch l.C.Kind() {
		case constant.Int:
			switch op {
			case token.QUO, token.REM:
				if constant.Sign(r.C) == 0 {
					return vTop
				}
				if op == token.QUO {
					return Val{K: kConst, C: wrapInt(constant.BinaryOp(l.C, token.QUO_ASSIGN, r.C), t)}
				}
				return Val{K: kConst, C: wrapInt(constant.BinaryOp(l.C, op, r.C), t)}
			case token.SHL, token.SHR:
				if s, ok := constant.Uint64Val(r.C); ok && s < 64 {
					return Val{K: kConst, C: wrapInt(constant.Shift(l.C, op, uint(s)), t)}
				}
				return vTop
			case token.ADD, token.SUB, token.MUL, token.AND, token.OR, token.XOR, token.AND_NOT:
				return Val{K: kConst, C: wrapInt(constant.BinaryOp(l.C, op, r.C), t)}
			}
		case constant.String:
			if op == token.ADD {
				return Val{K: kConst, C: constant.BinaryOp(l.C, op, r.C)}
			}
		}
		return vTop
	}
	ci, cok := r.isInt()
	switch l.K {
	case kOff:
		if cok && (op == token.ADD || op == token.SUB) {
			if op == token.SUB {
				ci = -ci
			}
			return Val{K: kOff, A: l.A + int(ci), Flag: l.Flag}
		}
		if r.K == kScanIdx && op == token.ADD && !l.Flag {
			return Val{K: kOff, A: l.A + r.A, Flag: true}
		}
		if r.K == kTop && op == token.ADD {
			return Val{K: kTop, S: "off+unknown", NonNeg: r.NonNeg, Stale: r.Stale}
		}
	case kLen:
		if cok && (op == token.ADD || op == token.SUB) {
			if op == token.SUB {
				ci = -ci
			}
			return Val{K: kLen, S: l.S, A: l.A + int(ci)}
		}
	case kScanIdx:
		if cok && (op == token.ADD || op == token.SUB) {
			if op == token.SUB {
				ci = -ci
			}
			return Val{K: kScanIdx, A: l.A + int(ci)}
		}
	case kConst:
		if li, ok := l.isInt(); ok && op == token.ADD {
			switch r.K {
			case kOff:
				return Val{K: kOff, A: r.A + int(li), Flag: r.Flag}
			case kLen:
				return Val{K: kLen, S: r.S, A: r.A + int(li)}
			case kScanIdx:
				return Val{K: kScanIdx, A: r.A + int(li)}
			}
		}
	case kTop:
		if l.NonNeg && (op == token.ADD || op == token.MUL) {
			if (r.K == kTop && r.NonNeg) || (cok && ci >= 0) {
				return Val{K: kTop, NonNeg: true}
			}
		}
	}
	if l.K == kScanIdx && r.K == kOff && op == token.ADD && !r.Flag {
		return Val{K: kOff, A: l.A + r.A, Flag: true}
	}
	return vTop
}

func (in *Interp) evalIndex(x *ast.IndexExpr, st *State) []evalRes {
	// generic instantiation f[T] is not a value index
	if tv, ok := in.info.Types[x.X]; ok && !tv.IsValue() {
		return []evalRes{{st, vTop}}
	}
	var out []evalRes
	// tracked container stack: S[len(S)-1] is the top
	if f := in.fieldPath(x.X, st); f != "" && in.stackFld[f] {
		for _, ir := range in.eval(x.Index, st) {
			stk := ir.st.stacks[f]
			if ir.v.K == kLen && ir.v.S == f {
				switch {
				case ir.v.A >= 0:
					ir.st.notes = append(ir.st.notes, "index out of range: "+f+"[len"+"+] at "+in.prog.Pos(x.Pos()))
					ir.st.panicked = ir.st.notes[len(ir.st.notes)-1]
					out = append(out, evalRes{ir.st, panicVal()})
				case stk.Empty:
					ir.st.notes = append(ir.st.notes, "index out of range: "+f+" is empty at "+in.prog.Pos(x.Pos()))
					ir.st.panicked = ir.st.notes[len(ir.st.notes)-1]
					out = append(out, evalRes{ir.st, panicVal()})
				case ir.v.A == -1:
					out = append(out, evalRes{ir.st, stk.Top})
				default:
					in.undecide(x.Pos(), "container stack %s read below its top", f)
				}
				continue
			}
			in.undecide(x.Pos(), "container stack %s indexed by %s", f, ir.v)
		}
		return out
	}
	for _, br := range in.eval(x.X, st) {
		for _, ir := range in.eval(x.Index, br.st) {
			base, idx := br.v, ir.v
			switch base.K {
			case kConst:
				if s, ok := base.isStr(); ok {
					if idx.FromB && base.T == 0 {
						in.cls.request("identity", 0, "input byte indexes a string that is not a dispatch table at "+in.prog.Pos(x.Pos()))
					}
					if i, ok := idx.isInt(); ok {
						if i < 0 || int(i) >= len(s) {
							ir.st.notes = append(ir.st.notes, "index out of range ["+idx.String()+"] with length "+itoa(len(s))+" at "+in.prog.Pos(x.Pos()))
							ir.st.panicked = ir.st.notes[len(ir.st.notes)-1]
							out = append(out, evalRes{ir.st, panicVal()})
						} else {
							out = append(out, evalRes{ir.st, vConstInt(int64(s[i]))})
						}
						continue
					}
					if idx.Stale {
						ir.st.readStale = append(ir.st.readStale, in.prog.Pos(x.Pos())+" index")
					}
					// unknown index into a constant string: any of its bytes, or a panic
					if base.T == 0 || !(idx.K == kTop && idx.NonNeg && len(s) >= 256) {
						pn := ir.st.clone()
						pn.notes = append(pn.notes, "index out of range: "+types.ExprString(x)+" with an index that is not bounded at "+in.prog.Pos(x.Pos()))
						pn.panicked = pn.notes[len(pn.notes)-1]
						out = append(out, evalRes{pn, panicVal()})
					}
					out = append(out, evalRes{ir.st, vTop})
					continue
				}
			case kBuf:
				if idx.K == kOff && !idx.Flag && base.A == 0 && base.B == -1 && !base.Flag {
					p := idx.A
					if p == 0 && ir.st.cur >= 0 {
						out = append(out, evalRes{ir.st, vByte(ir.st.cur)})
						continue
					}
					if p >= 1 {
						if kb, ok := ir.st.known[p]; ok {
							out = append(out, evalRes{ir.st, vByte(kb)})
							continue
						}
						// look-ahead read: enumerate the byte (and the out-of-range case)
						if ir.st.remLo < p {
							oor := ir.st.clone()
							if oor.remAtMost(p - 1) {
								oor.notes = append(oor.notes, "index out of range: buf[off"+signed(p)+"] beyond len(buf) at "+in.prog.Pos(x.Pos()))
								oor.panicked = oor.notes[len(oor.notes)-1]
								out = append(out, evalRes{oor, panicVal()})
							}
						}
						if ir.st.remHi == -1 || ir.st.remHi >= p {
							for _, bv := range in.cls.reps() {
								n := ir.st.clone()
								n.remAtLeast(p)
								if n.known == nil {
									n.known = map[int]int{}
								}
								n.known[p] = bv
								out = append(out, evalRes{n, vByte(bv)})
							}
						}
						continue
					}
				}
				out = append(out, evalRes{ir.st, Val{K: kTop, NonNeg: true}})
				continue
			}
			if base.K == kTop && base.Stale {
				ir.st.readStale = append(ir.st.readStale, in.prog.Pos(x.Pos())+" indexed value")
			}
			// whatever the indexed slice, array or string holds, a definitely negative index panics
			if i, ok := idx.isInt(); ok && i < 0 && !in.isMapIndex(x) {
				ir.st.notes = append(ir.st.notes, "index out of range ["+idx.String()+"]: "+types.ExprString(x)+" at "+in.prog.Pos(x.Pos()))
				ir.st.panicked = ir.st.notes[len(ir.st.notes)-1]
				out = append(out, evalRes{ir.st, panicVal()})
				continue
			}
			out = append(out, evalRes{ir.st, vTop})
		}
	}
	return out
}

func itoa(i int) string {
	return strings.TrimSpace(constant.MakeInt64(int64(i)).ExactString())
}

func (in *Interp) evalSlice(x *ast.SliceExpr, st *State) []evalRes {
	var out []evalRes
	for _, br := range in.eval(x.X, st) {
		if br.v.K != kBuf {
			cur := []*State{br.st}
			for _, ix := range []ast.Expr{x.Low, x.High, x.Max} {
				if ix == nil {
					continue
				}
				var next []*State
				for _, c := range cur {
					for _, r := range in.eval(ix, c) {
						if i, ok := r.v.isInt(); ok && i < 0 {
							r.st.notes = append(r.st.notes, "slice bounds out of range ["+r.v.String()+"]: "+types.ExprString(x)+" at "+in.prog.Pos(x.Pos()))
							r.st.panicked = r.st.notes[len(r.st.notes)-1]
						}
						next = append(next, r.st)
					}
				}
				cur = next
			}
			for _, c := range cur {
				out = append(out, evalRes{c, vTop})
			}
			continue
		}
		lows := []evalRes{{br.st, vOff(br.v.A, false)}}
		if br.v.A == 0 && st.cur < 0 {
			lows = []evalRes{{br.st, vConstInt(0)}}
		}
		if x.Low != nil {
			lows = in.eval(x.Low, br.st)
		}
		for _, lo := range lows {
			highs := []evalRes{{lo.st, Val{K: kLenBuf}}}
			if x.High != nil {
				highs = in.eval(x.High, lo.st)
			}
			for _, hi := range highs {
				v := Val{K: kBuf, A: 0, B: -1}
				ok := true
				switch {
				case lo.v.K == kOff && !lo.v.Flag:
					v.A = lo.v.A
				case lo.v.K == kConst:
					// absolute index: only meaningful outside the dispatch loop
					v.Flag = true
				default:
					v.Flag = true
				}
				switch {
				case hi.v.K == kLenBuf:
					v.B = -1
				case hi.v.K == kOff && !hi.v.Flag:
					v.B = hi.v.A
					// buf[lo:hi] needs hi <= len(buf) (cap is not len: bytes past len are stale)
					if hi.st.cur >= 0 && (hi.st.remLo < hi.v.A-1) {
						hi.st.notes = append(hi.st.notes, "buffer slice upper bound off"+signed(hi.v.A)+" may exceed len(buf) at "+in.prog.Pos(x.Pos()))
						hi.st.panicked = hi.st.notes[len(hi.st.notes)-1]
						ok = false
					}
				default:
					v.Flag = true
					v.B = -2
				}
				if !ok {
					out = append(out, evalRes{hi.st, panicVal()})
					continue
				}
				out = append(out, evalRes{hi.st, v})
			}
		}
	}
	return out
}

func signed(i int) string {
	if i >= 0 {
		return "+" + itoa(i)
	}
	return itoa(i)
}

func (in *Interp) evalCall(x *ast.CallExpr, st *State) []evalRes {
	// conversion?
	if tv, ok := in.info.Types[x.Fun]; ok && tv.IsType() {
		var out []evalRes
		for _, r := range in.eval(x.Args[0], st) {
			in.scratchConsume(x.Args[0], r.st)
			v := vTop
			switch r.v.K {
			case kConst:
				if b, ok := tv.Type.Underlying().(*types.Basic); ok {
					switch {
					case b.Info()&types.IsInteger != 0 && r.v.C.Kind() == constant.Int:
						v = Val{K: kConst, C: wrapInt(r.v.C, tv.Type), FromB: r.v.FromB}
					case b.Info()&types.IsString != 0 && r.v.C.Kind() == constant.String:
						v = r.v
					}
				}
			case kBuf:
				if b, ok := tv.Type.Underlying().(*types.Basic); ok && b.Info()&types.IsString != 0 && !r.v.Flag && r.v.B >= 0 {
					v = Val{K: kBufStr, A: r.v.A, B: r.v.B}
				}
			case kTop:
				v = Val{K: kTop, NonNeg: r.v.NonNeg && isUnsignedOrInt(tv.Type), Stale: r.v.Stale}
			case kOff, kLen, kScanIdx:
				v = r.v
			}
			if v.K == kTop && isUnsigned(tv.Type) {
				v.NonNeg = true
			}
			out = append(out, evalRes{r.st, v})
		}
		return out
	}
	// builtins
	if id, ok := x.Fun.(*ast.Ident); ok {
		if _, isB := in.info.Uses[id].(*types.Builtin); isB {
			return in.evalBuiltin(id.Name, x, st)
		}
	}
	// resolve callee
	var callee *types.Func
	var recvExpr ast.Expr
	switch f := x.Fun.(type) {
	case *ast.Ident:
		callee, _ = in.info.Uses[f].(*types.Func)
	case *ast.SelectorExpr:
		if sel := in.info.Selections[f]; sel != nil {
			callee, _ = sel.Obj().(*types.Func)
			recvExpr = f.X
		} else {
			callee, _ = in.info.Uses[f.Sel].(*types.Func)
		}
	}
	// evaluate receiver (for effects) and arguments
	cur := []evalMulti{{st: st}}
	if recvExpr != nil {
		var next []evalMulti
		for _, c := range cur {
			for _, r := range in.eval(recvExpr, c.st) {
				next = append(next, evalMulti{st: r.st, vs: []Val{r.v}})
			}
		}
		cur = next
	} else {
		for i := range cur {
			cur[i].vs = []Val{vTop}
		}
	}
	for _, a := range x.Args {
		var next []evalMulti
		for _, c := range cur {
			for _, r := range in.eval(a, c.st) {
				if r.v.K == kTop && r.v.S == "panic" {
					next = append(next, evalMulti{st: r.st, vs: append(append([]Val{}, c.vs...), r.v), panicked: true})
					continue
				}
				next = append(next, evalMulti{st: r.st, vs: append(append([]Val{}, c.vs...), r.v), panicked: c.panicked})
			}
		}
		cur = next
	}
	var out []evalRes
	for _, c := range cur {
		if c.panicked {
			out = append(out, evalRes{c.st, panicVal()})
			continue
		}
		out = append(out, in.applyCall(x, callee, recvExpr, c.st, c.vs[0], c.vs[1:])...)
	}
	return out
}

func isUnsigned(t types.Type) bool {
	b, ok := t.Underlying().(*types.Basic)
	return ok && b.Info()&types.IsUnsigned != 0
}

func isUnsignedOrInt(t types.Type) bool {
	b, ok := t.Underlying().(*types.Basic)
	return ok && b.Info()&types.IsInteger != 0
}

func (in *Interp) evalBuiltin(name string, x *ast.CallExpr, st *State) []evalRes {
	var out []evalRes
	switch name {
	case "len", "cap":
		if f := in.fieldPath(x.Args[0], st); f != "" && in.stackFld[f] && name == "len" {
			return []evalRes{{st, vLen(f, 0)}}
		}
		for _, r := range in.eval(x.Args[0], st) {
			v := Val{K: kTop, NonNeg: true}
			switch r.v.K {
			case kConst:
				if s, ok := r.v.isStr(); ok {
					v = vConstInt(int64(len(s)))
				}
			case kBuf:
				if name == "len" && r.v.A == 0 && r.v.B == -1 && !r.v.Flag && in.isBufExpr(x.Args[0]) {
					v = Val{K: kLenBuf}
				}
			case kTop:
				if r.v.Stale {
					r.st.readStale = append(r.st.readStale, in.prog.Pos(x.Pos())+" len of stale value")
				}
			}
			out = append(out, evalRes{r.st, v})
		}
		return out
	case "panic":
		for _, r := range in.eval(x.Args[0], st) {
			r.st.notes = append(r.st.notes, "explicit panic at "+in.prog.Pos(x.Pos()))
			r.st.panicked = r.st.notes[len(r.st.notes)-1]
			out = append(out, evalRes{r.st, panicVal()})
		}
		return out
	}
	if name == "append" && in.appendHook != nil {
		curm := []evalMulti{{st: st}}
		for _, a := range x.Args {
			var next []evalMulti
			for _, c := range curm {
				for _, r := range in.eval(a, c.st) {
					next = append(next, evalMulti{st: r.st, vs: append(append([]Val{}, c.vs...), r.v)})
				}
			}
			curm = next
		}
		for _, c := range curm {
			in.appendHook(c.st, x, c.vs)
			out = append(out, evalRes{c.st, vTop})
		}
		return out
	}
	cur := []*State{st}
	for _, a := range x.Args {
		var next []*State
		for _, c := range cur {
			if tv, ok := in.info.Types[a]; ok && tv.IsType() {
				next = append(next, c)
				continue
			}
			for _, r := range in.eval(a, c) {
				next = append(next, r.st)
			}
		}
		cur = next
	}
	for _, c := range cur {
		v := vTop
		if name == "make" || name == "new" {
			v = Val{K: kNonNil}
		}
		out = append(out, evalRes{c, v})
	}
	return out
}

func (in *Interp) isBufExpr(e ast.Expr) bool {
	id, ok := e.(*ast.Ident)
	return ok && in.bufVar != nil && in.info.Uses[id] == in.bufVar
}

// applyCall models a call after its operands were evaluated.
func (in *Interp) applyCall(x *ast.CallExpr, callee *types.Func, recvExpr ast.Expr, st *State, recv Val, args []Val) []evalRes {
	// token handler events (public TokenHandler method names)
	if callee != nil && recvExpr != nil && in.handler != nil {
		if rt := in.info.TypeOf(recvExpr); rt != nil && types.Identical(rt, in.handler) {
			ev := Event{Name: callee.Name()}
			if len(args) == 1 {
				if b, ok := args[0].isBool(); ok {
					if b {
						ev.Arg = "true"
					} else {
						ev.Arg = "false"
					}
				}
			}
			st.events = append(st.events, ev)
			return []evalRes{{st, vTop}}
		}
	}
	if callee == nil {
		// call through a function value (callback): assumed not to touch the machine
		if in.selfEvents {
			for _, a := range x.Args {
				if in.isBuildElem(a, st) {
					st.events = append(st.events, Event{Name: "OUT", Arg: "call"})
					break
				}
			}
		}
		return []evalRes{{st, vTop}}
	}
	if h := in.hook; h != nil && callee == h.m.workFn {
		h.onCall(st, args)
		// afterwards the machine's fields hold whatever the dispatch function left
		for f := range in.tracked {
			st.fields[f] = Val{K: kTop, S: "carried"}
		}
		for f := range in.stackFld {
			st.stacks[f] = absStack{Unknown: true, Top: Val{K: kTop, S: "carried"}}
		}
		return []evalRes{{st, vTop}}
	}
	// same-receiver method: inline
	if fd, ok := in.methods[callee]; ok && recv.K == kRecv {
		if in.addLike[callee] && len(x.Args) >= 1 {
			st.events = append(st.events, Event{Name: "VAL", Arg: in.valueKind(x.Args[0], args[0])})
		}
		res := in.inline(fd, callee, st, recv, args, x)
		// error constructors declared on the receiver itself: record the cursor argument
		sig := callee.Type().(*types.Signature)
		if sig.Results().Len() == 1 && isErrorType(sig.Results().At(0).Type()) {
			for i := range res {
				if res[i].v.K != kNonNil {
					continue
				}
				for j, a := range args {
					if j < sig.Params().Len() {
						if b, ok := sig.Params().At(j).Type().Underlying().(*types.Basic); ok && b.Kind() == types.Int {
							av := a
							res[i].st.errArg = &av
							res[i].st.errPos = in.prog.Pos(x.Pos())
							break
						}
					}
				}
			}
		}
		return res
	}
	// other module function: small summaries
	res := callee.Type().(*types.Signature).Results()
	if res.Len() == 1 && isErrorType(res.At(0).Type()) {
		// error constructors: record the cursor argument
		if in.alwaysNonNilError(callee) {
			for i, a := range args {
				sig := callee.Type().(*types.Signature)
				if i < sig.Params().Len() {
					if b, ok := sig.Params().At(i).Type().Underlying().(*types.Basic); ok && b.Kind() == types.Int {
						av := a
						st.errArg = &av
						st.errPos = in.prog.Pos(x.Pos())
						break
					}
				}
			}
			return []evalRes{{st, Val{K: kNonNil}}}
		}
	}
	if in.mirror && in.mirrorFns[callee] && len(x.Args) == 1 && in.isDispatchedByte(x.Args[0], st) {
		st.mirrored = true
	}
	if in.mirror && in.digitFns[callee] && len(x.Args) == 1 && in.isDispatchedByte(x.Args[0], st) {
		st.digitUse = true
	}
	if callee.Name() == "AsNum" || callee.Name() == "AsNode" {
		return []evalRes{{st, Val{K: kTop, S: "number"}}}
	}
	return []evalRes{{st, vTop}}
}

func isErrorType(t types.Type) bool {
	n, ok := t.(*types.Named)
	return ok && n.Obj().Pkg() == nil && n.Obj().Name() == "error"
}

// alwaysNonNilError: every return statement of fn returns &T{...}, a call to
// fmt.Errorf / errors.New, or a local that is only ever assigned such values.
func (in *Interp) alwaysNonNilError(fn *types.Func) bool {
	if v, ok := in.nonNilCache[fn]; ok {
		return v
	}
	v := in.alwaysNonNilError0(fn)
	if in.nonNilCache == nil {
		in.nonNilCache = map[*types.Func]bool{}
	}
	in.nonNilCache[fn] = v
	return v
}

func (in *Interp) alwaysNonNilError0(fn *types.Func) bool {
	fd, pk := in.prog.FuncDecl(fn)
	if fd == nil || fd.Body == nil {
		full := fn.FullName()
		return full == "fmt.Errorf" || full == "errors.New"
	}
	info := pk.TypesInfo
	nonNilExpr := func(e ast.Expr) bool {
		switch v := e.(type) {
		case *ast.UnaryExpr:
			if v.Op == token.AND {
				_, ok := v.X.(*ast.CompositeLit)
				return ok
			}
		case *ast.CallExpr:
			if sel, ok := v.Fun.(*ast.SelectorExpr); ok {
				if f, ok := info.Uses[sel.Sel].(*types.Func); ok {
					full := f.FullName()
					return full == "fmt.Errorf" || full == "errors.New"
				}
			}
		}
		return false
	}
	ok := true
	found := false
	ast.Inspect(fd.Body, func(n ast.Node) bool {
		if _, isLit := n.(*ast.FuncLit); isLit {
			return false
		}
		ret, isRet := n.(*ast.ReturnStmt)
		if !isRet {
			return true
		}
		found = true
		if len(ret.Results) != 1 {
			ok = false
			return true
		}
		if nonNilExpr(ret.Results[0]) {
			return true
		}
		if id, isId := ret.Results[0].(*ast.Ident); isId {
			obj := info.Uses[id]
			good := true
			assigned := false
			ast.Inspect(fd.Body, func(m ast.Node) bool {
				as, isAs := m.(*ast.AssignStmt)
				if !isAs {
					return true
				}
				for i, l := range as.Lhs {
					if lid, isL := l.(*ast.Ident); isL && (info.Defs[lid] == obj || info.Uses[lid] == obj) {
						assigned = true
						if i >= len(as.Rhs) || !nonNilExpr(as.Rhs[i]) {
							good = false
						}
					}
				}
				return true
			})
			if good && assigned {
				return true
			}
		}
		ok = false
		return true
	})
	return ok && found
}

// valueKind classifies the value handed to the add-like method.
func (in *Interp) valueKind(arg ast.Expr, v Val) string {
	if v.K == kNil {
		return "null"
	}
	if b, ok := v.isBool(); ok {
		if b {
			return "true"
		}
		return "false"
	}
	if v.K == kTop && v.S == "number" {
		return "number"
	}
	// gen package singletons True / False (exported API names)
	if id, ok := ast.Unparen(arg).(*ast.Ident); ok {
		if v, ok := in.info.Uses[id].(*types.Var); ok && v.Pkg() != nil && strings.HasSuffix(v.Pkg().Path(), "/gen") && v.Parent() == v.Pkg().Scope() {
			switch id.Name {
			case "True":
				return "true"
			case "False":
				return "false"
			}
		}
	}
	t := in.info.TypeOf(arg)
	if t != nil {
		if b, ok := t.Underlying().(*types.Basic); ok && b.Info()&types.IsString != 0 {
			return "string"
		}
		if n, ok := t.(*types.Named); ok && n.Obj().Pkg() != nil && strings.HasSuffix(n.Obj().Pkg().Path(), "/gen") {
			switch n.Obj().Name() {
			case "String":
				return "string"
			case "Bool":
				return "bool"
			}
		}
	}
	return "node"
}

func (in *Interp) inline(fd *ast.FuncDecl, callee *types.Func, st *State, recv Val, args []Val, call *ast.CallExpr) []evalRes {
	if st.depth >= in.maxDepth {
		in.undecide(call.Pos(), "call depth exceeded inlining %s", callee.Name())
		return nil
	}
	n := st
	saved := n.locals
	n.locals = map[any]Val{}
	n.depth++
	if fd.Recv != nil && len(fd.Recv.List) == 1 && len(fd.Recv.List[0].Names) == 1 {
		n.locals[in.info.Defs[fd.Recv.List[0].Names[0]]] = recv
	}
	sig := callee.Type().(*types.Signature)
	ai := 0
	for _, fl := range fd.Type.Params.List {
		for _, name := range fl.Names {
			obj := in.info.Defs[name]
			if sig.Variadic() && ai == sig.Params().Len()-1 {
				n.locals[obj] = vTop
			} else if ai < len(args) {
				n.locals[obj] = args[ai]
			} else {
				n.locals[obj] = vTop
			}
			ai++
		}
	}
	var named []types.Object
	if fd.Type.Results != nil {
		for _, fl := range fd.Type.Results.List {
			for _, name := range fl.Names {
				obj := in.info.Defs[name]
				n.locals[obj] = zeroVal(obj.Type())
				named = append(named, obj)
			}
		}
	}
	var out []evalRes
	for _, e := range in.execList(fd.Body.List, n) {
		var v Val = vTop
		switch e.ctl {
		case cReturn, cFall:
			if len(e.ret) >= 1 {
				v = e.ret[0]
			} else if len(named) >= 1 {
				v = e.st.locals[named[0]]
			}
		case cPanic:
			v = panicVal()
		default:
			in.undecide(call.Pos(), "stray control flow out of %s", callee.Name())
			continue
		}
		e.st.locals = cloneLocals(saved)
		e.st.depth--
		out = append(out, evalRes{e.st, v})
	}
	return out
}

func cloneLocals(m map[any]Val) map[any]Val {
	n := make(map[any]Val, len(m))
	for k, v := range m {
		n[k] = v
	}
	return n
}

// isMapIndex: x indexes a map (a negative key is not an error there).
func (in *Interp) isMapIndex(x *ast.IndexExpr) bool {
	if tv, ok := in.info.Types[x.X]; ok && tv.Type != nil {
		_, isMap := tv.Type.Underlying().(*types.Map)
		return isMap
	}
	return true // unknown type: do not claim a panic
}
