package main

import (
	"fmt"
	"go/ast"
	"go/constant"
	"go/token"
	"math/rand"
	"os"
	"sort"
	"strconv"
	"sync"
)

// Thorough tier of the Engine A properties: an armed-ness sweep. Single-cell
// mutants of the mode tables are generated in memory (packages.Config.Overlay;
// nothing is written or run), the affected front-ends are re-extracted and
// re-explored, and the evidence records how many mutants the rules kill. This
// is evidence about the checker's sensitivity; the verdict on the real tree
// already covers all inputs.

type tableCell struct {
	rel   string
	file  string
	table string
	b     int
	off   int // byte offset of the cell in the file
	old   byte
}

// tableCells lists the cells of every 256/257-byte table constant of a package
// whose rows are plain string literals (no escapes).
func tableCells(prog *Program, rel string) []tableCell {
	pk := prog.Pkg(rel)
	if pk == nil {
		return nil
	}
	var out []tableCell
	for _, f := range pk.Syntax {
		fname := prog.Fset.Position(f.Pos()).Filename
		for _, d := range f.Decls {
			gd, ok := d.(*ast.GenDecl)
			if !ok || gd.Tok != token.CONST {
				continue
			}
			for _, sp := range gd.Specs {
				vs := sp.(*ast.ValueSpec)
				for i, name := range vs.Names {
					if i >= len(vs.Values) {
						continue
					}
					tv := pk.TypesInfo.Types[vs.Values[i]]
					if tv.Value == nil || tv.Value.Kind() != constant.String {
						continue
					}
					val := constant.StringVal(tv.Value)
					if len(val) != 256 && len(val) != 257 {
						continue
					}
					// collect the literals in order
					var lits []*ast.BasicLit
					ast.Inspect(vs.Values[i], func(n ast.Node) bool {
						if bl, ok := n.(*ast.BasicLit); ok && bl.Kind == token.STRING {
							lits = append(lits, bl)
						}
						return true
					})
					pos := 0
					for _, bl := range lits {
						s, err := strconv.Unquote(bl.Value)
						if err != nil {
							pos = -1
							break
						}
						plain := len(bl.Value) == len(s)+2
						for j := 0; j < len(s); j++ {
							if plain && pos+j < 256 {
								out = append(out, tableCell{rel: rel, file: fname, table: name.Name, b: pos + j, off: prog.Fset.Position(bl.Pos()).Offset + 1 + j, old: s[j]})
							}
						}
						pos += len(s)
					}
				}
			}
		}
	}
	return out
}

type sweepResult struct {
	Mutants   int      `json:"mutants"`
	Killed    int      `json:"killed"`
	Survivors []string `json:"survivors"`
	Errors    []string `json:"errors,omitempty"`
}

func mutationSweep(prog *Program, rep *Report, kinds map[string]bool, n int) {
	seed := rep.Seed
	if seed == 0 {
		seed = 1
	}
	rng := rand.New(rand.NewSource(seed))
	type cand struct {
		cell tableCell
		code byte
	}
	var cands []cand
	for _, rel := range []string{"oj", "gen"} {
		cells := tableCells(prog, rel)
		codes := map[byte]bool{}
		for _, c := range cells {
			codes[c.old] = true
		}
		var cl []byte
		for c := range codes {
			cl = append(cl, c)
		}
		sort.Slice(cl, func(i, j int) bool { return cl[i] < cl[j] })
		for _, c := range cells {
			for _, code := range cl {
				if code != c.old {
					cands = append(cands, cand{c, code})
				}
			}
		}
	}
	if len(cands) == 0 {
		rep.Errorf("mutation sweep: no table cells found")
		return
	}
	rng.Shuffle(len(cands), func(i, j int) { cands[i], cands[j] = cands[j], cands[i] })
	if n > len(cands) {
		n = len(cands)
	}
	res := sweepResult{}
	var mu sync.Mutex
	var wg sync.WaitGroup
	sem := make(chan struct{}, 4)
	for _, c := range cands[:n] {
		wg.Add(1)
		sem <- struct{}{}
		go func(c cand) {
			defer wg.Done()
			defer func() { <-sem }()
			src, err := os.ReadFile(c.cell.file)
			if err != nil {
				mu.Lock()
				res.Errors = append(res.Errors, err.Error())
				mu.Unlock()
				return
			}
			mut := append([]byte{}, src...)
			mut[c.cell.off] = c.code
			name := fmt.Sprintf("%s.%s[%s]:%q->%q", c.cell.rel, c.cell.table, byteName(c.cell.b), c.cell.old, c.code)
			p2, err := LoadProgramLight(prog.Repo, map[string][]byte{c.cell.file: mut})
			if err != nil {
				mu.Lock()
				res.Errors = append(res.Errors, name+": "+err.Error())
				mu.Unlock()
				return
			}
			var specs []feSpec
			for _, s := range jsonFrontEnds {
				if s.rel == c.cell.rel {
					specs = append(specs, s)
				}
			}
			killed := false
			for _, s := range specs {
				for _, multi := range []bool{false, true} {
					r := exploreOne(p2, s, multi, 4, false)
					if r.err != nil || len(r.undec) > 0 {
						killed = true // fail closed counts as noticed
					}
					for _, d := range r.dis {
						if kinds[d.Kind] {
							killed = true
						}
					}
					if killed {
						break
					}
				}
				if killed {
					break
				}
			}
			mu.Lock()
			res.Mutants++
			if killed {
				res.Killed++
			} else {
				res.Survivors = append(res.Survivors, name)
			}
			mu.Unlock()
		}(c)
	}
	wg.Wait()
	sort.Strings(res.Survivors)
	rep.Extra["mutation_sweep"] = res
	rep.Explain(fmt.Sprintf("Thorough tier: %d single-cell mode-table mutants (seed %d) were generated in memory and re-analysed; %d were reported by this property's Engine A rules, %d survived (listed in coverage.mutation_sweep.survivors; survivors are cells no input can reach or changes between codes with the same effect).", res.Mutants, seed, res.Killed, len(res.Survivors)))
	rep.Eval(res.Mutants)
}
