package main

import (
	"fmt"
	"go/ast"
	"go/types"
	"regexp"
	"sort"
	"strings"
)

// A-armtwins: oj.Parser.parseBuffer and gen.Parser.parseBuffer are copies of one
// dispatch loop (one builds simple values, the other gen nodes). Engine A decides
// their control state; what it keeps abstract (counters, cursors into recycled
// maps, depth bookkeeping, lengths compared before a fast path) is compared here
// arm by arm: the integer assignments, integer tests, loop headers and labelled
// branches of the arm for one action code must be the same in both copies.
func ruleArmTwins(prog *Program, rep *Report, a, b feSpec, floor int) {
	rep.Rules = append(rep.Rules, fmt.Sprintf("A-armtwins: the dispatch arms of %s.%s and %s.%s for the same action code have the same integer fingerprint (integer assignments and tests, loop headers, labelled branches; receiver name normalised): bookkeeping Engine A keeps abstract is done alike in both copies", a.rel, a.typ, b.rel, b.typ))
	arms := func(spec feSpec) (map[string]*ast.CaseClause, string, *ast.FuncDecl) {
		pk := prog.Pkg(spec.rel)
		if pk == nil {
			return nil, "", nil
		}
		named, _ := pk.Types.Scope().Lookup(spec.typ).Type().(*types.Named)
		if named == nil {
			return nil, "", nil
		}
		_, workFn, _, _, _ := findWork(prog, pk, named)
		if workFn == nil {
			return nil, "", nil
		}
		fd, _ := prog.FuncDecl(workFn)
		if fd == nil {
			return nil, "", nil
		}
		recv := ""
		if fd.Recv != nil && len(fd.Recv.List[0].Names) == 1 {
			recv = fd.Recv.List[0].Names[0].Name
		}
		// the dispatch switch: the switch statement with the most clauses
		var best *ast.SwitchStmt
		ast.Inspect(fd.Body, func(n ast.Node) bool {
			if sw, ok := n.(*ast.SwitchStmt); ok && (best == nil || len(sw.Body.List) > len(best.Body.List)) {
				best = sw
			}
			return true
		})
		out := map[string]*ast.CaseClause{}
		if best != nil {
			for _, cl := range best.Body.List {
				cc := cl.(*ast.CaseClause)
				for _, e := range cc.List {
					out[types.ExprString(e)] = cc
				}
			}
		}
		return out, recv, fd
	}
	aa, ra, fa := arms(a)
	ba, rb, fb := arms(b)
	if fa == nil || fb == nil || len(aa) < 10 || len(ba) < 10 {
		rep.Errorf("A-armtwins: dispatch arms of %s.%s / %s.%s not found", a.rel, a.typ, b.rel, b.typ)
		return
	}
	var labels []string
	for l := range aa {
		if ba[l] != nil {
			labels = append(labels, l)
		}
	}
	sort.Strings(labels)
	norm := func(lines []string, recv string) []string {
		var out []string
		re := regexp.MustCompile(`\b` + regexp.QuoteMeta(recv) + `\.`)
		for _, l := range lines {
			out = append(out, re.ReplaceAllString(l, "R."))
		}
		return out
	}
	compared := 0
	for _, l := range labels {
		compared++
		fpa := norm(arithFingerprint(prog, prog.Pkg(a.rel), aa[l], ""), ra)
		fpb := norm(arithFingerprint(prog, prog.Pkg(b.rel), ba[l], ""), rb)
		key := fmt.Sprintf("%s.%s=%s.%s:%s", a.rel, a.typ, b.rel, b.typ, l)
		if strings.Join(fpa, "\n") == strings.Join(fpb, "\n") {
			rep.Discharge("A-armtwins", key, prog.Pos(aa[l].Pos()), fmt.Sprintf("%d fingerprint lines equal", len(fpa)))
			continue
		}
		onlyA, onlyB := diffLines(fpa, fpb)
		if acc, ok := armTwinAccepted[key]; ok && strings.Join(onlyA, " | ") == acc[0] && strings.Join(onlyB, " | ") == acc[1] {
			rep.Discharge("A-armtwins", key, prog.Pos(aa[l].Pos()), "accepted difference (read): "+acc[2])
			continue
		}
		rep.Violate(Finding{Rule: "A-armtwins", Key: key, Pos: prog.Pos(ba[l].Pos()), Msg: fmt.Sprintf("the arm for %s differs between %s.%s and %s.%s: only in %s [%s]; only in %s [%s]", l, a.rel, a.typ, b.rel, b.typ, a.rel, strings.Join(onlyA, " | "), b.rel, strings.Join(onlyB, " | "))})
	}
	rep.Eval(compared)
	if compared < floor {
		rep.Errorf("A-armtwins compared %d arms (floor %d)", compared, floor)
	}
}

// armTwinAccepted: differences confirmed by reading; key -> {only in a, only in b, reason}.
var armTwinAccepted = map[string][3]string{
	"sen.Parser=sen.Tokenizer:closeArray": {"LEN := len(R.stack) - start", "", "as for oj: the tokenizer has no build stack"},
	"sen.Parser=sen.Tokenizer:openArray":  {"push len(R.stack)", "", "as for oj: the tokenizer keeps a byte marker per container"},
	"oj.Parser=oj.Tokenizer:closeArray":   {"LEN := len(R.stack) - start", "", "the tokenizer builds no values: there is no build stack to cut the array's elements from"},
	"oj.Parser=oj.Tokenizer:openArray":    {"push len(R.stack)", "", "the parser remembers where the array's elements start on its build stack; the tokenizer keeps a byte marker per container"},
	"oj.Parser=oj.Tokenizer:numComma":     {"if 0 < len(R.starts)", "if len(R.starts) == 0", "the same test from the other side (see oj.Parser=gen.Parser:numComma)"},
	"oj.Parser=gen.Parser:numComma":       {"if 0 < len(R.starts)", "if len(R.starts) == 0", "the same test written from the other side: oj adds the number and then rejects a comma outside a container in the else branch, gen rejects it first (the order was changed by the fix for the top-level comma); Engine A follows both"},
	"oj.Parser=oj.Tokenizer:openObject":   {"R.mi++", "", "the tokenizer builds no maps, so it has no cursor into recycled maps (Reuse option) to advance"},
	"sen.Parser=sen.Tokenizer:openObject": {"R.mi++", "", "as for oj: the tokenizer builds no maps"},
	"sen.Parser=sen.Tokenizer:tokenStart": {"if b == '(' | push len(R.stack)", "", "sen.Tokenizer has no arms for the parenthesised forms at all (known findings of A-noarm)"},
}

// ruleArmTwinsAll: the pairs whose arms read alike on the pinned tree. oj.Validator builds no values and differs in
// seven arms by design; it is compared by Engine A only.
func ruleArmTwinsAll(prog *Program, rep *Report, withSen bool) {
	ruleArmTwins(prog, rep, jsonFrontEnds[0], jsonFrontEnds[3], 30)
	ruleArmTwins(prog, rep, jsonFrontEnds[0], jsonFrontEnds[2], 30)
	if withSen {
		ruleArmTwins(prog, rep, senFrontEnds[0], senFrontEnds[1], 30)
	}
}
