package main

import (
	"fmt"
	"go/ast"
	"go/constant"
	"go/token"
	"go/types"
	"sort"
	"strings"

	"golang.org/x/tools/go/packages"
)

func init() { rules["C15"] = ruleC15 }

func ruleC15(prog *Program, rep *Report) {
	rep.Explain("C15 decides structural clauses of 'all encoders agree': (1) per-field decisions do not leak between fields - no variable that outlives one iteration of a struct-field loop (parameters in particular) is assigned inside it, except the loop variable and accumulators; (2) the nine field-plan builders (oj, sen, alt x tag, exact, lower) agree on which plan fields they patch when promoting the fields of an embedded struct (by value: index and offset; by pointer: index and the reflective append function); (3) every float formatting call uses the bit size of the value's type; (4) the two struct-plan caches are filled in mutually exclusive branches; (5) cache access under the lock (C08 D-global). Not covered: the encoded tree, encoding/json parity, nil pointer handling.")
	ruleFieldLoop(prog, rep)
	ruleEmbedParity(prog, rep)
	ruleFloatBits(prog, rep, "!jp") // the encoders; jp's script printing belongs to C14
	ruleCacheExclusive(prog, rep)
	// a reused (pooled) writer that keeps the previous call's stream writes part of the text elsewhere:
	// sen.String and oj.JSON then disagree with the other encoders
	ruleEntryParity(prog, rep, "oj.Writer", "sen.Writer")
	ruleUnguardedElem(prog, rep, "oj", "sen", "alt", "pretty")
	ruleBytesAs(prog, rep)
	ruleUnsafeKind(prog, rep)
	ruleEmbeddedNil(prog, rep)
	ruleTableShape(prog, rep, "oj", "sen", "alt")
	ruleDispatchArgs(prog, rep, "oj", "sen", "alt")
	ruleCacheRead(prog, rep)
	ruleClassEndpoints(prog, rep, "alt", "oj", "sen") // the exported-field test on the first letter of a field name
	ruleTightAppendTwins(prog, rep, "oj", "sen")
	ruleFullRange(prog, rep, 6, "oj", "sen", "alt", "pretty")
	ruleNumFamily(prog, rep, 4, "oj", "sen", "alt", "pretty", "")
	ruleFlagConsist(prog, rep, 5, "oj", "sen")
	ruleCallOrder(prog, rep, 2, "alt")
	ruleSelfRec(prog, rep, 6, "oj", "sen", "alt") // the field-plan builders for the three key cases are copies: each recurses into itself for embedded structs
	rulePkgTwins(prog, rep, "oj", "sen", 40)      // sen's writer, field plans and accessors are copies of oj's
}

// fieldLoops finds `for` loops whose init or condition calls NumField().
func fieldLoops(pk *packages.Package, fd *ast.FuncDecl) []*ast.ForStmt {
	var out []*ast.ForStmt
	ast.Inspect(fd.Body, func(n ast.Node) bool {
		fs, ok := n.(*ast.ForStmt)
		if !ok {
			return true
		}
		has := false
		for _, part := range []ast.Node{fs.Init, fs.Cond} {
			if part == nil {
				continue
			}
			ast.Inspect(part, func(k ast.Node) bool {
				if sel, ok := k.(*ast.SelectorExpr); ok && sel.Sel.Name == "NumField" {
					has = true
				}
				return true
			})
		}
		if has {
			out = append(out, fs)
		}
		return true
	})
	return out
}

func ruleFieldLoop(prog *Program, rep *Report) {
	rep.Rules = append(rep.Rules, "K-loop: in every loop over the fields of a struct type (for ... NumField() ...), no variable declared outside the loop is assigned in the body except the loop variable itself and accumulators (x = append(x, ...), or named results): a decision taken for one field would otherwise hold for all fields visited later")
	loops := 0
	for _, rel := range []string{"oj", "sen", "alt", "pretty"} {
		pk := prog.Pkg(rel)
		if pk == nil {
			continue
		}
		info := pk.TypesInfo
		for _, f := range pk.Syntax {
			for _, d := range f.Decls {
				fd, ok := d.(*ast.FuncDecl)
				if !ok || fd.Body == nil {
					continue
				}
				for _, loop := range fieldLoops(pk, fd) {
					loops++
					key := fmt.Sprintf("%s.%s:field-loop", rel, funcKey(fd))
					loopVars := map[types.Object]bool{}
					for _, part := range []ast.Stmt{loop.Init, loop.Post} {
						if part == nil {
							continue
						}
						ast.Inspect(part, func(k ast.Node) bool {
							if id, ok := k.(*ast.Ident); ok {
								if o := info.Defs[id]; o != nil {
									loopVars[o] = true
								}
								if o := info.Uses[id]; o != nil {
									if _, isVar := o.(*types.Var); isVar {
										loopVars[o] = true
									}
								}
							}
							return true
						})
					}
					bad := false
					ast.Inspect(loop.Body, func(k ast.Node) bool {
						if _, isLit := k.(*ast.FuncLit); isLit {
							return false
						}
						var lhs []ast.Expr
						var rhs []ast.Expr
						switch x := k.(type) {
						case *ast.AssignStmt:
							if x.Tok == token.DEFINE {
								return true
							}
							lhs, rhs = x.Lhs, x.Rhs
						case *ast.IncDecStmt:
							lhs = []ast.Expr{x.X}
						default:
							return true
						}
						for i, l := range lhs {
							id, ok := l.(*ast.Ident)
							if !ok || id.Name == "_" {
								continue
							}
							o, _ := info.Uses[id].(*types.Var)
							if o == nil || loopVars[o] {
								continue
							}
							// declared inside the loop body?
							if loop.Body.Pos() <= o.Pos() && o.Pos() <= loop.Body.End() {
								continue
							}
							// accumulator: x = append(x, ...)
							if i < len(rhs) {
								if call, ok := rhs[i].(*ast.CallExpr); ok {
									if fid, ok := call.Fun.(*ast.Ident); ok && fid.Name == "append" && len(call.Args) > 0 && useObj(info, call.Args[0]) == types.Object(o) {
										continue
									}
								}
							}
							// named result assigned a fresh value is an accumulator-like output
							isParam := false
							if fd.Type.Params != nil {
								for _, fl := range fd.Type.Params.List {
									for _, n := range fl.Names {
										if info.Defs[n] == types.Object(o) {
											isParam = true
										}
									}
								}
							}
							what := "variable"
							if isParam {
								what = "parameter"
							}
							bad = true
							rep.Violate(Finding{Rule: "K-loop", Key: key + ":" + o.Name(), Pos: prog.Pos(l.Pos()),
								Msg: fmt.Sprintf("%s %s is assigned inside the loop over struct fields and keeps its value for the fields visited afterwards: a per-field setting (e.g. from a tag) leaks to other fields", what, o.Name())})
						}
						return true
					})
					if !bad {
						rep.Discharge("K-loop", key, prog.Pos(loop.Pos()), "only the loop variable and accumulators are carried between fields")
					}
				}
			}
		}
	}
	rep.Eval(loops)
	if loops < 9 {
		rep.Errorf("K-loop found %d struct-field loops (floor 9)", loops)
	}
}

// ruleEmbedParity: sibling feature vectors of the embedded-struct promotion loops.
func ruleEmbedParity(prog *Program, rep *Report) {
	rep.Rules = append(rep.Rules, "K-embed: every field-plan builder promotes the fields of an embedded struct with a loop over its own recursive result; the set of plan fields patched in that loop is the same in all builders for the by-value form (recursion on f.Type) and for the by-pointer form (recursion on f.Type.Elem()): a patch (index prefix, offset shift, reflective append) present in the siblings and missing in one copy is a violation")
	type site struct {
		key    string
		form   string // value | pointer
		fields string
		pos    token.Pos
	}
	var sites []site
	for _, rel := range []string{"oj", "sen", "alt"} {
		pk := prog.Pkg(rel)
		if pk == nil {
			continue
		}
		info := pk.TypesInfo
		for _, f := range pk.Syntax {
			for _, d := range f.Decls {
				fd, ok := d.(*ast.FuncDecl)
				if !ok || fd.Body == nil || len(fieldLoops(pk, fd)) == 0 {
					continue
				}
				self, _ := info.Defs[fd.Name].(*types.Func)
				ast.Inspect(fd.Body, func(n ast.Node) bool {
					rs, ok := n.(*ast.RangeStmt)
					if !ok || rs.Value == nil {
						return true
					}
					call, ok := rs.X.(*ast.CallExpr)
					if !ok || len(call.Args) == 0 {
						return true
					}
					if id, ok := call.Fun.(*ast.Ident); !ok || info.Uses[id] != types.Object(self) {
						return true
					}
					form := "value"
					if c0, ok := call.Args[0].(*ast.CallExpr); ok {
						if sel, ok := c0.Fun.(*ast.SelectorExpr); ok && sel.Sel.Name == "Elem" {
							form = "pointer"
						}
					}
					elem := info.Defs[rs.Value.(*ast.Ident)]
					set := map[string]bool{}
					ast.Inspect(rs.Body, func(k ast.Node) bool {
						as, ok := k.(*ast.AssignStmt)
						if !ok {
							return true
						}
						for li, l := range as.Lhs {
							if sel, ok := l.(*ast.SelectorExpr); ok && useObj(info, sel.X) == elem {
								// the field, the assignment operator and the shape of the value: `offset += f.Offset`
								// and `offset = f.Offset` are different patches
								rhs := ""
								if li < len(as.Rhs) {
									rhs = types.ExprString(as.Rhs[li])
								}
								set[sel.Sel.Name+" "+as.Tok.String()+" "+rhs] = true
							}
						}
						return true
					})
					var fl []string
					for k := range set {
						fl = append(fl, k)
					}
					sort.Strings(fl)
					sites = append(sites, site{key: fmt.Sprintf("%s.%s:%s", rel, funcKey(fd), form), form: rel + ":" + form, fields: strings.Join(fl, "; "), pos: rs.Pos()})
					return true
				})
			}
		}
	}
	if len(sites) < 12 {
		rep.Errorf("K-embed found %d promotion loops (floor 12)", len(sites))
		return
	}
	for _, form := range []string{"oj:value", "oj:pointer", "sen:value", "sen:pointer", "alt:value", "alt:pointer"} {
		count := map[string]int{}
		for _, s := range sites {
			if s.form == form {
				count[s.fields]++
			}
		}
		major, best := "", 0
		for k, c := range count {
			if c > best {
				major, best = k, c
			}
		}
		for _, s := range sites {
			if s.form != form {
				continue
			}
			if s.fields == major {
				rep.Discharge("K-embed", s.key, prog.Pos(s.pos), "patches {"+s.fields+"} like its siblings")
			} else {
				rep.Violate(Finding{Rule: "K-embed", Key: s.key, Pos: prog.Pos(s.pos), Msg: fmt.Sprintf("promotes embedded (%s) struct fields patching {%s} where its %d sibling builders of the same package patch {%s}: the promoted fields are read at the wrong place or through the wrong function", form, s.fields, best, major)})
			}
		}
	}
}

// ruleFloatBits: strconv float formatting must use the bit size of the value.
func ruleFloatBits(prog *Program, rep *Report, only ...string) {
	rep.Rules = append(rep.Rules, "K-floatbits: in every call of strconv.AppendFloat / FormatFloat of a library package, a value that is a conversion float64(x) of a float32 (directly or through a local assigned from a float32 expression) is formatted with bit size 32, and a float64 value with bit size 64")
	n := 0
	for _, pk := range prog.LibPkgs() {
		info := pk.TypesInfo
		rel := pk.Types.Name()
		if len(only) > 0 {
			in := false
			for _, o := range only {
				if o == rel || (strings.HasPrefix(o, "!") && o[1:] != rel) {
					in = true
				}
			}
			if !in {
				continue
			}
		}
		for _, f := range pk.Syntax {
			for _, d := range f.Decls {
				fd, ok := d.(*ast.FuncDecl)
				if !ok || fd.Body == nil {
					continue
				}
				idx := 0
				ast.Inspect(fd.Body, func(k ast.Node) bool {
					call, ok := k.(*ast.CallExpr)
					if !ok {
						return true
					}
					sel, ok := call.Fun.(*ast.SelectorExpr)
					if !ok {
						return true
					}
					fn, ok := info.Uses[sel.Sel].(*types.Func)
					if !ok || fn.Pkg() == nil || fn.Pkg().Path() != "strconv" {
						return true
					}
					var val, bits ast.Expr
					switch fn.Name() {
					case "AppendFloat":
						if len(call.Args) == 5 {
							val, bits = call.Args[1], call.Args[4]
						}
					case "FormatFloat":
						if len(call.Args) == 4 {
							val, bits = call.Args[0], call.Args[3]
						}
					}
					if val == nil {
						return true
					}
					bv := info.Types[bits].Value
					if bv == nil {
						return true // computed bit size
					}
					b, _ := constant.Int64Val(bv)
					// is the value a widened float32?
					from32 := false
					if c, ok := ast.Unparen(val).(*ast.CallExpr); ok && len(c.Args) == 1 {
						if tv, ok := info.Types[c.Fun]; ok && tv.IsType() {
							if at := info.TypeOf(c.Args[0]); at != nil {
								if bt, ok := at.Underlying().(*types.Basic); ok && bt.Kind() == types.Float32 {
									from32 = true
								}
							}
						}
					}
					n++
					idx++
					key := fmt.Sprintf("%s.%s:float#%d", rel, funcKey(fd), idx)
					switch {
					case from32 && b != 32:
						rep.Violate(Finding{Rule: "K-floatbits", Key: key, Pos: prog.Pos(call.Pos()), Msg: fmt.Sprintf("a float32 value is formatted with bit size %d: float32(0.1) is written as 0.10000000149011612 instead of 0.1, unlike the sibling encoders", b)})
					case !from32 && b != 64:
						rep.Violate(Finding{Rule: "K-floatbits", Key: key, Pos: prog.Pos(call.Pos()), Msg: fmt.Sprintf("a float64 value is formatted with bit size %d: digits beyond float32 precision are lost", b)})
					default:
						rep.Discharge("K-floatbits", key, prog.Pos(call.Pos()), fmt.Sprintf("bit size %d matches the value's type", b))
					}
					return true
				})
			}
		}
	}
	rep.Eval(n)
	floor := 30
	if len(only) == 1 && !strings.HasPrefix(only[0], "!") {
		floor = 2 // a single package (jp: the two appendValue twins)
	}
	if n < floor {
		rep.Errorf("K-floatbits found %d float formatting calls (floor %d)", n, floor)
	}
}

// ruleCacheExclusive: a function that stores the same key/value in two
// package-level maps must do so in mutually exclusive branches.
func ruleCacheExclusive(prog *Program, rep *Report) {
	rep.Rules = append(rep.Rules, "K-cache: where one function stores the same key in two different package-level maps (the plain and the omit-empty plan cache), the two stores are the two branches of one if/else: a plan built with one setting must never be registered under the other")
	n := 0
	for _, rel := range []string{"oj", "sen", "alt"} {
		pk := prog.Pkg(rel)
		if pk == nil {
			continue
		}
		info := pk.TypesInfo
		for _, f := range pk.Syntax {
			for _, d := range f.Decls {
				fd, ok := d.(*ast.FuncDecl)
				if !ok || fd.Body == nil {
					continue
				}
				type store struct {
					m   types.Object
					key string
					n   *ast.AssignStmt
				}
				var stores []store
				ast.Inspect(fd.Body, func(k ast.Node) bool {
					as, ok := k.(*ast.AssignStmt)
					if !ok || len(as.Lhs) != 1 {
						return true
					}
					ix, ok := as.Lhs[0].(*ast.IndexExpr)
					if !ok {
						return true
					}
					mo := useObj(info, ix.X)
					if mo == nil || mo.Parent() != pk.Types.Scope() {
						return true
					}
					if _, isMap := mo.Type().Underlying().(*types.Map); !isMap {
						return true
					}
					stores = append(stores, store{mo, types.ExprString(ix.Index), as})
					return true
				})
				for i := 0; i < len(stores); i++ {
					for j := i + 1; j < len(stores); j++ {
						a, b := stores[i], stores[j]
						if a.m == b.m || a.key != b.key {
							continue
						}
						n++
						key := fmt.Sprintf("%s.%s:%s/%s", rel, funcKey(fd), a.m.Name(), b.m.Name())
						if exclusiveBranches(fd.Body, a.n, b.n) {
							rep.Discharge("K-cache", key, prog.Pos(a.n.Pos()), "stores are the two branches of one if/else")
						} else {
							rep.Violate(Finding{Rule: "K-cache", Key: key, Pos: prog.Pos(b.n.Pos()), Msg: fmt.Sprintf("the same plan is stored in both %s and %s on one path: a plan built for one option setting is later used for the other (the outcome depends on which encoding of the type came first)", a.m.Name(), b.m.Name())})
						}
					}
				}
			}
		}
	}
	if n < 3 {
		rep.Errorf("K-cache found %d double-cache functions (floor 3)", n)
	}
}

// exclusiveBranches: a is in the then-branch and b in the else-branch (or vice
// versa) of the same if statement.
func exclusiveBranches(root ast.Node, a, b ast.Node) bool {
	res := false
	ast.Inspect(root, func(n ast.Node) bool {
		is, ok := n.(*ast.IfStmt)
		if !ok || is.Else == nil {
			return true
		}
		inThenA, inThenB := nodeWithin(is.Body, a), nodeWithin(is.Body, b)
		inElseA, inElseB := nodeWithin(is.Else, a), nodeWithin(is.Else, b)
		if (inThenA && inElseB) || (inThenB && inElseA) {
			res = true
		}
		return true
	})
	return res
}

// ruleCacheRead: K-cacheread. The plan caches come in pairs (plain / omit-empty) and the
// builder files a plan in the one its omitEmpty argument selects (K-cache). A lookup
// function that hands that same argument to the builder must read the cache the argument
// selects: a function that reads only one map of the pair and passes a boolean parameter
// on to a function that stores into both maps returns plans built under the other setting
// (and never finds the entry of a self-referential type, so the builder recurses).
func ruleCacheRead(prog *Program, rep *Report) {
	rep.Rules = append(rep.Rules, "K-cacheread: a function that reads one of a pair of package-level plan caches and calls, with one of its own boolean parameters, a function that stores into both caches of the pair also reads the other cache (selected by that parameter): lookups and the builder agree on which cache holds a plan")
	n := 0
	for _, rel := range []string{"oj", "sen", "alt"} {
		pk := prog.Pkg(rel)
		if pk == nil {
			continue
		}
		info := pk.TypesInfo
		isCache := func(o types.Object) bool {
			v, ok := o.(*types.Var)
			if !ok || v.Parent() != pk.Types.Scope() {
				return false
			}
			_, isMap := v.Type().Underlying().(*types.Map)
			return isMap
		}
		// maps each function stores into / reads from
		stores := map[types.Object]map[types.Object]bool{}
		reads := map[types.Object]map[types.Object]bool{}
		decls := map[types.Object]*ast.FuncDecl{}
		for _, f := range pk.Syntax {
			for _, d := range f.Decls {
				fd, ok := d.(*ast.FuncDecl)
				if !ok || fd.Body == nil {
					continue
				}
				fo := info.Defs[fd.Name]
				decls[fo] = fd
				stores[fo], reads[fo] = map[types.Object]bool{}, map[types.Object]bool{}
				lhs := map[ast.Node]bool{}
				ast.Inspect(fd.Body, func(k ast.Node) bool {
					if as, ok := k.(*ast.AssignStmt); ok {
						for _, l := range as.Lhs {
							if ix, ok := l.(*ast.IndexExpr); ok {
								if o := useObj(info, ix.X); o != nil && isCache(o) {
									stores[fo][o] = true
									lhs[ix.X] = true
								}
							}
						}
					}
					return true
				})
				ast.Inspect(fd.Body, func(k ast.Node) bool {
					if id, ok := k.(*ast.Ident); ok && !lhs[id] {
						if o := info.Uses[id]; o != nil && isCache(o) {
							reads[fo][o] = true
						}
					}
					return true
				})
			}
		}
		for fo, fd := range decls {
			if len(reads[fo]) == 0 || fd.Type.Params == nil {
				continue
			}
			boolParams := map[types.Object]bool{}
			for _, fl := range fd.Type.Params.List {
				for _, nm := range fl.Names {
					if o := info.Defs[nm]; o != nil {
						if b, ok := o.Type().Underlying().(*types.Basic); ok && b.Kind() == types.Bool {
							boolParams[o] = true
						}
					}
				}
			}
			ast.Inspect(fd.Body, func(k ast.Node) bool {
				call, ok := k.(*ast.CallExpr)
				if !ok {
					return true
				}
				var callee types.Object
				if id, ok := call.Fun.(*ast.Ident); ok {
					callee = info.Uses[id]
				}
				if callee == nil || len(stores[callee]) < 2 {
					return true
				}
				passes := false
				for _, a := range call.Args {
					if boolParams[useObj(info, a)] {
						passes = true
					}
				}
				if !passes {
					return true
				}
				n++
				var missing []string
				for m := range stores[callee] {
					if !reads[fo][m] {
						missing = append(missing, m.Name())
					}
				}
				sort.Strings(missing)
				key := fmt.Sprintf("%s.%s:reads-one-cache", rel, funcKey(fd))
				if len(missing) == 0 {
					rep.Discharge("K-cacheread", key, prog.Pos(fd.Pos()), "reads every cache "+callee.Name()+" stores into")
				} else {
					rep.Violate(Finding{Rule: "K-cacheread", Key: key, Pos: prog.Pos(call.Pos()), Msg: fmt.Sprintf("%s hands a boolean parameter to %s, which files the plan in one of two caches by it, but never reads %s: it returns a plan built under the other setting when one exists, and does not find the entry of a type that is being built (a self-referential type recurses without end)", funcKey(fd), callee.Name(), strings.Join(missing, ", "))})
				}
				return true
			})
		}
	}
	// a selector local (sm := structMap; if omitEmpty { sm = structEmptyMap }) must be able to hold two different caches
	for _, rel := range []string{"oj", "sen", "alt"} {
		pk := prog.Pkg(rel)
		if pk == nil {
			continue
		}
		info := pk.TypesInfo
		for _, f := range pk.Syntax {
			for _, d := range f.Decls {
				fd, ok := d.(*ast.FuncDecl)
				if !ok || fd.Body == nil {
					continue
				}
				assigned := map[types.Object]map[string]bool{}
				cond := map[types.Object]bool{}
				var walk func(n ast.Node, underIf bool)
				walk = func(n ast.Node, underIf bool) {
					ast.Inspect(n, func(k ast.Node) bool {
						switch x := k.(type) {
						case *ast.IfStmt:
							walk(x.Body, true)
							if x.Else != nil {
								walk(x.Else, true)
							}
							return false
						case *ast.AssignStmt:
							if len(x.Lhs) == 1 && len(x.Rhs) == 1 {
								if id, ok := x.Lhs[0].(*ast.Ident); ok {
									lo := info.Defs[id]
									if lo == nil {
										lo = info.Uses[id]
									}
									ro := useObj(info, x.Rhs[0])
									if lo != nil && ro != nil {
										if v, ok := ro.(*types.Var); ok && v.Parent() == pk.Types.Scope() {
											if _, isMap := v.Type().Underlying().(*types.Map); isMap {
												if assigned[lo] == nil {
													assigned[lo] = map[string]bool{}
												}
												assigned[lo][ro.Name()] = true
												if underIf {
													cond[lo] = true
												}
											}
										}
									}
								}
							}
						}
						return true
					})
				}
				walk(fd.Body, false)
				for lo, set := range assigned {
					if !cond[lo] {
						continue
					}
					n++
					key := fmt.Sprintf("%s.%s:selector:%s", rel, funcKey(fd), lo.Name())
					if len(set) >= 2 {
						rep.Discharge("K-cacheread", key, prog.Pos(fd.Pos()), "selects between two caches")
					} else {
						rep.Violate(Finding{Rule: "K-cacheread", Key: key, Pos: prog.Pos(fd.Pos()), Msg: fmt.Sprintf("%s re-assigns its cache selector %s under a condition, but to the same cache it already held: both settings read one cache while the builder files plans in two", funcKey(fd), lo.Name())})
					}
				}
			}
		}
	}
	rep.Eval(n)
	if n < 4 {
		rep.Errorf("K-cacheread examined %d lookup functions (floor 4): anchors did not resolve", n)
	}
}
