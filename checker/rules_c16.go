package main

import (
	"fmt"
	"go/ast"
	"go/constant"
	"go/token"
	"go/types"
)

func init() { rules["C16"] = ruleC16 }

func ruleC16(prog *Program, rep *Report) {
	rep.Explain("C16 decides the history-independence clause structurally: the recomposer registry is keyed by names derived from reflect.Type.Name(), which is not injective (same-named types, anonymous types), so every lookup under such a key must verify the composer's type against the target before its type-specific data is used, and nothing may be registered under an empty name; every loop over struct fields visits all indexes. Inverse-ness of Decompose/Recompose or Marshal/Unmarshal for any type is not decidable statically and is not claimed.")
	ruleLossyKey(prog, rep)
	ruleFieldLoopBounds(prog, rep, []string{"alt", "oj", "sen"})
	ruleFreshTarget(prog, rep)
	ruleFullRange(prog, rep, 6, "alt", "oj", "sen")
	ruleUnsafeKind(prog, rep)          // what Marshal writes for a field must be what Unmarshal can read back
	ruleMemoGuard(prog, rep, 1, "alt") // registration of a type that refers to itself ends
	ruleFallbackTwins(prog, rep, 1, "alt", "oj", "sen", "gen", "jp", "pretty", "asm", "")
	ruleNumFamily(prog, rep, 4, "alt") // a field of any integer width is recomposed like its siblings
	ruleFloatBits(prog, rep, "!jp")
	ruleAppendRetain(prog, rep, "alt")
	ruleEmbedParity(prog, rep) // Marshal reads promoted fields through the plan's offsets
	rulePreRegister(prog, rep) // a type registered lazily makes the result depend on what was recomposed before
	ruleParseFloatBits(prog, rep, "alt", "oj", "sen", "gen")
	ruleDispatchArgs(prog, rep, "alt")
	ruleTightAppendTwins(prog, rep, "oj")                    // Marshal writes the compact form: it must treat reflected kinds as the indented form does
	copySwitchArms(prog, rep, "alt", "Recomposer.recompAny") // a recomposed value shares no container with the decomposition it was made from
}

// derivedFromName: does e contain (or is it a local assigned from an expression
// containing) a call of the method Name on a reflect.Type?
func derivedFromName(info *types.Info, fd *ast.FuncDecl, e ast.Expr, depth int) bool {
	found := false
	ast.Inspect(e, func(n ast.Node) bool {
		switch x := n.(type) {
		case *ast.CallExpr:
			if sel, ok := x.Fun.(*ast.SelectorExpr); ok && sel.Sel.Name == "Name" {
				if t := info.TypeOf(sel.X); t != nil && isReflectType(t) {
					found = true
				}
			}
		case *ast.Ident:
			if depth > 2 {
				return true
			}
			o := info.Uses[x]
			if _, isVar := o.(*types.Var); !isVar {
				return true
			}
			// local assigned from a Name()-derived expression
			ast.Inspect(fd.Body, func(k ast.Node) bool {
				as, ok := k.(*ast.AssignStmt)
				if !ok {
					return true
				}
				for i, l := range as.Lhs {
					if i < len(as.Rhs) && (info.Defs[identOf(l)] == o || (identOf(l) != nil && info.Uses[identOf(l)] == o)) {
						if as.Rhs[i] != e && derivedFromName(info, fd, as.Rhs[i], depth+1) {
							found = true
						}
					}
				}
				return true
			})
		case *ast.SelectorExpr:
			// c.short / c.full: fields filled from Name() in a composite literal of the same function
			if depth > 2 {
				return true
			}
			ast.Inspect(fd.Body, func(k ast.Node) bool {
				kv, ok := k.(*ast.KeyValueExpr)
				if !ok {
					return true
				}
				if id, ok := kv.Key.(*ast.Ident); ok && id.Name == x.Sel.Name && derivedFromName(info, fd, kv.Value, depth+1) {
					found = true
				}
				return true
			})
		}
		return true
	})
	return found
}

// exactlyName: e is reflect.Type.Name() itself, or a local / composite-literal field holding exactly that
// (no concatenation: PkgPath()+"/"+Name() is never empty, so testing it says nothing about an anonymous type).
func exactlyName(info *types.Info, fd *ast.FuncDecl, e ast.Expr, depth int) bool {
	if depth > 3 {
		return false
	}
	switch x := ast.Unparen(e).(type) {
	case *ast.CallExpr:
		if sel, ok := x.Fun.(*ast.SelectorExpr); ok && sel.Sel.Name == "Name" && len(x.Args) == 0 {
			if t := info.TypeOf(sel.X); t != nil && isReflectType(t) {
				return true
			}
		}
	case *ast.Ident:
		o := info.Uses[x]
		if _, isVar := o.(*types.Var); !isVar {
			return false
		}
		all, seen := true, false
		ast.Inspect(fd.Body, func(k ast.Node) bool {
			as, ok := k.(*ast.AssignStmt)
			if !ok {
				return true
			}
			for i, l := range as.Lhs {
				if i < len(as.Rhs) && identOf(l) != nil && (info.Defs[identOf(l)] == o || info.Uses[identOf(l)] == o) {
					seen = true
					if !exactlyName(info, fd, as.Rhs[i], depth+1) {
						all = false
					}
				}
			}
			return true
		})
		return seen && all
	case *ast.SelectorExpr:
		all, seen := true, false
		ast.Inspect(fd.Body, func(k ast.Node) bool {
			kv, ok := k.(*ast.KeyValueExpr)
			if !ok {
				return true
			}
			if id, ok := kv.Key.(*ast.Ident); ok && id.Name == x.Sel.Name {
				seen = true
				if !exactlyName(info, fd, kv.Value, depth+1) {
					all = false
				}
			}
			return true
		})
		return seen && all
	}
	return false
}

func isReflectType(t types.Type) bool {
	n, ok := t.(*types.Named)
	return ok && n.Obj().Pkg() != nil && n.Obj().Pkg().Path() == "reflect" && n.Obj().Name() == "Type"
}

func ruleLossyKey(prog *Program, rep *Report) {
	rep.Rules = append(rep.Rules,
		"R-identity: in package alt, every lookup in a map[string]*T registry whose key derives from reflect.Type.Name() binds the result to a variable that is compared (== or !=) through a reflect.Type field with a reflect.Type value in the same function: a name is not a type",
		"R-empty: a function that stores into such a registry under a Name()-derived key tests the length of a value that is exactly Name() first - not of a concatenation such as PkgPath()+\"/\"+Name(), which is never empty (anonymous types must not be registered)")
	pk := prog.Pkg("alt")
	if pk == nil {
		rep.Errorf("package alt missing")
		return
	}
	info := pk.TypesInfo
	lookups, stores := 0, 0
	for _, f := range pk.Syntax {
		for _, d := range f.Decls {
			fd, ok := d.(*ast.FuncDecl)
			if !ok || fd.Body == nil {
				continue
			}
			isRegistry := func(e ast.Expr) bool {
				t := info.TypeOf(e)
				if t == nil {
					return false
				}
				m, ok := t.Underlying().(*types.Map)
				if !ok {
					return false
				}
				if b, ok := m.Key().Underlying().(*types.Basic); !ok || b.Info()&types.IsString == 0 {
					return false
				}
				_, isPtr := m.Elem().(*types.Pointer)
				_, isSel := e.(*ast.SelectorExpr)
				return isPtr && isSel
			}
			// identity comparisons in this function: var -> true
			compared := map[types.Object]bool{}
			ast.Inspect(fd.Body, func(n ast.Node) bool {
				be, ok := n.(*ast.BinaryExpr)
				if !ok || (be.Op != token.EQL && be.Op != token.NEQ) {
					return true
				}
				for _, side := range []ast.Expr{be.X, be.Y} {
					if sel, ok := side.(*ast.SelectorExpr); ok && isReflectType(info.TypeOf(sel)) {
						if o := useObj(info, sel.X); o != nil {
							other := be.Y
							if side == be.Y {
								other = be.X
							}
							if isReflectType(info.TypeOf(other)) {
								compared[o] = true
							}
						}
					}
				}
				return true
			})
			hasLenTest := false
			ast.Inspect(fd.Body, func(n ast.Node) bool {
				be, ok := n.(*ast.BinaryExpr)
				if !ok {
					return true
				}
				for _, side := range []ast.Expr{be.X, be.Y} {
					if c, ok := side.(*ast.CallExpr); ok && len(c.Args) == 1 {
						if id, ok := c.Fun.(*ast.Ident); ok && id.Name == "len" && exactlyName(info, fd, c.Args[0], 0) {
							hasLenTest = true
						}
					}
					if tv := info.Types[side].Value; tv != nil && tv.Kind() == constant.String && constant.StringVal(tv) == "" {
						hasLenTest = true
					}
				}
				return true
			})
			ast.Inspect(fd.Body, func(n ast.Node) bool {
				as, ok := n.(*ast.AssignStmt)
				if !ok {
					return true
				}
				// stores
				for _, l := range as.Lhs {
					if ix, ok := l.(*ast.IndexExpr); ok && isRegistry(ix.X) && derivedFromName(info, fd, ix.Index, 0) {
						stores++
						key := fmt.Sprintf("alt.%s:store[%s]", funcKey(fd), types.ExprString(ix.Index))
						if hasLenTest {
							rep.Discharge("R-empty", key, prog.Pos(ix.Pos()), "the function tests for an empty name")
						} else {
							rep.Violate(Finding{Rule: "R-empty", Key: key, Pos: prog.Pos(ix.Pos()), Msg: "a composer is stored under a key derived from reflect.Type.Name() with no test for an empty name: every anonymous struct type is registered under the same key and later types get the first one's composer"})
						}
					}
				}
				// lookups: v := reg[key] / v, ok := reg[key]
				if len(as.Rhs) == 1 {
					if ix, ok := as.Rhs[0].(*ast.IndexExpr); ok && isRegistry(ix.X) && derivedFromName(info, fd, ix.Index, 0) {
						lookups++
						v := info.Defs[identOf(as.Lhs[0])]
						if v == nil && identOf(as.Lhs[0]) != nil {
							v = info.Uses[identOf(as.Lhs[0])]
						}
						key := fmt.Sprintf("alt.%s:lookup[%s]", funcKey(fd), types.ExprString(ix.Index))
						if v != nil && compared[v] {
							rep.Discharge("R-identity", key, prog.Pos(ix.Pos()), "the composer's type is compared with the target type")
						} else {
							rep.Violate(Finding{Rule: "R-identity", Key: key, Pos: prog.Pos(ix.Pos()), Msg: "a composer found under a key derived from reflect.Type.Name() is used without comparing its type with the target: after another same-named or anonymous type was recomposed, this type gets that type's field plan (outcome depends on history)"})
						}
					}
				}
				return true
			})
		}
	}
	if lookups < 2 || stores < 2 {
		rep.Errorf("R-identity/R-empty found %d lookups and %d stores under Name()-derived keys (floor 2 each)", lookups, stores)
	}
}

// ruleFieldLoopBounds: loops over NumField() visit every index.
func ruleFieldLoopBounds(prog *Program, rep *Report, rels []string) {
	rep.Rules = append(rep.Rules, "K-bounds: a loop over struct fields starts at NumField()-1 and runs while 0 <= i (i >= 0) with i--, or starts at 0 and runs while i < NumField() with i++: no field index is skipped")
	n := 0
	for _, rel := range rels {
		pk := prog.Pkg(rel)
		if pk == nil {
			continue
		}
		info := pk.TypesInfo
		for _, f := range pk.Syntax {
			for _, d := range f.Decls {
				fd, ok := d.(*ast.FuncDecl)
				if !ok || fd.Body == nil {
					continue
				}
				for li, loop := range fieldLoops(pk, fd) {
					n++
					key := fmt.Sprintf("%s.%s:bounds#%d", rel, funcKey(fd), li+1)
					ok := false
					detail := ""
					inc, isInc := loop.Post.(*ast.IncDecStmt)
					cond, isCond := loop.Cond.(*ast.BinaryExpr)
					if isInc && isCond {
						iv := useObj(info, inc.X)
						zeroV := func(e ast.Expr) bool {
							tv := info.Types[e].Value
							return tv != nil && tv.Kind() == constant.Int && constant.Sign(tv) == 0
						}
						switch inc.Tok {
						case token.DEC:
							// 0 <= i  or  i >= 0
							if (cond.Op == token.LEQ && zeroV(cond.X) && useObj(info, cond.Y) == iv) || (cond.Op == token.GEQ && zeroV(cond.Y) && useObj(info, cond.X) == iv) {
								ok = true
							} else {
								detail = "downward loop whose condition " + types.ExprString(cond) + " does not include index 0"
							}
						case token.INC:
							if cond.Op == token.LSS && useObj(info, cond.X) == iv {
								ok = true
							} else if cond.Op == token.GTR && useObj(info, cond.Y) == iv {
								ok = true
							} else {
								detail = "upward loop whose condition " + types.ExprString(cond) + " is not i < NumField()"
							}
						}
					} else {
						detail = "loop form not recognised"
					}
					if ok {
						rep.Discharge("K-bounds", key, prog.Pos(loop.Pos()), "visits every field index")
					} else {
						rep.Violate(Finding{Rule: "K-bounds", Key: key, Pos: prog.Pos(loop.Pos()), Msg: "loop over struct fields: " + detail + " (a field is never visited)"})
					}
				}
			}
		}
	}
	if n < 3*len(rels) {
		rep.Errorf("K-bounds found %d field loops (floor %d)", n, 3*len(rels))
	}
}

// ruleFreshTarget: inside a loop, the reflect.Value handed to the recursive
// recompose call as target must be created in that iteration.
func ruleFreshTarget(prog *Program, rep *Report) {
	rep.Rules = append(rep.Rules, "R-fresh: in the recursive recompose function, a target variable passed to the recursive call inside a loop over elements is defined inside that loop (a target created once outside the loop carries the previous element's members into the next element)")
	pk := prog.Pkg("alt")
	if pk == nil {
		return
	}
	info := pk.TypesInfo
	n := 0
	for _, f := range pk.Syntax {
		for _, d := range f.Decls {
			fd, ok := d.(*ast.FuncDecl)
			if !ok || fd.Body == nil || fd.Recv == nil {
				continue
			}
			self, _ := info.Defs[fd.Name].(*types.Func)
			var loops []ast.Node
			ast.Inspect(fd.Body, func(k ast.Node) bool {
				switch k.(type) {
				case *ast.RangeStmt, *ast.ForStmt:
					loops = append(loops, k)
				}
				return true
			})
			for _, loop := range loops {
				var body *ast.BlockStmt
				switch l := loop.(type) {
				case *ast.RangeStmt:
					body = l.Body
				case *ast.ForStmt:
					body = l.Body
				}
				ast.Inspect(body, func(k ast.Node) bool {
					call, ok := k.(*ast.CallExpr)
					if !ok || len(call.Args) < 2 {
						return true
					}
					sel, ok := call.Fun.(*ast.SelectorExpr)
					if !ok {
						return true
					}
					if s := info.Selections[sel]; s == nil || s.Obj() != types.Object(self) {
						return true
					}
					id, ok := call.Args[1].(*ast.Ident)
					if !ok {
						return true
					}
					o := info.Uses[id]
					if o == nil {
						return true
					}
					if nt, ok := o.Type().(*types.Named); !ok || nt.Obj().Pkg() == nil || nt.Obj().Pkg().Path() != "reflect" || nt.Obj().Name() != "Value" {
						return true
					}
					// innermost loop only
					for _, other := range loops {
						if other != loop && nodeWithin(loop, other) && nodeWithin(other, call) {
							return true
						}
					}
					n++
					key := fmt.Sprintf("alt.%s:target:%s@%s", funcKey(fd), id.Name, prog.Pos(loop.Pos()))
					key = fmt.Sprintf("alt.%s:target:%s#%d", funcKey(fd), id.Name, n)
					if body.Pos() <= o.Pos() && o.Pos() <= body.End() {
						rep.Discharge("R-fresh", key, prog.Pos(call.Pos()), "target defined inside the loop")
					} else {
						rep.Violate(Finding{Rule: "R-fresh", Key: fmt.Sprintf("alt.%s:target:%s:outside-loop", funcKey(fd), id.Name), Pos: prog.Pos(call.Pos()), Msg: fmt.Sprintf("the target %s of the recursive recompose call is created outside the loop over elements: members set for one element remain set in the following elements", id.Name)})
					}
					return true
				})
			}
		}
	}
	if n < 3 {
		rep.Errorf("R-fresh found %d recursive calls with a variable target inside loops (floor 3)", n)
	}
}
