package main

import (
	"fmt"

	"golang.org/x/tools/go/packages"
)

func main() {
	cfg := &packages.Config{Mode: packages.LoadAllSyntax, Dir: "/repo", Tests: false}
	pkgs, err := packages.Load(cfg, "./...")
	fmt.Println(len(pkgs), err)
}
