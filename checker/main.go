package main

import (
	"flag"
	"fmt"
	"os"
	"runtime/debug"
	"runtime/pprof"
	"sort"
	"strconv"
	"time"
)

func main() {
	prop := flag.String("prop", "", "property id (C01..C20)")
	tier := flag.String("tier", "quick", "quick|thorough")
	repo := flag.String("repo", "/repo", "repository root")
	verif := flag.String("verif", "/verif", "verification directory (evidence, known findings)")
	debugCmd := flag.String("debug", "", "debug command")
	flag.Parse()
	debug.SetGCPercent(400)
	debug.SetMemoryLimit(8 << 30)
	if t := os.Getenv("VERIF_TIER"); t != "" && *tier == "" {
		*tier = t
	}
	seed, _ := strconv.ParseInt(os.Getenv("VERIF_SEED"), 10, 64)
	if *debugCmd != "" {
		if pf := os.Getenv("OJGCHECK_PROF"); pf != "" {
			f, _ := os.Create(pf)
			pprof.StartCPUProfile(f)
			defer pprof.StopCPUProfile()
		}
		runDebug(*debugCmd, *repo, flag.Args())
		return
	}
	if *prop == "" {
		fmt.Fprintln(os.Stderr, "usage: ojgcheck -prop Cnn [-tier quick|thorough]")
		os.Exit(2)
	}
	rep := NewReport(*prop, *tier, seed)
	code := func() (code int) {
		defer func() {
			if r := recover(); r != nil {
				rep.Errorf("checker panic: %v\n%s", r, debug.Stack())
				code = rep.Finish(*verif)
				if code == 0 {
					code = 2
				}
			}
		}()
		prog, err := LoadProgram(*repo, "", nil)
		if err != nil {
			rep.Errorf("%v", err)
			return rep.Finish(*verif)
		}
		pk, fl, fn := prog.Stats()
		rep.Analysed["packages"] = pk
		rep.Analysed["files"] = fl
		rep.Analysed["functions"] = fn
		rule, ok := rules[*prop]
		if !ok {
			rep.Errorf("no rule set registered for %s", *prop)
			return rep.Finish(*verif)
		}
		rule(prog, rep)
		if rep.Tier == "thorough" && opSweepScope[*prop] != nil {
			operatorSweep(prog, rep, rule)
		}
		return rep.Finish(*verif)
	}()
	os.Exit(code)
}

var rules = map[string]func(*Program, *Report){}

func runDebug(cmd, repo string, args []string) {
	t0 := time.Now()
	prog, err := LoadProgram(repo, "", nil)
	if err != nil {
		fmt.Println("ERR", err)
		os.Exit(2)
	}
	if cmd != "gen-siblings" {
		fmt.Printf("loaded in %.2fs\n", time.Since(t0).Seconds())
	}
	switch cmd {
	case "cells":
		cells, err := jpCells(prog, args)
		if err != nil {
			fmt.Println("ERR", err)
			os.Exit(2)
		}
		groups := map[string][]jpCell{}
		for _, c := range cells {
			g := c.Eval + "/" + c.Frag + "/" + c.Pos
			groups[g] = append(groups[g], c)
		}
		var gk []string
		for k := range groups {
			gk = append(gk, k)
		}
		sort.Strings(gk)
		for _, k := range gk {
			classes := map[string][]string{}
			for _, c := range groups[k] {
				classes[c.Skel] = append(classes[c.Skel], c.Cont)
			}
			fmt.Printf("%s: %d cells, %d classes\n", k, len(groups[k]), len(classes))
			for sk, cs := range classes {
				fmt.Printf("    %v  len=%d hash=%x\n", cs, len(sk), hashStr(sk))
			}
		}
	case "gen-siblings":
		t, err := genSiblingTable(prog, len(args) > 0 && args[0] == "ctx")
		if err != nil {
			fmt.Println("ERR", err)
			os.Exit(2)
		}
		fmt.Print(t)
		return
	case "arith":
		// args: frag evaluators...
		cells, err := jpCells(prog, args[1:])
		if err != nil {
			fmt.Println("ERR", err)
			os.Exit(2)
		}
		seen := map[string]bool{}
		classes := map[string][]string{}
		for _, c := range cells {
			if c.Frag != args[0] {
				continue
			}
			id := c.Eval + "/" + c.Cont
			if seen[id] {
				continue
			}
			seen[id] = true
			fp := arithFingerprint(prog, prog.Pkg("jp"), c.Clause, c.ContVar)
			k := ""
			for _, l := range fp {
				k += l + "\n"
			}
			classes[k] = append(classes[k], id)
		}
		for k, ids := range classes {
			fmt.Printf("CLASS %v\n%s\n", ids, k)
		}
	case "cell":
		cells, _ := jpCells(prog, args[:1])
		for _, c := range cells {
			if c.Key() == args[1] {
				fmt.Println(c.Skel)
			}
		}
	case "cross":
		// args: [multi]
		multi := len(args) > 0 && args[0] == "multi"
		r := exploreCrossOne(prog, senFrontEnds[0], senFrontEnds[1], multi)
		fmt.Printf("err=%v states=%d transitions=%d rounds=%d modes=%d classes=%d in %.2fs\n", r.err, r.stats.States, r.stats.Transitions, r.stats.Rounds, len(r.stats.Modes), r.classes, time.Since(t0).Seconds())
		var keys []string
		for k := range r.dis {
			keys = append(keys, k)
		}
		sort.Strings(keys)
		for _, k := range keys {
			d := r.dis[k]
			fmt.Printf("DIS %s\n    %s\n    witness=%q p=[%s] t=[%s]\n", k, d.Detail, d.Witness, d.XState, d.YState)
		}
		for _, u := range r.undec {
			fmt.Println("UNDECIDED", u)
		}
	case "machine":
		// args: rel type root [multi]
		m, err := ExtractMachine(prog, args[0], args[1], []string{args[2]})
		if err != nil {
			fmt.Println("ERR", err)
			os.Exit(2)
		}
		fmt.Println("tracked:", m.in.tracked, "stacks:", m.in.stackFld, "build:", m.in.buildFld, "handler:", m.in.handler != nil, "carried:", len(m.carried))
		multi := len(args) > 3 && args[3] == "multi"
		m.in.precisePrev = os.Getenv("OJGCHECK_NOEVENTS") != ""
		m.in.buildKinds = os.Getenv("OJGCHECK_NOEVENTS") != "" || os.Getenv("OJGCHECK_SELF") != ""
		if os.Getenv("OJGCHECK_SELF") != "" {
			m.in.selfEvents = true
			m.in.noScratch = true
			m.prepareNilTested()
		}
		cfg := map[string]Val{"OnlyOne": vConstBool(!multi)}
		starts, notes, err := m.Starts(args[2], cfg)
		fmt.Println("starts:", len(starts), notes, err)
		var sel []*State
		for _, s := range starts {
			fmt.Println("  ", m.StateString(s))
			if b, ok := s.fields["OnlyOne"].isBool(); ok && b == !multi {
				sel = append(sel, s)
			}
		}
		st := &ExploreStats{}
		m.in.precisePrev = os.Getenv("OJGCHECK_NOEVENTS") != ""
		m.in.buildKinds = os.Getenv("OJGCHECK_NOEVENTS") != "" || os.Getenv("OJGCHECK_SELF") != ""
		var dis map[string]Disagreement
		var und []string
		if os.Getenv("OJGCHECK_SELF") != "" {
			m.in.selfEvents = true
			m.in.noScratch = true
			dis, und = ExploreSelf(m, sel, multi, st, 16)
			fmt.Println("max lag seen:", maxLagSeen)
		} else {
			dis, und = Explore(m, sel, multi, st, 16, os.Getenv("OJGCHECK_NOREF") != "", os.Getenv("OJGCHECK_NOEVENTS") != "")
		}
		fmt.Printf("states=%d transitions=%d armruns=%d rounds=%d modes=%d in %.2fs\n", st.States, st.Transitions, st.ArmRuns, st.Rounds, len(st.Modes), time.Since(t0).Seconds())
		var keys []string
		for k := range dis {
			keys = append(keys, k)
		}
		sort.Strings(keys)
		for _, k := range keys {
			d := dis[k]
			fmt.Printf("DIS %s\n    %s\n    witness=%q x=[%s] y=%s %s\n", k, d.Detail, d.Witness, d.XState, d.YState, d.Pos)
		}
		for _, u := range und {
			fmt.Println("UNDECIDED", u)
		}
	}
}
