package main

import (
	"fmt"
	"go/ast"
	"go/token"
	"go/types"
	"math/rand"
	"os"
	"sort"
	"strconv"
	"strings"
)

// Thorough tier of the properties whose rules need syntax and types only: an operator sweep. Single-token
// changes of the package(s) the property is about - a relational operator replaced by its neighbour
// (< by <=, == by !=, ...), an integer literal 0 / 1 replaced by the other - are made in memory
// (packages.Config.Overlay: nothing is written, nothing is run), the property's whole rule set is run on the
// changed program, and the evidence records how many of the changes are reported (a finding that the
// unchanged tree does not have, or "undecided"). The verdict of the check is not affected: the sweep
// measures how much of the code in scope the structural rules are sensitive to. Most single-token changes of
// value-level code are out of reach of a static rule, and the survivors are listed as such.

// opSweepScope: packages whose functions are mutated, per property.
var opSweepScope = map[string][]string{
	"C05": {"jp"}, "C11": {"jp"}, "C12": {"jp"}, "C13": {"jp"}, "C14": {"jp"},
	"C19": {"alt"}, "C20": {"asm"}, "C15": {"oj", "sen", "alt"}, "C16": {"alt"},
}

// opSweepFiles narrows the files of a package to the ones a property is about (by prefix of the base name);
// nil means every non-test file.
var opSweepFiles = map[string][]string{
	"C05": {"get", "script", "filter", "slice", "wildcard", "descent", "union", "nth", "child"},
	"C11": {"first", "has", "node", "locate", "walk", "filter", "get"},
	"C12": {"script", "equation", "filter"},
	"C13": {"set", "modify", "remove", "slice", "filter"},
	"C14": {"parse", "equation", "script", "expr", "string", "child", "slice", "union"},
	"C19": {"diff", "match", "equal"},
	"C16": {"recompose", "composer", "decompose"},
}

type opSite struct {
	file string
	off  int
	old  string
	new  string
	desc string
}

var opNeighbour = map[token.Token]string{
	token.LSS: "<=", token.LEQ: "<", token.GTR: ">=", token.GEQ: ">", token.EQL: "!=", token.NEQ: "==",
}

func opSites(prog *Program, pid string) []opSite {
	var out []opSite
	for _, rel := range opSweepScope[pid] {
		pk := prog.Pkg(rel)
		if pk == nil {
			continue
		}
		for _, f := range pk.Syntax {
			fname := prog.Fset.Position(f.Pos()).Filename
			base := fname[strings.LastIndex(fname, "/")+1:]
			if strings.HasSuffix(base, "_test.go") {
				continue
			}
			if pre := opSweepFiles[pid]; pre != nil {
				ok := false
				for _, p := range pre {
					if strings.HasPrefix(base, p) {
						ok = true
					}
				}
				if !ok {
					continue
				}
			}
			for _, d := range f.Decls {
				fd, ok := d.(*ast.FuncDecl)
				if !ok || fd.Body == nil {
					continue
				}
				fn := enclosingFuncName(f, fd.Pos())
				ast.Inspect(fd.Body, func(n ast.Node) bool {
					switch x := n.(type) {
					case *ast.BinaryExpr:
						if nb, ok := opNeighbour[x.Op]; ok {
							p := prog.Fset.Position(x.OpPos)
							out = append(out, opSite{file: fname, off: p.Offset, old: x.Op.String(), new: nb,
								desc: fmt.Sprintf("%s/%s %s:%d `%s`: %s -> %s", rel, base, fn, p.Line, types_ExprString(x), x.Op, nb)})
						}
					case *ast.BasicLit:
						if x.Kind == token.INT && (x.Value == "0" || x.Value == "1") {
							p := prog.Fset.Position(x.Pos())
							nv := "1"
							if x.Value == "1" {
								nv = "0"
							}
							out = append(out, opSite{file: fname, off: p.Offset, old: x.Value, new: nv,
								desc: fmt.Sprintf("%s/%s %s:%d literal %s -> %s", rel, base, fn, p.Line, x.Value, nv)})
						}
					}
					return true
				})
			}
		}
	}
	sort.Slice(out, func(i, j int) bool { return out[i].desc < out[j].desc })
	return out
}

type opSweepResult struct {
	Sites     int      `json:"single_token_sites_in_scope"`
	Mutants   int      `json:"mutants_analysed"`
	Reported  int      `json:"reported"`
	ByRule    []string `json:"reported_by_rule"`
	Survivors []string `json:"not_reported"`
	Skipped   []string `json:"did_not_type_check,omitempty"`
}

func opSweepSize() int {
	if v, err := strconv.Atoi(os.Getenv("OJGCHECK_OPSWEEP")); err == nil && v > 0 {
		return v
	}
	return 40
}

// operatorSweep: see the comment at the top of the file. baseline holds the finding keys of the unchanged tree.
func operatorSweep(prog *Program, rep *Report, rule func(*Program, *Report)) {
	sites := opSites(prog, rep.Prop)
	if len(sites) == 0 {
		rep.Errorf("operator sweep: no sites in scope for %s", rep.Prop)
		return
	}
	base := map[string]bool{}
	for _, f := range rep.Findings {
		base[f.Key] = true
	}
	// control: the rule set must give the verdict of the full run on the unchanged program loaded the light way
	// (syntax and types only); otherwise "reported" would only mean that a rule needs what the light load lacks
	if p0, err := LoadProgramLight(prog.Repo, nil); err != nil {
		rep.Errorf("operator sweep: light load failed: %v", err)
		return
	} else {
		r0 := NewReport(rep.Prop, "quick", rep.Seed)
		rule(p0, r0)
		same := len(r0.Errors) == 0 && len(r0.Findings) == len(rep.Findings)
		for _, f := range r0.Findings {
			if !base[f.Key] {
				same = false
			}
		}
		if !same {
			rep.Extra["operator_sweep"] = "not run: the rule set of this property needs more than syntax and types (SSA), the in-memory sweep uses the light loader"
			return
		}
	}
	seed := rep.Seed
	if seed == 0 {
		seed = 1
	}
	rng := rand.New(rand.NewSource(seed))
	rng.Shuffle(len(sites), func(i, j int) { sites[i], sites[j] = sites[j], sites[i] })
	n := opSweepSize()
	if n > len(sites) {
		n = len(sites)
	}
	res := opSweepResult{Sites: len(sites)}
	byRule := map[string]int{}
	for _, s := range sites[:n] {
		src, err := os.ReadFile(s.file)
		if err != nil || s.off+len(s.old) > len(src) || string(src[s.off:s.off+len(s.old)]) != s.old {
			res.Skipped = append(res.Skipped, s.desc+" (site did not resolve)")
			continue
		}
		mut := append(append(append([]byte{}, src[:s.off]...), s.new...), src[s.off+len(s.old):]...)
		p2, err := LoadProgramLight(prog.Repo, map[string][]byte{s.file: mut})
		if err != nil {
			res.Skipped = append(res.Skipped, s.desc)
			continue
		}
		r2 := NewReport(rep.Prop, "quick", rep.Seed)
		func() {
			defer func() {
				if r := recover(); r != nil {
					r2.Errorf("panic: %v", r)
				}
			}()
			rule(p2, r2)
		}()
		res.Mutants++
		var by []string
		for _, f := range r2.Findings {
			if !base[f.Key] {
				by = append(by, f.Rule)
			}
		}
		if len(by) == 0 && len(r2.Errors) > 0 {
			by = append(by, "(undecided: fail closed)")
		}
		if len(by) == 0 {
			res.Survivors = append(res.Survivors, s.desc)
			continue
		}
		res.Reported++
		seen := map[string]bool{}
		for _, b := range by {
			if !seen[b] {
				seen[b] = true
				byRule[b]++
			}
		}
	}
	for r, c := range byRule {
		res.ByRule = append(res.ByRule, fmt.Sprintf("%s: %d", r, c))
	}
	sort.Strings(res.ByRule)
	sort.Strings(res.Survivors)
	rep.Extra["operator_sweep"] = res
	rep.Explain(fmt.Sprintf("Thorough tier: operator sweep over %d of the %d single-token sites (relational operators, literals 0/1) of the code in scope, each analysed in memory with the whole rule set of this property: %d of %d changes are reported. The sweep measures the sensitivity of the structural rules; it does not change the verdict, and a change that is not reported is not claimed to be harmless.", res.Mutants, res.Sites, res.Reported, res.Mutants))
}

func types_ExprString(e ast.Expr) string {
	s := types.ExprString(e)
	if len(s) > 60 {
		s = s[:57] + "..."
	}
	return s
}
