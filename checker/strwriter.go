package main

import (
	"fmt"
	"go/ast"
	"go/constant"
	"go/types"

	"golang.org/x/tools/go/packages"
)

// Engine G, writer side: a string-escaping function of the form
//
//	for i, b := range []byte(s) { ...; c := TABLE[b]; switch c { ... } }
//
// is summarised per input byte by interpreting the loop body with b concrete:
// which constant bytes are appended to the output buffer, whether the byte is
// left in the pending raw segment (start not advanced), and the value of
// boolean locals it sets (e.g. "quote"). The table is a compile-time constant,
// so the summary is exact for the byte at the start of a rune.

type emitOutcome struct {
	Raw     bool              // the byte stays in the raw segment (copied verbatim later)
	Emit    []int             // constant bytes appended (after the optional flush of the pending raw segment)
	Unknown bool              // something non-constant other than the raw flush was appended
	Flags   map[string]string // boolean locals assigned in the arm: name -> "true"/"false"
	Path    string
}

type strWriter struct {
	prog   *Program
	pk     *packages.Package
	fd     *ast.FuncDecl
	in     *Interp
	loop   *ast.RangeStmt
	bufObj types.Object
	sObj   types.Object
	bObj   types.Object
	iObj   types.Object
	params map[string]types.Object
	locals map[string]types.Object // function-level locals by name
}

func findStrWriter(prog *Program, rel, fname string) (*strWriter, error) {
	pk := prog.Pkg(rel)
	if pk == nil {
		return nil, fmt.Errorf("package %q not loaded", rel)
	}
	fn := Func(pk, fname)
	fd, _ := prog.FuncDecl(fn)
	if fd == nil {
		return nil, fmt.Errorf("%s.%s not found", rel, fname)
	}
	info := pk.TypesInfo
	w := &strWriter{prog: prog, pk: pk, fd: fd, params: map[string]types.Object{}, locals: map[string]types.Object{}}
	for _, fl := range fd.Type.Params.List {
		for _, n := range fl.Names {
			o := info.Defs[n]
			w.params[n.Name] = o
			switch t := o.Type().Underlying().(type) {
			case *types.Slice:
				if w.bufObj == nil {
					w.bufObj = o
				}
			case *types.Basic:
				if t.Info()&types.IsString != 0 && w.sObj == nil {
					w.sObj = o
				}
			}
		}
	}
	for _, st := range fd.Body.List {
		rs, ok := st.(*ast.RangeStmt)
		if !ok || rs.Key == nil || rs.Value == nil {
			continue
		}
		// range []byte(s)
		call, ok := rs.X.(*ast.CallExpr)
		if !ok || len(call.Args) != 1 || useObj(info, call.Args[0]) != w.sObj {
			continue
		}
		w.loop = rs
		w.iObj = info.Defs[rs.Key.(*ast.Ident)]
		w.bObj = info.Defs[rs.Value.(*ast.Ident)]
	}
	if w.loop == nil || w.bufObj == nil || w.sObj == nil {
		return nil, fmt.Errorf("%s.%s: not of the form `for i, b := range []byte(s)` with a buffer and a string parameter", rel, fname)
	}
	ast.Inspect(fd.Body, func(n ast.Node) bool {
		if id, ok := n.(*ast.Ident); ok {
			if o := info.Defs[id]; o != nil {
				if _, isVar := o.(*types.Var); isVar {
					if _, dup := w.locals[id.Name]; !dup {
						w.locals[id.Name] = o
					}
				}
			}
		}
		return true
	})
	w.in = &Interp{prog: prog, pkg: pk, info: info, tracked: map[string]bool{}, stackFld: map[string]bool{}, addLike: map[*types.Func]bool{},
		maxDepth: 2, methods: map[*types.Func]*ast.FuncDecl{}, recvOf: map[*ast.FuncDecl]types.Object{}, tableID: map[string]int{}}
	w.in.below = func(string) []absStack { return nil }
	return w, nil
}

// perByte interprets the loop body for byte b with the given constant values
// of boolean/byte parameters.
func (w *strWriter) perByte(b int, consts map[string]Val) ([]emitOutcome, []string) {
	in := w.in
	in.undecided = nil
	st := newState()
	st.locals[w.bObj] = vConstInt(int64(b))
	st.locals[w.iObj] = Val{K: kTop, NonNeg: true, S: "i"}
	for name, o := range w.locals {
		if o == w.bObj || o == w.iObj {
			continue
		}
		switch name {
		case "skip":
			st.locals[o] = vConstInt(0) // analyse the byte at the start of a rune
		default:
			if b, ok := o.Type().Underlying().(*types.Basic); ok && b.Info()&types.IsBoolean != 0 {
				st.locals[o] = Val{K: kTop, S: "init:" + name}
			} else {
				st.locals[o] = Val{K: kTop, S: "init:" + name}
			}
		}
	}
	for name, v := range consts {
		if o, ok := w.params[name]; ok {
			st.locals[o] = v
		} else if o, ok := w.locals[name]; ok {
			st.locals[o] = v
		}
	}
	var emits = map[*State][]emitRec{}
	_ = emits
	in.appendHook = func(s *State, call *ast.CallExpr, args []Val) {
		if len(call.Args) < 2 || useObj(w.pk.TypesInfo, call.Args[0]) != w.bufObj {
			return
		}
		rec := emitRec{}
		a := args[1]
		switch {
		case a.K == kConst && a.C.Kind() == constant.Int:
			v, _ := constant.Int64Val(a.C)
			rec.bytes = []int{int(v)}
		case a.K == kConst && a.C.Kind() == constant.String:
			for _, c := range []byte(constant.StringVal(a.C)) {
				rec.bytes = append(rec.bytes, int(c))
			}
		default:
			// s[start:i]... is the flush of the pending raw segment
			if se, ok := ast.Unparen(call.Args[1]).(*ast.SliceExpr); ok && useObj(w.pk.TypesInfo, se.X) == w.sObj {
				rec.flush = true
			} else {
				rec.unknown = true
			}
		}
		s.events = append(s.events, Event{Name: "emit", Arg: rec.encode()})
	}
	defer func() { in.appendHook = nil }()
	var outs []emitOutcome
	for _, e := range in.execList(w.loop.Body.List, st) {
		if e.ctl == cPanic {
			outs = append(outs, emitOutcome{Unknown: true, Path: "panic: " + e.why})
			continue
		}
		o := emitOutcome{Flags: map[string]string{}}
		for _, ev := range e.st.events {
			r := decodeEmit(ev.Arg)
			if r.unknown {
				o.Unknown = true
			}
			o.Emit = append(o.Emit, r.bytes...)
		}
		// raw iff "start" was not advanced
		if so, ok := w.locals["start"]; ok {
			v := e.st.locals[so]
			o.Raw = v.K == kTop && v.S == "init:start"
		} else {
			o.Raw = len(o.Emit) == 0
		}
		for name, lo := range w.locals {
			if bt, ok := lo.Type().Underlying().(*types.Basic); ok && bt.Info()&types.IsBoolean != 0 {
				if bv, ok := e.st.locals[lo].isBool(); ok {
					if bv {
						o.Flags[name] = "true"
					} else {
						o.Flags[name] = "false"
					}
				}
			}
		}
		outs = append(outs, o)
	}
	return outs, in.undecided
}

type emitRec struct {
	bytes   []int
	flush   bool
	unknown bool
}

func (r emitRec) encode() string {
	s := ""
	if r.flush {
		s = "F"
	}
	if r.unknown {
		s = "U"
	}
	for _, b := range r.bytes {
		s += fmt.Sprintf(",%d", b)
	}
	return s
}

func decodeEmit(s string) emitRec {
	var r emitRec
	i := 0
	if len(s) > 0 && s[0] == 'F' {
		r.flush = true
		i = 1
	} else if len(s) > 0 && s[0] == 'U' {
		r.unknown = true
		i = 1
	}
	n := -1
	for ; i < len(s); i++ {
		switch {
		case s[i] == ',':
			if n >= 0 {
				r.bytes = append(r.bytes, n)
			}
			n = 0
		default:
			n = n*10 + int(s[i]-'0')
		}
	}
	if n >= 0 {
		r.bytes = append(r.bytes, n)
	}
	return r
}
