package main

import (
	"fmt"
	"go/ast"
	"go/constant"
	"go/token"
	"go/types"
	"strings"

	"golang.org/x/tools/go/packages"
)

// Interp interprets statements of one receiver type's methods over the
// abstract domain of absval.go. It is an abstract interpreter (conditional
// constant propagation, polyvariant over the enumerated inputs), not a
// symbolic executor: there are no path constraints beyond the finite facts in
// State and no solver; a condition whose value is Top forks.
type Interp struct {
	prog     *Program
	pkg      *packages.Package
	info     *types.Info
	recvType *types.Named
	tracked  map[string]bool // receiver fields kept as constants between bytes
	stackFld map[string]bool // receiver slice fields abstracted as container stacks
	buildFld string          // build stack field ([]any / []Node), for KEY events
	addLike  map[*types.Func]bool
	bufVar   types.Object // the work function's buffer parameter
	offVar   types.Object
	handler  types.Type // oj.TokenHandler interface, if any
	// candidates for what lies below a popped stack top (supplied by the product)
	below func(field string) []absStack
	// precisePrev: frames remember what they were pushed over (superset comparison of the SEN parser)
	precisePrev bool
	prevDepth   int // how many covered frames a frame remembers (default 1)
	// buildKinds: the kind of the top of the build stack (key / map / other) is tracked
	buildKinds bool
	// selfEvents: build-stack operations and hand-offs (stores, callback calls, channel sends of a
	// build-stack element) are recorded as events (chunk-independence comparison of a machine with itself)
	selfEvents  bool
	recvName    string               // name of the receiver variable in the dispatch function
	nilTested   map[string]bool      // untracked nilable receiver fields nil-tested by the dispatch function or what it calls
	mirror      bool                 // N-mirror: follow whether the dispatched byte is added to the number's text buffer
	digitFns    map[*types.Func]bool // methods of the number accumulator that use their byte argument as a decimal digit (b - '0')
	mirrorFns   map[*types.Func]bool // methods of the number accumulator that add their byte argument to the text buffer when it is in use
	trackReads  bool                 // record reads-before-write of tracked fields (liveness sampling)
	posFld      map[string]bool      // receiver fields a ParseError is built from (line, newline offset)
	noScratch   bool                 // scratch-buffer typestate is not followed (decided by the exploration of the machine alone)
	undecided   []string
	maxDepth    int
	hook        *workCollector
	dispatchSw  *ast.SwitchStmt
	appendHook  func(st *State, call *ast.CallExpr, args []Val)
	scratch     map[string]bool // []byte receiver fields used as truncate-then-append scratch buffers
	constCache  map[ast.Expr]Val
	tableID     map[string]int
	cls         *byteClasses
	nonNilCache map[*types.Func]bool
	popEmpty    []string
	methods     map[*types.Func]*ast.FuncDecl
	recvOf      map[*ast.FuncDecl]types.Object
	steps       int
}

type ctl int

const (
	cFall ctl = iota
	cBreak
	cContinue
	cReturn
	cPanic
)

type Exit struct {
	st  *State
	ctl ctl
	ret []Val
	why string // for panics
}

type evalRes struct {
	st *State
	v  Val
}

func (in *Interp) undecide(pos token.Pos, format string, args ...any) {
	msg := in.prog.Pos(pos) + ": " + fmt.Sprintf(format, args...)
	for _, u := range in.undecided {
		if u == msg {
			return
		}
	}
	in.undecided = append(in.undecided, msg)
}

// ---------------------------------------------------------------- statements

func (in *Interp) execList(list []ast.Stmt, st *State) []Exit {
	cur := []*State{st}
	var out []Exit
	for _, s := range list {
		var next []*State
		for _, c := range cur {
			for _, e := range in.exec(s, c) {
				if e.ctl == cFall {
					next = append(next, e.st)
				} else {
					out = append(out, e)
				}
			}
		}
		cur = next
		if len(cur) == 0 {
			break
		}
	}
	for _, c := range cur {
		out = append(out, Exit{st: c, ctl: cFall})
	}
	return out
}

func (in *Interp) exec(s ast.Stmt, st *State) []Exit {
	exits := in.exec0(s, st)
	for i := range exits {
		if exits[i].ctl != cPanic && exits[i].st != nil && exits[i].st.panicked != "" {
			exits[i].ctl = cPanic
			exits[i].why = exits[i].st.panicked
			exits[i].ret = nil
		}
	}
	return exits
}

func (in *Interp) exec0(s ast.Stmt, st *State) []Exit {
	in.steps++
	switch s := s.(type) {
	case *ast.BlockStmt:
		return in.execList(s.List, st)
	case *ast.EmptyStmt:
		return []Exit{{st: st}}
	case *ast.ExprStmt:
		var out []Exit
		for _, r := range in.eval(s.X, st) {
			if r.v.K == kTop && r.v.S == "panic" {
				out = append(out, Exit{st: r.st, ctl: cPanic, why: r.st.lastNote()})
				continue
			}
			out = append(out, Exit{st: r.st})
		}
		return out
	case *ast.DeclStmt:
		gd, ok := s.Decl.(*ast.GenDecl)
		if !ok || gd.Tok != token.VAR {
			return []Exit{{st: st}}
		}
		cur := []*State{st}
		for _, sp := range gd.Specs {
			vs := sp.(*ast.ValueSpec)
			for i, name := range vs.Names {
				obj := in.info.Defs[name]
				var next []*State
				for _, c := range cur {
					if i < len(vs.Values) {
						for _, r := range in.eval(vs.Values[i], c) {
							r.st.locals[obj] = r.v
							next = append(next, r.st)
						}
					} else {
						c.locals[obj] = zeroVal(obj.Type())
						next = append(next, c)
					}
				}
				cur = next
			}
		}
		var out []Exit
		for _, c := range cur {
			out = append(out, Exit{st: c})
		}
		return out
	case *ast.AssignStmt:
		return in.execAssign(s, st)
	case *ast.IncDecStmt:
		one := &ast.BasicLit{Kind: token.INT, Value: "1"}
		op := token.ADD
		if s.Tok == token.DEC {
			op = token.SUB
		}
		var out []Exit
		for _, r := range in.eval(s.X, st) {
			nv := in.binop(op, r.v, vConstInt(1), in.info.TypeOf(s.X), r.st, s.Pos())
			_ = one
			for _, st2 := range in.assignTo(s.X, nv, r.st, s.Pos()) {
				out = append(out, Exit{st: st2})
			}
		}
		return out
	case *ast.IfStmt:
		cur := []*State{st}
		var out []Exit
		if s.Init != nil {
			cur = nil
			for _, e := range in.exec(s.Init, st) {
				if e.ctl == cFall {
					cur = append(cur, e.st)
				} else {
					out = append(out, e)
				}
			}
		}
		for _, c := range cur {
			for _, br := range in.cond(s.Cond, c) {
				if br.v {
					out = append(out, in.exec(s.Body, br.st)...)
				} else if s.Else != nil {
					out = append(out, in.exec(s.Else, br.st)...)
				} else {
					out = append(out, Exit{st: br.st})
				}
			}
		}
		return out
	case *ast.SwitchStmt:
		return in.execSwitch(s, st)
	case *ast.TypeSwitchStmt:
		return in.execTypeSwitch(s, st)
	case *ast.ForStmt:
		return in.execFor(s, st)
	case *ast.RangeStmt:
		return in.execRange(s, st)
	case *ast.BranchStmt:
		if s.Label != nil {
			in.undecide(s.Pos(), "labelled branch")
			return nil
		}
		switch s.Tok {
		case token.BREAK:
			return []Exit{{st: st, ctl: cBreak}}
		case token.CONTINUE:
			return []Exit{{st: st, ctl: cContinue}}
		}
		in.undecide(s.Pos(), "branch %s", s.Tok)
		return nil
	case *ast.ReturnStmt:
		if len(s.Results) == 0 {
			return []Exit{{st: st, ctl: cReturn}}
		}
		cur := []evalMulti{{st: st}}
		for _, rx := range s.Results {
			var next []evalMulti
			for _, c := range cur {
				for _, r := range in.eval(rx, c.st) {
					if r.v.K == kTop && r.v.S == "panic" {
						next = append(next, evalMulti{st: r.st, vs: append(append([]Val{}, c.vs...), r.v), panicked: true})
						continue
					}
					next = append(next, evalMulti{st: r.st, vs: append(append([]Val{}, c.vs...), r.v), panicked: c.panicked})
				}
			}
			cur = next
		}
		var out []Exit
		for _, c := range cur {
			if c.panicked {
				out = append(out, Exit{st: c.st, ctl: cPanic, why: c.st.lastNote()})
				continue
			}
			out = append(out, Exit{st: c.st, ctl: cReturn, ret: c.vs})
		}
		return out
	case *ast.SendStmt:
		var out []Exit
		for _, r := range in.eval(s.Value, st) {
			if in.selfEvents && in.isBuildElem(s.Value, r.st) {
				r.st.events = append(r.st.events, Event{Name: "OUT", Arg: "chan"})
			}
			out = append(out, Exit{st: r.st})
		}
		return out
	case *ast.DeferStmt:
		st.notes = append(st.notes, "defer")
		return []Exit{{st: st}}
	case *ast.GoStmt:
		in.undecide(s.Pos(), "go statement")
		return nil
	case *ast.LabeledStmt:
		return in.exec(s.Stmt, st)
	}
	in.undecide(s.Pos(), "statement %T", s)
	return nil
}

type evalMulti struct {
	st       *State
	vs       []Val
	panicked bool
}

func (s *State) lastNote() string {
	if len(s.notes) == 0 {
		return ""
	}
	return s.notes[len(s.notes)-1]
}

func zeroVal(t types.Type) Val {
	switch u := t.Underlying().(type) {
	case *types.Basic:
		switch {
		case u.Info()&types.IsInteger != 0:
			return vConstInt(0)
		case u.Info()&types.IsBoolean != 0:
			return vConstBool(false)
		case u.Info()&types.IsString != 0:
			return vConstStr("")
		}
		return vTop
	case *types.Pointer, *types.Slice, *types.Map, *types.Chan, *types.Signature, *types.Interface:
		return Val{K: kNil}
	}
	return vTop
}

func (in *Interp) execAssign(s *ast.AssignStmt, st *State) []Exit {
	// op-assign
	if s.Tok != token.ASSIGN && s.Tok != token.DEFINE {
		op := map[token.Token]token.Token{token.ADD_ASSIGN: token.ADD, token.SUB_ASSIGN: token.SUB, token.MUL_ASSIGN: token.MUL,
			token.QUO_ASSIGN: token.QUO, token.REM_ASSIGN: token.REM, token.AND_ASSIGN: token.AND, token.OR_ASSIGN: token.OR,
			token.XOR_ASSIGN: token.XOR, token.SHL_ASSIGN: token.SHL, token.SHR_ASSIGN: token.SHR, token.AND_NOT_ASSIGN: token.AND_NOT}[s.Tok]
		var out []Exit
		for _, l := range in.eval(s.Lhs[0], st) {
			for _, r := range in.eval(s.Rhs[0], l.st) {
				nv := in.binop(op, l.v, r.v, in.info.TypeOf(s.Lhs[0]), r.st, s.Pos())
				for _, st2 := range in.assignTo(s.Lhs[0], nv, r.st, s.Pos()) {
					out = append(out, Exit{st: st2})
				}
			}
		}
		return out
	}
	// tuple from a single multi-valued expression
	if len(s.Lhs) > 1 && len(s.Rhs) == 1 {
		var out []Exit
		for _, r := range in.eval(s.Rhs[0], st) {
			cur := []*State{r.st}
			keyOK, keyKnown := in.keyAssertion(s.Rhs[0], r.st)
			for i, l := range s.Lhs {
				v := vTop
				if i == 1 && keyKnown {
					v = vConstBool(keyOK)
				}
				if i == 0 && r.v.K != kTop {
					// first result of a comma-ok form keeps nothing useful
					v = vTop
				}
				var next []*State
				for _, c := range cur {
					next = append(next, in.assignTo(l, v, c, s.Pos())...)
				}
				cur = next
			}
			for _, c := range cur {
				out = append(out, Exit{st: c})
			}
		}
		return out
	}
	// parallel assignment: evaluate all RHS first
	cur := []evalMulti{{st: st}}
	for _, rx := range s.Rhs {
		var next []evalMulti
		for _, c := range cur {
			for _, r := range in.eval(rx, c.st) {
				next = append(next, evalMulti{st: r.st, vs: append(append([]Val{}, c.vs...), r.v)})
			}
		}
		cur = next
	}
	var out []Exit
	for _, c := range cur {
		states := []*State{c.st}
		for i, l := range s.Lhs {
			var next []*State
			for _, s2 := range states {
				// stack updates are recognised on the syntactic form
				if sts, ok := in.stackAssign(l, s.Rhs[i], s2); ok {
					for _, x := range sts {
						x.markAssigned(in.fieldPath(l, x))
					}
					next = append(next, sts...)
					continue
				}
				in.noteKeyPush(l, s.Rhs[i], s2)
				in.noteMirror(l, s.Rhs[i], s2)
				in.buildAssign(l, s.Rhs[i], s2)
				if in.selfEvents && in.isBuildElem(s.Rhs[i], s2) {
					if f := in.fieldPath(l, s2); f != "" {
						s2.events = append(s2.events, Event{Name: "OUT", Arg: f})
					}
				}
				in.scratchAssign(l, s.Rhs[i], s2)
				next = append(next, in.assignTo(l, c.vs[i], s2, s.Pos())...)
			}
			states = next
		}
		for _, s2 := range states {
			out = append(out, Exit{st: s2})
		}
	}
	return out
}

// fieldPath returns the receiver field path of a selector rooted at the
// receiver (e.g. "mode", "num.I"), or "" if e is not such a selector.
func (in *Interp) fieldPath(e ast.Expr, st *State) string {
	switch e := e.(type) {
	case *ast.ParenExpr:
		return in.fieldPath(e.X, st)
	case *ast.SelectorExpr:
		if id, ok := e.X.(*ast.Ident); ok {
			if v, ok := st.locals[in.info.Uses[id]]; ok && v.K == kRecv {
				return e.Sel.Name
			}
			return ""
		}
		if p := in.fieldPath(e.X, st); p != "" {
			return p + "." + e.Sel.Name
		}
	}
	return ""
}

// stackAssign recognises updates of a tracked container stack:
//
//	S = append(S, v)   push
//	S = S[:len(S)-1]   pop  (also S[0:d] where d == len(S)-1)
//	S = S[:0]          clear
func (in *Interp) stackAssign(lhs, rhs ast.Expr, st *State) ([]*State, bool) {
	f := in.fieldPath(lhs, st)
	if f == "" || !in.stackFld[f] {
		return nil, false
	}
	switch r := rhs.(type) {
	case *ast.CallExpr:
		if id, ok := r.Fun.(*ast.Ident); ok && id.Name == "make" && len(r.Args) >= 2 && isZeroLit(r.Args[1]) {
			st.stacks[f] = absStack{Empty: true}
			st.topLen(f)
			return []*State{st}, true
		}
		if id, ok := r.Fun.(*ast.Ident); ok && id.Name == "append" && len(r.Args) == 2 && !r.Ellipsis.IsValid() && in.fieldPath(r.Args[0], st) == f {
			var out []*State
			for _, e := range in.eval(r.Args[1], st) {
				v := e.v
				if v.FromB {
					if bv, ok := v.isInt(); ok && bv >= 0 && bv < 256 {
						in.cls.request("eq", int(bv), "")
						v.FromB = false
					} else {
						in.cls.request("identity", 0, "value derived from an input byte pushed on container stack "+f)
					}
				}
				if v.K != kConst {
					nn := v.NonNeg || v.K == kLen
					v = Val{K: kTop, NonNeg: nn}
				}
				fr := absStack{Top: v, Saved: e.st.bs}
				if in.precisePrev {
					d := in.prevDepth
					if d < 1 {
						d = 1
					}
					fr.Prev = e.st.stacks[f].chain(d)
				}
				e.st.stacks[f] = fr
				e.st.pushed = append(e.st.pushed, pushRec{Field: f, V: v})
				e.st.shiftLen(f, -1)
				out = append(out, e.st)
			}
			return out, true
		}
	case *ast.SliceExpr:
		if in.fieldPath(r.X, st) == f && r.Max == nil && (r.Low == nil || isZeroLit(r.Low)) && r.High != nil {
			var out []*State
			for _, e := range in.eval(r.High, st) {
				if i, ok := e.v.isInt(); ok && i == 0 {
					e.st.stacks[f] = absStack{Empty: true}
					e.st.topLen(f)
					out = append(out, e.st)
					continue
				}
				if e.v.K == kLen && e.v.S == f && e.v.A == -1 {
					cur := e.st.stacks[f]
					if cur.Unknown && cur.Top.Stale {
						e.st.readStale = append(e.st.readStale, in.prog.Pos(rhs.Pos())+" pop of container stack "+f)
					}
					if cur.Empty {
						e.st.notes = append(e.st.notes, "slice bounds out of range: pop of empty "+f)
						e.st.panicked = e.st.notes[len(e.st.notes)-1]
						out = append(out, e.st)
						continue
					}
					e.st.popped = append(e.st.popped, f)
					e.st.pendingRestore = cur.Saved
					e.st.shiftLen(f, +1)
					cands := in.below(f)
					for _, c := range cands {
						if !cur.covers(c) {
							continue // not what this frame was pushed over
						}
						n := e.st.clone()
						n.stacks[f] = c
						out = append(out, n)
					}
					continue
				}
				in.undecide(rhs.Pos(), "unrecognised reslice of container stack %s to %s", f, e.v)
			}
			return out, true
		}
	}
	in.undecide(rhs.Pos(), "unrecognised update of container stack %s", f)
	return nil, true
}

func (in *Interp) panicExit(st *State) {
	in.popEmpty = append(in.popEmpty, st.lastNote())
}

func isZeroLit(e ast.Expr) bool {
	bl, ok := e.(*ast.BasicLit)
	return ok && bl.Value == "0"
}

// shiftLen adjusts every len(S)+A value held in the state after S grew
// (delta -1) or shrank (delta +1) by one element.
func (s *State) shiftLen(f string, delta int) {
	for k, v := range s.locals {
		if v.K == kLen && v.S == f {
			v.A += delta
			s.locals[k] = v
		}
	}
	for k, v := range s.fields {
		if v.K == kLen && v.S == f {
			v.A += delta
			s.fields[k] = v
		}
	}
}

func (s *State) topLen(f string) {
	for k, v := range s.locals {
		if v.K == kLen && v.S == f {
			s.locals[k] = Val{K: kTop}
		}
	}
}

// noteKeyPush records a KEY event for `B = append(B, gen.Key(...))` on the
// build stack.
func (in *Interp) noteKeyPush(lhs, rhs ast.Expr, st *State) {
	f := in.fieldPath(lhs, st)
	if f == "" || f != in.buildFld {
		return
	}
	call, ok := rhs.(*ast.CallExpr)
	if !ok {
		return
	}
	if id, ok := call.Fun.(*ast.Ident); !ok || id.Name != "append" || len(call.Args) != 2 {
		return
	}
	t := in.info.TypeOf(call.Args[1])
	if n, ok := t.(*types.Named); ok && n.Obj().Name() == "Key" && n.Obj().Pkg() != nil && strings.HasSuffix(n.Obj().Pkg().Path(), "/gen") {
		st.events = append(st.events, Event{Name: "KEY"})
	}
}

func (in *Interp) assignTo(lhs ast.Expr, v Val, st *State, pos token.Pos) []*State {
	switch l := lhs.(type) {
	case *ast.ParenExpr:
		return in.assignTo(l.X, v, st, pos)
	case *ast.Ident:
		if l.Name == "_" {
			return []*State{st}
		}
		obj := in.info.Defs[l]
		if obj == nil {
			obj = in.info.Uses[l]
		}
		if obj == nil {
			return []*State{st}
		}
		if _, isVar := obj.(*types.Var); isVar && obj.Parent() == in.pkg.Types.Scope() {
			st.notes = append(st.notes, "assigns package variable "+obj.Name())
			return []*State{st}
		}
		st.locals[obj] = in.widen(v)
		return []*State{st}
	case *ast.SelectorExpr:
		f := in.fieldPath(l, st)
		if f == "" {
			// store through something else: evaluate the base for effects only
			return []*State{st}
		}
		st.markAssigned(f)
		if in.posFld[f] && v.K == kOff && (v.A != 0 || v.Flag) && st.cur == '\n' {
			// the newline offset must be the offset of the newline byte itself: the column of a later error is counted from it
			st.notes = append(st.notes, "pos-misassign:"+f+":"+v.String()+":"+in.prog.Pos(pos))
		}
		if in.stackFld[f] {
			in.undecide(pos, "container stack %s assigned a value of unrecognised form", f)
			return nil
		}
		if in.nilTested[f] {
			// remembered nil-ness of an untracked field (see cond)
			if v.K == kNil || v.K == kNonNil {
				st.fields[f] = v
			} else {
				delete(st.fields, f)
			}
		}
		if in.tracked[f] {
			if v.FromB {
				// the stored byte becomes part of the control state: its class must be a singleton
				if bv, ok := v.isInt(); ok && bv >= 0 && bv < 256 {
					in.cls.request("eq", int(bv), "")
					v.FromB = false
				} else {
					in.cls.request("identity", 0, "value derived from an input byte stored in field "+f)
				}
			}
			st.fields[f] = in.widen(v)
		}
		return []*State{st}
	case *ast.IndexExpr:
		// element store: evaluate operands for effects (panics on tracked stacks)
		f := in.fieldPath(l.X, st)
		if f != "" && in.stackFld[f] {
			in.undecide(pos, "element store into container stack %s", f)
			return nil
		}
		var out []*State
		for _, r := range in.eval(l.Index, st) {
			out = append(out, r.st)
		}
		return out
	case *ast.StarExpr:
		return []*State{st}
	}
	in.undecide(pos, "assignment target %T", lhs)
	return nil
}

// widen keeps the between-bytes domain finite.
func (in *Interp) widen(v Val) Val {
	if i, ok := v.isInt(); ok {
		if i < -2 || i > 300 {
			return Val{K: kTop, NonNeg: i >= 0}
		}
	}
	if v.K == kConst && v.C.Kind() == constant.Float {
		return vTop
	}
	return v
}

func (in *Interp) execSwitch(s *ast.SwitchStmt, st *State) []Exit {
	cur := []*State{st}
	var out []Exit
	if s.Init != nil {
		cur = nil
		for _, e := range in.exec(s.Init, st) {
			if e.ctl == cFall {
				cur = append(cur, e.st)
			} else {
				out = append(out, e)
			}
		}
	}
	finish := func(exits []Exit) {
		for _, e := range exits {
			if e.ctl == cBreak {
				e.ctl = cFall
			}
			out = append(out, e)
		}
	}
	var deflt *ast.CaseClause
	for _, c := range s.Body.List {
		cc := c.(*ast.CaseClause)
		if cc.List == nil {
			deflt = cc
		}
		for _, b := range cc.Body {
			if br, ok := b.(*ast.BranchStmt); ok && br.Tok == token.FALLTHROUGH {
				in.undecide(br.Pos(), "fallthrough")
				return nil
			}
		}
	}
	if s.Tag == nil {
		// tagless: first clause whose condition holds
		type pend struct{ st *State }
		pending := cur
		for _, c := range s.Body.List {
			cc := c.(*ast.CaseClause)
			if cc.List == nil {
				continue
			}
			var still []*State
			for _, p := range pending {
				rem := []*State{p}
				for _, cx := range cc.List {
					var nrem []*State
					for _, r := range rem {
						for _, br := range in.cond(cx, r) {
							if br.v {
								finish(in.execList(cc.Body, br.st))
							} else {
								nrem = append(nrem, br.st)
							}
						}
					}
					rem = nrem
				}
				still = append(still, rem...)
			}
			pending = still
		}
		for _, p := range pending {
			if deflt != nil {
				finish(in.execList(deflt.Body, p))
			} else {
				out = append(out, Exit{st: p})
			}
		}
		return out
	}
	for _, c0 := range cur {
		for _, tv := range in.eval(s.Tag, c0) {
			if tv.v.K == kTop && tv.v.S == "panic" {
				out = append(out, Exit{st: tv.st, ctl: cPanic, why: tv.st.lastNote()})
				continue
			}
			if tv.v.K != kConst {
				// unknown tag: every clause (and default / none) is possible
				if tv.v.Stale {
					tv.st.readStale = append(tv.st.readStale, in.prog.Pos(s.Tag.Pos())+" switch tag")
				}
				for _, c := range s.Body.List {
					cc := c.(*ast.CaseClause)
					finish(in.execList(cc.Body, tv.st.clone()))
				}
				if deflt == nil {
					out = append(out, Exit{st: tv.st})
				}
				continue
			}
			matched := false
			if tv.v.FromB {
				for _, c := range s.Body.List {
					for _, cx := range c.(*ast.CaseClause).List {
						if cv := in.info.Types[cx].Value; cv != nil && cv.Kind() == constant.Int {
							if ci, ok := constant.Int64Val(cv); ok {
								in.cls.request("eq", int(ci), "")
							}
						} else {
							in.cls.request("identity", 0, "switch on an input byte with a non-constant case")
						}
					}
				}
			}
			for _, c := range s.Body.List {
				cc := c.(*ast.CaseClause)
				for _, cx := range cc.List {
					cv := in.info.Types[cx].Value
					if cv == nil {
						// non-constant case expression
						for _, r := range in.eval(cx, tv.st) {
							if r.v.K == kConst && constant.Compare(r.v.C, token.EQL, tv.v.C) {
								matched = true
							} else if r.v.K != kConst {
								in.undecide(cx.Pos(), "non-constant case expression")
							}
						}
					} else if sameKindCompare(cv, tv.v.C) {
						matched = true
					}
					if matched {
						break
					}
				}
				if matched {
					finish(in.execList(cc.Body, tv.st))
					break
				}
			}
			if !matched {
				if deflt != nil {
					finish(in.execList(deflt.Body, tv.st))
				} else {
					if s == in.dispatchSw {
						tv.st.notes = append(tv.st.notes, "no-case:"+tv.v.String())
					}
					out = append(out, Exit{st: tv.st})
				}
			}
		}
	}
	return out
}

func sameKindCompare(a, b constant.Value) bool {
	if a.Kind() != b.Kind() {
		if (a.Kind() == constant.Int || a.Kind() == constant.Float) && (b.Kind() == constant.Int || b.Kind() == constant.Float) {
			return constant.Compare(a, token.EQL, b)
		}
		return false
	}
	return constant.Compare(a, token.EQL, b)
}

func (in *Interp) execTypeSwitch(s *ast.TypeSwitchStmt, st *State) []Exit {
	var out []Exit
	cur := []*State{st}
	if s.Init != nil {
		cur = nil
		for _, e := range in.exec(s.Init, st) {
			if e.ctl == cFall {
				cur = append(cur, e.st)
			} else {
				out = append(out, e)
			}
		}
	}
	// evaluate the operand for effects
	var operand ast.Expr
	switch a := s.Assign.(type) {
	case *ast.AssignStmt:
		operand = a.Rhs[0].(*ast.TypeAssertExpr).X
	case *ast.ExprStmt:
		operand = a.X.(*ast.TypeAssertExpr).X
	}
	var cur2 []*State
	for _, c := range cur {
		for _, r := range in.eval(operand, c) {
			cur2 = append(cur2, r.st)
		}
	}
	hasDefault := false
	for _, c0 := range cur2 {
		for _, c := range s.Body.List {
			cc := c.(*ast.CaseClause)
			if cc.List == nil {
				hasDefault = true
			}
			n := c0.clone()
			if obj := in.info.Implicits[cc]; obj != nil {
				n.locals[obj] = vTop
			}
			for _, e := range in.execList(cc.Body, n) {
				if e.ctl == cBreak {
					e.ctl = cFall
				}
				out = append(out, e)
			}
		}
		// A type switch over a call result is assumed to list every dynamic
		// type the callee can return (checked separately, not here).
		if _, isCall := ast.Unparen(operand).(*ast.CallExpr); !hasDefault && !isCall {
			out = append(out, Exit{st: c0})
		}
	}
	return out
}

// execFor runs a generic loop to a fixpoint over the (finite) states at its
// head.
func (in *Interp) execFor(s *ast.ForStmt, st *State) []Exit {
	var out []Exit
	cur := []*State{st}
	if s.Init != nil {
		cur = nil
		for _, e := range in.exec(s.Init, st) {
			if e.ctl == cFall {
				cur = append(cur, e.st)
			} else {
				out = append(out, e)
			}
		}
	}
	seen := map[string]bool{}
	work := cur
	for len(work) > 0 {
		h := work[0]
		work = work[1:]
		key := in.fullKey(h)
		if seen[key] {
			continue
		}
		seen[key] = true
		if len(seen) > 5000 {
			in.undecide(s.Pos(), "loop does not reach a fixpoint in the abstract domain")
			return out
		}
		type bs struct {
			st *State
			v  bool
		}
		var branches []bs
		if s.Cond == nil {
			branches = []bs{{h, true}}
		} else {
			for _, b := range in.cond(s.Cond, h) {
				branches = append(branches, bs{b.st, b.v})
			}
		}
		for _, b := range branches {
			if !b.v {
				out = append(out, Exit{st: b.st})
				continue
			}
			for _, e := range in.exec(s.Body, b.st) {
				switch e.ctl {
				case cBreak:
					out = append(out, Exit{st: e.st})
				case cFall, cContinue:
					if s.Post != nil {
						for _, pe := range in.exec(s.Post, e.st) {
							if pe.ctl == cFall {
								work = append(work, pe.st)
							} else {
								out = append(out, pe)
							}
						}
					} else {
						work = append(work, e.st)
					}
				default:
					out = append(out, e)
				}
			}
		}
	}
	return out
}

func (in *Interp) fullKey(s *State) string {
	var sb strings.Builder
	names := map[any]string{}
	for k := range s.locals {
		if o, ok := k.(types.Object); ok {
			names[k] = fmt.Sprintf("%s@%d", o.Name(), o.Pos())
		}
	}
	sb.WriteString(s.ctrlKey(names))
	fmt.Fprintf(&sb, "|ev=%v|rem=%d,%d|known=%v", s.events, s.remLo, s.remHi, s.known)
	if s.scan != nil {
		fmt.Fprintf(&sb, "|scan=%c%v%d", s.scan.Outcome, s.scan.Kpos, s.scan.Break)
	}
	return sb.String()
}

func (in *Interp) execRange(s *ast.RangeStmt, st *State) []Exit {
	var out []Exit
	for _, xr := range in.eval(s.X, st) {
		if xr.v.K == kBuf {
			out = append(out, in.execScan(s, xr.st, xr.v)...)
			continue
		}
		// generic range over an unknown collection: zero or more iterations
		seen := map[string]bool{}
		work := []*State{xr.st}
		for len(work) > 0 {
			h := work[0]
			work = work[1:]
			key := in.fullKey(h)
			if seen[key] {
				continue
			}
			seen[key] = true
			if len(seen) > 5000 {
				in.undecide(s.Pos(), "range loop does not reach a fixpoint")
				return out
			}
			out = append(out, Exit{st: h.clone()}) // loop ends here
			b := h.clone()
			if s.Key != nil {
				for _, st2 := range in.assignTo(s.Key, Val{K: kTop, NonNeg: true}, b, s.Pos()) {
					b = st2
				}
			}
			if s.Value != nil {
				for _, st2 := range in.assignTo(s.Value, vTop, b, s.Pos()) {
					b = st2
				}
			}
			for _, e := range in.exec(s.Body, b) {
				switch e.ctl {
				case cBreak:
					out = append(out, Exit{st: e.st})
				case cFall, cContinue:
					work = append(work, e.st)
				default:
					out = append(out, e)
				}
			}
		}
	}
	return out
}

// execScan summarises `for i, b = range buf[off+d:] { BODY }`: a scan over the
// bytes following the dispatched byte. The number K of passing bytes is
// abstracted to {0, >=1}; a passing iteration must leave the tracked state
// unchanged (otherwise the loop is not a class scan and the arm is undecided).
func (in *Interp) execScan(s *ast.RangeStmt, st *State, bv Val) []Exit {
	if bv.Flag || bv.B != -1 || st.cur < 0 {
		in.undecide(s.Pos(), "range over a buffer slice with unrecognised bounds")
		return nil
	}
	if st.scan != nil {
		in.undecide(s.Pos(), "second buffer scan in one arm")
		return nil
	}
	if s.Tok != token.ASSIGN && s.Tok != token.DEFINE {
		in.undecide(s.Pos(), "range form")
		return nil
	}
	base := bv.A
	if base < 0 {
		in.undecide(s.Pos(), "scan starts before the dispatched byte")
		return nil
	}
	var out []Exit
	// Outcome E: empty range, loop variables untouched (impossible when the
	// scan starts at the dispatched byte itself).
	if base >= 1 && st.remLo <= base-1 {
		e := st.clone()
		e.remHi = base - 1
		if e.remLo > e.remHi {
			e.remLo = e.remHi
		}
		e.scan = &scanInfo{Base: base, Outcome: 'E'}
		out = append(out, Exit{st: e})
	}
	if st.remHi != -1 && st.remHi < base {
		return out
	}
	pre := st.clone()
	if pre.remLo < base {
		pre.remLo = base
	}
	preKey := in.fullKey(pre)
	var pass [256]bool
	type brk struct {
		b  int
		st *State
	}
	var breaks []brk
	var passStates []*State
	for _, b := range in.cls.reps() {
		it := pre.clone()
		it.scan = &scanInfo{Base: base, Outcome: 'S'} // scanning marker
		var sts []*State
		sts = []*State{it}
		if s.Key != nil {
			var n []*State
			for _, x := range sts {
				n = append(n, in.assignTo(s.Key, Val{K: kScanIdx, A: 0}, x, s.Pos())...)
			}
			sts = n
		}
		if s.Value != nil {
			var n []*State
			for _, x := range sts {
				n = append(n, in.assignTo(s.Value, vByte(b), x, s.Pos())...)
			}
			sts = n
		}
		for _, x := range sts {
			for _, e := range in.exec(s.Body, x) {
				switch e.ctl {
				case cBreak:
					breaks = append(breaks, brk{b, e.st})
				case cFall, cContinue:
					// passing iteration: must not change the tracked state
					chk := e.st.clone()
					chk.scan = nil
					for _, kv := range []ast.Expr{s.Key, s.Value} {
						if kv != nil {
							if id, ok := kv.(*ast.Ident); ok {
								obj := in.info.Uses[id]
								if obj == nil {
									obj = in.info.Defs[id]
								}
								if ov, ok := pre.locals[obj]; ok {
									chk.locals[obj] = ov
								} else {
									delete(chk.locals, obj)
								}
							}
						}
					}
					if in.fullKey(chk) != preKey {
						in.undecide(s.Pos(), "buffer scan changes tracked state on a passing byte 0x%02x", b)
						return nil
					}
					for _, m := range in.cls.members(b) {
						pass[m] = true
					}
					passStates = append(passStates, e.st)
				default:
					out = append(out, e)
				}
			}
		}
	}
	anyPass := false
	for b := 0; b < 256; b++ {
		if pass[b] {
			anyPass = true
		}
	}
	for _, kpos := range []bool{false, true} {
		if kpos && !anyPass {
			continue
		}
		kb, hasKnown := st.known[base]
		if base == 0 {
			kb, hasKnown = st.cur, true
		}
		if kpos && hasKnown && !pass[kb] {
			continue
		}
		// Outcome B: break on byte b after K passing bytes.
		for _, br := range breaks {
			if !kpos && hasKnown && in.cls.rep(br.b) != in.cls.rep(kb) {
				continue
			}
			e := br.st.clone()
			e.scan = &scanInfo{Base: base, Pass: pass, Kpos: kpos, Outcome: 'B', Break: br.b}
			if kpos {
				if !e.remAtLeast(base + 1) {
					continue // the buffer ends before a byte could break the scan
				}
			}
			out = append(out, Exit{st: e})
		}
		// Outcome X: every remaining byte passes (K >= 1 necessarily).
		if kpos {
			for _, b := range in.cls.reps() {
				if !pass[b] {
					continue
				}
				// the last passing byte is b; i = K-1
				for _, ps := range passStates {
					if bvv, ok := in.localVal(ps, s.Value); ok {
						if iv, ok := bvv.isInt(); ok && int(iv) == b {
							e := ps.clone()
							e.scan = &scanInfo{Base: base, Pass: pass, Kpos: true, Outcome: 'X', Break: b}
							if s.Key != nil {
								for _, x := range in.assignTo(s.Key, Val{K: kScanIdx, A: -1}, e, s.Pos()) {
									e = x
								}
							}
							out = append(out, Exit{st: e})
							break
						}
					}
				}
			}
		}
	}
	return out
}

func (in *Interp) localVal(st *State, e ast.Expr) (Val, bool) {
	id, ok := e.(*ast.Ident)
	if !ok {
		return Val{}, false
	}
	obj := in.info.Uses[id]
	if obj == nil {
		obj = in.info.Defs[id]
	}
	v, ok := st.locals[obj]
	return v, ok
}

// ---------------------------------------------------------------- conditions

type condRes struct {
	st *State
	v  bool
}

func (in *Interp) cond(e ast.Expr, st *State) []condRes {
	switch x := e.(type) {
	case *ast.ParenExpr:
		return in.cond(x.X, st)
	case *ast.UnaryExpr:
		if x.Op == token.NOT {
			rs := in.cond(x.X, st)
			for i := range rs {
				rs[i].v = !rs[i].v
			}
			return rs
		}
	case *ast.BinaryExpr:
		switch x.Op {
		case token.LAND:
			var out []condRes
			for _, l := range in.cond(x.X, st) {
				if !l.v {
					out = append(out, l)
				} else {
					out = append(out, in.cond(x.Y, l.st)...)
				}
			}
			return out
		case token.LOR:
			var out []condRes
			for _, l := range in.cond(x.X, st) {
				if l.v {
					out = append(out, l)
				} else {
					out = append(out, in.cond(x.Y, l.st)...)
				}
			}
			return out
		case token.EQL, token.NEQ, token.LSS, token.LEQ, token.GTR, token.GEQ:
			if in.nilTested != nil && (x.Op == token.EQL || x.Op == token.NEQ) {
				// nil test of a receiver field the machine does not track (a callback, a channel): its
				// answer is the same through the whole parse, so the first answer is remembered
				if f, ok := in.nilTestField(x, st); ok {
					if v, has := st.fields[f]; has && (v.K == kNil || v.K == kNonNil) {
						return []condRes{{st, (v.K == kNil) == (x.Op == token.EQL)}}
					}
					t, fl := st.clone(), st
					if x.Op == token.EQL {
						t.fields[f], fl.fields[f] = Val{K: kNil}, Val{K: kNonNil}
					} else {
						t.fields[f], fl.fields[f] = Val{K: kNonNil}, Val{K: kNil}
					}
					return []condRes{{t, true}, {fl, false}}
				}
			}
			var out []condRes
			for _, l := range in.eval(x.X, st) {
				for _, r := range in.eval(x.Y, l.st) {
					out = append(out, in.compare(x.Op, l.v, r.v, r.st, x)...)
				}
			}
			return out
		}
	}
	var out []condRes
	for _, r := range in.eval(e, st) {
		if b, ok := r.v.isBool(); ok {
			out = append(out, condRes{r.st, b})
			continue
		}
		if r.v.Stale {
			r.st.readStale = append(r.st.readStale, in.prog.Pos(e.Pos())+" condition")
		}
		t, f := r.st.clone(), r.st
		if in.selfEvents || in.mirror {
			pos := in.condKey(e)
			t.decisions = append(append([]string{}, t.decisions...), pos+"=1")
			f.decisions = append(append([]string{}, f.decisions...), pos+"=0")
		}
		out = append(out, condRes{t, true}, condRes{f, false})
	}
	return out
}

func flipOp(op token.Token) token.Token {
	switch op {
	case token.LSS:
		return token.GTR
	case token.LEQ:
		return token.GEQ
	case token.GTR:
		return token.LSS
	case token.GEQ:
		return token.LEQ
	}
	return op
}

func cmpInt(op token.Token, a, b int) bool {
	switch op {
	case token.EQL:
		return a == b
	case token.NEQ:
		return a != b
	case token.LSS:
		return a < b
	case token.LEQ:
		return a <= b
	case token.GTR:
		return a > b
	case token.GEQ:
		return a >= b
	}
	return false
}

func (in *Interp) compare(op token.Token, l, r Val, st *State, at ast.Expr) []condRes {
	if l.FromB || r.FromB {
		o := r
		fop := op
		if r.FromB {
			o = l
			fop = flipOp(op)
		}
		if c, ok := o.isInt(); ok && !o.FromB {
			switch fop {
			case token.EQL, token.NEQ:
				in.cls.request("eq", int(c), "")
			case token.LSS, token.GEQ:
				in.cls.request("lt", int(c), "")
			case token.LEQ, token.GTR:
				in.cls.request("lt", int(c)+1, "")
			}
		} else {
			in.cls.request("identity", 0, "input byte compared with a non-constant at "+in.prog.Pos(at.Pos()))
		}
	}
	fork := func() []condRes {
		if l.Stale || r.Stale {
			st.readStale = append(st.readStale, in.prog.Pos(at.Pos())+" comparison")
		}
		t, f := st.clone(), st
		if in.selfEvents || in.mirror {
			pos := in.condKey(at)
			t.decisions = append(append([]string{}, t.decisions...), pos+"=1")
			f.decisions = append(append([]string{}, f.decisions...), pos+"=0")
		}
		return []condRes{{t, true}, {f, false}}
	}
	if l.K == kConst && r.K == kConst {
		if l.C.Kind() == r.C.Kind() || (l.C.Kind() != constant.String && r.C.Kind() != constant.String && l.C.Kind() != constant.Bool && r.C.Kind() != constant.Bool) {
			return []condRes{{st, constant.Compare(l.C, op, r.C)}}
		}
		return fork()
	}
	// nil tests
	if r.K == kNil || l.K == kNil {
		o := l
		if l.K == kNil {
			o = r
		}
		if op == token.EQL || op == token.NEQ {
			switch o.K {
			case kNil:
				return []condRes{{st, op == token.EQL}}
			case kNonNil:
				return []condRes{{st, op == token.NEQ}}
			}
		}
		return fork()
	}
	// normalise so that the interesting operand is on the left
	if r.K == kLen || r.K == kOff || r.K == kScanIdx || (r.K == kTop && l.K == kConst) || r.K == kBufStr {
		l, r = r, l
		op = flipOp(op)
	}
	switch l.K {
	case kLen:
		// len(S)+A op c
		if c, ok := r.isInt(); ok {
			stk, ok2 := st.stacks[l.S]
			if !ok2 {
				return fork()
			}
			thr := int(c) - l.A // len(S) op thr
			if stk.Unknown {
				if stk.Top.Stale {
					st.readStale = append(st.readStale, in.prog.Pos(at.Pos())+" length of container stack "+l.S)
				}
				return fork()
			}
			if stk.Empty {
				return []condRes{{st, cmpInt(op, 0, thr)}}
			}
			// len >= 1: decide when every len >= 1 gives the same answer
			a1 := cmpInt(op, 1, thr)
			a2 := cmpInt(op, 2, thr)
			a3 := cmpInt(op, 1000000, thr)
			if a1 == a2 && a2 == a3 && (thr <= 1 || op == token.NEQ && thr < 1) {
				return []condRes{{st, a1}}
			}
			if a1 == a2 && a2 == a3 {
				// same for 1,2,big but thr > 1: could differ in between
				lo := true
				for n := 1; n <= thr+2; n++ {
					if cmpInt(op, n, thr) != a1 {
						lo = false
					}
				}
				if lo {
					return []condRes{{st, a1}}
				}
			}
			return fork()
		}
	case kOff:
		// off0+A(+K) op len(buf)   <=>  A(+K) op 1+rem
		if r.K == kLenBuf && !l.Flag {
			// A op 1+rem  <=> rem flip(op) A-1
			t := l.A - 1
			var out []condRes
			// true branch / false branch with refined rem interval
			tr, fa := st.clone(), st
			feasT, feasF := true, true
			switch op {
			case token.LEQ: // A <= 1+rem  <=> rem >= t
				feasT = tr.remAtLeast(t)
				feasF = fa.remAtMost(t - 1)
			case token.LSS: // A < 1+rem <=> rem >= t+1
				feasT = tr.remAtLeast(t + 1)
				feasF = fa.remAtMost(t)
			case token.GEQ: // A >= 1+rem <=> rem <= t
				feasT = tr.remAtMost(t)
				feasF = fa.remAtLeast(t + 1)
			case token.GTR: // rem < t
				feasT = tr.remAtMost(t - 1)
				feasF = fa.remAtLeast(t)
			default:
				return fork()
			}
			if feasT {
				out = append(out, condRes{tr, true})
			}
			if feasF {
				out = append(out, condRes{fa, false})
			}
			return out
		}
	case kScanIdx:
		if c, ok := r.isInt(); ok && st.scan != nil {
			// K + A op c
			thr := int(c) - l.A
			if !st.scan.Kpos {
				return []condRes{{st, cmpInt(op, 0, thr)}}
			}
			a1, a2, a3 := cmpInt(op, 1, thr), cmpInt(op, 2, thr), cmpInt(op, 1000000, thr)
			if a1 == a2 && a2 == a3 && thr <= 1 {
				return []condRes{{st, a1}}
			}
			return fork()
		}
	case kBufStr:
		if s, ok := r.isStr(); ok && (op == token.EQL || op == token.NEQ) {
			lo, hi := l.A, l.B
			for i := 0; i < len(s); i++ {
				in.cls.request("eq", int(s[i]), "")
			}
			if hi-lo != len(s) {
				return []condRes{{st, op == token.NEQ}}
			}
			// definite mismatch on known bytes?
			for i := 0; i < len(s); i++ {
				p := lo + i
				kb := -1
				if p == 0 {
					kb = st.cur
				} else if v, ok := st.known[p]; ok {
					kb = v
				}
				if kb >= 0 && kb != int(s[i]) {
					return []condRes{{st, op == token.NEQ}}
				}
			}
			eq := st.clone()
			if eq.known == nil {
				eq.known = map[int]int{}
			}
			for i := 0; i < len(s); i++ {
				if lo+i >= 1 {
					eq.known[lo+i] = int(s[i])
				}
			}
			if !eq.remAtLeast(hi - 1) {
				return []condRes{{st, op == token.NEQ}}
			}
			return []condRes{{eq, op == token.EQL}, {st, op == token.NEQ}}
		}
	case kTop:
		if c, ok := r.isInt(); ok && l.NonNeg {
			// x >= 0 known
			switch op {
			case token.LSS:
				if c <= 0 {
					return []condRes{{st, false}}
				}
			case token.GEQ:
				if c <= 0 {
					return []condRes{{st, true}}
				}
			case token.EQL:
				if c < 0 {
					return []condRes{{st, false}}
				}
			case token.NEQ:
				if c < 0 {
					return []condRes{{st, true}}
				}
			case token.LEQ:
				if c < 0 {
					return []condRes{{st, false}}
				}
			case token.GTR:
				if c < 0 {
					return []condRes{{st, true}}
				}
			}
		}
	}
	return fork()
}

func (s *State) remAtLeast(n int) bool {
	if s.remHi != -1 && s.remHi < n {
		return false
	}
	if s.remLo < n {
		s.remLo = n
	}
	return true
}

func (s *State) remAtMost(n int) bool {
	if n < 0 || s.remLo > n {
		return false
	}
	if s.remHi == -1 || s.remHi > n {
		s.remHi = n
	}
	return true
}

func (s *State) markAssigned(f string) {
	if f == "" {
		return
	}
	if s.assigned == nil {
		s.assigned = map[string]bool{}
	}
	s.assigned[f] = true
}

// scratchAssign follows the truncate / append / consume typestate of scratch
// byte buffers (e.g. the token accumulator): appending to a buffer whose
// content was already consumed (or is left over from a previous call) without
// truncating it first prepends stale bytes to the next token.
func (in *Interp) scratchAssign(lhs, rhs ast.Expr, st *State) {
	if in.noScratch {
		return
	}
	f := in.fieldPath(lhs, st)
	if f == "" || !in.scratch[f] {
		return
	}
	switch r := rhs.(type) {
	case *ast.SliceExpr:
		if in.fieldPath(r.X, st) == f && r.High != nil && isZeroLit(r.High) && (r.Low == nil || isZeroLit(r.Low)) {
			delete(st.garbage, f)
			return
		}
	case *ast.CallExpr:
		if id, ok := r.Fun.(*ast.Ident); ok {
			switch id.Name {
			case "append":
				if len(r.Args) >= 1 && in.fieldPath(r.Args[0], st) == f {
					if st.garbage[f] {
						st.notes = append(st.notes, "scratch-append-stale:"+f+":"+in.prog.Pos(rhs.Pos()))
					}
					return
				}
			case "make":
				delete(st.garbage, f)
				return
			}
		}
	}
}

// scratchConsume marks a scratch buffer as consumed when it is converted to a
// string-like value (the token is complete).
func (in *Interp) scratchConsume(arg ast.Expr, st *State) {
	if in.noScratch {
		return
	}
	f := in.fieldPath(arg, st)
	if f == "" || !in.scratch[f] {
		return
	}
	if st.garbage == nil {
		st.garbage = map[string]bool{}
	}
	st.garbage[f] = true
}

// buildAssign follows the kind of the top of the build stack (the []any /
// []Node slice that values, keys and container placeholders are pushed on).
func (in *Interp) buildAssign(lhs, rhs ast.Expr, st *State) {
	if !in.buildKinds {
		return
	}
	f := in.fieldPath(lhs, st)
	if f == "" || f != in.buildFld || in.buildFld == "" {
		return
	}
	if in.selfEvents {
		st.events = append(st.events, Event{Name: "B", Arg: in.buildOpName(f, rhs, st)})
	}
	in.buildAssign1(f, rhs, st)
}

// buildOpName names the syntactic form of a build-stack update.
func (in *Interp) buildOpName(f string, rhs ast.Expr, st *State) string {
	switch r := rhs.(type) {
	case *ast.CallExpr:
		if id, ok := r.Fun.(*ast.Ident); ok && id.Name == "append" && len(r.Args) == 2 && !r.Ellipsis.IsValid() {
			t := in.info.TypeOf(r.Args[1])
			if t != nil {
				if n, ok := t.(*types.Named); ok && n.Obj().Name() == "Key" {
					return "+key"
				}
				if _, isMap := t.Underlying().(*types.Map); isMap {
					return "+map"
				}
				return "+val"
			}
			return "+?"
		}
		return "call"
	case *ast.SliceExpr:
		if r.High == nil {
			return "slice"
		}
		if isZeroLit(r.High) {
			return "reset"
		}
		if be, ok := ast.Unparen(r.High).(*ast.BinaryExpr); ok && be.Op == token.SUB && isOne(be.Y) {
			if c, ok := ast.Unparen(be.X).(*ast.CallExpr); ok && len(c.Args) == 1 && in.fieldPath(c.Args[0], st) == f {
				if cid, ok := c.Fun.(*ast.Ident); ok && cid.Name == "len" {
					return "pop"
				}
			}
		}
		if c, ok := ast.Unparen(r.High).(*ast.CallExpr); ok {
			if cid, ok := c.Fun.(*ast.Ident); ok && cid.Name == "cap" {
				return "cap"
			}
		}
		return "trunc"
	}
	return "?"
}

// isBuildElem: e is an element of the build stack (B[...]).
func (in *Interp) isBuildElem(e ast.Expr, st *State) bool {
	ix, ok := ast.Unparen(e).(*ast.IndexExpr)
	return ok && in.buildFld != "" && in.fieldPath(ix.X, st) == in.buildFld
}

func (in *Interp) buildAssign1(f string, rhs ast.Expr, st *State) {
	switch r := rhs.(type) {
	case *ast.CallExpr:
		id, ok := r.Fun.(*ast.Ident)
		if !ok {
			st.bs = 0
			return
		}
		switch id.Name {
		case "append":
			if len(r.Args) == 2 && !r.Ellipsis.IsValid() && in.fieldPath(r.Args[0], st) == f {
				t := in.info.TypeOf(r.Args[1])
				st.bs = 'O'
				if t != nil {
					if n, ok := t.(*types.Named); ok && n.Obj().Name() == "Key" && n.Obj().Pkg() != nil && strings.HasSuffix(n.Obj().Pkg().Path(), "/gen") {
						st.bs = 'K'
					} else if _, isMap := t.Underlying().(*types.Map); isMap {
						st.bs = 'M'
					}
				}
				return
			}
			st.bs = 0
		case "make":
			st.bs = 'O'
		default:
			st.bs = 0
		}
	case *ast.SliceExpr:
		if in.fieldPath(r.X, st) != f {
			st.bs = 0
			return
		}
		if r.High == nil {
			return
		}
		if isZeroLit(r.High) {
			st.bs = 'O'
			return
		}
		// B[:len(B)-1]: pop one element
		if be, ok := ast.Unparen(r.High).(*ast.BinaryExpr); ok && be.Op == token.SUB && isOne(be.Y) {
			if c, ok := ast.Unparen(be.X).(*ast.CallExpr); ok && len(c.Args) == 1 && in.fieldPath(c.Args[0], st) == f {
				if cid, ok := c.Fun.(*ast.Ident); ok && cid.Name == "len" {
					switch st.bs {
					case 'K':
						st.bs = 'M'
					case 'M':
						st.bs = st.pendingRestore
					case 'O':
						st.bs = 'O'
					}
					return
				}
				if cid, ok := c.Fun.(*ast.Ident); ok && cid.Name == "cap" {
					return
				}
			}
		}
		if c, ok := ast.Unparen(r.High).(*ast.CallExpr); ok {
			if cid, ok := c.Fun.(*ast.Ident); ok && cid.Name == "cap" {
				return // B[:cap(B)]: clean-up at the end of an entry
			}
		}
		// truncation to the start of the frame that was just closed
		st.bs = st.pendingRestore
	default:
		st.bs = 0
	}
}

func isOne(e ast.Expr) bool {
	bl, ok := e.(*ast.BasicLit)
	return ok && bl.Value == "1"
}

// keyAssertion recognises `B[len(B)-1].(gen.Key)` and answers it from the
// tracked build-stack kind.
func (in *Interp) keyAssertion(e ast.Expr, st *State) (ok bool, known bool) {
	ta, isTA := ast.Unparen(e).(*ast.TypeAssertExpr)
	if !isTA || ta.Type == nil || in.buildFld == "" || st.bs == 0 {
		return false, false
	}
	t := in.info.TypeOf(ta.Type)
	n, isNamed := t.(*types.Named)
	if !isNamed || n.Obj().Name() != "Key" || n.Obj().Pkg() == nil || !strings.HasSuffix(n.Obj().Pkg().Path(), "/gen") {
		return false, false
	}
	ix, isIx := ast.Unparen(ta.X).(*ast.IndexExpr)
	if !isIx || in.fieldPath(ix.X, st) != in.buildFld {
		return false, false
	}
	be, isBe := ast.Unparen(ix.Index).(*ast.BinaryExpr)
	if !isBe || be.Op != token.SUB || !isOne(be.Y) {
		return false, false
	}
	return st.bs == 'K', true
}

func isNilable(t types.Type) bool {
	if t == nil {
		return false
	}
	switch t.Underlying().(type) {
	case *types.Signature, *types.Chan, *types.Pointer, *types.Map, *types.Interface, *types.Slice:
		return true
	}
	return false
}

// nilTestField recognises `recv.f == nil` / `recv.f != nil` for an untracked
// nilable receiver field.
func (in *Interp) nilTestField(x *ast.BinaryExpr, st *State) (string, bool) {
	isNil := func(e ast.Expr) bool {
		tv, ok := in.info.Types[e]
		return ok && tv.IsNil()
	}
	var other ast.Expr
	switch {
	case isNil(x.Y):
		other = x.X
	case isNil(x.X):
		other = x.Y
	default:
		return "", false
	}
	f := in.fieldPath(other, st)
	if f == "" || !in.nilTested[f] {
		return "", false
	}
	return f, true
}

// condKey identifies a condition over untracked data by its text with the
// receiver's name normalised, so that hand-copied front-ends (p.num..., t.num...)
// and the fast and slow path of one front-end share keys.
func (in *Interp) condKey(e ast.Expr) string {
	s := types.ExprString(e)
	if in.recvName != "" {
		s = strings.ReplaceAll(s, in.recvName+".", "recv.")
	}
	return s
}

// noteMirror: `X.BigBuf = append(X.BigBuf, b)` with b the dispatched byte.
func (in *Interp) noteMirror(lhs, rhs ast.Expr, st *State) {
	if !in.mirror || st.cur < 0 {
		return
	}
	f := in.fieldPath(lhs, st)
	if !strings.HasSuffix(f, ".BigBuf") {
		return
	}
	call, ok := rhs.(*ast.CallExpr)
	if !ok || len(call.Args) != 2 || call.Ellipsis.IsValid() {
		return
	}
	if id, ok := call.Fun.(*ast.Ident); !ok || id.Name != "append" || in.fieldPath(call.Args[0], st) != f {
		return
	}
	if in.isDispatchedByte(call.Args[1], st) {
		st.mirrored = true
	}
}

// isDispatchedByte: e evaluates to the byte being dispatched (the loop variable, not a constant).
func (in *Interp) isDispatchedByte(e ast.Expr, st *State) bool {
	id, ok := ast.Unparen(e).(*ast.Ident)
	if !ok {
		return false
	}
	obj := in.info.Uses[id]
	v, ok := st.locals[obj]
	if !ok {
		return false
	}
	bv, isInt := v.isInt()
	return isInt && v.FromB && int(bv) == st.cur
}
