package main

import (
	"fmt"
	"go/ast"
	"go/constant"
	"go/token"
	"go/types"
	"sort"
	"strings"

	"golang.org/x/tools/go/packages"
)

func init() { rules["C12"] = ruleC12 }

// Operand kinds of the filter-script truth matrix.
type okind int

const (
	okNil okind = iota
	okTrue
	okFalse
	okInt
	okFloat
	okStr
	okList
	okMap
	okNothing
	okGenList // gen.Array: a named slice type - uncomparable, and not matched by a `case []any`
	okGenMap  // gen.Object
	okCount
)

var okNames = [...]string{"nil", "true", "false", "int", "float", "string", "list", "map", "Nothing", "gen.Array", "gen.Object"}

func (k okind) container() bool { return k == okList || k == okMap || k == okGenList || k == okGenMap }

func (k okind) numeric() bool { return k == okInt || k == okFloat }
func (k okind) isBool() bool  { return k == okTrue || k == okFalse }

// goTypeKind maps a Go type (as it appears in a type switch / assertion of the
// evaluator) to the operand kinds it matches.
func goTypeKinds(t types.Type) []okind {
	switch u := t.Underlying().(type) {
	case *types.Basic:
		switch {
		case u.Kind() == types.Int64:
			return []okind{okInt}
		case u.Kind() == types.Float64:
			return []okind{okFloat}
		case u.Info()&types.IsString != 0:
			return []okind{okStr}
		case u.Info()&types.IsBoolean != 0:
			return []okind{okTrue, okFalse}
		}
	case *types.Slice:
		if _, named := t.(*types.Named); named {
			return []okind{okGenList}
		}
		if _, isIface := u.Elem().Underlying().(*types.Interface); isIface {
			return []okind{okList}
		}
		return nil // a typed slice ([]int): not an operand kind of the matrix
	case *types.Map:
		if _, named := t.(*types.Named); named {
			return []okind{okGenMap}
		}
		if _, isIface := u.Elem().Underlying().(*types.Interface); isIface {
			return []okind{okMap}
		}
		return nil
	}
	return nil
}

// abstract values of the matrix evaluator
type mval struct {
	t    string // bool | opnd | zero | rtype | nothing | nil | unknown | panic
	b    bool
	side byte // 'L' or 'R' for opnd / rtype
}

type mcell struct {
	l, r okind
	ord  int // -1, 0, 1: order of left relative to right when both numeric or both strings
}

type mevalCtx struct {
	info     *types.Info
	pk       *packages.Package
	prog     *Program
	cell     mcell
	env      map[types.Object]mval
	left     types.Object
	right    types.Object
	result   *mval
	resultI  types.Object // the index variable of the result slot
	stackO   types.Object
	undec    []string
	panicked string
	depth    int
}

func (c *mevalCtx) kindOf(side byte) okind {
	if side == 'L' {
		return c.cell.l
	}
	return c.cell.r
}

func (c *mevalCtx) undecide(pos token.Pos, f string, a ...any) {
	c.undec = append(c.undec, c.prog.Pos(pos)+": "+fmt.Sprintf(f, a...))
}

type mctl int

const (
	mFall mctl = iota
	mBreak
	mReturn
)

func (c *mevalCtx) execList(list []ast.Stmt) (mctl, mval) {
	for _, s := range list {
		if ctl, v := c.exec(s); ctl != mFall {
			return ctl, v
		}
		if c.panicked != "" {
			return mReturn, mval{t: "panic"}
		}
	}
	return mFall, mval{}
}

func (c *mevalCtx) assertOK(side byte, t types.Type) bool {
	for _, k := range goTypeKinds(t) {
		if k == c.kindOf(side) {
			return true
		}
	}
	return false
}

func (c *mevalCtx) sideOf(e ast.Expr) (byte, bool) {
	o := useObj(c.info, e)
	if o == nil {
		return 0, false
	}
	if o == c.left {
		return 'L', true
	}
	if o == c.right {
		return 'R', true
	}
	if v, ok := c.env[o]; ok && v.t == "opnd" {
		return v.side, true
	}
	return 0, false
}

func (c *mevalCtx) bind(lhs ast.Expr, v mval) {
	id, ok := lhs.(*ast.Ident)
	if !ok || id.Name == "_" {
		return
	}
	o := c.info.Defs[id]
	if o == nil {
		o = c.info.Uses[id]
	}
	if o != nil {
		c.env[o] = v
	}
}

func (c *mevalCtx) exec(s ast.Stmt) (mctl, mval) {
	switch x := s.(type) {
	case *ast.AssignStmt:
		// result slot
		if len(x.Lhs) == 1 && len(x.Rhs) == 1 {
			if ix, ok := x.Lhs[0].(*ast.IndexExpr); ok && useObj(c.info, ix.X) == c.stackO && useObj(c.info, ix.Index) == c.resultI {
				v := c.eval(x.Rhs[0])
				c.result = &v
				return mFall, mval{}
			}
		}
		// v, ok := side.(T)
		if len(x.Lhs) == 2 && len(x.Rhs) == 1 {
			if ta, ok := x.Rhs[0].(*ast.TypeAssertExpr); ok && ta.Type != nil {
				side, isSide := c.sideOf(ta.X)
				if !isSide {
					c.undecide(x.Pos(), "type assertion on something other than an operand")
					return mFall, mval{}
				}
				okv := c.assertOK(side, c.info.TypeOf(ta.Type))
				if okv {
					c.bind(x.Lhs[0], mval{t: "opnd", side: side})
				} else {
					c.bind(x.Lhs[0], mval{t: "zero"})
				}
				c.bind(x.Lhs[1], mval{t: "bool", b: okv})
				return mFall, mval{}
			}
		}
		if len(x.Lhs) == len(x.Rhs) {
			for i := range x.Lhs {
				c.bind(x.Lhs[i], c.eval(x.Rhs[i]))
			}
			return mFall, mval{}
		}
		c.undecide(x.Pos(), "assignment form")
	case *ast.IfStmt:
		if x.Init != nil {
			if ctl, v := c.exec(x.Init); ctl != mFall {
				return ctl, v
			}
		}
		cv := c.eval(x.Cond)
		if c.panicked != "" {
			return mReturn, mval{t: "panic"}
		}
		if cv.t != "bool" {
			c.undecide(x.Cond.Pos(), "condition does not evaluate to a boolean in cell %v", c.cell)
			return mFall, mval{}
		}
		if cv.b {
			return c.execList(x.Body.List)
		} else if x.Else != nil {
			switch e := x.Else.(type) {
			case *ast.BlockStmt:
				return c.execList(e.List)
			default:
				return c.exec(e)
			}
		}
	case *ast.TypeSwitchStmt:
		var operand ast.Expr
		var bindName *ast.Ident
		switch a := x.Assign.(type) {
		case *ast.AssignStmt:
			operand = a.Rhs[0].(*ast.TypeAssertExpr).X
			bindName, _ = a.Lhs[0].(*ast.Ident)
		case *ast.ExprStmt:
			operand = a.X.(*ast.TypeAssertExpr).X
		}
		side, isSide := c.sideOf(operand)
		if !isSide {
			c.undecide(x.Pos(), "type switch on something other than an operand")
			return mFall, mval{}
		}
		var deflt *ast.CaseClause
		for _, cl := range x.Body.List {
			cc := cl.(*ast.CaseClause)
			if cc.List == nil {
				deflt = cc
				continue
			}
			for _, te := range cc.List {
				match := false
				if id, ok := te.(*ast.Ident); ok && id.Name == "nil" {
					match = c.kindOf(side) == okNil
				} else {
					match = c.assertOK(side, c.info.TypeOf(te))
				}
				if match {
					if obj := c.info.Implicits[cc]; obj != nil {
						c.env[obj] = mval{t: "opnd", side: side}
					}
					_ = bindName
					ctl, v := c.execList(cc.Body)
					if ctl == mBreak {
						ctl = mFall
					}
					return ctl, v
				}
			}
		}
		if deflt != nil {
			if obj := c.info.Implicits[deflt]; obj != nil {
				c.env[obj] = mval{t: "opnd", side: side}
			}
			ctl, v := c.execList(deflt.Body)
			if ctl == mBreak {
				ctl = mFall
			}
			return ctl, v
		}
	case *ast.BlockStmt:
		return c.execList(x.List)
	case *ast.BranchStmt:
		if x.Tok == token.BREAK && x.Label == nil {
			return mBreak, mval{}
		}
		c.undecide(x.Pos(), "branch statement")
	case *ast.ReturnStmt:
		if len(x.Results) == 1 {
			return mReturn, c.eval(x.Results[0])
		}
		return mReturn, mval{}
	case *ast.ExprStmt:
		c.eval(x.X)
	case *ast.DeclStmt, *ast.EmptyStmt:
	default:
		c.undecide(s.Pos(), "statement %T", s)
	}
	return mFall, mval{}
}

// ifaceEqual: Go's interface == on the two operands.
func (c *mevalCtx) ifaceEqual(a, b mval, pos token.Pos) mval {
	kind := func(v mval) (okind, bool) {
		switch v.t {
		case "opnd":
			return c.kindOf(v.side), true
		case "nothing":
			return okNothing, true
		case "nil":
			return okNil, true
		}
		return 0, false
	}
	ka, oka := kind(a)
	kb, okb := kind(b)
	if !oka || !okb {
		return mval{t: "unknown"}
	}
	sameType := ka == kb || (ka.isBool() && kb.isBool())
	if !sameType {
		return mval{t: "bool", b: false}
	}
	switch {
	case ka.container():
		c.panicked = "comparing uncomparable operands with the interface == at " + c.prog.Pos(pos)
		return mval{t: "panic"}
	case ka == okNil || ka == okNothing:
		return mval{t: "bool", b: true}
	case ka.isBool():
		return mval{t: "bool", b: ka == kb}
	default:
		if a.t == "opnd" && b.t == "opnd" && a.side != b.side {
			return mval{t: "bool", b: c.cell.ord == 0}
		}
		if a.t == "opnd" && b.t == "opnd" && a.side == b.side {
			return mval{t: "bool", b: true}
		}
	}
	return mval{t: "unknown"}
}

func (c *mevalCtx) asBool(v mval) (bool, bool) {
	switch v.t {
	case "bool":
		return v.b, true
	case "opnd":
		switch c.kindOf(v.side) {
		case okTrue:
			return true, true
		case okFalse:
			return false, true
		}
	case "zero":
		return false, true // zero value of bool (lb, _ := left.(bool))
	}
	return false, false
}

func (c *mevalCtx) eval(e ast.Expr) mval {
	switch x := ast.Unparen(e).(type) {
	case *ast.Ident:
		switch x.Name {
		case "true":
			return mval{t: "bool", b: true}
		case "false":
			return mval{t: "bool", b: false}
		case "nil":
			return mval{t: "nil"}
		}
		o := c.info.Uses[x]
		if o == c.left {
			return mval{t: "opnd", side: 'L'}
		}
		if o == c.right {
			return mval{t: "opnd", side: 'R'}
		}
		if v, ok := c.env[o]; ok {
			return v
		}
		// the exported constant Nothing of package jp
		if o != nil && o.Name() == "Nothing" && o.Parent() == c.pk.Types.Scope() {
			return mval{t: "nothing"}
		}
		return mval{t: "unknown"}
	case *ast.UnaryExpr:
		if x.Op == token.NOT {
			v := c.eval(x.X)
			if b, ok := c.asBool(v); ok {
				return mval{t: "bool", b: !b}
			}
			return mval{t: "unknown"}
		}
	case *ast.BinaryExpr:
		switch x.Op {
		case token.LAND, token.LOR:
			l := c.eval(x.X)
			lb, ok := c.asBool(l)
			if !ok {
				return mval{t: "unknown"}
			}
			if x.Op == token.LAND && !lb {
				return mval{t: "bool", b: false}
			}
			if x.Op == token.LOR && lb {
				return mval{t: "bool", b: true}
			}
			r := c.eval(x.Y)
			if r.t == "varies" {
				return r
			}
			rb, ok := c.asBool(r)
			if !ok {
				return mval{t: "unknown"}
			}
			return mval{t: "bool", b: rb}
		case token.EQL, token.NEQ, token.LSS, token.LEQ, token.GTR, token.GEQ:
			l, r := c.eval(x.X), c.eval(x.Y)
			if c.panicked != "" {
				return mval{t: "panic"}
			}
			// reflect.Type compared with nil
			if (l.t == "rtype" && r.t == "nil") || (l.t == "nil" && r.t == "rtype") {
				side := l.side
				if l.t == "nil" {
					side = r.side
				}
				isNil := c.kindOf(side) == okNil
				return mval{t: "bool", b: (x.Op == token.EQL) == isNil}
			}
			// interface comparison?
			lt, rt := c.info.TypeOf(x.X), c.info.TypeOf(x.Y)
			_, li := lt.Underlying().(*types.Interface)
			_, ri := rt.Underlying().(*types.Interface)
			if (li || ri) && (x.Op == token.EQL || x.Op == token.NEQ) {
				v := c.ifaceEqual(l, r, x.Pos())
				if v.t == "bool" && x.Op == token.NEQ {
					v.b = !v.b
				}
				return v
			}
			// reflect.Type compared with nil
			if l.t == "rtype" && r.t == "nil" || l.t == "nil" && r.t == "rtype" {
				side := l.side
				if l.t == "nil" {
					side = r.side
				}
				isNil := c.kindOf(side) == okNil
				return mval{t: "bool", b: (x.Op == token.EQL) == isNil}
			}
			// booleans
			if lb, ok := c.asBool(l); ok {
				if rb, ok := c.asBool(r); ok && (x.Op == token.EQL || x.Op == token.NEQ) {
					return mval{t: "bool", b: (lb == rb) == (x.Op == token.EQL)}
				}
			}
			// an operand compared with the zero value a failed comma-ok assertion left behind: the answer
			// depends on the operand's value (except where no string is below "")
			if (l.t == "opnd" && r.t == "zero") || (l.t == "zero" && r.t == "opnd") {
				op := x.Op
				side := l.side
				if l.t == "zero" { // mirror so that the zero is on the right
					side = r.side
					switch op {
					case token.LSS:
						op = token.GTR
					case token.GTR:
						op = token.LSS
					case token.LEQ:
						op = token.GEQ
					case token.GEQ:
						op = token.LEQ
					}
				}
				if c.kindOf(side) == okStr {
					switch op {
					case token.LSS:
						return mval{t: "bool", b: false}
					case token.GEQ:
						return mval{t: "bool", b: true}
					}
				}
				return mval{t: "varies"}
			}
			if (l.t == "lossy" && (r.t == "opnd" || r.t == "lossy")) || (r.t == "lossy" && l.t == "opnd") {
				return mval{t: "varies"}
			}
			// typed operand comparison: both sides refer to the two operands (possibly converted)
			if l.t == "opnd" && r.t == "opnd" && l.side != r.side {
				kl, kr := c.kindOf(l.side), c.kindOf(r.side)
				if (kl.numeric() && kr.numeric()) || (kl == okStr && kr == okStr) {
					ord := c.cell.ord
					if l.side == 'R' {
						ord = -ord
					}
					var b bool
					switch x.Op {
					case token.EQL:
						b = ord == 0
					case token.NEQ:
						b = ord != 0
					case token.LSS:
						b = ord < 0
					case token.LEQ:
						b = ord <= 0
					case token.GTR:
						b = ord > 0
					case token.GEQ:
						b = ord >= 0
					}
					return mval{t: "bool", b: b}
				}
			}
			return mval{t: "unknown"}
		}
	case *ast.CallExpr:
		// conversion keeps the operand reference (float64(int) is order preserving)
		if tv, ok := c.info.Types[x.Fun]; ok && tv.IsType() && len(x.Args) == 1 {
			v := c.eval(x.Args[0])
			// a conversion that can lose information (float to integer, 64 bits to fewer) does not preserve the
			// order of the operands: what a comparison of its result says depends on the value
			if v.t == "opnd" && lossyConversion(c.info.TypeOf(x.Args[0]), tv.Type) {
				return mval{t: "lossy", side: v.side}
			}
			return v
		}
		if sel, ok := x.Fun.(*ast.SelectorExpr); ok {
			if f, ok := c.info.Uses[sel.Sel].(*types.Func); ok && f.Pkg() != nil && f.Pkg().Path() == "reflect" {
				switch f.Name() {
				case "TypeOf":
					v := c.eval(x.Args[0])
					if v.t == "opnd" {
						return mval{t: "rtype", side: v.side}
					}
				case "Comparable":
					v := c.eval(sel.X)
					if v.t == "rtype" {
						k := c.kindOf(v.side)
						return mval{t: "bool", b: !k.container()}
					}
				}
				return mval{t: "unknown"}
			}
		}
		// package function of jp: inline
		if id, ok := x.Fun.(*ast.Ident); ok {
			if f, ok := c.info.Uses[id].(*types.Func); ok && f.Pkg() == c.pk.Types && c.depth < 3 {
				fd, _ := c.prog.FuncDecl(f)
				if fd != nil && fd.Body != nil {
					saved := c.env
					c.env = map[types.Object]mval{}
					for k, v := range saved {
						c.env[k] = v
					}
					i := 0
					for _, fl := range fd.Type.Params.List {
						for _, n := range fl.Names {
							if i < len(x.Args) {
								c.env[c.info.Defs[n]] = c.evalIn(saved, x.Args[i])
							}
							i++
						}
					}
					c.depth++
					_, v := c.execList(fd.Body.List)
					c.depth--
					c.env = saved
					return v
				}
			}
		}
		return mval{t: "unknown"}
	case *ast.BasicLit:
		return mval{t: "unknown"}
	}
	return mval{t: "unknown"}
}

func (c *mevalCtx) evalIn(env map[types.Object]mval, e ast.Expr) mval {
	cur := c.env
	c.env = env
	v := c.eval(e)
	c.env = cur
	return v
}

// specTruth: the documented truth value of `left op right`.
func specTruth(opname string, cell mcell) (bool, bool) {
	l, r, ord := cell.l, cell.r, cell.ord
	equal := func() bool {
		switch {
		case l.numeric() && r.numeric():
			return ord == 0
		case l == okStr && r == okStr:
			return ord == 0
		case l.isBool() && r.isBool():
			return l == r
		case l == okNil && r == okNil, l == okNothing && r == okNothing:
			return true
		}
		return false // containers and mismatched kinds are simply unequal
	}
	ordered := l.numeric() && r.numeric() || (l == okStr && r == okStr)
	lb, rb := l == okTrue, r == okTrue
	switch opname {
	case "==":
		return equal(), true
	case "!=":
		return !equal(), true
	case "<":
		return ordered && ord < 0, true
	case "<=":
		return ordered && ord <= 0, true
	case ">":
		return ordered && ord > 0, true
	case ">=":
		return ordered && ord >= 0, true
	case "&&":
		return lb && rb, true
	case "||":
		return lb || rb, true
	case "!":
		return !lb, true
	case "has", "exists":
		if !r.isBool() {
			return false, true
		}
		return rb == (l != okNothing), true
	}
	return false, false
}

func ruleC12(prog *Program, rep *Report) {
	ruleTruthMatrix(prog, rep)
	ruleOpArity(prog, rep)
	ruleRadix(prog, rep)
	rulePresenceByNil(prog, rep) // a null member must reach the operators as null, not as Nothing
	rulePrecAgree(prog, rep)     // "parentheses combine exactly as the script prints": parser and printer use one precedence relation
	ruleNormalizeTwins(prog, rep)
	ruleNumFamily(prog, rep, 1, "jp")
	ruleMustCompile(prog, rep, "jp")
	ruleOperandSet(prog, rep, 10, "jp") // a path operand that selects nothing must reach the operators as Nothing
	ruleCallOrder(prog, rep, 1, "jp")
	ruleIfaceEq(prog, rep, "jp")            // asm is not in scope: Plan.Execute turns a comparison panic into its error result
	ruleRecursionPassesNil(prog, rep, "jp") // the parent operator decides whether a group may be dropped
	ruleCarry(prog, rep, 100, nil, "jp")    // per-operand state must not leak from one operand to the next
	ruleDivGuard(prog, rep, []string{"jp:script.go"}, nil, 5)
	ruleConstIdx(prog, rep, 20, func(rel, fn string) bool {
		return strings.HasPrefix(fn, "Script.") || fn == "evalStack" || fn == "expandStack" || fn == "normalize" || fn == "same"
	}, "jp")
}

// ruleTruthMatrix: M-truth and M-table (shared by C12 and C05).
func ruleTruthMatrix(prog *Program, rep *Report) {
	rep.Explain("C12 decides the exact truth table of the comparison, logic and has/exists operators: each operator arm of the script evaluator touches its operands only through type switches, assertions and comparisons, so it is evaluated abstractly over kind(left) x kind(right) x order (kinds nil, true, false, int, float, string, list, map, Nothing; order <,=,> where both are numbers or both strings; float64(int) assumed order preserving) with Go's interface-== rule (different dynamic types: false; same uncomparable type: panic), and compared cell by cell with the documented semantics. Also: every operator in the operator table has an arm; the table maps each spelling to the operator with that spelling. Not covered: multi-valued sub-path expansion, Script.Match vs filter membership, regex operators, arithmetic results, parse precedence.")
	rep.Rules = append(rep.Rules,
		"M-truth: for ==, !=, <, <=, >, >=, &&, ||, !, has, exists the abstractly evaluated result of the operator's arm equals the specification in every cell of the kind x kind x order matrix, and no cell panics",
		"M-table: every operator variable registered in the operator map under a spelling has that spelling as its name (rx/rxa alias excepted), and every operator code has a case in the evaluator")
	pk := prog.Pkg("jp")
	if pk == nil {
		rep.Errorf("package jp missing")
		return
	}
	info := pk.TypesInfo
	// operator variables: package-level vars initialised with &op{... name: "..", code: '..'}
	type opInfo struct {
		obj  types.Object
		name string
	}
	ops := map[types.Object]*opInfo{}
	var mapLit *ast.CompositeLit
	for _, f := range pk.Syntax {
		for _, d := range f.Decls {
			gd, ok := d.(*ast.GenDecl)
			if !ok || gd.Tok != token.VAR {
				continue
			}
			for _, sp := range gd.Specs {
				vs := sp.(*ast.ValueSpec)
				for i, n := range vs.Names {
					if i >= len(vs.Values) {
						continue
					}
					val := vs.Values[i]
					if ue, ok := val.(*ast.UnaryExpr); ok && ue.Op == token.AND {
						if cl, ok := ue.X.(*ast.CompositeLit); ok {
							for _, el := range cl.Elts {
								if kv, ok := el.(*ast.KeyValueExpr); ok {
									if tv := info.Types[kv.Value]; tv.Value != nil && tv.Value.Kind() == constant.String {
										if id, ok := kv.Key.(*ast.Ident); ok && id.Name == "name" {
											ops[info.Defs[n]] = &opInfo{obj: info.Defs[n], name: constant.StringVal(tv.Value)}
										}
									}
								}
							}
						}
					}
					if cl, ok := val.(*ast.CompositeLit); ok {
						if mt, ok := info.TypeOf(cl).Underlying().(*types.Map); ok {
							if pt, ok := mt.Elem().(*types.Pointer); ok {
								if nt, ok := pt.Elem().(*types.Named); ok && nt.Obj().Name() == "op" {
									mapLit = cl
								}
							}
						}
					}
				}
			}
		}
	}
	if len(ops) < 10 || mapLit == nil {
		rep.Errorf("jp: operator variables / operator map not found (%d ops)", len(ops))
		return
	}
	// M-table
	for _, el := range mapLit.Elts {
		kv, ok := el.(*ast.KeyValueExpr)
		if !ok {
			continue
		}
		// key: X.name ; value: Y
		ksel, ok := kv.Key.(*ast.SelectorExpr)
		if !ok {
			continue
		}
		ko := useObj(info, ksel.X)
		vo := useObj(info, kv.Value)
		if ops[ko] == nil || ops[vo] == nil {
			continue
		}
		key := "jp.opMap[" + ops[ko].name + "]"
		if ko == vo {
			rep.Discharge("M-table", key, prog.Pos(kv.Pos()), "maps its own spelling to itself")
		} else if strings.Contains(ops[ko].name, "~") && strings.Contains(ops[vo].name, "~") {
			rep.Discharge("M-table", key, prog.Pos(kv.Pos()), "regex alias =~ / ~=")
		} else {
			rep.Violate(Finding{Rule: "M-table", Key: key, Pos: prog.Pos(kv.Pos()), Msg: fmt.Sprintf("the operator table maps spelling %q to the operator %q", ops[ko].name, ops[vo].name)})
		}
	}
	// the evaluator: a function with a switch whose case expressions are <opVar>.<field>
	var evalFd *ast.FuncDecl
	var evalSw *ast.SwitchStmt
	for _, f := range pk.Syntax {
		for _, d := range f.Decls {
			fd, ok := d.(*ast.FuncDecl)
			if !ok || fd.Body == nil {
				continue
			}
			ast.Inspect(fd.Body, func(n ast.Node) bool {
				sw, ok := n.(*ast.SwitchStmt)
				if !ok || sw.Tag == nil {
					return true
				}
				cnt := 0
				for _, cl := range sw.Body.List {
					for _, e := range cl.(*ast.CaseClause).List {
						if sel, ok := e.(*ast.SelectorExpr); ok && ops[useObj(info, sel.X)] != nil {
							cnt++
						}
					}
				}
				if cnt >= 10 && (evalSw == nil) {
					evalFd, evalSw = fd, sw
				}
				return true
			})
		}
	}
	if evalSw == nil {
		rep.Errorf("jp: script evaluator switch not found")
		return
	}
	// operands and result slot
	var leftO, rightO, stackO, idxO types.Object
	ast.Inspect(evalFd.Body, func(n ast.Node) bool {
		as, ok := n.(*ast.AssignStmt)
		if !ok || len(as.Lhs) != 1 || len(as.Rhs) != 1 {
			return true
		}
		ix, ok := as.Rhs[0].(*ast.IndexExpr)
		if !ok {
			return true
		}
		be, ok := ix.Index.(*ast.BinaryExpr)
		if !ok || be.Op != token.ADD {
			return true
		}
		if tv := info.Types[be.Y]; tv.Value != nil {
			if v, _ := constant.Int64Val(tv.Value); v == 1 {
				leftO = useObj(info, as.Lhs[0])
				stackO = useObj(info, ix.X)
				idxO = useObj(info, be.X)
			} else if v == 2 {
				rightO = useObj(info, as.Lhs[0])
			}
		}
		return true
	})
	if leftO == nil || rightO == nil || stackO == nil || idxO == nil {
		rep.Errorf("jp: operand variables of the evaluator not found")
		return
	}
	clauseOf := map[string]*ast.CaseClause{}
	for _, cl := range evalSw.Body.List {
		cc := cl.(*ast.CaseClause)
		for _, e := range cc.List {
			if sel, ok := e.(*ast.SelectorExpr); ok {
				if oi := ops[useObj(info, sel.X)]; oi != nil {
					clauseOf[oi.name] = cc
				}
			}
		}
	}
	// every operator in the map has an arm
	var opNames []string
	for _, oi := range ops {
		opNames = append(opNames, oi.name)
	}
	sort.Strings(opNames)
	for _, el := range mapLit.Elts {
		kv, ok := el.(*ast.KeyValueExpr)
		if !ok {
			continue
		}
		if vo := ops[useObj(info, kv.Value)]; vo != nil {
			if clauseOf[vo.name] == nil {
				rep.Violate(Finding{Rule: "M-table", Key: "jp.evalStack:no-arm:" + vo.name, Pos: prog.Pos(evalSw.Pos()), Msg: "operator " + vo.name + " is registered but the evaluator has no arm for it"})
			}
		}
	}
	// M-truth
	cells := 0
	for _, opname := range []string{"==", "!=", "<", "<=", ">", ">=", "&&", "||", "!", "has", "exists"} {
		cc := clauseOf[opname]
		if cc == nil {
			rep.Violate(Finding{Rule: "M-truth", Key: "jp:" + opname + ":no-arm", Pos: prog.Pos(evalSw.Pos()), Msg: "operator " + opname + " has no arm in the evaluator"})
			continue
		}
		for l := okind(0); l < okCount; l++ {
			for r := okind(0); r < okCount; r++ {
				ords := []int{0}
				if (l.numeric() && r.numeric()) || (l == okStr && r == okStr) {
					ords = []int{-1, 0, 1}
				}
				for _, ord := range ords {
					cell := mcell{l, r, ord}
					want, ok := specTruth(opname, cell)
					if !ok {
						continue
					}
					cells++
					ctx := &mevalCtx{info: info, pk: pk, prog: prog, cell: cell, env: map[types.Object]mval{}, left: leftO, right: rightO, stackO: stackO, resultI: idxO}
					ctx.execList(cc.Body)
					ordName := map[int]string{-1: "<", 0: "=", 1: ">"}[ord]
					key := fmt.Sprintf("jp:%s:%s,%s,%s", opname, okNames[l], okNames[r], ordName)
					desc := fmt.Sprintf("%s %s %s (left %s right)", okNames[l], opname, okNames[r], ordName)
					switch {
					case ctx.panicked != "":
						rep.Violate(Finding{Rule: "M-truth", Key: key + ":panic", Pos: prog.Pos(cc.Pos()), Msg: desc + " panics: " + ctx.panicked})
					case len(ctx.undec) > 0:
						rep.Errorf("M-truth undecided for %s: %s", desc, ctx.undec[0])
					case ctx.result != nil && ctx.result.t == "varies":
						rep.Violate(Finding{Rule: "M-truth", Key: key + ":value-dependent", Pos: prog.Pos(cc.Pos()), Msg: fmt.Sprintf("%s depends on the operand's value (it is compared with the zero value a failed type assertion left behind, or after a conversion that loses information), the documented semantics give %v for every value", desc, want)})
					case ctx.result == nil || ctx.result.t != "bool":
						got := "no boolean result"
						if ctx.result != nil {
							got = "result of kind " + ctx.result.t
						}
						rep.Errorf("M-truth undecided for %s: %s", desc, got)
					case ctx.result.b != want:
						rep.Violate(Finding{Rule: "M-truth", Key: key, Pos: prog.Pos(cc.Pos()), Msg: fmt.Sprintf("%s evaluates to %v, the documented semantics give %v", desc, ctx.result.b, want)})
					default:
						rep.Discharge("M-truth", key, prog.Pos(cc.Pos()), fmt.Sprintf("= %v", want))
					}
				}
			}
		}
	}
	rep.Eval(cells)
	if cells < 900 {
		rep.Errorf("M-truth evaluated %d cells (floor 900)", cells)
	}
}

// ruleRadix: multi-valued operands are enumerated as a mixed-radix number: the
// number of combinations is the product of the lengths and combination mi
// selects element (mi % len) of each multi-value, then divides mi by that len.
func ruleRadix(prog *Program, rep *Report) {
	rep.Rules = append(rep.Rules, "M-radix: in package jp, wherever a loop tests stack entries for the multi-value type, a counter accumulated there is multiplied by the length of that multi-value (N *= len(mv)), and an expansion selects mv[i % len(mv)] and then divides the same i by len(mv): otherwise some combinations of multi-valued operands are never evaluated")
	pk := prog.Pkg("jp")
	if pk == nil {
		return
	}
	info := pk.TypesInfo
	found := 0
	for _, f := range pk.Syntax {
		for _, d := range f.Decls {
			fd, ok := d.(*ast.FuncDecl)
			if !ok || fd.Body == nil {
				continue
			}
			ast.Inspect(fd.Body, func(n ast.Node) bool {
				is, ok := n.(*ast.IfStmt)
				if !ok || is.Init == nil {
					return true
				}
				as, ok := is.Init.(*ast.AssignStmt)
				if !ok || len(as.Lhs) != 2 || len(as.Rhs) != 1 {
					return true
				}
				ta, ok := as.Rhs[0].(*ast.TypeAssertExpr)
				if !ok || ta.Type == nil {
					return true
				}
				nt, ok := info.TypeOf(ta.Type).(*types.Named)
				if !ok {
					return true
				}
				if _, isSlice := nt.Underlying().(*types.Slice); !isSlice || nt.Obj().Pkg() != pk.Types || nt.Obj().Exported() {
					return true
				}
				mv := info.Defs[as.Lhs[0].(*ast.Ident)]
				if mv == nil {
					return true
				}
				isLenMv := func(e ast.Expr) bool {
					c, ok := ast.Unparen(e).(*ast.CallExpr)
					if !ok || len(c.Args) != 1 {
						return false
					}
					id, ok := c.Fun.(*ast.Ident)
					return ok && id.Name == "len" && useObj(info, c.Args[0]) == mv
				}
				key := "jp." + funcKey(fd) + ":multivalue"
				// statements of the then-branch
				var mulTargets, divTargets, modVars []types.Object
				otherArith := false
				ast.Inspect(is.Body, func(k ast.Node) bool {
					switch x := k.(type) {
					case *ast.AssignStmt:
						if len(x.Lhs) == 1 && len(x.Rhs) == 1 {
							switch x.Tok {
							case token.MUL_ASSIGN:
								if isLenMv(x.Rhs[0]) {
									mulTargets = append(mulTargets, useObj(info, x.Lhs[0]))
								} else {
									otherArith = true
								}
							case token.QUO_ASSIGN:
								if isLenMv(x.Rhs[0]) {
									divTargets = append(divTargets, useObj(info, x.Lhs[0]))
								} else {
									otherArith = true
								}
							case token.ADD_ASSIGN, token.SUB_ASSIGN, token.REM_ASSIGN:
								otherArith = true
							case token.ASSIGN:
								// N = something else involving len(mv) (e.g. a maximum) is not a product
								if _, isIdx := x.Lhs[0].(*ast.IndexExpr); !isIdx {
									usesLen := false
									ast.Inspect(x.Rhs[0], func(q ast.Node) bool {
										if e, ok := q.(ast.Expr); ok && isLenMv(e) {
											usesLen = true
										}
										return true
									})
									if usesLen {
										otherArith = true
									}
								}
							}
						}
					case *ast.BinaryExpr:
						if x.Op == token.REM && isLenMv(x.Y) {
							modVars = append(modVars, useObj(info, x.X))
						}
					}
					return true
				})
				if len(mulTargets) == 0 && len(divTargets) == 0 && len(modVars) == 0 && !otherArith {
					return true
				}
				found++
				switch {
				case otherArith:
					rep.Violate(Finding{Rule: "M-radix", Key: key, Pos: prog.Pos(is.Pos()), Msg: "the multi-value loop combines len(multi-value) with something other than N *= len / i % len / i /= len: the combinations of multi-valued operands are not enumerated as a mixed-radix number"})
				case len(modVars) > 0 && (len(divTargets) != 1 || divTargets[0] != modVars[0]):
					rep.Violate(Finding{Rule: "M-radix", Key: key, Pos: prog.Pos(is.Pos()), Msg: "the expansion selects mv[i % len(mv)] but does not divide the same i by len(mv)"})
				default:
					rep.Discharge("M-radix", key, prog.Pos(is.Pos()), "product / modulo / divide by the same length")
				}
				return true
			})
		}
	}
	if found < 2 {
		rep.Errorf("M-radix found %d multi-value loops (floor 2)", found)
	}
}

// lossyConversion: converting from to to can change the value's place in the order of numbers
// (float to any integer, a 64-bit number to fewer bits, signed to unsigned).
func lossyConversion(from, to types.Type) bool {
	if from == nil || to == nil {
		return false
	}
	fb, ok1 := from.Underlying().(*types.Basic)
	tb, ok2 := to.Underlying().(*types.Basic)
	if !ok1 || !ok2 {
		return false
	}
	isF := func(b *types.Basic) bool { return b.Info()&types.IsFloat != 0 }
	isI := func(b *types.Basic) bool { return b.Info()&types.IsInteger != 0 }
	bits := func(b *types.Basic) int {
		switch b.Kind() {
		case types.Int8, types.Uint8:
			return 8
		case types.Int16, types.Uint16:
			return 16
		case types.Int32, types.Uint32, types.Float32:
			return 32
		}
		return 64
	}
	switch {
	case isF(fb) && isI(tb):
		return true
	case isF(fb) && isF(tb):
		return bits(tb) < bits(fb)
	case isI(fb) && isI(tb):
		if bits(tb) < bits(fb) {
			return true
		}
		return fb.Info()&types.IsUnsigned == 0 && tb.Info()&types.IsUnsigned != 0
	}
	return false // integer to float64: order preserving up to rounding at 2^53, as stated in the explanation
}
