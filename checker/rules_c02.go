package main

import (
	"fmt"
	"go/ast"
	"go/constant"
	"go/token"
	"go/types"
	"math/big"
	"strings"

	"golang.org/x/tools/go/packages"
)

func init() { rules["C02"] = ruleC02 }

func ruleC02(prog *Program, rep *Report) {
	rep.Explain("C02 decides structural clauses of 'parsed values denote the text': (1) no decimal accumulator can wrap around (every multiply-accumulate site has a bound on its pre-state that excludes uint64 overflow), (2) the escape decoding tables are exact against RFC 8259 section 7 and the hex-digit arms compute the digit value, (3) a rune assembled from \\uXXXX does not reach utf8.EncodeRune without a surrogate test, (4) token/value events agree with the reference (Engine A, shared with C03). Not covered (out of reach of static analysis here): the numeric value of the result (FillBig text reconstruction, AsNum's choice, strconv rounding), decoded string contents beyond the tables.")
	ruleAccumulators(prog, rep)
	ruleEscapeDecode(prog, rep)
	ruleSurrogates(prog, rep)
	ruleBigLimitAgree(prog, rep)
	ruleFillOnce(prog, rep)
	ruleInfSign(prog, rep, 1, "gen", "oj", "sen") // a literal beyond the float64 range is kept as text whatever its sign
	ruleBufView(prog, rep, 20, "oj", "gen", "sen")
	ruleBufAlias(prog, rep, append(append([]feSpec{}, jsonFrontEnds...), senFrontEnds...)...)            // a string that is a view of the read buffer changes when the next chunk is read
	ruleArmTwinsAll(prog, rep, false)                                                                    // counters and cursors the exploration keeps abstract
	ruleBOM(prog, rep)                                                                                   // bytes dropped before the dispatch loop sees them change the values
	ruleCursorAdvance(prog, rep)                                                                         // with Reuse, a recycled map handed out twice makes two objects of a document one value
	ruleEntryParity(prog, rep, "oj.Parser", "gen.Parser", "sen.Parser", "oj.Tokenizer", "sen.Tokenizer") // a number conversion mode one entry does not reset changes what later parses return
	ruleArgParity(prog, rep, "oj.Parser", "gen.Parser", "sen.Parser", "oj.Tokenizer", "sen.Tokenizer")
	ruleRestore(prog, rep)                                                                                           // a number-conversion option overwritten for one call (Unmarshal forces floats) and not put back changes what later parses return
	rulePoolPut(prog, rep, "oj.Parser", "gen.Parser", "sen.Parser", "oj.Tokenizer", "oj.Validator", "sen.Tokenizer") // a parser put back before its last use mixes two callers' documents
	rep.Rules = append(rep.Rules, "A-events: value/token events of the four JSON front-ends agree with the reference at every byte (kind of each value: null/true/false/string/number/container, key vs value) - see C03")
	rep.Rules = append(rep.Rules, "N-mirror: once a number no longer fits the accumulators its bytes are collected as text (Number.BigBuf); for every reachable step of the JSON front-ends (and of the SEN front-ends on JSON numbers) in which the reference is inside a number before and after the byte, the arm either adds the dispatched byte to BigBuf (directly, or through a Number method whose first case does so when the buffer is in use) or is on a path that tested the buffer to be empty: no sign, digit, point or exponent marker of a big number is dropped")
	exploreDigitFns = numberDigitFns(prog)
	if len(exploreDigitFns) < 3 {
		rep.Errorf("N-digit: found %d Number methods that use their byte as a digit (floor 3): anchors did not resolve", len(exploreDigitFns))
	}
	rep.Rules = append(rep.Rules, "N-digit: every reachable step on a byte '1'..'9' that keeps the reference inside a number uses the byte as a decimal digit or adds it to the number's text (no path, such as the one on which the buffer ends right after the digit, leaves it out); every reachable step that uses the dispatched byte as a decimal digit (b - '0' in the arm, or a Number method that computes it) is a step on one of the bytes '0'..'9' (a table cell that sends another byte to a digit arm changes the value without changing acceptance)",
		"A-accept (as in C01): a valid JSON text is not rejected (rejects-live, eof-reject) - without a value there is nothing that could denote the text")
	exploreMirror = numberMirrorFns(prog)
	if len(exploreMirror) < 3 {
		rep.Errorf("N-mirror: found %d Number methods that mirror their byte into BigBuf (floor 3): anchors did not resolve", len(exploreMirror))
	}
	results := exploreFrontEnds(prog, jsonFrontEnds, []bool{false}, false)
	applyParseResults(rep, results, union(kindsEvents, map[string]bool{"stale-scratch": true}), "A-events", 18)
	reportKinds(rep, results, map[string]bool{"big-unmirrored": true}, "N-mirror")
	reportKinds(rep, results, map[string]bool{"digit-misuse": true, "digit-dropped": true}, "N-digit")
	reportKinds(rep, results, map[string]bool{"rejects-live": true, "eof-reject": true}, "A-accept")
	sres := exploreFrontEnds(prog, senFrontEnds, []bool{false}, false, true)
	exploreMirror = nil
	applyParseResults(rep, sres, map[string]bool{"big-unmirrored": true}, "N-mirror", 12)
	reportKinds(rep, sres, map[string]bool{"digit-misuse": true, "digit-dropped": true}, "N-digit")
	exploreDigitFns = nil
}

// exploreDigitFns: see numberDigitFns.
var exploreDigitFns map[*types.Func]bool

// numberDigitFns: methods of gen.Number with one byte parameter whose body computes <param> - '0'.
func numberDigitFns(prog *Program) map[*types.Func]bool {
	out := map[*types.Func]bool{}
	pk := prog.Pkg("gen")
	if pk == nil {
		return out
	}
	info := pk.TypesInfo
	for _, f := range pk.Syntax {
		for _, d := range f.Decls {
			fd, ok := d.(*ast.FuncDecl)
			if !ok || fd.Body == nil || fd.Recv == nil || len(fd.Recv.List) != 1 {
				continue
			}
			if strings.ReplaceAll(types.ExprString(fd.Recv.List[0].Type), "*", "") != "Number" {
				continue
			}
			if fd.Type.Params == nil || len(fd.Type.Params.List) != 1 || len(fd.Type.Params.List[0].Names) != 1 {
				continue
			}
			param := info.Defs[fd.Type.Params.List[0].Names[0]]
			found := false
			ast.Inspect(fd.Body, func(n ast.Node) bool {
				be, ok := n.(*ast.BinaryExpr)
				if !ok || be.Op != token.SUB {
					return true
				}
				id, _ := ast.Unparen(be.X).(*ast.Ident)
				tv, okc := info.Types[be.Y]
				if id != nil && info.Uses[id] == param && okc && tv.Value != nil && tv.Value.String() == "48" {
					found = true
				}
				return true
			})
			if found {
				if fn, ok := info.Defs[fd.Name].(*types.Func); ok {
					out[fn] = true
				}
			}
		}
	}
	return out
}

// exploreMirror, when set, makes exploreOne follow the number text buffer (N-mirror).
var exploreMirror map[*types.Func]bool

// numberMirrorFns: methods of gen.Number with one byte parameter whose body is a
// switch with a first case `0 < len(n.BigBuf)` that appends the parameter to n.BigBuf.
func numberMirrorFns(prog *Program) map[*types.Func]bool {
	out := map[*types.Func]bool{}
	pk := prog.Pkg("gen")
	if pk == nil {
		return out
	}
	info := pk.TypesInfo
	for _, f := range pk.Syntax {
		for _, d := range f.Decls {
			fd, ok := d.(*ast.FuncDecl)
			if !ok || fd.Body == nil || fd.Recv == nil || len(fd.Recv.List) != 1 || len(fd.Recv.List[0].Names) != 1 {
				continue
			}
			if strings.ReplaceAll(types.ExprString(fd.Recv.List[0].Type), "*", "") != "Number" {
				continue
			}
			if fd.Type.Params == nil || len(fd.Type.Params.List) != 1 || len(fd.Type.Params.List[0].Names) != 1 {
				continue
			}
			param := fd.Type.Params.List[0].Names[0].Name
			recv := fd.Recv.List[0].Names[0].Name
			for _, st := range fd.Body.List {
				sw, ok := st.(*ast.SwitchStmt)
				if !ok || sw.Tag != nil || len(sw.Body.List) == 0 {
					continue
				}
				cc := sw.Body.List[0].(*ast.CaseClause)
				if len(cc.List) != 1 || strings.ReplaceAll(types.ExprString(cc.List[0]), " ", "") != "0<len("+recv+".BigBuf)" {
					continue
				}
				for _, bs := range cc.Body {
					as, ok := bs.(*ast.AssignStmt)
					if !ok || len(as.Lhs) != 1 || len(as.Rhs) != 1 {
						continue
					}
					want := recv + ".BigBuf=append(" + recv + ".BigBuf," + param + ")"
					if strings.ReplaceAll(types.ExprString(as.Lhs[0])+"="+types.ExprString(as.Rhs[0]), " ", "") == want {
						if fn, ok := info.Defs[fd.Name].(*types.Func); ok {
							out[fn] = true
						}
					}
				}
			}
		}
	}
	return out
}

// ---------------------------------------------------------------- accumulators

var maxUint64 = new(big.Int).SetUint64(^uint64(0))

type accSite struct {
	pk     *packages.Package
	fd     *ast.FuncDecl
	stmt   ast.Stmt
	target ast.Expr
	add    bool // X = X*10 + d (else X *= 10)
	pos    token.Pos
}

func exprEq(a, b ast.Expr) bool { return types.ExprString(a) == types.ExprString(b) }

// isMul10 recognises X*10 (or 10*X, also with 10.0) for the given X.
func isMul10(info *types.Info, e ast.Expr, x ast.Expr) bool {
	be, ok := ast.Unparen(e).(*ast.BinaryExpr)
	if !ok || be.Op != token.MUL {
		return false
	}
	is10 := func(c ast.Expr) bool {
		tv := info.Types[c]
		if tv.Value == nil {
			return false
		}
		f, _ := constant.Float64Val(constant.ToFloat(tv.Value))
		return f == 10
	}
	return (exprEq(be.X, x) && is10(be.Y)) || (exprEq(be.Y, x) && is10(be.X))
}

func findAccSites(pk *packages.Package) []accSite {
	info := pk.TypesInfo
	var sites []accSite
	for _, file := range pk.Syntax {
		for _, d := range file.Decls {
			fd, ok := d.(*ast.FuncDecl)
			if !ok || fd.Body == nil {
				continue
			}
			ast.Inspect(fd.Body, func(n ast.Node) bool {
				as, ok := n.(*ast.AssignStmt)
				if !ok || len(as.Lhs) != 1 || len(as.Rhs) != 1 {
					return true
				}
				t := info.TypeOf(as.Lhs[0])
				if t == nil {
					return true
				}
				bt, ok := t.Underlying().(*types.Basic)
				if !ok || bt.Info()&types.IsInteger == 0 {
					return true
				}
				if _, isSel := as.Lhs[0].(*ast.SelectorExpr); !isSel {
					return true
				}
				switch as.Tok {
				case token.MUL_ASSIGN:
					tv := info.Types[as.Rhs[0]]
					if tv.Value != nil {
						if f, _ := constant.Float64Val(constant.ToFloat(tv.Value)); f == 10 {
							sites = append(sites, accSite{pk: pk, fd: fd, stmt: as, target: as.Lhs[0], pos: as.Pos()})
						}
					}
				case token.ASSIGN:
					if isMul10(info, as.Rhs[0], as.Lhs[0]) {
						sites = append(sites, accSite{pk: pk, fd: fd, stmt: as, target: as.Lhs[0], pos: as.Pos()})
					} else if be, ok := ast.Unparen(as.Rhs[0]).(*ast.BinaryExpr); ok && be.Op == token.ADD && isMul10(info, be.X, as.Lhs[0]) {
						sites = append(sites, accSite{pk: pk, fd: fd, stmt: as, target: as.Lhs[0], add: true, pos: as.Pos()})
					}
				}
				return true
			})
		}
	}
	return sites
}

// boundFromCond: does cond (when it has truth value `want`) bound X from
// above? Returns K and whether the bound is inclusive (X <= K).
func boundFromCond(info *types.Info, cond ast.Expr, x ast.Expr, want bool) (*big.Int, bool, bool) {
	be, ok := ast.Unparen(cond).(*ast.BinaryExpr)
	if !ok {
		return nil, false, false
	}
	if be.Op == token.LAND && want {
		if k, inc, ok := boundFromCond(info, be.X, x, true); ok {
			return k, inc, true
		}
		return boundFromCond(info, be.Y, x, true)
	}
	if be.Op == token.LOR && !want {
		if k, inc, ok := boundFromCond(info, be.X, x, false); ok {
			return k, inc, true
		}
		return boundFromCond(info, be.Y, x, false)
	}
	var kexpr ast.Expr
	op := be.Op
	switch {
	case exprEq(be.X, x):
		kexpr = be.Y
	case exprEq(be.Y, x):
		kexpr = be.X
		// K op X  ==  X flip(op) K
		op = flipOp(op)
	default:
		return nil, false, false
	}
	tv := info.Types[kexpr]
	if tv.Value == nil {
		return nil, false, false
	}
	kv := constant.ToInt(tv.Value)
	if kv.Kind() != constant.Int {
		return nil, false, false
	}
	k, _ := new(big.Int).SetString(kv.ExactString(), 10)
	if k == nil {
		return nil, false, false
	}
	// X op K has truth value want
	if !want {
		switch op {
		case token.LSS:
			op = token.GEQ
		case token.LEQ:
			op = token.GTR
		case token.GTR:
			op = token.LEQ
		case token.GEQ:
			op = token.LSS
		default:
			return nil, false, false
		}
	}
	switch op {
	case token.LEQ:
		return k, true, true
	case token.LSS:
		return k, false, true
	}
	return nil, false, false
}

func terminates(b *ast.BlockStmt) bool {
	if len(b.List) == 0 {
		return false
	}
	switch s := b.List[len(b.List)-1].(type) {
	case *ast.BranchStmt:
		return s.Tok == token.BREAK || s.Tok == token.CONTINUE
	case *ast.ReturnStmt:
		return true
	}
	return false
}

// preBound finds an upper bound on the value of site.target just before the
// site. path = chain of enclosing nodes from the function body to the site.
func preBound(info *types.Info, site accSite) (k *big.Int, inclusive bool, how string) {
	var path []ast.Node
	ast.Inspect(site.fd.Body, func(n ast.Node) bool {
		if n == nil {
			return true
		}
		if n.Pos() <= site.stmt.Pos() && site.stmt.End() <= n.End() {
			path = append(path, n)
			return true
		}
		return false
	})
	x := site.target
	for i := len(path) - 1; i >= 0; i-- {
		switch n := path[i].(type) {
		case *ast.CaseClause:
			// tagless switch: this clause's condition holds, earlier ones do not
			for _, c := range n.List {
				if kk, inc, ok := boundFromCond(info, c, x, true); ok {
					return kk, inc, "enclosing case condition " + types.ExprString(c)
				}
			}
		case *ast.IfStmt:
			if i+1 < len(path) && path[i+1] == ast.Node(n.Body) {
				if kk, inc, ok := boundFromCond(info, n.Cond, x, true); ok {
					return kk, inc, "enclosing if condition " + types.ExprString(n.Cond)
				}
			}
		case *ast.BlockStmt:
			// statements of the same block
			idx := -1
			for j, s := range n.List {
				if s.Pos() <= site.stmt.Pos() && site.stmt.End() <= s.End() {
					idx = j
				}
			}
			// earlier guard in the same block: if <X too big> { ...; break }
			for j := idx - 1; j >= 0; j-- {
				if as, ok := n.List[j].(*ast.AssignStmt); ok {
					for _, l := range as.Lhs {
						if exprEq(l, x) {
							j = -1 // the accumulator is reassigned: an earlier guard says nothing
						}
					}
					if j < 0 {
						break
					}
				}
				if is, ok := n.List[j].(*ast.IfStmt); ok && is.Else == nil && terminates(is.Body) {
					if kk, inc, ok := boundFromCond(info, is.Cond, x, false); ok {
						return kk, inc, "guard before the update: " + types.ExprString(is.Cond) + " leaves the loop"
					}
				}
			}
			// loop-carried post-check: a later statement of the loop body bounds X for the next iteration
			if i > 0 {
				if _, isLoop := path[i-1].(*ast.RangeStmt); isLoop || isForBody(path[i-1], n) {
					for j := idx + 1; j < len(n.List); j++ {
						if is, ok := n.List[j].(*ast.IfStmt); ok && is.Else == nil && terminates(is.Body) {
							if kk, inc, ok := boundFromCond(info, is.Cond, x, false); ok {
								return kk, inc, "loop-carried check after the update: " + types.ExprString(is.Cond) + " leaves the loop"
							}
						}
					}
				}
			}
		}
	}
	return nil, false, ""
}

func isForBody(parent ast.Node, b *ast.BlockStmt) bool {
	f, ok := parent.(*ast.ForStmt)
	return ok && f.Body == b
}

func lastName(e ast.Expr) string {
	t := types.ExprString(e)
	if i := strings.LastIndex(t, "."); i >= 0 {
		return t[i+1:]
	}
	return t
}

// enclosingBlock returns the innermost block that directly contains stmt.
func enclosingBlock(fd *ast.FuncDecl, stmt ast.Stmt) []ast.Stmt {
	var res []ast.Stmt
	ast.Inspect(fd.Body, func(n ast.Node) bool {
		var list []ast.Stmt
		switch b := n.(type) {
		case *ast.BlockStmt:
			list = b.List
		case *ast.CaseClause:
			list = b.Body
		}
		for _, s := range list {
			if s == stmt {
				res = list
			}
		}
		return true
	})
	return res
}

func ruleAccumulators(prog *Program, rep *Report) {
	rep.Rules = append(rep.Rules, "N-wrap: every decimal accumulator update X = X*10 + d or X *= 10 on an integer field (gen.Number parts, in gen/number.go and in every inline digit loop of the six front-ends) has an upper bound on X just before the update - an enclosing case/if condition X <= K, a guard earlier in the same block that leaves the loop when X is too big, or a loop-carried check after the update - and that bound excludes uint64 wrap-around: 10*K+9 <= MaxUint64 (10*K for a pure multiply). A digit accumulator X without a bound of its own may borrow the bound of the power-of-ten Y multiplied in the same block (X < Y) only if every update of X anywhere is paired with an update of Y in the same block")
	type siteRes struct {
		s   accSite
		rel string
		k   *big.Int
		inc bool
		how string
	}
	var all []*siteRes
	for _, rel := range []string{"gen", "oj", "sen"} {
		pk := prog.Pkg(rel)
		if pk == nil {
			rep.Errorf("package %s missing", rel)
			continue
		}
		for _, s := range findAccSites(pk) {
			k, inc, how := preBound(pk.TypesInfo, s)
			all = append(all, &siteRes{s: s, rel: rel, k: k, inc: inc, how: how})
		}
	}
	// pairing: for each unbounded digit accumulator X find the multiplier Y of the same block
	sibling := func(r *siteRes) *siteRes {
		blk := enclosingBlock(r.s.fd, r.s.stmt)
		for _, o := range all {
			if o == r || o.s.fd != r.s.fd || o.s.add {
				continue
			}
			for _, st := range blk {
				if st == o.s.stmt {
					return o
				}
			}
		}
		return nil
	}
	pairedEverywhere := func(xname, yname string) bool {
		for _, r := range all {
			if r.s.add && lastName(r.s.target) == xname {
				sb := sibling(r)
				if sb == nil || lastName(sb.s.target) != yname {
					return false
				}
			}
		}
		return true
	}
	for _, r := range all {
		s := r.s
		key := fmt.Sprintf("%s.%s:%s", r.rel, funcKey(s.fd), lastName(s.target))
		k, inc, how := r.k, r.inc, r.how
		if k == nil && s.add {
			if sb := sibling(r); sb != nil && sb.k != nil && pairedEverywhere(lastName(s.target), lastName(sb.s.target)) {
				// X < Y and Y's pre-state is bounded by K: X <= K-1 (K if Y's bound is strict, minus one more)
				k = new(big.Int).Set(sb.k)
				inc = false
				if !sb.inc {
					k.Sub(k, big.NewInt(1))
				}
				how = fmt.Sprintf("borrowed: always less than %s, which is multiplied in the same block at every site and bounded by %s", types.ExprString(sb.s.target), sb.how)
			}
		}
		if k == nil {
			rep.Violate(Finding{Rule: "N-wrap", Key: key + ":unbounded", Pos: prog.Pos(s.pos),
				Msg: fmt.Sprintf("accumulator %s is multiplied by 10 with no bound of its own on the value before the update: enough digits wrap it around silently", types.ExprString(s.target))})
			continue
		}
		maxPre := new(big.Int).Set(k)
		if !inc {
			maxPre.Sub(maxPre, big.NewInt(1))
		}
		after := new(big.Int).Mul(maxPre, big.NewInt(10))
		if s.add {
			after.Add(after, big.NewInt(9))
		}
		if after.Cmp(maxUint64) > 0 {
			rep.Violate(Finding{Rule: "N-wrap", Key: key + ":bound-too-weak", Pos: prog.Pos(s.pos),
				Msg: fmt.Sprintf("accumulator %s can be as large as %s before the update (%s); times ten that exceeds MaxUint64 and wraps around", types.ExprString(s.target), maxPre.String(), how)})
			continue
		}
		rep.Discharge("N-wrap", key, prog.Pos(s.pos), fmt.Sprintf("pre-state <= %s (%s)", maxPre.String(), how))
	}
	rep.Eval(len(all))
	if len(all) < 15 {
		rep.Errorf("N-wrap found %d accumulator sites (floor 15)", len(all))
	}
}

// ---------------------------------------------------------------- escapes

type escTables struct {
	str, esc, decode, u     string
	strOk, escOk, escU, uOk int64
	escClause, uClause      *ast.CaseClause
}

func readerEscapeTables(m *Machine) (*escTables, error) {
	starts, _, err := m.Starts(firstRoot(m), map[string]Val{"OnlyOne": vConstBool(true)})
	if err != nil {
		return nil, err
	}
	v, ok := starts[0].fields[m.modeFld].isStr()
	if !ok {
		return nil, fmt.Errorf("%s: start mode is not a constant", m.Name)
	}
	t := &escTables{}
	qc := m.clauseFor(at(v, '"'))
	if qc == nil {
		return nil, fmt.Errorf("%s: no clause for '\"' in the start mode", m.Name)
	}
	if t.str, t.strOk, ok = m.scanIn(qc); !ok {
		return nil, fmt.Errorf("%s: string scan not found", m.Name)
	}
	sc := m.clauseFor(at(t.str, '\\'))
	if sc == nil {
		return nil, fmt.Errorf("%s: no clause for backslash", m.Name)
	}
	if t.esc, ok = m.modeAssignIn(sc); !ok {
		return nil, fmt.Errorf("%s: escape mode not found", m.Name)
	}
	t.escOk = at(t.esc, 'n')
	t.escU = at(t.esc, 'u')
	t.escClause = m.clauseFor(t.escOk)
	if uc := m.clauseFor(t.escU); uc != nil {
		t.u, _ = m.modeAssignIn(uc)
	}
	if t.u == "" {
		return nil, fmt.Errorf("%s: \\u mode not found", m.Name)
	}
	t.uOk = at(t.u, '0')
	t.uClause = m.clauseFor(t.uOk)
	if t.escClause != nil {
		t.decode, _ = m.indexedConstIn(t.escClause)
	}
	return t, nil
}

func firstRoot(m *Machine) string {
	for r := range m.roots {
		return r
	}
	return ""
}

var allFrontEnds = append(append([]feSpec{}, jsonFrontEnds...), senFrontEnds...)

func ruleEscapeDecode(prog *Program, rep *Report, rels ...string) {
	rep.Rules = append(rep.Rules,
		"N-esc: in every front-end the escape table marks exactly the RFC 8259 escape letters (\" \\ / b f n r t) plus u (the SEN front-ends may also allow the other quote character), and the decode table maps each letter to the byte it denotes",
		"N-hex: the \\u table marks exactly the 22 hex digits, and for every hex digit the \\u arm, interpreted with the rune accumulator 0, leaves exactly the digit's value in it")
	for _, spec := range allFrontEnds {
		if len(rels) > 0 {
			in := false
			for _, r := range rels {
				if r == spec.rel {
					in = true
				}
			}
			if !in {
				continue
			}
		}
		m, err := ExtractMachine(prog, spec.rel, spec.typ, spec.roots[:1])
		if err != nil {
			rep.Errorf("%v", err)
			continue
		}
		t, err := readerEscapeTables(m)
		if err != nil {
			rep.Errorf("%v", err)
			continue
		}
		name := spec.rel + "." + spec.typ
		isSEN := spec.rel == "sen"
		for b := 0; b < 256; b++ {
			key := fmt.Sprintf("%s:esc:%s", name, byteName(b))
			want, isLetter := rfcEscapeByte(b)
			marked := at(t.esc, b) == t.escOk
			switch {
			case b == 'u':
				if at(t.esc, b) != t.escU || t.escU == t.escOk {
					rep.Violate(Finding{Rule: "N-esc", Key: key, Pos: prog.Pos(m.work.Pos()), Msg: "\\u is not routed to the unicode arm"})
				}
			case isLetter && !marked:
				rep.Violate(Finding{Rule: "N-esc", Key: key, Pos: prog.Pos(m.work.Pos()), Msg: fmt.Sprintf("RFC 8259 escape \\%c is rejected", b)})
			case !isLetter && marked && !(isSEN && b == '\''):
				rep.Violate(Finding{Rule: "N-esc", Key: key, Pos: prog.Pos(m.work.Pos()), Msg: fmt.Sprintf("\\%s is accepted but is not a JSON escape", byteName(b))})
			case marked && t.decode != "":
				if isSEN && b == '\'' {
					want = '\''
				}
				if at(t.decode, b) != int64(want) {
					rep.Violate(Finding{Rule: "N-esc", Key: key, Pos: prog.Pos(m.work.Pos()), Msg: fmt.Sprintf("\\%c is decoded to 0x%02x, it denotes 0x%02x", b, at(t.decode, b), want)})
				} else {
					rep.Discharge("N-esc", key, prog.Pos(m.work.Pos()), "decodes to the denoted byte")
				}
			}
		}
		if t.decode == "" && m.in.buildFld != "" {
			rep.Errorf("%s: decode table not found in the escape arm", name)
		}
		// hex digits
		if t.uClause == nil {
			rep.Errorf("%s: no clause for hex digits", name)
			continue
		}
		// the rune accumulator: a field assigned in the hex arm with a shift
		acc := ""
		ast.Inspect(t.uClause, func(n ast.Node) bool {
			as, ok := n.(*ast.AssignStmt)
			if !ok || len(as.Lhs) != 1 || len(as.Rhs) != 1 {
				return true
			}
			hasShift := false
			ast.Inspect(as.Rhs[0], func(k ast.Node) bool {
				if be, ok := k.(*ast.BinaryExpr); ok && be.Op == token.SHL {
					hasShift = true
				}
				return true
			})
			if sel, ok := as.Lhs[0].(*ast.SelectorExpr); ok && hasShift {
				acc = sel.Sel.Name
			}
			return true
		})
		for b := 0; b < 256; b++ {
			key := fmt.Sprintf("%s:hex:%s", name, byteName(b))
			isH := hexVal(b) >= 0
			marked := at(t.u, b) == t.uOk
			if isH != marked {
				rep.Violate(Finding{Rule: "N-hex", Key: key, Pos: prog.Pos(m.work.Pos()), Msg: fmt.Sprintf("byte %s: hex digit=%v but marked in the \\u table=%v", byteName(b), isH, marked)})
				continue
			}
			if !isH || acc == "" {
				continue
			}
			// interpret the arm with the accumulator 0
			m.in.tracked[acc] = true
			starts, _, err := m.Starts(firstRoot(m), map[string]Val{"OnlyOne": vConstBool(true)})
			if err != nil {
				rep.Errorf("%v", err)
				break
			}
			good := true
			detail := ""
			for _, s0 := range starts[:1] {
				for _, h := range m.enterWork(s0) {
					h.fields[m.modeFld] = Val{K: kConst, C: constant.MakeString(t.u), T: m.in.tableID[t.u]}
					h.fields[acc] = vConstInt(0)
					for f := range m.in.tracked {
						if v := h.fields[f]; v.K == kTop && v.Stale && f != acc {
							h.fields[f] = vConstInt(0)
						}
					}
					for _, o := range m.Step(m.in, h, b) {
						if o.Kind != "next" {
							good = false
							detail = "arm outcome " + o.Kind + " " + o.Why
							continue
						}
						v, ok := o.Next.fields[acc].isInt()
						if !ok || int(v) != hexVal(b) {
							good = false
							detail = fmt.Sprintf("accumulator %s becomes %s, want %d", acc, o.Next.fields[acc], hexVal(b))
						}
					}
				}
			}
			if good {
				rep.Discharge("N-hex", key, prog.Pos(t.uClause.Pos()), "arm adds the digit value")
			} else {
				rep.Violate(Finding{Rule: "N-hex", Key: key, Pos: prog.Pos(t.uClause.Pos()), Msg: fmt.Sprintf("hex digit %c in a \\u escape: %s", b, detail)})
			}
		}
		delete(m.in.tracked, acc)
	}
}

// ruleSurrogates: \uXXXX handling must know about UTF-16 surrogates.
func ruleSurrogates(prog *Program, rep *Report) {
	rep.Rules = append(rep.Rules, "N-surrogate: a function that assembles a rune from \\uXXXX digits and passes it to utf8.EncodeRune must test for the UTF-16 surrogate range (utf16.IsSurrogate / utf16.DecodeRune or a comparison with 0xD800..0xDFFF); otherwise a surrogate pair cannot decode to one code point")
	n := 0
	for _, spec := range allFrontEnds {
		pk := prog.Pkg(spec.rel)
		if pk == nil {
			continue
		}
		named, _ := pk.Types.Scope().Lookup(spec.typ).Type().(*types.Named)
		fd, _, _, _, _ := findWork(prog, pk, named)
		if fd == nil {
			rep.Errorf("%s.%s: dispatch function not found", spec.rel, spec.typ)
			continue
		}
		info := pk.TypesInfo
		encodes := false
		knows := false
		ast.Inspect(fd.Body, func(k ast.Node) bool {
			switch x := k.(type) {
			case *ast.CallExpr:
				if sel, ok := x.Fun.(*ast.SelectorExpr); ok {
					if f, ok := info.Uses[sel.Sel].(*types.Func); ok && f.Pkg() != nil {
						switch f.Pkg().Path() + "." + f.Name() {
						case "unicode/utf8.EncodeRune", "unicode/utf8.AppendRune":
							encodes = true
						case "unicode/utf16.IsSurrogate", "unicode/utf16.DecodeRune":
							knows = true
						}
					}
				}
			case *ast.BasicLit:
				if tv := info.Types[x]; tv.Value != nil && tv.Value.Kind() == constant.Int {
					if v, ok := constant.Int64Val(tv.Value); ok && (v == 0xD800 || v == 0xDC00 || v == 0xDBFF || v == 0xDFFF) {
						knows = true
					}
				}
			}
			return true
		})
		if !encodes {
			continue // a validator does not decode
		}
		n++
		key := spec.rel + "." + spec.typ + ":surrogate"
		if knows {
			rep.Discharge("N-surrogate", key, prog.Pos(fd.Pos()), "surrogate range is tested")
		} else {
			rep.Violate(Finding{Rule: "N-surrogate", Key: key, Pos: prog.Pos(fd.Pos()), Msg: "the rune assembled from \\uXXXX goes to utf8.EncodeRune with no surrogate handling: \"\\ud83d\\ude00\" decodes to two U+FFFD instead of one code point"})
		}
	}
	if n < 4 {
		rep.Errorf("N-surrogate found %d decoding front-ends (floor 4)", n)
	}
}

// ---------------------------------------------------------------- N-limit

// ruleBigLimitAgree: the in-buffer digit loops of the front-ends and the
// Number methods used when digits arrive one at a time must switch to the text
// form at the same point, otherwise the type of the parsed number (int64 or
// float64 versus json.Number / gen.Big) depends on how the input is chunked.
// Both sides are normalised to "a further digit is accumulated iff <field> REL
// BigLimit holds before it is added" (pre) or to the test made after adding
// (post).
func ruleBigLimitAgree(prog *Program, rep *Report) {
	rep.Rules = append(rep.Rules, "N-limit: every digit loop of a front-end that accumulates num.I or num.Frac itself guards the accumulation with the same test against BigLimit, at the same place (before or after adding), as Number.AddDigit resp. Number.AddFrac, which accumulate when digits arrive one at a time: the kind of value a number comes back as does not depend on the chunking")
	norm := func(e ast.Expr) (field string, rel token.Token, ok bool) {
		be, isBin := ast.Unparen(e).(*ast.BinaryExpr)
		if !isBin {
			return "", 0, false
		}
		name := func(x ast.Expr) string {
			s := types.ExprString(x)
			switch {
			case strings.HasSuffix(s, "BigLimit"):
				return "BigLimit"
			case strings.Contains(s, "BigLimit"):
				// an expression over the limit (BigLimit/10): another limit, kept as text so that it disagrees
				return "BigLimit~" + strings.ReplaceAll(strings.ReplaceAll(s, "gen.", ""), " ", "")
			case strings.HasSuffix(s, ".I"):
				return "I"
			case strings.HasSuffix(s, ".Div"):
				return "Div"
			}
			return ""
		}
		l, r := name(be.X), name(be.Y)
		flip := map[token.Token]token.Token{token.LSS: token.GTR, token.GTR: token.LSS, token.LEQ: token.GEQ, token.GEQ: token.LEQ}
		switch {
		case l == "BigLimit" && (r == "I" || r == "Div"):
			if f, ok := flip[be.Op]; ok {
				return r, f, true
			}
		case r == "BigLimit" && (l == "I" || l == "Div"):
			if _, ok := flip[be.Op]; ok {
				return l, be.Op, true
			}
		case strings.HasPrefix(l, "BigLimit~") && (r == "I" || r == "Div"):
			if f, ok := flip[be.Op]; ok {
				return r + "@" + l[9:], f, true
			}
		case strings.HasPrefix(r, "BigLimit~") && (l == "I" || l == "Div"):
			if _, ok := flip[be.Op]; ok {
				return l + "@" + r[9:], be.Op, true
			}
		}
		return "", 0, false
	}
	negate := map[token.Token]token.Token{token.LSS: token.GEQ, token.GEQ: token.LSS, token.LEQ: token.GTR, token.GTR: token.LEQ}
	// reference: the Number methods
	ref := map[string]string{} // field -> normalised rule
	if pk := prog.Pkg("gen"); pk != nil {
		for _, f := range pk.Syntax {
			for _, d := range f.Decls {
				fd, ok := d.(*ast.FuncDecl)
				if !ok || fd.Body == nil || fd.Recv == nil || (fd.Name.Name != "AddDigit" && fd.Name.Name != "AddFrac") {
					continue
				}
				ast.Inspect(fd.Body, func(n ast.Node) bool {
					cc, ok := n.(*ast.CaseClause)
					if !ok || len(cc.List) != 1 {
						return true
					}
					if fld, rel, ok := norm(cc.List[0]); ok {
						if i := strings.Index(fld, "@"); i >= 0 {
							ref[fld[:i]] = "pre:" + fld[:i] + rel.String() + fld[i+1:] // a scaled limit: disagrees with every loop that uses BigLimit
						} else {
							ref[fld] = "pre:" + fld + rel.String() + "BigLimit"
						}
					}
					return true
				})
			}
		}
	}
	if len(ref) < 2 {
		rep.Errorf("N-limit: the accumulation tests of Number.AddDigit / AddFrac were not found (%v)", ref)
		return
	}
	sites := 0
	for _, spec := range allFrontEnds {
		pk := prog.Pkg(spec.rel)
		if pk == nil {
			continue
		}
		for _, f := range pk.Syntax {
			for _, d := range f.Decls {
				fd, ok := d.(*ast.FuncDecl)
				if !ok || fd.Body == nil || fd.Recv == nil || strings.ReplaceAll(types.ExprString(fd.Recv.List[0].Type), "*", "") != spec.typ {
					continue
				}
				ast.Inspect(fd.Body, func(n ast.Node) bool {
					rs, ok := n.(*ast.RangeStmt)
					if !ok {
						return true
					}
					// the statement that accumulates: X.num.F = X.num.F*10 + ...
					var acc *ast.AssignStmt
					accField := ""
					for _, st := range rs.Body.List {
						as, ok := st.(*ast.AssignStmt)
						if !ok || len(as.Lhs) != 1 || len(as.Rhs) != 1 {
							continue
						}
						l := types.ExprString(as.Lhs[0])
						r := strings.ReplaceAll(types.ExprString(as.Rhs[0]), " ", "")
						if strings.HasSuffix(l, ".num.I") && strings.HasPrefix(r, l+"*10+") {
							acc, accField = as, "I"
						}
						if strings.HasSuffix(l, ".num.Frac") && strings.HasPrefix(r, l+"*10+") {
							acc, accField = as, "Div"
						}
					}
					if acc == nil {
						return true
					}
					sites++
					key := fmt.Sprintf("%s.%s.%s:digit-loop:%s", spec.rel, spec.typ, fd.Name.Name, map[string]string{"I": "integer", "Div": "fraction"}[accField])
					got := "none"
					for _, st := range rs.Body.List {
						ifs, ok := st.(*ast.IfStmt)
						if !ok {
							continue
						}
						fld, rel, ok := norm(ifs.Cond)
						if !ok || fld != accField {
							continue
						}
						if ifs.Pos() < acc.Pos() {
							got = "pre:" + fld + negate[rel].String() + "BigLimit"
						} else {
							got = "post:" + fld + rel.String() + "BigLimit"
						}
					}
					if got == ref[accField] {
						rep.Discharge("N-limit", key, prog.Pos(rs.Pos()), "accumulates under "+got+", as the Number method")
					} else {
						rep.Violate(Finding{Rule: "N-limit", Key: key + ":" + got, Pos: prog.Pos(rs.Pos()),
							Msg: fmt.Sprintf("the in-buffer digit loop accumulates under %q while the Number method used for digits that arrive one at a time accumulates under %q: a number at the limit comes back as a different kind of value depending on the chunking", got, ref[accField])})
					}
					return true
				})
			}
		}
	}
	rep.Eval(sites)
	if sites < 8 {
		rep.Errorf("N-limit examined %d digit loops (floor 8): anchors did not resolve", sites)
	}
}

// ---------------------------------------------------------------- N-fillonce

// ruleFillOnce: FillBig appends the text of the number accumulated so far to
// BigBuf. Inside a digit loop it must be the last thing done to the number in
// that loop: the block that calls it leaves the loop (break / return). A second
// iteration would accumulate into the stale I/Frac and fill the text again.
func ruleFillOnce(prog *Program, rep *Report) {
	rep.Rules = append(rep.Rules, "N-fillonce: inside a loop of a front-end, the block that calls Number.FillBig() ends by leaving the loop (break or return): the text of the accumulated digits is written to BigBuf once")
	n := 0
	for _, rel := range []string{"oj", "gen", "sen"} {
		pk := prog.Pkg(rel)
		if pk == nil {
			continue
		}
		for _, f := range pk.Syntax {
			var stack []ast.Node
			ast.Inspect(f, func(k ast.Node) bool {
				if k == nil {
					stack = stack[:len(stack)-1]
					return true
				}
				stack = append(stack, k)
				c, ok := k.(*ast.CallExpr)
				if !ok {
					return true
				}
				sel, ok := c.Fun.(*ast.SelectorExpr)
				if !ok || sel.Sel.Name != "FillBig" || len(c.Args) != 0 {
					return true
				}
				// innermost enclosing block and whether a loop encloses it (within the function)
				var block *ast.BlockStmt
				inLoop := false
				fn := "?"
				for i := len(stack) - 1; i >= 0; i-- {
					switch s := stack[i].(type) {
					case *ast.BlockStmt:
						if block == nil {
							block = s
						}
					case *ast.CaseClause:
						if block == nil {
							block = &ast.BlockStmt{List: s.Body}
						}
					case *ast.ForStmt, *ast.RangeStmt:
						if block != nil {
							inLoop = true
						}
					case *ast.FuncDecl:
						fn = funcKey(s)
						i = -1
					}
				}
				if !inLoop || block == nil || len(block.List) == 0 {
					return true
				}
				// only loops of the dispatch code: a loop body directly containing the block, not the byte loop itself
				var loop ast.Node
				for i := len(stack) - 1; i >= 0; i-- {
					if _, ok := stack[i].(*ast.RangeStmt); ok {
						loop = stack[i]
						break
					}
					if _, ok := stack[i].(*ast.SwitchStmt); ok {
						break // the call is in an arm of the dispatch switch, not in an inner digit loop
					}
				}
				if loop == nil {
					return true
				}
				n++
				key := fmt.Sprintf("%s.%s:fillbig@%s", rel, fn, types.ExprString(sel.X))
				leaves := false
				switch l := block.List[len(block.List)-1].(type) {
				case *ast.BranchStmt:
					leaves = l.Tok == token.BREAK || l.Tok == token.GOTO
				case *ast.ReturnStmt:
					leaves = true
				}
				if leaves {
					rep.Discharge("N-fillonce", key, prog.Pos(c.Pos()), "the block leaves the digit loop")
				} else {
					rep.Violate(Finding{Rule: "N-fillonce", Key: key + ":no-break", Pos: prog.Pos(c.Pos()), Msg: "FillBig() is called inside a digit loop and the loop goes on: the next digit is accumulated into the stale accumulator and the text is filled a second time (the digits appear twice in the number)"})
				}
				return true
			})
		}
	}
	rep.Eval(n)
	if n < 4 {
		rep.Errorf("N-fillonce examined %d FillBig calls inside digit loops (floor 4): anchors did not resolve", n)
	}
}
