package main

import (
	"fmt"
	"go/ast"
	"go/constant"
	"go/token"
	"go/types"
	"sort"
	"strings"
)

func rfcEscapeByte(letter int) (int, bool) {
	switch letter {
	case '"':
		return '"', true
	case '\\':
		return '\\', true
	case '/':
		return '/', true
	case 'b':
		return 8, true
	case 'f':
		return 12, true
	case 'n':
		return 10, true
	case 'r':
		return 13, true
	case 't':
		return 9, true
	}
	return 0, false
}

func hexVal(c int) int {
	switch {
	case c >= '0' && c <= '9':
		return c - '0'
	case c >= 'a' && c <= 'f':
		return c - 'a' + 10
	case c >= 'A' && c <= 'F':
		return c - 'A' + 10
	}
	return -1
}

// classifyEscape: what the emitted constant bytes denote.
//
//	kind "u00": \u00XY denoting byte XY; "letter": \L; "uXXXX": a \uXXXX for a code point >= 0x100; "bad"
func classifyEscape(emit []int) (kind string, denotes int, letter int) {
	if len(emit) == 2 && emit[0] == '\\' {
		return "letter", -1, emit[1]
	}
	if len(emit) == 6 && emit[0] == '\\' && emit[1] == 'u' {
		v := 0
		for _, c := range emit[2:] {
			h := hexVal(c)
			if h < 0 {
				return "bad", -1, 0
			}
			v = v<<4 | h
		}
		if v < 0x100 {
			return "u00", v, 0
		}
		return "uXXXX", v, 0
	}
	return "bad", -1, 0
}

func byteName(b int) string {
	if b > 0x20 && b < 0x7f {
		return fmt.Sprintf("0x%02x(%c)", b, b)
	}
	return fmt.Sprintf("0x%02x", b)
}

// ruleJSONStringWriter (C04 rule 1): ojg.AppendJSONString is total and exact
// against RFC 8259 section 7 for every byte and both HTML-safe settings.
func ruleJSONStringWriter(prog *Program, rep *Report) {
	rep.Rules = append(rep.Rules, "G-json: for each of the 256 byte values and both htmlSafe settings, interpreting the loop body of ojg.AppendJSONString with the byte concrete (escape table read as a constant) yields, on every path, exactly one of: the byte left raw - allowed only for 0x20..0x7f except '\"' and '\\' (and except & < > when htmlSafe), or for bytes >= 0x80 (UTF-8 path) - or an escape that denotes exactly that byte (\\u00XY with XY == b, or \\L with L the RFC letter for b), or for bytes >= 0x80 one of the \\uXXXX constants; the UTF-8 arm must have a U+FFFD replacement path")
	w, err := findStrWriter(prog, "", "AppendJSONString")
	if err != nil {
		rep.Errorf("%v", err)
		return
	}
	if !tableVarImmutable(prog, w) {
		rep.Errorf("AppendJSONString: escape table is assigned somewhere; its initialiser is not its value")
		return
	}
	cells := 0
	for _, html := range []bool{false, true} {
		for b := 0; b < 256; b++ {
			outs, und := w.perByte(b, map[string]Val{"htmlSafe": vConstBool(html)})
			for _, u := range und {
				rep.Errorf("AppendJSONString undecided: %s", u)
			}
			key := fmt.Sprintf("AppendJSONString:%s:html=%v", byteName(b), html)
			if len(outs) == 0 {
				rep.Errorf("AppendJSONString: no outcome for byte %s", byteName(b))
				continue
			}
			cells++
			bad := ""
			sawFFFD := false
			for _, o := range outs {
				switch {
				case o.Unknown:
					bad = "emits bytes that are not constants (" + o.Path + ")"
				case o.Raw && len(o.Emit) > 0:
					bad = "emits an escape and also leaves the byte in the raw segment (byte written twice)"
				case o.Raw:
					rawOK := (b >= 0x20 && b <= 0x7f && b != '"' && b != '\\') || b >= 0x80
					if html && (b == '&' || b == '<' || b == '>') {
						rawOK = false
					}
					if !rawOK {
						bad = "is written raw, which is not valid inside a JSON string (or not HTML safe)"
					}
				case len(o.Emit) == 0:
					bad = "is dropped: removed from the raw segment without writing an escape"
				default:
					kind, den, letter := classifyEscape(o.Emit)
					switch kind {
					case "u00":
						if den != b {
							bad = fmt.Sprintf("is written as \\u%04x which denotes a different character", den)
						}
					case "letter":
						if v, ok := rfcEscapeByte(letter); !ok {
							bad = fmt.Sprintf("is written as \\%c which is not a JSON escape", letter)
						} else if v != b {
							bad = fmt.Sprintf("is written as \\%c which denotes 0x%02x", letter, v)
						}
					case "uXXXX":
						if b < 0x80 {
							bad = fmt.Sprintf("is written as \\u%04x", den)
						}
						if den == 0xfffd {
							sawFFFD = true
						}
					default:
						bad = fmt.Sprintf("is written as %q which is not a JSON escape", intsToString(o.Emit))
					}
				}
				if bad != "" {
					break
				}
			}
			if bad == "" && b >= 0x80 && !sawFFFD {
				bad = "has no path that replaces an invalid UTF-8 sequence by \\ufffd"
			}
			if bad != "" {
				rep.Violate(Finding{Rule: "G-json", Key: key, Pos: prog.Pos(w.fd.Pos()), Msg: "byte " + byteName(b) + " " + bad})
			} else {
				rep.Discharge("G-json", key, prog.Pos(w.fd.Pos()), "raw or exact escape on every path")
			}
		}
	}
	rep.Eval(cells)
	if cells != 512 {
		rep.Errorf("G-json examined %d cells, want 512", cells)
	}
}

func intsToString(a []int) string {
	b := make([]byte, len(a))
	for i, v := range a {
		b[i] = byte(v)
	}
	return string(b)
}

// tableVarImmutable: every package-level string variable indexed by the loop
// byte in the writer is never assigned in its package (so its constant
// initialiser is its value). Also registers the initialiser as the value the
// interpreter uses.
func tableVarImmutable(prog *Program, w *strWriter) bool {
	info := w.pk.TypesInfo
	ok := true
	ast.Inspect(w.fd.Body, func(n ast.Node) bool {
		ix, isIx := n.(*ast.IndexExpr)
		if !isIx {
			return true
		}
		id, isId := ix.X.(*ast.Ident)
		if !isId {
			return true
		}
		v, isVar := info.Uses[id].(*types.Var)
		if !isVar || v.Parent() != w.pk.Types.Scope() {
			return true
		}
		// find initialiser and assignments
		var initVal constant.Value
		for _, f := range w.pk.Syntax {
			ast.Inspect(f, func(m ast.Node) bool {
				switch x := m.(type) {
				case *ast.ValueSpec:
					for i, name := range x.Names {
						if info.Defs[name] == v && i < len(x.Values) {
							if tv, has := info.Types[x.Values[i]]; has && tv.Value != nil {
								initVal = tv.Value
							}
						}
					}
				case *ast.AssignStmt:
					for _, l := range x.Lhs {
						if useObj(info, l) == v {
							ok = false
						}
					}
				case *ast.UnaryExpr:
					if x.Op.String() == "&" && useObj(info, x.X) == v {
						ok = false
					}
				}
				return true
			})
		}
		if initVal == nil {
			ok = false
			return true
		}
		if w.in.constCache == nil {
			w.in.constCache = map[ast.Expr]Val{}
		}
		// every use of the variable inside the function evaluates to the constant
		ast.Inspect(w.fd.Body, func(m ast.Node) bool {
			if id2, isId2 := m.(*ast.Ident); isId2 && info.Uses[id2] == v {
				w.in.constCache[id2] = Val{K: kConst, C: initVal, T: 1}
			}
			return true
		})
		return true
	})
	return ok
}

var _ = sort.Strings
var _ = strings.TrimSpace

// ruleSENStringWriter (C10): the quoting decision of ojg.AppendSENString agrees
// with the tables of the SEN reader.
func ruleSENStringWriter(prog *Program, rep *Report) {
	rep.Rules = append(rep.Rules,
		"G-sen-first: a first byte that does not force quotes in AppendSENString must start a bare token in the reader's start mode",
		"G-sen-inner: a byte that does not force quotes inside the loop must continue a bare token in the reader's token table",
		"G-sen-quoted: inside quotes a raw byte must be a plain byte of the reader's string table and an escape \\L must be accepted by the reader's escape table and decode (reader's decode table) to the byte that was written; \\u00XY must denote the byte",
		"G-sen-reserved: every spelling the reader maps to a non-string (switch cases on the token text) must be compared against in the writer so that it is quoted")
	w, err := findStrWriter(prog, "", "AppendSENString")
	if err != nil {
		rep.Errorf("%v", err)
		return
	}
	if !tableVarImmutable(prog, w) {
		rep.Errorf("AppendSENString: quoting table is assigned somewhere; its initialiser is not its value")
		return
	}
	rt, err := senReaderTables(prog)
	if err != nil {
		rep.Errorf("%v", err)
		return
	}
	info := w.pk.TypesInfo
	// the writer's table (the one indexed by b in the loop)
	var wtab string
	ast.Inspect(w.loop.Body, func(n ast.Node) bool {
		if ix, ok := n.(*ast.IndexExpr); ok && useObj(info, ix.Index) == w.bObj {
			if v, ok := w.in.constCache[ix.X]; ok {
				wtab, _ = v.isStr()
			}
		}
		return true
	})
	if len(wtab) < 256 {
		rep.Errorf("AppendSENString: quoting table not found")
		return
	}
	// first-byte decision: the statement that defines the boolean flag returned on (quote)
	var quoteObj types.Object
	var quoteDef *ast.AssignStmt
	var mObj types.Object
	for _, st := range w.fd.Body.List {
		as, ok := st.(*ast.AssignStmt)
		if !ok || len(as.Lhs) != 1 {
			continue
		}
		o := info.Defs[identOf(as.Lhs[0])]
		if o == nil {
			continue
		}
		if bt, ok := o.Type().Underlying().(*types.Basic); ok && bt.Info()&types.IsBoolean != 0 && quoteObj == nil {
			quoteObj, quoteDef = o, as
		}
		// m := TABLE[s[0]]
		if ix, ok := as.Rhs[0].(*ast.IndexExpr); ok {
			if _, isTab := w.in.constCache[ix.X]; isTab {
				mObj = o
			}
		}
	}
	if quoteObj == nil || mObj == nil {
		rep.Errorf("AppendSENString: first-byte quoting decision not found")
		return
	}
	preamble := senPreambleRejects(prog)
	cells := 0
	for _, html := range []bool{false, true} {
		for b := 0; b < 256; b++ {
			cells++
			// first byte
			st := newState()
			st.locals[mObj] = vConstInt(int64(wtab[b]))
			st.locals[w.params["htmlSafe"]] = vConstBool(html)
			if so, ok := w.params["s"]; ok {
				// a one-byte string: tests of s[0] are decided, the length test is not what is examined here
				st.locals[so] = Val{K: kConst, C: constant.MakeString(string([]byte{byte(b)}))}
			}
			mayBare := false
			w.in.undecided = nil
			for _, e := range w.in.exec(quoteDef, st) {
				if bv, ok := e.st.locals[quoteObj].isBool(); !ok || !bv {
					mayBare = true
				}
			}
			for _, u := range w.in.undecided {
				rep.Errorf("AppendSENString undecided: %s", u)
			}
			key := fmt.Sprintf("AppendSENString:%s:html=%v", byteName(b), html)
			outs, und := w.perByte(b, map[string]Val{"htmlSafe": vConstBool(html), quoteObj.Name(): vConstBool(false)})
			for _, u := range und {
				rep.Errorf("AppendSENString undecided: %s", u)
			}
			forces := true // does every path for this byte force quotes?
			for _, o := range outs {
				if o.Flags[quoteObj.Name()] != "true" {
					forces = false
				}
			}
			if mayBare && !forces && preamble[b] != "" {
				rep.Violate(Finding{Rule: "G-sen-first", Key: key + ":preamble", Pos: prog.Pos(w.fd.Pos()),
					Msg: fmt.Sprintf("a string starting with byte %s can be written without quotes, but %s rejects a document that starts with that byte unless it is a byte order mark: a top-level string such as a full-width or private-use character does not parse back", byteName(b), preamble[b])})
			} else if mayBare && !forces && len(preamble) > 0 {
				rep.Discharge("G-sen-first", key+":preamble", prog.Pos(w.fd.Pos()), "no entry treats this first byte specially")
			}
			if mayBare && !forces {
				if at(rt.value, b) != rt.tokenStart {
					rep.Violate(Finding{Rule: "G-sen-first", Key: key + ":first", Pos: prog.Pos(w.fd.Pos()),
						Msg: fmt.Sprintf("a string starting with byte %s can be written without quotes, but the SEN reader does not start a token on that byte (start-mode code %q)", byteName(b), rune(at(rt.value, b)))})
				} else {
					rep.Discharge("G-sen-first", key+":first", prog.Pos(w.fd.Pos()), "bare first byte starts a reader token")
				}
			}
			if !forces {
				if at(rt.token, b) != rt.tokenOk {
					rep.Violate(Finding{Rule: "G-sen-inner", Key: key + ":inner", Pos: prog.Pos(w.fd.Pos()),
						Msg: fmt.Sprintf("byte %s inside a string does not force quotes, but the SEN reader's token table does not continue a token on it (code %q)", byteName(b), rune(at(rt.token, b)))})
				} else {
					rep.Discharge("G-sen-inner", key+":inner", prog.Pos(w.fd.Pos()), "non-forcing byte continues a reader token")
				}
			}
			// quoted form
			bad := ""
			for _, o := range outs {
				switch {
				case o.Unknown:
					bad = "emits bytes that are not constants"
				case o.Raw && len(o.Emit) > 0:
					bad = "is escaped and also left in the raw segment"
				case o.Raw:
					// the other quote character is a delimiter code in the string table but plain inside "..."
					if at(rt.str, b) != rt.strOk && !(at(rt.str, b) == at(rt.str, '"') && b != '"') && b < 0x80 && forces {
						bad = fmt.Sprintf("is written raw inside quotes but is not a plain byte of the reader's string table (code %q)", rune(at(rt.str, b)))
					}
					if b == '"' {
						bad = "is written raw inside double quotes"
					}
				case len(o.Emit) == 0:
					bad = "is dropped"
				default:
					kind, den, letter := classifyEscape(o.Emit)
					switch kind {
					case "u00":
						if den != b {
							bad = fmt.Sprintf("is written as \\u%04x", den)
						}
						if at(rt.esc, 'u') != rt.escU {
							bad = "is written as \\u00XX but the reader's escape table has no u"
						}
					case "letter":
						if c := at(rt.esc, letter); c != rt.escOk {
							bad = fmt.Sprintf("is written as \\%c which the reader's escape table rejects", letter)
						} else if d := at(rt.decode, letter); d != int64(b) {
							bad = fmt.Sprintf("is written as \\%c which the reader decodes to 0x%02x", letter, d)
						}
					case "uXXXX":
						if b < 0x80 {
							bad = fmt.Sprintf("is written as \\u%04x", den)
						}
					default:
						bad = fmt.Sprintf("is written as %q", intsToString(o.Emit))
					}
				}
				if bad != "" {
					break
				}
			}
			if bad != "" {
				rep.Violate(Finding{Rule: "G-sen-quoted", Key: key + ":quoted", Pos: prog.Pos(w.fd.Pos()), Msg: "byte " + byteName(b) + " " + bad})
			} else {
				rep.Discharge("G-sen-quoted", key+":quoted", prog.Pos(w.fd.Pos()), "raw plain byte or escape the reader decodes to the same byte")
			}
		}
	}
	rep.Eval(cells)
	// reserved spellings
	if len(rt.reserved) == 0 {
		rep.Errorf("sen reader: no reserved spellings found (anchor did not resolve)")
	}
	consts := map[string]bool{}
	ast.Inspect(w.fd.Body, func(n ast.Node) bool {
		if e, ok := n.(ast.Expr); ok {
			if tv := info.Types[e].Value; tv != nil && tv.Kind() == constant.String {
				consts[constant.StringVal(tv)] = true
			}
		}
		return true
	})
	for _, r := range rt.reserved {
		key := "AppendSENString:reserved:" + r
		if consts[r] {
			rep.Discharge("G-sen-reserved", key, prog.Pos(w.fd.Pos()), "writer compares against the reserved spelling")
		} else {
			rep.Violate(Finding{Rule: "G-sen-reserved", Key: key, Pos: prog.Pos(w.fd.Pos()), Msg: fmt.Sprintf("the SEN reader maps the bare token %q to a non-string value, but the writer never compares a string with it: the string %q is written unquoted and read back as a different type", r, r)})
		}
	}
}

// ruleSENFollow (C03, SEN): what may follow a bare token must not depend on
// whether the token was read by the fast path (scan, then the following byte
// is dispatched in the mode the token leaves) or byte by byte in token mode
// (the following byte is dispatched in the token table): otherwise acceptance
// depends on how a reader chunks the input.
func ruleSENFollow(prog *Program, rep *Report) {
	rep.Rules = append(rep.Rules,
		"G-sen-follow: for every byte b that does not continue a bare token: the SEN token table rejects b (error code) exactly when both modes a completed token can leave (value mode, colon mode) reject b; found from the sen.Parser tables (roles identified from the dispatch loop)",
		"G-sen-space: in every SEN mode table that may end a token or number (257-byte tables whose end marker is 't' or 'n') the whitespace bytes of value mode are not the error code")
	rt, err := senReaderTables(prog)
	if err != nil {
		rep.Errorf("%v", err)
		return
	}
	m, err := ExtractMachine(prog, "sen", "Parser", []string{"Parse"})
	if err != nil {
		rep.Errorf("%v", err)
		return
	}
	errCode := at(rt.value, 0)
	// colon mode: the table assigned in the clause that pushes a key (mode after a key token) - found as the table whose ':' cell leads back to value mode
	colon := ""
	for tbl := range m.tables {
		if len(tbl) == 256 && at(tbl, ':') != errCode && at(tbl, 'a') == errCode && at(tbl, '"') == errCode && at(tbl, '0') == errCode {
			if colon == "" || tbl < colon {
				colon = tbl
			}
		}
	}
	if colon == "" {
		rep.Errorf("sen: colon mode table not found")
		return
	}
	// bytes the fast-path clause handles itself (compared with the byte that stopped the scan)
	special := map[int]bool{}
	if cc := m.clauseFor(rt.tokenStart); cc != nil {
		ast.Inspect(cc, func(n ast.Node) bool {
			if be, ok := n.(*ast.BinaryExpr); ok && be.Op.String() == "==" {
				if tv := m.pkg.TypesInfo.Types[be.Y].Value; tv != nil && tv.Kind() == constant.Int {
					if v, ok := constant.Int64Val(tv); ok && v >= 0 && v < 256 {
						special[int(v)] = true
					}
				}
			}
			return true
		})
	}
	for b := 0; b < 256; b++ {
		if at(rt.token, b) == rt.tokenOk {
			continue
		}
		fast := at(rt.value, b) != errCode || at(colon, b) != errCode || special[b]
		slow := at(rt.token, b) != errCode
		key := "sen:token-follow:" + byteName(b)
		if fast == slow {
			rep.Discharge("G-sen-follow", key, prog.Pos(rt.pos), "fast path and token mode agree")
		} else if fast {
			rep.Violate(Finding{Rule: "G-sen-follow", Key: key, Pos: prog.Pos(rt.pos), Msg: fmt.Sprintf("byte %s directly after a bare token is accepted when the token is read by the fast path but is an error in token mode (token read across two buffers): sen.Parse and sen.ParseReader disagree depending on chunking", byteName(b))})
		} else {
			rep.Violate(Finding{Rule: "G-sen-follow", Key: key, Pos: prog.Pos(rt.pos), Msg: fmt.Sprintf("byte %s directly after a bare token is accepted in token mode but rejected after the fast path", byteName(b))})
		}
	}
	var names []string
	for tbl, name := range m.tables {
		if len(tbl) == 257 && (tbl[256] == 't' || tbl[256] == 'n') {
			names = append(names, name)
			for _, w := range []int{' ', '\t', '\n', '\r'} {
				if at(rt.value, w) == errCode {
					continue
				}
				key := fmt.Sprintf("sen:%s:space:%s", name, byteName(w))
				if at(tbl, w) == errCode {
					rep.Violate(Finding{Rule: "G-sen-space", Key: key, Pos: prog.Pos(rt.pos), Msg: fmt.Sprintf("whitespace byte %s is an error in mode %s, which is only used when a token or number continues across buffers: text that parses from a []byte fails from a reader depending on chunking", byteName(w), name)})
				} else {
					rep.Discharge("G-sen-space", key, prog.Pos(rt.pos), "whitespace ends the token/number")
				}
			}
		}
	}
	if len(names) < 5 {
		rep.Errorf("G-sen-space found %d token/number modes (floor 5)", len(names))
	}
}

// senPreambleRejects: first bytes for which a []byte entry of the SEN front-ends returns an error before
// the dispatch function sees the input (`if ... buf[0] == C { if <bom> {...} else { return error } }`).
func senPreambleRejects(prog *Program) map[int]string {
	return preambleRejects(prog, "sen", "", map[string]bool{"Parse": true, "Tokenize": true})
}

// preambleRejects: the same for the methods named in names of type typ ("" any) of package rel.
func preambleRejects(prog *Program, rel, typ string, names map[string]bool) map[int]string {
	out := map[int]string{}
	pk := prog.Pkg(rel)
	if pk == nil {
		return out
	}
	info := pk.TypesInfo
	for _, f := range pk.Syntax {
		for _, d := range f.Decls {
			fd, ok := d.(*ast.FuncDecl)
			if !ok || fd.Body == nil || fd.Recv == nil || !names[fd.Name.Name] {
				continue
			}
			if typ != "" && strings.ReplaceAll(types.ExprString(fd.Recv.List[0].Type), "*", "") != typ {
				continue
			}
			ast.Inspect(fd.Body, func(n ast.Node) bool {
				ifs, ok := n.(*ast.IfStmt)
				if !ok {
					return true
				}
				// a conjunct X[0] == C
				first := -1
				var walk func(e ast.Expr)
				walk = func(e ast.Expr) {
					switch x := ast.Unparen(e).(type) {
					case *ast.BinaryExpr:
						if x.Op == token.LAND {
							walk(x.X)
							walk(x.Y)
							return
						}
						if x.Op == token.EQL {
							if ix, ok := ast.Unparen(x.X).(*ast.IndexExpr); ok {
								if iv, ok := info.Types[ix.Index]; ok && iv.Value != nil && iv.Value.String() == "0" {
									if cv, ok := info.Types[x.Y]; ok && cv.Value != nil {
										if v, ok := constant.Int64Val(cv.Value); ok {
											first = int(v)
										}
									}
								}
							}
						}
					}
				}
				walk(ifs.Cond)
				if first < 0 {
					return true
				}
				// some return of a non-nil error inside the then-branch
				ast.Inspect(ifs.Body, func(k ast.Node) bool {
					rs, ok := k.(*ast.ReturnStmt)
					if !ok || len(rs.Results) == 0 {
						return true
					}
					last := rs.Results[len(rs.Results)-1]
					if tv, ok := info.Types[last]; ok && !tv.IsNil() {
						if _, isCall := ast.Unparen(last).(*ast.CallExpr); isCall {
							out[first] = rel + "." + strings.ReplaceAll(types.ExprString(fd.Recv.List[0].Type), "*", "") + "." + fd.Name.Name
						}
					}
					return true
				})
				return true
			})
		}
	}
	return out
}

// ruleEscapeDiscipline: G-escquote and G-width, two obligations of the string writers that the
// per-byte interpretation does not see because they concern multi-byte runes.
//
// G-escquote: SEN may write a string without quotes; an escape sequence is only an escape
// inside quotes. Every statement list of AppendSENString that appends a backslash escape
// (a literal starting with a backslash, or the backslash byte) also sets quote = true.
//
// G-width: after `r, cnt := utf8.DecodeRuneInString(s[i:])` the scan resumes at i+cnt, the
// width the decoder reported (1 for an invalid byte), never at another width: in the scope
// of cnt every `x = i + e` has e == cnt.
func ruleEscapeDiscipline(prog *Program, rep *Report, fnames ...string) {
	rep.Rules = append(rep.Rules,
		"G-escquote: every statement list of ojg.AppendSENString that appends a backslash escape to the output also assigns quote = true: a bare token never contains an escape sequence",
		"G-width: in the string writers, inside the scope of `r, cnt := utf8.DecodeRuneInString(s[i:])`, every assignment of the form x = i + e has e == cnt: the scan resumes exactly after the bytes the decoder consumed (an invalid byte is one byte wide, its replacement text three)")
	pk := prog.Pkg("")
	if pk == nil {
		rep.Errorf("G-escquote: root package not loaded")
		return
	}
	info := pk.TypesInfo
	lists, widths := 0, 0
	for _, fname := range fnames {
		fd, _ := prog.FuncDecl(Func(pk, fname))
		if fd == nil {
			rep.Errorf("G-escquote: ojg.%s not found", fname)
			continue
		}
		isEscapeAppend := func(st ast.Stmt) bool {
			as, ok := st.(*ast.AssignStmt)
			if !ok || len(as.Rhs) != 1 {
				return false
			}
			call, ok := as.Rhs[0].(*ast.CallExpr)
			if !ok || len(call.Args) != 2 {
				return false
			}
			if id, ok := call.Fun.(*ast.Ident); !ok || id.Name != "append" {
				return false
			}
			tv, ok := info.Types[call.Args[1]]
			if !ok || tv.Value == nil {
				return false
			}
			switch tv.Value.Kind() {
			case constant.String:
				return strings.HasPrefix(constant.StringVal(tv.Value), "\\")
			case constant.Int:
				v, _ := constant.Int64Val(tv.Value)
				return v == '\\'
			}
			return false
		}
		setsQuote := func(st ast.Stmt) bool {
			as, ok := st.(*ast.AssignStmt)
			if !ok || len(as.Lhs) != 1 || len(as.Rhs) != 1 {
				return false
			}
			id, ok := as.Lhs[0].(*ast.Ident)
			return ok && id.Name == "quote" && types.ExprString(as.Rhs[0]) == "true"
		}
		hasQuoteVar := false
		ast.Inspect(fd.Body, func(n ast.Node) bool {
			if id, ok := n.(*ast.Ident); ok && id.Name == "quote" {
				hasQuoteVar = true
			}
			return true
		})
		idx := 0
		ast.Inspect(fd.Body, func(n ast.Node) bool {
			var list []ast.Stmt
			switch b := n.(type) {
			case *ast.BlockStmt:
				list = b.List
			case *ast.CaseClause:
				list = b.Body
			default:
				return true
			}
			esc, q := false, false
			var pos token.Pos
			for _, st := range list {
				if isEscapeAppend(st) {
					esc = true
					if pos == 0 {
						pos = st.Pos()
					}
				}
				if setsQuote(st) {
					q = true
				}
			}
			if esc && hasQuoteVar {
				lists++
				idx++
				key := fmt.Sprintf("ojg.%s:escape-list#%d", fname, idx)
				if q {
					rep.Discharge("G-escquote", key, prog.Pos(pos), "the list that appends the escape sets quote")
				} else {
					rep.Violate(Finding{Rule: "G-escquote", Key: key, Pos: prog.Pos(pos), Msg: fname + " appends a backslash escape in a statement list that does not set quote = true: a string that needs nothing else quoted is written as a bare token with a backslash in it, which the SEN parser does not read back"})
				}
			}
			return true
		})
		// G-width
		ast.Inspect(fd.Body, func(n ast.Node) bool {
			cc, ok := n.(*ast.CaseClause)
			if !ok {
				return true
			}
			var cnt types.Object
			for _, st := range cc.Body {
				if as, ok := st.(*ast.AssignStmt); ok && as.Tok == token.DEFINE && len(as.Lhs) == 2 && len(as.Rhs) == 1 {
					if call, ok := as.Rhs[0].(*ast.CallExpr); ok {
						if sel, ok := call.Fun.(*ast.SelectorExpr); ok && strings.HasPrefix(sel.Sel.Name, "DecodeRune") {
							if id, ok := as.Lhs[1].(*ast.Ident); ok {
								cnt = info.Defs[id]
							}
						}
					}
				}
			}
			if cnt == nil {
				return true
			}
			widx := 0
			for _, st := range cc.Body {
				ast.Inspect(st, func(k ast.Node) bool {
					as, ok := k.(*ast.AssignStmt)
					if !ok || len(as.Lhs) != 1 || len(as.Rhs) != 1 {
						return true
					}
					be, ok := ast.Unparen(as.Rhs[0]).(*ast.BinaryExpr)
					if !ok || be.Op != token.ADD || types.ExprString(be.X) != "i" {
						return true
					}
					widths++
					widx++
					key := fmt.Sprintf("ojg.%s:resume#%d", fname, widx)
					if useObj(info, be.Y) == cnt {
						rep.Discharge("G-width", key, prog.Pos(as.Pos()), "resumes at i + cnt")
					} else {
						rep.Violate(Finding{Rule: "G-width", Key: key, Pos: prog.Pos(as.Pos()), Msg: fmt.Sprintf("%s resumes the scan at i + %s instead of i + %s (the width DecodeRune reported): bytes after an invalid byte are skipped, or bytes of a rune are read again", fname, types.ExprString(be.Y), cnt.Name())})
					}
					return true
				})
			}
			return false
		})
	}
	rep.Eval(lists + widths)
	if widths < 4*len(fnames) {
		rep.Errorf("G-width examined %d resume assignments (floor %d): anchors did not resolve", widths, 4*len(fnames))
	}
}
