package main

import (
	"fmt"
	"go/ast"
	"go/constant"
	"go/types"
	"sort"
	"strings"
)

func rfcEscapeByte(letter int) (int, bool) {
	switch letter {
	case '"':
		return '"', true
	case '\\':
		return '\\', true
	case '/':
		return '/', true
	case 'b':
		return 8, true
	case 'f':
		return 12, true
	case 'n':
		return 10, true
	case 'r':
		return 13, true
	case 't':
		return 9, true
	}
	return 0, false
}

func hexVal(c int) int {
	switch {
	case c >= '0' && c <= '9':
		return c - '0'
	case c >= 'a' && c <= 'f':
		return c - 'a' + 10
	case c >= 'A' && c <= 'F':
		return c - 'A' + 10
	}
	return -1
}

// classifyEscape: what the emitted constant bytes denote.
//
//	kind "u00": \u00XY denoting byte XY; "letter": \L; "uXXXX": a \uXXXX for a code point >= 0x100; "bad"
func classifyEscape(emit []int) (kind string, denotes int, letter int) {
	if len(emit) == 2 && emit[0] == '\\' {
		return "letter", -1, emit[1]
	}
	if len(emit) == 6 && emit[0] == '\\' && emit[1] == 'u' {
		v := 0
		for _, c := range emit[2:] {
			h := hexVal(c)
			if h < 0 {
				return "bad", -1, 0
			}
			v = v<<4 | h
		}
		if v < 0x100 {
			return "u00", v, 0
		}
		return "uXXXX", v, 0
	}
	return "bad", -1, 0
}

func byteName(b int) string {
	if b > 0x20 && b < 0x7f {
		return fmt.Sprintf("0x%02x(%c)", b, b)
	}
	return fmt.Sprintf("0x%02x", b)
}

// ruleJSONStringWriter (C04 rule 1): ojg.AppendJSONString is total and exact
// against RFC 8259 section 7 for every byte and both HTML-safe settings.
func ruleJSONStringWriter(prog *Program, rep *Report) {
	rep.Rules = append(rep.Rules, "G-json: for each of the 256 byte values and both htmlSafe settings, interpreting the loop body of ojg.AppendJSONString with the byte concrete (escape table read as a constant) yields, on every path, exactly one of: the byte left raw - allowed only for 0x20..0x7f except '\"' and '\\' (and except & < > when htmlSafe), or for bytes >= 0x80 (UTF-8 path) - or an escape that denotes exactly that byte (\\u00XY with XY == b, or \\L with L the RFC letter for b), or for bytes >= 0x80 one of the \\uXXXX constants; the UTF-8 arm must have a U+FFFD replacement path")
	w, err := findStrWriter(prog, "", "AppendJSONString")
	if err != nil {
		rep.Errorf("%v", err)
		return
	}
	if !tableVarImmutable(prog, w) {
		rep.Errorf("AppendJSONString: escape table is assigned somewhere; its initialiser is not its value")
		return
	}
	cells := 0
	for _, html := range []bool{false, true} {
		for b := 0; b < 256; b++ {
			outs, und := w.perByte(b, map[string]Val{"htmlSafe": vConstBool(html)})
			for _, u := range und {
				rep.Errorf("AppendJSONString undecided: %s", u)
			}
			key := fmt.Sprintf("AppendJSONString:%s:html=%v", byteName(b), html)
			if len(outs) == 0 {
				rep.Errorf("AppendJSONString: no outcome for byte %s", byteName(b))
				continue
			}
			cells++
			bad := ""
			sawFFFD := false
			for _, o := range outs {
				switch {
				case o.Unknown:
					bad = "emits bytes that are not constants (" + o.Path + ")"
				case o.Raw && len(o.Emit) > 0:
					bad = "emits an escape and also leaves the byte in the raw segment (byte written twice)"
				case o.Raw:
					rawOK := (b >= 0x20 && b <= 0x7f && b != '"' && b != '\\') || b >= 0x80
					if html && (b == '&' || b == '<' || b == '>') {
						rawOK = false
					}
					if !rawOK {
						bad = "is written raw, which is not valid inside a JSON string (or not HTML safe)"
					}
				case len(o.Emit) == 0:
					bad = "is dropped: removed from the raw segment without writing an escape"
				default:
					kind, den, letter := classifyEscape(o.Emit)
					switch kind {
					case "u00":
						if den != b {
							bad = fmt.Sprintf("is written as \\u%04x which denotes a different character", den)
						}
					case "letter":
						if v, ok := rfcEscapeByte(letter); !ok {
							bad = fmt.Sprintf("is written as \\%c which is not a JSON escape", letter)
						} else if v != b {
							bad = fmt.Sprintf("is written as \\%c which denotes 0x%02x", letter, v)
						}
					case "uXXXX":
						if b < 0x80 {
							bad = fmt.Sprintf("is written as \\u%04x", den)
						}
						if den == 0xfffd {
							sawFFFD = true
						}
					default:
						bad = fmt.Sprintf("is written as %q which is not a JSON escape", intsToString(o.Emit))
					}
				}
				if bad != "" {
					break
				}
			}
			if bad == "" && b >= 0x80 && !sawFFFD {
				bad = "has no path that replaces an invalid UTF-8 sequence by \\ufffd"
			}
			if bad != "" {
				rep.Violate(Finding{Rule: "G-json", Key: key, Pos: prog.Pos(w.fd.Pos()), Msg: "byte " + byteName(b) + " " + bad})
			} else {
				rep.Discharge("G-json", key, prog.Pos(w.fd.Pos()), "raw or exact escape on every path")
			}
		}
	}
	rep.Eval(cells)
	if cells != 512 {
		rep.Errorf("G-json examined %d cells, want 512", cells)
	}
}

func intsToString(a []int) string {
	b := make([]byte, len(a))
	for i, v := range a {
		b[i] = byte(v)
	}
	return string(b)
}

// tableVarImmutable: every package-level string variable indexed by the loop
// byte in the writer is never assigned in its package (so its constant
// initialiser is its value). Also registers the initialiser as the value the
// interpreter uses.
func tableVarImmutable(prog *Program, w *strWriter) bool {
	info := w.pk.TypesInfo
	ok := true
	ast.Inspect(w.fd.Body, func(n ast.Node) bool {
		ix, isIx := n.(*ast.IndexExpr)
		if !isIx {
			return true
		}
		id, isId := ix.X.(*ast.Ident)
		if !isId {
			return true
		}
		v, isVar := info.Uses[id].(*types.Var)
		if !isVar || v.Parent() != w.pk.Types.Scope() {
			return true
		}
		// find initialiser and assignments
		var initVal constant.Value
		for _, f := range w.pk.Syntax {
			ast.Inspect(f, func(m ast.Node) bool {
				switch x := m.(type) {
				case *ast.ValueSpec:
					for i, name := range x.Names {
						if info.Defs[name] == v && i < len(x.Values) {
							if tv, has := info.Types[x.Values[i]]; has && tv.Value != nil {
								initVal = tv.Value
							}
						}
					}
				case *ast.AssignStmt:
					for _, l := range x.Lhs {
						if useObj(info, l) == v {
							ok = false
						}
					}
				case *ast.UnaryExpr:
					if x.Op.String() == "&" && useObj(info, x.X) == v {
						ok = false
					}
				}
				return true
			})
		}
		if initVal == nil {
			ok = false
			return true
		}
		if w.in.constCache == nil {
			w.in.constCache = map[ast.Expr]Val{}
		}
		// every use of the variable inside the function evaluates to the constant
		ast.Inspect(w.fd.Body, func(m ast.Node) bool {
			if id2, isId2 := m.(*ast.Ident); isId2 && info.Uses[id2] == v {
				w.in.constCache[id2] = Val{K: kConst, C: initVal, T: 1}
			}
			return true
		})
		return true
	})
	return ok
}

var _ = sort.Strings
var _ = strings.TrimSpace
