package main

import (
	"fmt"
	"go/ast"
	"go/constant"
	"go/token"
	"go/types"

	"golang.org/x/tools/go/packages"
)

type bomSite struct {
	n      int
	atoms  map[string]bool
	pos    token.Pos
	inLoop bool // the skip is decided inside a loop: it would be applied to every buffer of a stream
}

// bomSites finds, in an entry function, every place where a positive constant
// number of leading bytes is skipped (`X[N:]` on a []byte, or `v = N` for an
// int variable later used as a slice bound of a []byte), together with the
// byte tests `X[k] == c` that hold there (conjuncts of enclosing if-conditions
// on the then-side).
func bomSites(pk *packages.Package, fd *ast.FuncDecl) []bomSite {
	info := pk.TypesInfo
	isBytes := func(e ast.Expr) bool {
		t := info.TypeOf(e)
		if t == nil {
			return false
		}
		sl, ok := t.Underlying().(*types.Slice)
		if !ok {
			return false
		}
		b, ok := sl.Elem().Underlying().(*types.Basic)
		return ok && b.Kind() == types.Uint8
	}
	// int variables used as low bound when slicing a []byte
	skipVars := map[types.Object]bool{}
	ast.Inspect(fd.Body, func(n ast.Node) bool {
		if se, ok := n.(*ast.SliceExpr); ok && isBytes(se.X) && se.Low != nil {
			if id, ok := se.Low.(*ast.Ident); ok {
				if o := info.Uses[id]; o != nil {
					skipVars[o] = true
				}
			}
		}
		return true
	})
	var sites []bomSite
	var atomsOf func(e ast.Expr, out map[string]bool)
	atomsOf = func(e ast.Expr, out map[string]bool) {
		switch x := e.(type) {
		case *ast.ParenExpr:
			atomsOf(x.X, out)
		case *ast.BinaryExpr:
			if x.Op == token.LAND {
				atomsOf(x.X, out)
				atomsOf(x.Y, out)
				return
			}
			if x.Op == token.EQL {
				for _, pr := range [][2]ast.Expr{{x.X, x.Y}, {x.Y, x.X}} {
					ix, ok := pr[0].(*ast.IndexExpr)
					if !ok || !isBytes(ix.X) {
						continue
					}
					kv, cv := info.Types[ix.Index].Value, info.Types[pr[1]].Value
					if kv != nil && cv != nil && kv.Kind() == constant.Int && cv.Kind() == constant.Int {
						out[fmt.Sprintf("%s=%s", kv.ExactString(), cv.ExactString())] = true
					}
				}
			}
		}
	}
	var walk func(n ast.Node, atoms map[string]bool)
	walk = func(n ast.Node, atoms map[string]bool) {
		if n == nil {
			return
		}
		switch x := n.(type) {
		case *ast.IfStmt:
			if x.Init != nil {
				walk(x.Init, atoms)
			}
			in := map[string]bool{}
			for k := range atoms {
				in[k] = true
			}
			atomsOf(x.Cond, in)
			walk(x.Body, in)
			if x.Else != nil {
				walk(x.Else, atoms)
			}
			return
		case *ast.SliceExpr:
			if isBytes(x.X) && x.Low != nil {
				if v := info.Types[x.Low].Value; v != nil && v.Kind() == constant.Int {
					if i, _ := constant.Int64Val(v); i > 0 {
						cp := map[string]bool{}
						for k := range atoms {
							cp[k] = true
						}
						sites = append(sites, bomSite{n: int(i), atoms: cp, pos: x.Pos()})
					}
				}
			}
		case *ast.AssignStmt:
			for i, l := range x.Lhs {
				id, ok := l.(*ast.Ident)
				if !ok || i >= len(x.Rhs) {
					continue
				}
				o := info.Uses[id]
				if o == nil {
					o = info.Defs[id]
				}
				if !skipVars[o] {
					continue
				}
				if v := info.Types[x.Rhs[i]].Value; v != nil && v.Kind() == constant.Int {
					if iv, _ := constant.Int64Val(v); iv > 0 {
						cp := map[string]bool{}
						for k := range atoms {
							cp[k] = true
						}
						sites = append(sites, bomSite{n: int(iv), atoms: cp, pos: x.Pos()})
					}
				}
			}
		case *ast.FuncLit:
			return
		}
		// generic descent keeping atoms
		ast.Inspect(n, func(c ast.Node) bool {
			if c == n || c == nil {
				return true
			}
			walk(c, atoms)
			return false
		})
	}
	walk(fd.Body, map[string]bool{})
	// a skip decided inside a for statement is taken again for every refill
	ast.Inspect(fd.Body, func(n ast.Node) bool {
		var body *ast.BlockStmt
		switch l := n.(type) {
		case *ast.ForStmt:
			body = l.Body
		case *ast.RangeStmt:
			body = l.Body
		}
		if body != nil {
			for i := range sites {
				if body.Pos() <= sites[i].pos && sites[i].pos <= body.End() {
					sites[i].inLoop = true
				}
			}
		}
		return true
	})
	return sites
}
