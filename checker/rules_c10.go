package main

func init() { rules["C10"] = ruleC10 }

func ruleC10(prog *Program, rep *Report) {
	rep.Explain("C10 decides the table-agreement clauses of the SEN round trip: the writer's quoting/escaping decision per byte (interpreted from ojg.AppendSENString with its table as a constant) against the reader's start, token, string, escape and decode tables (roles identified from the sen.Parser dispatch loop), and the reserved spellings. Not covered: whole-tree equality, number text, time options.")
	ruleSENStringWriter(prog, rep)
	ruleEscapeDecode(prog, rep, "sen") // what the writer escapes must decode to the same byte
	ruleTail(prog, rep, 6, "sen")      // the SEN emitters close containers by overwriting the last separator
	ruleEscapeDiscipline(prog, rep, "AppendSENString")
	rulePadBound(prog, rep) // pretty.SEN lays out with the same alignment pads
	ruleFlatSeparator(prog, rep)
	rulePoolPut(prog, rep, "sen.Writer", "sen.Parser")
	ruleMemberStore(prog, rep) // a string written as "a" + "b" pieces is joined onto the member stored last
	ruleGenTwins(prog, rep, 2, "pretty")
	ruleGlobalReturn(prog, rep, 5, "pretty", "sen")
	ruleEntryParity(prog, rep, "sen.Writer", "sen.Parser")
	rep.Rules = append(rep.Rules, "A-stale (SEN): sen.Parser and sen.Tokenizer, explored alone, never read control state left by a previous call and never append to a scratch buffer whose content was consumed (a string would come back with a stale prefix)")
	sres := exploreFrontEnds(prog, senFrontEnds, []bool{false}, true)
	applyParseResults(rep, sres, kindsStale, "A-stale", 12)
}
